import PyCraft.Model.Negotiate
/-!
Extension of `Model/Negotiate.lean` for audit item 18 (property C09): the parts of
`minecraft/networking/connection.py` that the first model left as free parameters or outside its
reply type.

Part 1 — `Connection.status(handle_status=None, handle_ping=False)` (l.350-383):
* the two handler arguments, each `None` / a callable / `False`                → `HArg`
* `do_ping = handle_ping is not False` (l.369)                                 → `doPingOf`
* which callable ends up in `reactor.handle_status` / `reactor.handle_ping` (l.372-380; the class
  defaults are the printing methods l.864-868)                                 → `calleeOf`
* `StatusReactor.react` (l.845-862) including `json.loads` (l.847), which can raise → `reactS`
* `NetworkingThread._run`'s read loop (l.636-643), `run`'s three exits (l.604-608): normal return
  then `_handle_exit` (l.571-573, `handle_exit is not None`), or an exception then
  `_handle_exception` (l.500-551: the `StatusReactor` has the base `handle_exception`, which returns
  `False`, so the exception reaches the handlers; then `disconnect(immediate=True)` l.544-546)
                                                                                → `runLoopS`, `threadRun`
* the whole call                                                                → `statusCall`

Part 2 — `PlayingStatusReactor.handle_status` (l.875-890), `handle_exception` (l.899-905) and
`Connection._version_mismatch` (l.553-569) on ARBITRARY JSON values and on the three ways the read
can fail, instead of the five reply shapes of `Neg.StatusReply`            → `JV`, `Reply`,
`handleStatusX`, `versionMismatchX`, `evalReplyWith`, `evalReply`.

`json.loads`, the clock and the server are parameters.  Not modelled: user handlers that raise or
that start a new connection, socket errors while opening the second connection, packet listeners.
-/
namespace PyCraft.NegS
open PyCraft PyCraft.Neg

/-! ## Part 1: the plain status query -/

/-- An argument `handle_status` / `handle_ping` of `Connection.status`: `None`, a callable, `False`. -/
inductive HArg
  | dflt
  | custom
  | disabled
deriving DecidableEq, Repr

/-- The callable that ends up being invoked: the class's printing method, the caller's function, or
the `lambda *args, **kwds: None`. -/
inductive Callee
  | printer
  | user
  | noop
deriving DecidableEq, Repr

/-- The defaults in the signature `status(self, handle_status=None, handle_ping=False)` (l.350). -/
def statusDefaultArgs : HArg × HArg := (.dflt, .disabled)

/-- l.369: `do_ping = handle_ping is not False`. -/
def doPingOf (hp : HArg) : Bool := hp != .disabled

/-- l.372-375 (and identically l.377-380):
```
if h is False:        reactor.h = lambda *args, **kwds: None
elif h is not None:   reactor.h = h
```
otherwise the class attribute (the printing method l.864-868) stays. -/
def calleeOf (h : HArg) : Callee :=
  if h = .disabled then .noop
  else if h ≠ .dflt then .user
  else .printer

/-- Observable actions, in program order.  `J` is the type of parsed status objects.
`sendPing t`: a `PingPacket(time=t)` is queued (l.849-853); `disconnect`: `connection.disconnect()`
(l.855, l.861); `callStatus who d`: `self.handle_status(d)` runs callable `who` (l.856);
`callPing who l`: `self.handle_ping(l)` (l.862); `excHandlers e`: `_handle_exception(e, …)` hands `e`
to the registered handlers (l.608, l.510-527); `disconnectImmediate`: `disconnect(immediate=True)`
at the end of `_handle_exception` (l.546); `exit`: `self.handle_exit()` (l.573). -/
inductive SAct (J : Type)
  | sendPing (t : Nat)
  | disconnect
  | callStatus (who : Callee) (d : J)
  | callPing (who : Callee) (latency : Int)
  | excHandlers (e : Err)
  | disconnectImmediate
  | exit
deriving DecidableEq, Repr

/-- `connection.connected`, `networking_thread.interrupt`, and how many times
`timeit.default_timer()` has been read so far. -/
structure TSt where
  connected : Bool
  interrupt : Bool
  reads : Nat
deriving DecidableEq, Repr

def TSt.init : TSt := ⟨true, false, 0⟩

/-- `disconnect()`: `connected = False` (l.462), `networking_thread.interrupt = True` (l.478). -/
def TSt.disc (s : TSt) : TSt := ⟨false, true, s.reads⟩

/-- One reading of the clock. -/
def TSt.tick (s : TSt) : TSt := ⟨s.connected, s.interrupt, s.reads + 1⟩

/-- `StatusReactor.react(packet)` (l.845-862).  `parse` is `json.loads`; `clock k` is the value of
`int(1000 * timeit.default_timer())` at the `k`-th reading.  Order as in the source: `json.loads`
first (a failure propagates before anything else happens), then ping-or-disconnect, then the
handler. -/
def reactS {J : Type} (parse : String → Except Err J) (clock : Nat → Nat) (doPing : Bool)
    (cs cp : Callee) (st : TSt) : StatusPkt → Except Err (TSt × List (SAct J))
  | .response j =>
    match parse j with
    | .error e => .error e
    | .ok d =>
      if doPing then .ok (st.tick, [.sendPing (clock st.reads), .callStatus cs d])
      else .ok (st.disc, [.disconnect, .callStatus cs d])
  | .pong t =>
    if doPing then .ok (st.tick.disc, [.disconnect, .callPing cp ((clock st.reads : Int) - t)])
    else .ok (st, [])
  | .other => .ok (st, [])

/-- The read loop of `_run` (l.614, l.636-642): `while not self.interrupt: packet = read();
react(packet)`.  Returns the state, the actions and the exception that ended the loop, if any. -/
def runLoopS {J : Type} (parse : String → Except Err J) (clock : Nat → Nat) (doPing : Bool)
    (cs cp : Callee) : TSt → List StatusPkt → TSt × List (SAct J) × Option Err
  | st, [] => (st, [], none)
  | st, pkt :: rest =>
    if st.interrupt then (st, [], none)
    else
      match reactS parse clock doPing cs cp st pkt with
      | .error e => (st, [], some e)
      | .ok (st', acts) =>
        let r := runLoopS parse clock doPing cs cp st' rest
        (r.1, acts ++ r.2.1, r.2.2)

/-- Result of the call. `frames`: what `status()` itself queued; `threadEnded = false` means the
script ran out with `interrupt` unset, i.e. the thread is still waiting for packets. -/
structure StatusRunS (J : Type) where
  frames : List Frame
  acts : List (SAct J)
  connected : Bool
  threadEnded : Bool
  error : Option Err
deriving DecidableEq, Repr

/-- `NetworkingThread.run` (l.596-611) around the loop, with `exitCb` = `handle_exit is not None`:
* an exception: `interrupt = True; _handle_exception(e)` — handlers, then `disconnect(immediate=True)`
  (l.544-546); `_handle_exit` is NOT reached (it is inside the `try`, after `_run()`);
* `_run` returned (interrupt set): `_handle_exit()` calls the exit callback iff `not connected` and
  there is one (l.572);
* otherwise still waiting. -/
def threadRun {J : Type} (parse : String → Except Err J) (clock : Nat → Nat) (doPing : Bool)
    (cs cp : Callee) (exitCb : Bool) (frames : List Frame) (script : List StatusPkt) :
    StatusRunS J :=
  match runLoopS parse clock doPing cs cp TSt.init script with
  | (_, acts, some e) => ⟨frames, acts ++ [.excHandlers e, .disconnectImmediate], false, true, some e⟩
  | (st, acts, none) =>
    if st.interrupt then
      ⟨frames, acts ++ (if !st.connected && exitCb then [.exit] else []), st.connected, true, none⟩
    else ⟨frames, acts, st.connected, false, none⟩

/-- `Connection.status(handle_status=hs, handle_ping=hp)` with the `do_ping` rule as a parameter
(so that a changed rule can be compared): queues the handshake (protocol `ctx` =
`context.protocol_version`, next state 1) and the request, installs the reactor and the callables. -/
def statusCallWith {J : Type} (dp : HArg → Bool) (p : ConnParams) (ctx : Nat) (hs hp : HArg)
    (exitCb : Bool) (parse : String → Except Err J) (clock : Nat → Nat) (script : List StatusPkt) :
    StatusRunS J :=
  threadRun parse clock (dp hp) (calleeOf hs) (calleeOf hp) exitCb (firstFrames p (.query ctx)) script

/-- `Connection.status` as written. -/
def statusCall {J : Type} (p : ConnParams) (ctx : Nat) (hs hp : HArg) (exitCb : Bool)
    (parse : String → Except Err J) (clock : Nat → Nat) (script : List StatusPkt) : StatusRunS J :=
  statusCallWith doPingOf p ctx hs hp exitCb parse clock script

/-! ## Part 2: negotiation on arbitrary replies -/

/-- A Python `float` as far as the code can tell: equal to the integer `n`, finite but not an
integer, NaN, or ±infinity. -/
inductive FloatV
  | integral (n : Int)
  | fractional
  | nan
  | inf
deriving DecidableEq, Repr

/-- What `json.loads` can return (a `dict` is given by its items, keys distinct). -/
inductive JV
  | null
  | bool (b : Bool)
  | int (n : Int)
  | flt (f : FloatV)
  | str (s : String)
  | arr (l : List JV)
  | obj (kvs : List (String × JV))
deriving Repr

/-! Decidable equality of `JV` (the `deriving` handler does not cover nested inductives). -/

mutual
def JV.beq : JV → JV → Bool
  | .null, .null => true
  | .bool a, .bool b => a == b
  | .int a, .int b => a == b
  | .flt a, .flt b => a == b
  | .str a, .str b => a == b
  | .arr a, .arr b => JV.beqL a b
  | .obj a, .obj b => JV.beqKV a b
  | _, _ => false
def JV.beqL : List JV → List JV → Bool
  | [], [] => true
  | x :: xs, y :: ys => JV.beq x y && JV.beqL xs ys
  | _, _ => false
def JV.beqKV : List (String × JV) → List (String × JV) → Bool
  | [], [] => true
  | (k, x) :: xs, (k', y) :: ys => k == k' && JV.beq x y && JV.beqKV xs ys
  | _, _ => false
end

mutual
theorem JV.beq_iff : ∀ (a b : JV), JV.beq a b = true ↔ a = b
  | .null, b => by cases b <;> simp [JV.beq]
  | .bool x, b => by cases b <;> simp [JV.beq]
  | .int x, b => by cases b <;> simp [JV.beq]
  | .flt x, b => by cases b <;> simp [JV.beq]
  | .str x, b => by cases b <;> simp [JV.beq]
  | .arr x, b => by
    cases b <;> simp [JV.beq]
    exact JV.beqL_iff x _
  | .obj x, b => by
    cases b <;> simp [JV.beq]
    exact JV.beqKV_iff x _
theorem JV.beqL_iff : ∀ (a b : List JV), JV.beqL a b = true ↔ a = b
  | [], b => by cases b <;> simp [JV.beqL]
  | x :: xs, b => by
    cases b with
    | nil => simp [JV.beqL]
    | cons y ys => simp [JV.beqL, JV.beq_iff x y, JV.beqL_iff xs ys]
theorem JV.beqKV_iff : ∀ (a b : List (String × JV)), JV.beqKV a b = true ↔ a = b
  | [], b => by cases b <;> simp [JV.beqKV]
  | (k, x) :: xs, b => by
    cases b with
    | nil => simp [JV.beqKV]
    | cons y ys =>
      obtain ⟨k', y⟩ := y
      simp [JV.beqKV, JV.beq_iff x y, JV.beqKV_iff xs ys, and_assoc]
end

instance : DecidableEq JV := fun a b =>
  if h : JV.beq a b = true then isTrue ((JV.beq_iff a b).1 h)
  else isFalse (fun e => h ((JV.beq_iff a b).2 e))

/-- `dict.get(k)` as an `Option`. -/
def lookup (kvs : List (String × JV)) (k : String) : Option JV :=
  match kvs.find? (fun e => e.1 == k) with
  | some e => some e.2
  | none => none

/-- Is `x` the string `k`?  (`'k' == x` for an arbitrary JSON value `x`.) -/
def JV.isStr (k : String) : JV → Bool
  | .str s => s == k
  | _ => false

/-- `k in s` for two Python strings: substring test. -/
def hasInfix (k : List Char) : List Char → Bool
  | [] => k.isEmpty
  | c :: cs => k.isPrefixOf (c :: cs) || hasInfix k cs

/-- `'k' in x`: key of a dict, element of a list, substring of a string; anything else is not
iterable → `TypeError`. -/
def pyIn (k : String) : JV → Except Err Bool
  | .obj kvs => .ok (lookup kvs k).isSome
  | .arr l => .ok (l.any (JV.isStr k))
  | .str s => .ok (hasInfix k.toList s.toList)
  | _ => .error .type

/-- `x['k']`: a dict yields the value (`KeyError` if absent); `list`/`str` indices must be integers
and the other types are not subscriptable → `TypeError`. -/
def pyGetItem (k : String) : JV → Except Err JV
  | .obj kvs =>
    match lookup kvs k with
    | some v => .ok v
    | none => .error .other
  | _ => .error .type

/-- `x.get('k')`: `None` when absent; only dicts have `.get` (`AttributeError` otherwise). -/
def pyDictGet (k : String) : JV → Except Err JV
  | .obj kvs => .ok ((lookup kvs k).getD .null)
  | _ => .error .other

/-- The integer a value compares equal to (`True == 1`, `47.0 == 47`), if any. -/
def intKey : JV → Option Int
  | .bool b => some (if b then 1 else 0)
  | .int n => some n
  | .flt (.integral n) => some n
  | _ => none

/-- `hash(x)` works: everything but lists and dicts. -/
def hashable : JV → Bool
  | .arr _ => false
  | .obj _ => false
  | _ => true

/-- `x in s` for a `set` of non-negative ints: hashing first (`TypeError` for list/dict). -/
def inIntSet (x : JV) (s : List Nat) : Except Err Bool :=
  if hashable x then
    .ok (match intKey x with
      | some n => inZ n s
      | none => false)
  else .error .type

/-- `x in l` for a `list` of non-negative ints: `==` only, never raises. -/
def inIntList (x : JV) (l : List Nat) : Bool :=
  match intKey x with
  | some n => inZ n l
  | none => false

/-- Everything that can be raised on the status connection of `connect()`. `eof`/`json`/`os`:
`EOFError` from `read_packet`, `ValueError` from `json.loads`, any other `OSError` from the socket;
`invalidStatus`: `IOError('Invalid server status.')`; `mismatch`: the `VersionMismatch` with its
`server_protocol`, `server_version` attributes and whether its text says "supported, but not
allowed"; `py e`: a `TypeError`/`ValueError`/`OverflowError`/`KeyError` raised by an operation of
`handle_status`/`_version_mismatch` on an unexpected value. -/
inductive Raised
  | eof
  | json
  | os
  | invalidStatus
  | mismatch (proto name : JV) (supported : Bool)
  | py (e : Err)
deriving DecidableEq, Repr

/-- `connect v fb`: `handle_proto_version(v)` was called (`fb` = via `handle_failure()`), which sets
`allowed_proto_versions = {v}` and calls `connect()` again.  `connectFloat n`: the same call with the
FLOAT `n.0`, which passed `proto in allowed_proto_versions` because `47.0 == 47`: the second TCP
connection is opened, and the first write on it raises `TypeError` (`VarInt.send`: `value & 0x7F`)
before a single byte is sent.  `raised r`: `r` is delivered to the exception handlers. -/
inductive Outcome
  | connect (v : Nat) (fallback : Bool)
  | connectFloat (n : Int)
  | raised (r : Raised)
deriving DecidableEq, Repr

/-- `KNOWN_MINECRAFT_VERSIONS.get(server_version)` (l.555): hashing first; only `str` keys exist. -/
def lookupKnown (knownNames : List (String × Nat)) : JV → Except Err JV
  | .arr _ => .error .type
  | .obj _ => .error .type
  | .str s =>
    match dictGet knownNames s with
    | some p => .ok (.int p)
    | none => .ok .null
  | _ => .ok .null

/-- Does `'protocol version of %d' % server_protocol` (l.561) raise?  `str`/`list`/`dict`:
`TypeError`; NaN: `ValueError`; ±inf: `OverflowError`. -/
def fmtD : JV → Option Err
  | .str _ => some .type
  | .arr _ => some .type
  | .obj _ => some .type
  | .flt .nan => some .value
  | .flt .inf => some .other
  | _ => none

/-- `_version_mismatch(server_protocol=sp, server_version=sv)` (l.553-569). -/
def versionMismatchX (env : VEnv) (knownNames : List (String × Nat)) (sp sv : JV) : Raised :=
  -- l.554-555: `if server_protocol is None: server_protocol = KNOWN_MINECRAFT_VERSIONS.get(sv)`
  let sp' : Except Err JV :=
    match sp with
    | .null => lookupKnown knownNames sv
    | x => .ok x
  match sp' with
  | .error e => .py e
  | .ok .null =>
    -- l.557-559: no `%d`; `None in SUPPORTED_PROTOCOL_VERSIONS` is False
    .mismatch .null sv false
  | .ok x =>
    -- l.561-562 then l.563-569
    match fmtD x with
    | some e => .py e
    | none => .mismatch x sv (inIntList x env.supportedProtocols)

/-- `handle_proto_version(proto)` (l.892-894) for a value that passed the membership test. -/
def handleProtoVersionX : JV → Outcome
  | .flt (.integral n) => .connectFloat n
  | x =>
    match intKey x with
    | some n => .connect n.toNat false
    | none => .raised (.py .other)     -- unreachable after `proto in allowed`

/-- l.885-890, once `proto = status['version']['protocol']` has been read from the value `x` of
`status['version']`:
```
if proto not in self.connection.allowed_proto_versions:
    self.connection._version_mismatch(server_protocol=proto, server_version=x.get('name'))
self.handle_proto_version(proto)
``` -/
def afterProto (env : VEnv) (knownNames : List (String × Nat)) (allowed : List Nat)
    (x proto : JV) : Outcome :=
  match inIntSet proto allowed with                           -- l.885
  | .error e => .raised (.py e)
  | .ok false =>
    match pyDictGet "name" x with                             -- l.888
    | .error e => .raised (.py e)
    | .ok name => .raised (versionMismatchX env knownNames proto name)
  | .ok true => handleProtoVersionX proto                     -- l.890

/-- The right operand of the `or` in l.881 and everything after it, for `x = status['version']`. -/
def afterVersion (env : VEnv) (knownNames : List (String × Nat)) (allowed : List Nat) (dflt : Nat)
    (x : JV) : Outcome :=
  match pyIn "protocol" x with                                -- `'protocol' not in status['version']`
  | .error e => .raised (.py e)
  | .ok false => .connect dflt true                           -- l.882 `return self.handle_failure()`
  | .ok true =>
    match pyGetItem "protocol" x with                         -- l.884
    | .error e => .raised (.py e)
    | .ok proto => afterProto env knownNames allowed x proto

/-- `PlayingStatusReactor.handle_status(status)` (l.875-890), operation by operation. -/
def handleStatusX (env : VEnv) (knownNames : List (String × Nat)) (allowed : List Nat) (dflt : Nat)
    (status : JV) : Outcome :=
  match status with
  | .obj [] => .raised .invalidStatus                         -- l.876-880 `status == {}`
  | _ =>
    match pyIn "version" status with                          -- l.881, left operand of `or`
    | .error e => .raised (.py e)
    | .ok false => .connect dflt true                         -- l.882 `return self.handle_failure()`
    | .ok true =>
      match pyGetItem "version" status with                   -- `status['version']`
      | .error e => .raised (.py e)
      | .ok x => afterVersion env knownNames allowed dflt x

/-- What the status connection delivers: a response whose text parses to `v`; a response on which
`json.loads` raises; end of stream before a complete reply; any other socket error. -/
inductive Reply
  | json (v : JV)
  | badJson
  | closed
  | ioError
deriving DecidableEq, Repr

/-- `isinstance(exc, EOFError)`. -/
def isEOFError : Raised → Bool
  | .eof => true
  | _ => false

/-- `PlayingStatusReactor.handle_exception` (l.899-905) with the `isinstance` test as a parameter:
`disconnect(immediate=True); handle_failure(); return True` when the test holds, else the implicit
`None` lets `_handle_exception` deliver the exception. -/
def handleExceptionWith (test : Raised → Bool) (dflt : Nat) (r : Raised) : Outcome :=
  if test r then .connect dflt true else .raised r

/-- The status connection of `connect()` end to end, with the exception test as a parameter: every
exception — from the read, from `json.loads`, or raised inside `handle_status` — passes through the
reactor's `handle_exception` (l.505). -/
def evalReplyWith (test : Raised → Bool) (env : VEnv) (knownNames : List (String × Nat))
    (allowed : List Nat) (dflt : Nat) : Reply → Outcome
  | .json v =>
    match handleStatusX env knownNames allowed dflt v with
    | .raised r => handleExceptionWith test dflt r
    | o => o
  | .badJson => handleExceptionWith test dflt .json
  | .closed => handleExceptionWith test dflt .eof
  | .ioError => handleExceptionWith test dflt .os

/-- The code as written. -/
def evalReply (env : VEnv) (knownNames : List (String × Nat)) (allowed : List Nat) (dflt : Nat) :
    Reply → Outcome :=
  evalReplyWith isEOFError env knownNames allowed dflt

/-! ### Boolean observations (for `decide`) -/

def Outcome.isFallback : Outcome → Bool
  | .connect _ true => true
  | _ => false

def Outcome.connectsTo : Outcome → Option Nat
  | .connect v _ => some v
  | _ => none

/-- The error class delivered to the handlers, if any. -/
inductive RKind
  | eof | json | os | invalidStatus | mismatch | py (e : Err)
deriving DecidableEq, Repr

def Raised.kind : Raised → RKind
  | .eof => .eof
  | .json => .json
  | .os => .os
  | .invalidStatus => .invalidStatus
  | .mismatch _ _ _ => .mismatch
  | .py e => .py e

def Outcome.raisedKind : Outcome → Option RKind
  | .raised r => some r.kind
  | _ => none

/-- The text of a `VersionMismatch` (l.557-566) for the combinations whose `%d` / `%s` rendering
the model can express: protocol `None`/`int`/`bool`, name `None`/`str`. -/
def mismatchText : JV → JV → Bool → Option String
  | sp, sv, b =>
    let ss := if b then "supported, but not allowed for this connection" else "not supported"
    let name : Option (Option String) :=
      match sv with
      | .null => some none
      | .str s => some (some s)
      | _ => none
    let num : Option (Option Int) :=
      match sp with
      | .null => some none
      | .int n => some (some n)
      | .bool t => some (some (if t then 1 else 0))
      | _ => none
    match num, name with
    | some none, some none => some ("Server's version is " ++ ss ++ ".")
    | some none, some (some s) => some ("Server's version of " ++ s ++ " is " ++ ss ++ ".")
    | some (some n), some nm => some (mismatchMessage n nm b)
    | _, _ => none

end PyCraft.NegS
