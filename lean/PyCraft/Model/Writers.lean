import PyCraft.Basic
/-!
# Concurrent writers (property C12)

Model of the write path of `minecraft/networking/connection.py` under an arbitrary scheduler:

* `Connection.write_packet(p, force)`   — user threads (`queued p` / `forced p`)
* `Connection.disconnect(immediate)`    — user threads (`disconnect imm`)
* `Connection._pop_packet`, `_write_packet`, `Packet._write_buffer` (TWO `socket.send`s per frame)
* `NetworkingThread.run` / `_run`       — thread `0`

The system is a *deterministic* transition system driven by a schedule: `step cfg s t` performs
the NEXT ATOMIC ACTION of thread `t` (`none` = `t` is not enabled: finished, or blocked on the
lock).  Every successful step appends exactly one event to `s.log`; the instrumented Python harness
yields at exactly these actions and compares the event logs.

Fields `issued`, `failed` of `Sys` and the `DCtx` argument of the disconnect program counters are
GHOST state: they are written but never read by `step`, and exist only so that the theorems can
talk about "issued so far", "failed" and "the queue when the lock was acquired".
-/
namespace PyCraft.Writers

abbrev Tid := Nat
abbrev Pkt := Nat
/-- `(p, 0)` = the `socket.send` of the length prefix of `p`, `(p, 1)` = the send of its body. -/
abbrev Chunk := Pkt × Fin 2

/-- One operation of a user thread's program. -/
inductive Op
  | queued (p : Pkt)            -- `write_packet(p)`             : `deque.append`, no lock
  | forced (p : Pkt)            -- `write_packet(p, force=True)` : under the lock
  | disconnect (imm : Bool)     -- `disconnect(immediate=imm)`   : everything under the lock
deriving DecidableEq, Repr

/-- The atomic actions (= yield points of the harness = log events). -/
inductive Ev
  | acq | rel
  | app (p : Pkt)
  | chk (n : Nat)
  | pop (p : Pkt)
  | snd (p : Pkt) (c : Fin 2)
  | rdi (b : Bool)
  | sti | shut | cls | sel | fail
  | fin                         -- printed as `end`
deriving DecidableEq, Repr

/-- GHOST context of a running `disconnect`: its argument and what the world looked like when it
acquired the lock. -/
structure DCtx where
  imm   : Bool
  snap  : List Pkt              -- the queue at lock acquisition
  wire0 : List Chunk            -- the wire at lock acquisition
  open0 : Bool                  -- was the socket open at lock acquisition
deriving DecidableEq, Repr

/-- Program counter of a user thread.  The constructor names the NEXT action. -/
inductive UPc
  | idle                        -- between operations: first action of the next op, or `end`
  -- forced write: `with self._write_lock: self._write_packet(p)`
  | fSnd0 (p : Pkt)             -- lock held; next `snd p 0` (or `fail` when socket is None)
  | fSnd1 (p : Pkt)             -- next `snd p 1`
  | fRel                        -- next `rel`
  -- disconnect: `with self._write_lock: …`
  | dChk  (c : DCtx)            -- flush loop, `_pop_packet`: next `chk len(queue)`
  | dPop  (c : DCtx)            -- next `pop`
  | dSnd0 (c : DCtx) (q : Pkt)  -- next `snd q 0`
  | dSnd1 (c : DCtx) (q : Pkt)  -- next `snd q 1`
  | dSti  (c : DCtx)            -- next `sti`
  | dShut (c : DCtx)            -- next `shut`
  | dCls  (c : DCtx)            -- next `cls`
  | dRel  (c : DCtx)            -- next `rel`
  | done
deriving DecidableEq, Repr

/-- Program counter of the networking thread (`NetworkingThread.run` + `_run`). -/
inductive NPc
  | oRdi                        -- `while not self.interrupt:`                         next `rdi`
  | wAcq                        -- `with self.connection._write_lock:`                 next `acq`
  | wRdi                        -- `while not self.interrupt and …` (first conjunct)   next `rdi`
  | wChk                        -- `… and self.connection._pop_packet()`: `len(queue)` next `chk`
  | wPop                        -- `queue.popleft()`                                   next `pop`
  | wSnd0 (p : Pkt)             --                                                     next `snd p 0`
  | wSnd1 (p : Pkt)             --                                                     next `snd p 1`
  | wChk2                       -- `if self.connection._outgoing_packet_queue:`        next `chk`
  | wRel                        -- end of the `with` block                             next `rel`
  | rRdi                        -- `while num_packets < 50 and not self.interrupt`     next `rdi`
  | rSel                        -- `read_packet` → `select` (silent server)            next `sel`
  | xRel                        -- leaving the `with` block by an exception            next `rel`
  | zAcq                        -- `finally: with self.connection._write_lock:`        next `acq`
  | zRel                        -- `networking_thread = None`; end of `with`           next `rel`
  | zEnd                        --                                                     next `end`
  | done
deriving DecidableEq, Repr

inductive Pc
  | user (pc : UPc)
  | net (pc : NPc) (count : Nat)   -- `count` = `num_packets`
deriving DecidableEq, Repr

structure Thr where
  pc   : Pc
  todo : List Op                -- remaining program (user threads)
deriving Repr

/-- The two batch caps of `_run` (300 writes, 50 reads in the Python). -/
structure Cfg where
  capW : Nat
  capR : Nat
deriving Repr

structure Sys where
  queue     : List Pkt          -- `_outgoing_packet_queue`, head = left
  owner     : Option Tid        -- `_write_lock` (an RLock): owner …
  depth     : Nat               -- … and recursion depth
  wire      : List Chunk        -- everything `socket.send` was called with, oldest first
  sockOpen  : Bool              -- `self.socket is not None`
  interrupt : Bool              -- `networking_thread.interrupt`
  ntSlot    : Bool              -- `self.networking_thread is not None`
  thr       : Tid → Thr
  log       : List (Tid × Ev)
  issued    : List Pkt          -- GHOST: packets handed to the connection so far
  failed    : List Pkt          -- GHOST: packets whose write found `socket is None`

/-- Replace the state of thread `t`. -/
def upd (s : Sys) (t : Tid) (pc : Pc) (todo : List Op) : Tid → Thr :=
  fun u => if u = t then ⟨pc, todo⟩ else s.thr u

/-- `RLock.acquire` succeeds iff the lock is free or already owned by the caller. -/
def canAcq (s : Sys) (t : Tid) : Bool := s.owner == none || s.owner == some t

/-- Owner after `RLock.release` by the owner. -/
def ownerAfterRel (s : Sys) : Option Tid := if s.depth - 1 = 0 then none else s.owner

/-- Where `disconnect` continues after the flush: `elif self.networking_thread is not None:` then
`if self.socket is not None:`.  Both attributes are only written under the lock, which the caller
holds, so evaluating them one action early is not observable. -/
def afterSti (s : Sys) (c : DCtx) : UPc := if s.sockOpen then .dShut c else .dRel c
def afterFlush (s : Sys) (c : DCtx) : UPc := if s.ntSlot then .dSti c else afterSti s c

/-- Next atomic action of a user thread. -/
def stepUser (s : Sys) (t : Tid) (pc : UPc) (todo : List Op) : Option Sys :=
  match pc with
  | .idle =>
    match todo with
    | [] =>
      some { s with log := s.log ++ [(t, .fin)], thr := upd s t (.user .done) [] }
    | .queued p :: rest =>
      some { s with queue := s.queue ++ [p], issued := s.issued ++ [p],
                    log := s.log ++ [(t, .app p)], thr := upd s t (.user .idle) rest }
    | .forced p :: rest =>
      if canAcq s t then
        some { s with owner := some t, depth := s.depth + 1, issued := s.issued ++ [p],
                      log := s.log ++ [(t, .acq)], thr := upd s t (.user (.fSnd0 p)) rest }
      else none
    | .disconnect imm :: rest =>
      if canAcq s t then
        let c : DCtx := ⟨imm, s.queue, s.wire, s.sockOpen⟩
        let pc' := if !imm && s.sockOpen then .dChk c else afterFlush s c
        some { s with owner := some t, depth := s.depth + 1,
                      log := s.log ++ [(t, .acq)], thr := upd s t (.user pc') rest }
      else none
  -- forced write
  | .fSnd0 p =>
    if s.sockOpen then
      some { s with wire := s.wire ++ [(p, 0)],
                    log := s.log ++ [(t, .snd p 0)], thr := upd s t (.user (.fSnd1 p)) todo }
    else  -- AttributeError raised to the caller of `write_packet`
      some { s with failed := s.failed ++ [p],
                    log := s.log ++ [(t, .fail)], thr := upd s t (.user .fRel) todo }
  | .fSnd1 p =>
    some { s with wire := s.wire ++ [(p, 1)],
                  log := s.log ++ [(t, .snd p 1)], thr := upd s t (.user .fRel) todo }
  | .fRel =>
    some { s with owner := ownerAfterRel s, depth := s.depth - 1,
                  log := s.log ++ [(t, .rel)], thr := upd s t (.user .idle) todo }
  -- disconnect: flush loop `while self._pop_packet(): pass`
  | .dChk c =>
    let pc' := if s.queue.length = 0 then afterFlush s c else .dPop c
    some { s with log := s.log ++ [(t, .chk s.queue.length)], thr := upd s t (.user pc') todo }
  | .dPop c =>
    match s.queue with
    | [] => none   -- `popleft` on an empty deque: proved unreachable (`WireInv.pop_ok`)
    | q :: rest =>
      some { s with queue := rest,
                    log := s.log ++ [(t, .pop q)], thr := upd s t (.user (.dSnd0 c q)) todo }
  | .dSnd0 c q =>
    if s.sockOpen then
      some { s with wire := s.wire ++ [(q, 0)],
                    log := s.log ++ [(t, .snd q 0)], thr := upd s t (.user (.dSnd1 c q)) todo }
    else  -- proved unreachable (`C12.fail_only_forced_write`): the flush needs an open socket
      some { s with failed := s.failed ++ [q],
                    log := s.log ++ [(t, .fail)], thr := upd s t (.user (.dRel c)) todo }
  | .dSnd1 c q =>
    some { s with wire := s.wire ++ [(q, 1)],
                  log := s.log ++ [(t, .snd q 1)], thr := upd s t (.user (.dChk c)) todo }
  -- disconnect: interrupt the networking thread, close the socket
  | .dSti c =>
    some { s with interrupt := true,
                  log := s.log ++ [(t, .sti)], thr := upd s t (.user (afterSti s c)) todo }
  | .dShut c =>
    some { s with log := s.log ++ [(t, .shut)], thr := upd s t (.user (.dCls c)) todo }
  | .dCls c =>
    some { s with sockOpen := false,
                  log := s.log ++ [(t, .cls)], thr := upd s t (.user (.dRel c)) todo }
  | .dRel _ =>
    some { s with owner := ownerAfterRel s, depth := s.depth - 1,
                  log := s.log ++ [(t, .rel)], thr := upd s t (.user .idle) todo }
  | .done => none

/-- Next atomic action of the networking thread; `n` = `num_packets`. -/
def stepNet (cfg : Cfg) (s : Sys) (t : Tid) (pc : NPc) (n : Nat) (todo : List Op) : Option Sys :=
  match pc with
  | .oRdi =>      -- `while not self.interrupt:` … `num_packets = 0`
    let pc' := if s.interrupt then Pc.net .zAcq n else Pc.net .wAcq 0
    some { s with log := s.log ++ [(t, .rdi s.interrupt)], thr := upd s t pc' todo }
  | .wAcq =>
    if canAcq s t then
      some { s with owner := some t, depth := s.depth + 1,
                    log := s.log ++ [(t, .acq)], thr := upd s t (.net .wRdi n) todo }
    else none
  | .wRdi =>      -- `not self.interrupt and …` : `_pop_packet` is only called when it was False
    let pc' := if s.interrupt then NPc.wChk2 else NPc.wChk
    some { s with log := s.log ++ [(t, .rdi s.interrupt)], thr := upd s t (.net pc' n) todo }
  | .wChk =>
    let pc' := if s.queue.length = 0 then NPc.wChk2 else NPc.wPop
    some { s with log := s.log ++ [(t, .chk s.queue.length)], thr := upd s t (.net pc' n) todo }
  | .wPop =>
    match s.queue with
    | [] => none   -- proved unreachable (`WireInv.pop_ok`)
    | q :: rest =>
      some { s with queue := rest,
                    log := s.log ++ [(t, .pop q)], thr := upd s t (.net (.wSnd0 q) n) todo }
  | .wSnd0 q =>
    if s.sockOpen then
      some { s with wire := s.wire ++ [(q, 0)],
                    log := s.log ++ [(t, .snd q 0)], thr := upd s t (.net (.wSnd1 q) n) todo }
    else  -- proved unreachable (`C12.fail_only_forced_write`); AttributeError ≠ IOError: leaves `_run`
      some { s with failed := s.failed ++ [q],
                    log := s.log ++ [(t, .fail)], thr := upd s t (.net .xRel n) todo }
  | .wSnd1 q =>   -- `num_packets += 1; if num_packets >= 300: break`
    let pc' := if n + 1 ≥ cfg.capW then NPc.wChk2 else NPc.wRdi
    some { s with wire := s.wire ++ [(q, 1)],
                  log := s.log ++ [(t, .snd q 1)], thr := upd s t (.net pc' (n + 1)) todo }
  | .wChk2 =>     -- the read-timeout choice; its value is not used in this scenario
    some { s with log := s.log ++ [(t, .chk s.queue.length)], thr := upd s t (.net .wRel n) todo }
  | .wRel =>      -- `while num_packets < 50 and …` : `interrupt` is only read when below the cap
    let pc' := if n < cfg.capR then NPc.rRdi else NPc.oRdi
    some { s with owner := ownerAfterRel s, depth := s.depth - 1,
                  log := s.log ++ [(t, .rel)], thr := upd s t (.net pc' n) todo }
  | .rRdi =>
    let pc' := if s.interrupt then NPc.oRdi else NPc.rSel
    some { s with log := s.log ++ [(t, .rdi s.interrupt)], thr := upd s t (.net pc' n) todo }
  | .rSel =>      -- nothing to read: `if not packet: break`
    some { s with log := s.log ++ [(t, .sel)], thr := upd s t (.net .oRdi n) todo }
  | .xRel =>      -- `except Exception: self.interrupt = True` (then `_handle_exception`)
    some { s with owner := ownerAfterRel s, depth := s.depth - 1, interrupt := true,
                  log := s.log ++ [(t, .rel)], thr := upd s t (.net .zAcq n) todo }
  | .zAcq =>
    if canAcq s t then
      some { s with owner := some t, depth := s.depth + 1,
                    log := s.log ++ [(t, .acq)], thr := upd s t (.net .zRel n) todo }
    else none
  | .zRel =>      -- `self.connection.networking_thread = None`
    some { s with owner := ownerAfterRel s, depth := s.depth - 1, ntSlot := false,
                  log := s.log ++ [(t, .rel)], thr := upd s t (.net .zEnd n) todo }
  | .zEnd =>
    some { s with log := s.log ++ [(t, .fin)], thr := upd s t (.net .done n) todo }
  | .done => none

/-- One atomic step of thread `t`; `none` = not enabled. -/
def step (cfg : Cfg) (s : Sys) (t : Tid) : Option Sys :=
  match (s.thr t).pc with
  | .user pc => stepUser s t pc (s.thr t).todo
  | .net pc n => stepNet cfg s t pc n (s.thr t).todo

/-- Run a schedule; choices that are not enabled are skipped. -/
def run (cfg : Cfg) (s : Sys) : List Tid → Sys
  | [] => s
  | t :: ts =>
    match step cfg s t with
    | some s' => run cfg s' ts
    | none => run cfg s ts

/-- Number of schedule entries that were not enabled. -/
def skipped (cfg : Cfg) (s : Sys) : List Tid → Nat
  | [] => 0
  | t :: ts =>
    match step cfg s t with
    | some s' => skipped cfg s' ts
    | none => skipped cfg s ts + 1

/-- Thread `0` is the networking thread, thread `i+1` runs `progs[i]`; all other ids are finished
threads with nothing to do. -/
def progOf (progs : List (List Op)) (t : Tid) : List Op :=
  if t = 0 then [] else progs.getD (t - 1) []

def init (progs : List (List Op)) : Sys where
  queue := []
  owner := none
  depth := 0
  wire := []
  sockOpen := true
  interrupt := false
  ntSlot := true
  thr := fun t =>
    if t = 0 then ⟨.net .oRdi 0, []⟩
    else if t ≤ progs.length then ⟨.user .idle, progOf progs t⟩
    else ⟨.user .done, []⟩
  log := []
  issued := []
  failed := []

def Pc.isDone : Pc → Bool
  | .user .done => true
  | .net .done _ => true
  | _ => false

/-- All of threads `0..n` have reached `end`. -/
def allDoneUpTo (s : Sys) (n : Nat) : Bool := (List.range (n + 1)).all fun t => (s.thr t).pc.isDone

/-- The packets of a program. -/
def Op.pkts : Op → List Pkt
  | .queued p => [p]
  | .forced p => [p]
  | .disconnect _ => []

def pktsOf (prog : List Op) : List Pkt := prog.flatMap Op.pkts

end PyCraft.Writers
