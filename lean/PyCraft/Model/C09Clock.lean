import PyCraft.Model.Negotiate
/-!
Two refinements of the C09 models, both about `minecraft/networking/connection.py`.

**1. The latency of a plain status query over a real-valued clock** (`StatusReactor.react`):
```
if packet.packet_name == "response":
    ...
        ping_packet.time = int(1000 * timeit.default_timer())        # site 0 ("ping")
        self.connection.write_packet(ping_packet)
elif packet.packet_name == "ping":
    if self.do_ping:
        now = int(1000 * timeit.default_timer())                     # site 1 ("pong")
        self.connection.disconnect()
        self.handle_ping(now - packet.time)
```
`Model/Negotiate.lean` (`Neg.react`) and `Model/C09Status.lean` take the *integer* value of
`int(1000 * timeit.default_timer())` as an input.  Here the input is the clock READING itself (a
non-negative rational number of seconds, `Reading`) and the conversion to an integer number of
milliseconds at each of the two sites is part of the model (`Conv`, `Conv.apply`), so that a
change of one site only is visible.

What is and is not modelled:
* `timeit.default_timer()` → a `Reading` `num / den` seconds, `den > 0`.  The clock is
  `time.perf_counter`, which is monotonic: the reading taken at the pong is `≥` the one taken at
  the ping.  (That is a hypothesis `t₀ ≤ t₁` of the theorems, not part of the model.)
* `1000 * x` and `int(x)` / `round(x)` are modelled EXACTLY on rationals (`millisFloor`,
  `millisRoundHalfEven`).  In Python the product is a binary64 product, which is rounded; the
  theorems that have to survive that are stated for an arbitrary monotone conversion
  (`Props/C09Clock.lean`, `latency_nonneg_of_same_monotone_conversion` and
  `latency_nonneg_of_monotone_stages`): binary64 multiplication by the positive constant 1000 is
  monotone non-decreasing in the other factor (IEEE-754 rounding is monotone), and so are `int` and
  `round` on floats.
* the server echoes the `time` field of the ping unchanged in its pong (`packet.time` at site 1 is
  the value stamped at site 0).  The field is a signed 64-bit `Long`; the stamped values are far
  below `2^63` for any realistic reading, range errors are not modelled here.

**2. Names at construction** (`Connection.__init__`, nested `proto_version`):
```
def proto_version(version):
    if isinstance(version, str):
        proto_version = SUPPORTED_MINECRAFT_VERSIONS.get(version)
    elif isinstance(version, int):
        proto_version = version
    else:
        proto_version = None
    if proto_version not in SUPPORTED_PROTOCOL_VERSIONS:
        raise ValueError('Unsupported version number: %r.' % version)
    return proto_version
```
`Neg.resolve`/`Neg.ctor` receive only `SUPPORTED_MINECRAFT_VERSIONS`; a lookup in another table
cannot even be expressed there.  `resolveWith`/`ctorWith` receive BOTH name tables
(`SUPPORTED_MINECRAFT_VERSIONS` and `KNOWN_MINECRAFT_VERSIONS`, both imported by `connection.py`)
and a flag `Lookup` saying which dict the `.get` is called on.
-/
namespace PyCraft.C09Clock
open PyCraft

/-! ### Clock readings -/

/-- A non-negative rational clock reading `num / den` (seconds).  `den` is meant to be positive;
the theorems carry `0 < den` as an explicit hypothesis (`Reading.Valid`). -/
structure Reading where
  num : Nat
  den : Nat
deriving DecidableEq, Repr

namespace Reading

/-- The denominator is positive: the pair denotes a rational number. -/
abbrev Valid (t : Reading) : Prop := 0 < t.den

/-- `a ≤ b` as rational numbers (cross-multiplied). -/
protected def le (a b : Reading) : Prop := a.num * b.den ≤ b.num * a.den

instance : LE Reading := ⟨Reading.le⟩

instance (a b : Reading) : Decidable (a ≤ b) :=
  inferInstanceAs (Decidable (a.num * b.den ≤ b.num * a.den))

/-- Equality as rational numbers. -/
def same (a b : Reading) : Prop := a.num * b.den = b.num * a.den

instance (a b : Reading) : Decidable (same a b) :=
  inferInstanceAs (Decidable (a.num * b.den = b.num * a.den))

end Reading

/-! ### The two conversions -/

/-- `⌊1000 · t⌋`: the exact value of `int(1000 * t)` for `t ≥ 0` (`int` truncates toward zero). -/
def millisFloor (t : Reading) : Nat := 1000 * t.num / t.den

/-- The numerator of the fractional part of `1000 · t` over the denominator `t.den`. -/
def millisRem (t : Reading) : Nat := 1000 * t.num % t.den

/-- Does round-half-to-even move `1000 · t` UP to `⌊1000·t⌋ + 1`?  Yes when the fractional part is
above one half, or exactly one half with an odd floor. -/
def roundsUp (t : Reading) : Bool :=
  decide (t.den < 2 * millisRem t) || (decide (2 * millisRem t = t.den) && millisFloor t % 2 == 1)

/-- The exact value of Python 3 `round(1000 * t)` for `t ≥ 0`: nearest integer, ties to even. -/
def millisRoundHalfEven (t : Reading) : Nat :=
  if roundsUp t then millisFloor t + 1 else millisFloor t

/-- The conversions the generator recognises in the source text:
`truncMillis` = `int(1000 * timeit.default_timer())`,
`roundMillis` = `round(1000 * timeit.default_timer())`, `other` = anything else. -/
inductive Conv
  | truncMillis
  | roundMillis
  | other
deriving DecidableEq, Repr

/-- The integer a recognised conversion produces from a reading (`none` for `other`: not
modelled). -/
def Conv.apply : Conv → Reading → Option Int
  | .truncMillis, t => some (millisFloor t)
  | .roundMillis, t => some (millisRoundHalfEven t)
  | .other, _ => none

/-! ### The ping/pong exchange -/

/-- Site 0: the `time` stamped into the `PingPacket` when the reading is `t₀`. -/
def pingStamp (f : Reading → Int) (t₀ : Reading) : Int := f t₀

/-- Site 1: the argument of `handle_ping` when the pong carries `echo` and the reading is `t₁`:
`now - packet.time`. -/
def pongLatency (g : Reading → Int) (echo : Int) (t₁ : Reading) : Int := g t₁ - echo

/-- The latency reported by a status query whose ping is stamped with conversion `f` at reading
`t₀` and whose pong (echoing the stamp) is handled with conversion `g` at reading `t₁`. -/
def latency (f g : Reading → Int) (t₀ t₁ : Reading) : Int :=
  pongLatency g (pingStamp f t₀) t₁

/-- `int(1000 * t)` as an `Int`-valued conversion. -/
def truncConv (t : Reading) : Int := millisFloor t

/-- `round(1000 * t)` as an `Int`-valued conversion. -/
def roundConv (t : Reading) : Int := millisRoundHalfEven t

/-- The latency for two recognised conversions (`none` if either is `other`). -/
def latencyOf (c₀ c₁ : Conv) (t₀ t₁ : Reading) : Option Int :=
  match c₀.apply t₀, c₁.apply t₁ with
  | some s, some n => some (n - s)
  | _, _ => none

/-- The exchange as seen by `Neg.react` (the integer-clock model): the reactor with `do_ping` set
receives the response at reading `t₀` and the pong echoing the stamp at reading `t₁`.  Returns the
action log of the two calls. -/
def reactLog (t₀ t₁ : Reading) (json : String) : List Neg.Act :=
  let r₀ := Neg.react true Neg.StatusSt.init (.response json) (millisFloor t₀)
  let stamp : Int := match r₀.2 with
    | .sendPing s :: _ => s
    | _ => 0
  let r₁ := Neg.react true r₀.1 (.pong stamp) (millisFloor t₁)
  r₀.2 ++ r₁.2

/-! ### Names at construction -/

/-- The dict whose `.get` the `str` branch of `proto_version` calls. -/
inductive Lookup
  | supported   -- SUPPORTED_MINECRAFT_VERSIONS
  | known       -- KNOWN_MINECRAFT_VERSIONS
  | other       -- anything else (not modelled)
deriving DecidableEq, Repr

/-- The tables `Connection.__init__` can see: those of `Neg.VEnv` plus
`KNOWN_MINECRAFT_VERSIONS.items()`. -/
structure VEnv2 where
  base : Neg.VEnv
  knownNames : List (String × Nat)
deriving DecidableEq, Repr

/-- The items of the dict the lookup uses (`none` for an unrecognised one). -/
def VEnv2.table (env : VEnv2) : Lookup → Option (List (String × Nat))
  | .supported => some env.base.supportedNames
  | .known => some env.knownNames
  | .other => none

/-- The `isinstance` dispatch of `proto_version` with the name lookup in the chosen table.
Outer `none`: the lookup is not modelled; inner `none`: Python `None`. -/
def protoOfWith (lk : Lookup) (env : VEnv2) : Neg.VReq → Option (Option Int)
  | .name s => (env.table lk).map fun tbl => (Neg.dictGet tbl s).map Int.ofNat
  | .num n => some (some n)
  | .other => some none

/-- `proto_version(version)` with the name lookup in the chosen table; the membership test is in
`SUPPORTED_PROTOCOL_VERSIONS` in every case.  `Err.other` = the lookup is not modelled. -/
def resolveWith (lk : Lookup) (env : VEnv2) (r : Neg.VReq) : Except Err Nat :=
  match protoOfWith lk env r with
  | none => .error .other
  | some none => .error .value
  | some (some n) =>
    if Neg.inZ n env.base.supportedProtocols then .ok n.toNat else .error .value

/-- `map(proto_version, allowed_versions)` consumed by `set(...)`. -/
def resolveAllWith (lk : Lookup) (env : VEnv2) : List Neg.VReq → Except Err (List Nat)
  | [] => .ok []
  | r :: rs =>
    match resolveWith lk env r with
    | .error e => .error e
    | .ok v =>
      match resolveAllWith lk env rs with
      | .error e => .error e
      | .ok vs => .ok (v :: vs)

/-- `self.allowed_proto_versions`. -/
def allowedSetWith (lk : Lookup) (env : VEnv2) : Option (List Neg.VReq) → Except Err (List Nat)
  | none => .ok (Neg.toSet env.base env.base.supportedProtocols)
  | some reqs =>
    match resolveAllWith lk env reqs with
    | .error e => .error e
    | .ok l => .ok (Neg.toSet env.base l)

/-- `Connection.__init__(…, initial_version=initial, allowed_versions=allowed)` with the name
lookup in the chosen table; same order of evaluation as `Neg.ctor`. -/
def ctorWith (lk : Lookup) (env : VEnv2) (allowed : Option (List Neg.VReq))
    (initial : Option Neg.VReq) : Except Err Neg.Cfg :=
  match allowedSetWith lk env allowed with
  | .error e => .error e
  | .ok al =>
    match Neg.latest env.base al with
    | .error e => .error e
    | .ok lt =>
      match initial with
      | none => .ok ⟨al, lt, lt⟩
      | some r =>
        match resolveWith lk env r with
        | .error e => .error e
        | .ok d => .ok ⟨al, d, lt⟩

end PyCraft.C09Clock
