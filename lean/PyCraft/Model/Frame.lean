import PyCraft.Model.VarInt
import PyCraft.Model.StreamXform
/-!
Model of the packet framing layer.

* writer: `minecraft/networking/packets/packet.py` `Packet.write` / `Packet._write_buffer`
  (`frameBody`, `frame`, `frameSends`), and `EncryptedSocketWrapper.send` (`encSends`);
* reader: `minecraft/networking/connection.py` `PacketReactor.read_packet` (`readVarIntK`,
  `readMoreK`, `readFrameK`, `parseBody`, `readPacketK`, `readAllK`) on top of an unbuffered socket
  file (`Segs.read`) optionally wrapped by `EncryptedFileObjectWrapper` (`Sock.read`).

zlib is a parameter (`ZlibOps`; the law `inflate (deflate x) = some x` is the extra field of
`Zlib`), the cipher is a parameter (`StreamXform`).  Every reader function returns the socket state
together with its result (also when it raises), so that the number of `read` calls can be observed.
-/
namespace PyCraft

/-! ## zlib as a parameter -/

/-- `zlib.compress` and `zlib.decompressobj().decompress` (`none` = `zlib.error`). -/
structure ZlibOps where
  deflate : Bytes → Bytes
  inflate : Bytes → Option Bytes

/-- … together with the one law the proofs use. -/
structure Zlib extends ZlibOps where
  rt : ∀ x, inflate (deflate x) = some x

/-- The trivial instance (store, don't compress): shows the law is satisfiable; used in the
non-vacuity examples. -/
def Zlib.ident : Zlib where
  deflate := fun x => x
  inflate := fun x => some x
  rt := fun _ => rfl

/-! ## the writer -/

/-- `Packet._write_buffer`, first half: what is put behind the outer length prefix.
`if len(payload) > threshold != -1` is Python's chained comparison
`len(payload) > threshold and threshold != -1`. -/
def frameBody (z : ZlibOps) (thr : Option Int) (payload : Bytes) : Bytes :=
  match thr with
  | some t =>
    if (payload.length : Int) > t ∧ t ≠ -1 then
      encVarInt payload.length ++ z.deflate payload
    else
      encVarInt 0 ++ payload
  | none => payload

/-- Does `_write_buffer` take the `compress` branch?  (Used by the driver to know whether
`deflate` is called at all; `frameBody_compressesAt` ties it to `frameBody`.) -/
def compressesAt (thr : Option Int) (len : Nat) : Bool :=
  match thr with
  | some t => decide ((len : Int) > t ∧ t ≠ -1)
  | none => false

/-- `Packet._write_buffer`, second half: the two `send` calls. -/
def frameSends (z : ZlibOps) (thr : Option Int) (payload : Bytes) : List Bytes :=
  let body := frameBody z thr payload
  [encVarInt body.length, body]

/-- The bytes of one frame on the wire. -/
def frame (z : ZlibOps) (thr : Option Int) (payload : Bytes) : Bytes :=
  let body := frameBody z thr payload
  encVarInt body.length ++ body

/-- `Packet.write`: the buffer starts with `VarInt(id)`, then the fields. -/
def packetPayload (id : Nat) (fields : Bytes) : Bytes := encVarInt id ++ fields

/-- The frame of a packet given as (id, field bytes). -/
def packetFrame (z : ZlibOps) (thr : Option Int) (p : Nat × Bytes) : Bytes :=
  frame z thr (packetPayload p.1 p.2)

/-- The explicit guard of the round-trip theorems: the packet id, the payload length (written as
the data-length field when compressing) and the frame body length (written as the outer length
prefix) must be decodable by the reader's `VarInt.read`, i.e. `< 2^42` — the `max_bytes = 5` loop
accepts up to six bytes (C03).  In particular every id `< 2^32` and every length `< 2^35` passes. -/
def FrameOK (z : ZlibOps) (thr : Option Int) (p : Nat × Bytes) : Prop :=
  p.1 < 2 ^ 42 ∧ (packetPayload p.1 p.2).length < 2 ^ 42 ∧
    (frameBody z thr (packetPayload p.1 p.2)).length < 2 ^ 42

instance (z : ZlibOps) (thr : Option Int) (p : Nat × Bytes) : Decidable (FrameOK z thr p) := by
  unfold FrameOK; exact inferInstance

/-- `EncryptedSocketWrapper.send` applied to a sequence of `send` calls: each chunk goes through
`encryptor.update`, the cipher context is carried along. -/
def encSends {σ : Type} (x : StreamXform σ) : σ → List Bytes → σ × List Bytes
  | s, [] => (s, [])
  | s, d :: ds =>
    let r := x.update s d
    let q := encSends x r.1 ds
    (q.1, r.2 :: q.2)

/-! ## the byte source -/

/-- Arrival segments of the TCP stream in order (empty segments allowed and skipped); the end of
the list is the end of the stream. -/
abbrev Segs := List Bytes

/-- `SocketIO.read(n)` on the unbuffered `makefile("rb", 0)`: up to `n` bytes of what has arrived
(never across two arrival segments); `b''` iff `n = 0` or the stream is exhausted. -/
def Segs.read : Segs → Nat → Bytes × Segs
  | [], _ => ([], [])
  | [] :: rest, n => Segs.read rest n
  | (b :: bs) :: rest, n =>
    if n ≥ (b :: bs).length then (b :: bs, rest)
    else ((b :: bs).take n, (b :: bs).drop n :: rest)

/-- The reader's view of the connection: remaining arrival segments (cipher text when encrypted),
the decryptor context, and two counters — `read` calls issued, `read` calls that returned `b''`. -/
structure Sock (σ : Type) where
  segs : Segs
  st : σ
  reads : Nat
  empties : Nat

/-- `EncryptedFileObjectWrapper.read(n) = decryptor.update(actual_file_object.read(n))`.
The plain file object is the instance `idXform`. -/
def Sock.read {σ : Type} (x : StreamXform σ) (k : Sock σ) (n : Nat) : Bytes × Sock σ :=
  let r := Segs.read k.segs n
  let d := x.update k.st r.1
  (d.2, { segs := r.2, st := d.1, reads := k.reads + 1,
          empties := if d.2.isEmpty then k.empties + 1 else k.empties })

/-- No cipher: `update` is the identity. -/
def idXform : StreamXform Unit where
  update := fun s b => (s, b)
  len := fun _ _ => rfl
  chunk := fun _ _ _ => rfl

/-- A fresh plain socket. -/
def Sock.plain (s : Segs) : Sock Unit := { segs := s, st := (), reads := 0, empties := 0 }

/-- A fresh encrypted socket whose decryptor context is `s0`. -/
def Sock.enc {σ : Type} (s0 : σ) (s : Segs) : Sock σ :=
  { segs := s, st := s0, reads := 0, empties := 0 }

/-! ## the reader -/

/-- `VarInt.read(stream)` on the socket: ONE byte per `read` call.  `be` = `bytes_encountered`,
`acc` = `number`, `mx` = `max_bytes`. -/
def readVarIntK {σ : Type} (x : StreamXform σ) (mx : Nat) (be acc : Nat) (k : Sock σ) :
    Except Err Nat × Sock σ :=
  let r := k.read x 1
  match r.1 with
  | [] => (.error .eof, r.2)
  | b :: _ =>
    let acc' := acc ||| ((b.toNat &&& 0x7F) <<< (7 * be))
    if b.toNat &&& 0x80 = 0 then (.ok acc', r.2)
    else if _h : be + 1 > mx then (.error .tooLong, r.2)
    else readVarIntK x mx (be + 1) acc' r.2
termination_by mx + 1 - be
decreasing_by omega

/-- `while len(data) < length: chunk = stream.read(length - len(data)); if not chunk: raise
EOFError; data += chunk`. -/
def readMoreK {σ : Type} (x : StreamXform σ) (length : Nat) (data : Bytes) (k : Sock σ) :
    Except Err Bytes × Sock σ :=
  if _h : data.length < length then
    let r := k.read x (length - data.length)
    if _hr : r.1 = [] then (.error .eof, r.2)
    else readMoreK x length (data ++ r.1) r.2
  else (.ok data, k)
termination_by length - data.length
decreasing_by
  have : 0 < (k.read x (length - data.length)).1.length := List.length_pos_iff.mpr _hr
  simp only [List.length_append]
  omega

/-- `length = VarInt.read(stream); data = stream.read(length);` then the reassembly loop. -/
def readFrameK {σ : Type} (x : StreamXform σ) (k : Sock σ) : Except Err Bytes × Sock σ :=
  match readVarIntK x 5 0 0 k with
  | (.error e, k) => (.error e, k)
  | (.ok length, k) =>
    let r := k.read x length
    readMoreK x length r.1 r.2

/-- What `read_packet` does with the complete frame body in its `PacketBuffer`: optional
data-length + inflate + size assertion, then the id VarInt; the rest is the packet's field bytes
(handed to `packet.read`, or left unread for an unknown id). -/
def parseBody (z : ZlibOps) (compressed : Bool) (data : Bytes) : Except Err (Nat × Bytes) :=
  let inner : Except Err Bytes :=
    if compressed then
      match decVarInt 5 data with
      | .error e => .error e
      | .ok (dataLength, rest) =>
        if dataLength > 0 then
          match z.inflate rest with
          | none => .error .zlib
          | some d => if d.length = dataLength then .ok d else .error .assertion
        else .ok rest
    else .ok data
  match inner with
  | .error e => .error e
  | .ok buf => decVarInt 5 buf

/-- `PacketReactor.read_packet` (with the stream readable): (packet id, bytes after the id). -/
def readPacketK {σ : Type} (x : StreamXform σ) (z : ZlibOps) (compressed : Bool) (k : Sock σ) :
    Except Err (Nat × Bytes) × Sock σ :=
  match readFrameK x k with
  | (.error e, k) => (.error e, k)
  | (.ok data, k) => (parseBody z compressed data, k)

/-- The networking loop: call `read_packet` until it raises; result = packets delivered, the
exception, the final socket state.  `fuel` bounds the number of calls; `readAllK` supplies
(bytes remaining + 1), which is never exhausted (`readAllK_fuel_free`). -/
def readAllFuel {σ : Type} (x : StreamXform σ) (z : ZlibOps) (compressed : Bool) :
    Nat → Sock σ → (List (Nat × Bytes) × Err) × Sock σ
  | 0, k => (([], .other), k)
  | fuel + 1, k =>
    match readPacketK x z compressed k with
    | (.error e, k') => (([], e), k')
    | (.ok p, k') =>
      let r := readAllFuel x z compressed fuel k'
      ((p :: r.1.1, r.1.2), r.2)

def readAllK {σ : Type} (x : StreamXform σ) (z : ZlibOps) (compressed : Bool) (k : Sock σ) :
    (List (Nat × Bytes) × Err) × Sock σ :=
  readAllFuel x z compressed (k.segs.flatten.length + 1) k

/-! ## plain-signature views -/

/-- `VarInt.read(stream)` with `max_bytes = mx` on a plain stream. -/
def readVarIntS (mx : Nat) (s : Segs) : Except Err (Nat × Segs) :=
  match readVarIntK idXform mx 0 0 (Sock.plain s) with
  | (.ok v, k) => .ok (v, k.segs)
  | (.error e, _) => .error e

/-- `stream.read(n)` followed by the reassembly loop, on a plain stream. -/
def readExact (s : Segs) (n : Nat) : Except Err (Bytes × Segs) :=
  let r := (Sock.plain s).read idXform n
  match readMoreK idXform n r.1 r.2 with
  | (.ok d, k) => .ok (d, k.segs)
  | (.error e, _) => .error e

/-- `read_packet` on a plain stream. -/
def readPacket (z : ZlibOps) (compressed : Bool) (s : Segs) :
    Except Err ((Nat × Bytes) × Segs) :=
  match readPacketK idXform z compressed (Sock.plain s) with
  | (.ok p, k) => .ok (p, k.segs)
  | (.error e, _) => .error e

/-- All packets delivered from a plain stream, and the exception that ended the loop. -/
def readAll (z : ZlibOps) (compressed : Bool) (s : Segs) : List (Nat × Bytes) × Err :=
  (readAllK idXform z compressed (Sock.plain s)).1

/-- `read_packet` through `EncryptedFileObjectWrapper` with decryptor context `s0`; the returned
context is the one after the call. -/
def readPacketEnc {σ : Type} (dec : StreamXform σ) (s0 : σ) (z : ZlibOps) (compressed : Bool)
    (s : Segs) : Except Err ((Nat × Bytes) × σ × Segs) :=
  match readPacketK dec z compressed (Sock.enc s0 s) with
  | (.ok p, k) => .ok (p, k.st, k.segs)
  | (.error e, _) => .error e

/-- All packets delivered from an encrypted stream. -/
def readAllEnc {σ : Type} (dec : StreamXform σ) (s0 : σ) (z : ZlibOps) (compressed : Bool)
    (s : Segs) : List (Nat × Bytes) × Err :=
  (readAllK dec z compressed (Sock.enc s0 s)).1

end PyCraft
