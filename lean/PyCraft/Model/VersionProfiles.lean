import PyCraft.Generated.Ids
import PyCraft.Generated.Layouts
import PyCraft.Generated.Versions
import PyCraft.Generated.VersionProfiles
import PyCraft.Model.PlayWire
import PyCraft.Model.LoginWire
import PyCraft.Model.SessionWire
/-!
Protocol version ↦ the version-dependent PARAMETERS of the byte-level play and login models.

`Model/PlayWire.lean` takes a `Profile` (six packet ids, the switches `kaLong`, `newer107`,
`dismount`, the other known ids), `Model/LoginWire.lean` an `Ids` (encryption response / plugin
response), `Model/HandshakeWire.lean` the login-start id `lsId`.  In pyCraft these are not
parameters: they are what the packet classes and reactors compute from
`connection.context.protocol_version`.  This file defines that map from the TABULATED live code:

* `Gen.cbPlay`/`sbPlay`/`cbLogin`/`sbLogin` (`Generated/Ids.lean`): `get_packets(ctx)` and
  `get_id(ctx)` for every known version (with the `supported` flag);
* `Gen.cbPlayNames`/`cbLoginNames` (`Generated/VersionProfiles.lean`): class ↦ `packet_name`;
* `Gen.playProbe`/`loginProbe` (same file): what the real `PlayingReactor.react` /
  `LoginReactor.react` and the `read`/`write` of the packets involved DID under every supported
  version on reference inputs;
* `Gen.*Layouts` (`Generated/Layouts.lean`): `get_definition(ctx)` (`layoutAt`), used by the
  layout theorems.

A supported version's facts are ONE row of each table: `playRows`/`loginRows` put the i-th
supported row of the clientbound table, of the serverbound table and the i-th probe row side by
side (all three lists are in chronological order; `profileOfRow` refuses a row whose three
version numbers differ).

What mirrors which Python:

* `dispatchIn cb names name` — `PacketReactor.__init__` (`connection.py`, `self.clientbound_packets
  = {packet.get_id(context): packet for packet in get_clientbound_packets(context)}`) followed by
  the tests `packet.packet_name == "…"` of `react`: the reaction named `name` is triggered by THE
  class of the row with that `packet_name`, under its id.  `none` when there is no such class or
  more than one, or its id is missing/negative.
* ids of the replies — the reactor instantiates `serverbound.play.KeepAlivePacket`,
  `TeleportConfirmPacket`, `PositionAndLookPacket` by CLASS (`connection.py:809-826`), so these are
  looked up by class name in the serverbound row; `TeleportConfirmPacket` is only registered (and
  only used) from 107 on — for older versions `teleportConfirmSb` is the unused value 0.
* the three switches — BEHAVIOUR, as observed by the probe:
  `kaLong` = `KeepAlivePacket.read` consumed a signed Long and the reply was written as those eight
  bytes (both must agree; `keep_alive_packet.py:10-13`); `newer107`/`dismount` = what
  `PlayerPositionAndLookPacket.read` consumed (`player_position_and_look_packet.py:29-40`).
  The SECOND, independent test `protocol_later_eq(107)` in `PlayingReactor.react`
  (`connection.py:814`) is the probe's `ackKind`; `rowOk` demands that it agrees with the reader's.
  The declared layouts (`get_definition`) are tied to the same switch points in
  `Props/VersionProfiles.lean` (`declared_layouts_switch_with_the_profile`, via `Lemmas`' `layouts_at`).
* `loginProfileOfRow` — `EncryptionResponsePacket.get_id`, `PluginResponsePacket.get_id`,
  `LoginStartPacket.get_id` (`serverbound/login/__init__.py`) and the clientbound login ids.
  Before 385 no plugin response is registered and no plugin request can be decoded
  (`clientbound/login/__init__.py:16-19`); the id recorded there is the one the class WOULD be
  written with (the probe's `plugRespId`), which the login model never uses on a script Python can
  decode.

Everything here is computable data and Bool-valued checks; the kernel evaluates them on every
supported version in `Lemmas/VersionProfiles.lean`.
-/
namespace PyCraft.VersionProfiles
open PyCraft PyCraft.PlayWire

/-- The `(class, id?)` entries of one table row. -/
abbrev Ents := List (String × Option Int)

/-- A declarative layout: `(field name, wire type)` in order. -/
abbrev Layout := List (String × WType)

/-- A non-negative integer id as a natural number (`none`: `get_id` raised, returned a non-integer,
or a negative number). -/
def natOfId : Option Int → Option Nat
  | some (Int.ofNat n) => some n
  | _ => none

/-- The id a row registers for class `cls` (`none`: not registered, or no usable id). -/
def idIn (row : Ents) (cls : String) : Option Nat :=
  match row.lookup cls with
  | some i => natOfId i
  | none => none

/-- The usable ids of a row, one per entry that has one. -/
def natIds (row : Ents) : List Nat := row.filterMap fun e => natOfId e.2

/-- How many entries of a row carry id `i`. -/
def countId (row : Ents) (i : Nat) : Nat := ((natIds row).filter (fun j => Nat.beq j i)).length

/-- `cls.get_definition(ctx)` under version `v` (`none`: hand-written codec, or no definition):
the layout of the first variant whose version list contains `v`. -/
def layoutAt (tab : List Gen.LayoutRow) (cls : String) (v : Nat) : Option Layout :=
  match tab.lookup cls with
  | none => none
  | some variants =>
    match variants.find? (fun x => x.2.contains v) with
    | some x => x.1
    | none => none

/-- The classes whose `packet_name` is `name`. -/
def classesNamed (names : List (String × String)) (name : String) : List String :=
  (names.filter fun e => e.2 == name).map (·.1)

/-- The entries of a clientbound row whose class has `packet_name = name`. -/
def namedIn (cb : Ents) (names : List (String × String)) (name : String) : Ents :=
  cb.filter fun e => (classesNamed names name).contains e.1

/-- THE class (and its id) the reactor's table dispatches to the reaction `name`. -/
def dispatchIn (cb : Ents) (names : List (String × String)) (name : String) :
    Option (String × Nat) :=
  match namedIn cb names name with
  | [(c, i)] => (natOfId i).map fun n => (c, n)
  | _ => none

def zip3 {α β γ : Type} : List α → List β → List γ → List (α × β × γ)
  | a :: as, b :: bs, c :: cs => (a, b, c) :: zip3 as bs cs
  | _, _, _ => []

/-- The rows of an id table that belong to supported versions. -/
def supportedRows (tab : List Gen.IdRow) : List Gen.IdRow := tab.filter (·.2.1)

/-! ### play -/

/-- Everything the tables say about the play state of one supported version. -/
structure PlayRow where
  /-- `clientbound.play.get_packets(ctx)` with `get_id(ctx)`. -/
  cb : Gen.IdRow
  /-- `serverbound.play.get_packets(ctx)` with `get_id(ctx)`. -/
  sb : Gen.IdRow
  /-- what the real reactor did. -/
  pr : Gen.PlayProbe

def PlayRow.v (r : PlayRow) : Nat := r.cb.1

def playRowsOf (cb sb : List Gen.IdRow) (pr : List Gen.PlayProbe) : List PlayRow :=
  (zip3 (supportedRows cb) (supportedRows sb) pr).map fun t => ⟨t.1, t.2.1, t.2.2⟩

/-- The live tables, row by row. -/
def playRows : List PlayRow := playRowsOf Gen.cbPlay Gen.sbPlay Gen.playProbe

def playRowAt (v : Nat) : Option PlayRow := playRows.find? (fun r => r.v == v)

/-- The packet names `PlayingReactor.react` tests for and the play model reacts to. -/
def reactedNames : List String := ["keep alive", "player position and look", "disconnect"]

/-- The remaining known clientbound packets: `(id, packet_name)`. -/
def othersOf (cb : Ents) (names : List (String × String)) : List (Nat × String) :=
  cb.filterMap fun e =>
    match names.lookup e.1, natOfId e.2 with
    | some n, some i => if reactedNames.contains n then none else some (i, n)
    | _, _ => none

/-- The keep-alive width the real code used: reader and writer must agree. -/
def kaLongOfProbe (pr : Gen.PlayProbe) : Option Bool :=
  if pr.kaRead = 1 ∧ pr.kaWrite = 1 then some true
  else if pr.kaRead = 0 ∧ pr.kaWrite = 0 then some false
  else none

/-- The optional fields the real `PlayerPositionAndLookPacket.read` consumed:
(teleport id, dismount flag). -/
def posFlagsOfProbe (pr : Gen.PlayProbe) : Option (Bool × Bool) :=
  if pr.posRead = 0 then some (false, false)
  else if pr.posRead = 1 then some (true, false)
  else if pr.posRead = 2 then some (true, true)
  else none

/-- The id of the teleport confirm: looked up when the version has teleport ids, else the unused
value 0 (`TeleportConfirmPacket` is not registered before 107). -/
def tcOf (newer : Bool) (sb : Ents) : Option Nat :=
  if newer then idIn sb "TeleportConfirmPacket" else some 0

/-- The id under which a list of known packets has one named "set compression" (the name
`PlayingReactor.react` tests for first). -/
def setCompIn (others : List (Nat × String)) : Option Nat :=
  (others.find? (fun e => e.2 == "set compression")).map (·.1)

/-- The play profile one row determines (`none`: it does not determine one — the three version
numbers differ, a reacted name without a unique class, reader and writer of the keep-alive id
disagreeing, an id missing, …). -/
def profileOfRow (names : List (String × String)) (r : PlayRow) : Option Profile := do
  let ka ← dispatchIn r.cb.2.2 names "keep alive"
  let pos ← dispatchIn r.cb.2.2 names "player position and look"
  let disc ← dispatchIn r.cb.2.2 names "disconnect"
  let kaLong ← kaLongOfProbe r.pr
  let flags ← posFlagsOfProbe r.pr
  let kaSb ← idIn r.sb.2.2 "KeepAlivePacket"
  let posLookSb ← idIn r.sb.2.2 "PositionAndLookPacket"
  let tc ← tcOf flags.1 r.sb.2.2
  if r.sb.1 = r.v ∧ r.pr.v = r.v ∧ r.cb.2.1 = true ∧ r.sb.2.1 = true then
    some { kaCb := ka.2, kaSb := kaSb, posLookCb := pos.2, teleportConfirmSb := tc,
           posLookSb := posLookSb, disconnectCb := disc.2, kaLong := kaLong, newer107 := flags.1,
           dismount := flags.2, others := othersOf r.cb.2.2 names,
           setCompressionCb := setCompIn (othersOf r.cb.2.2 names) }
  else none

/-- Version ↦ play profile. -/
def profileOf (v : Nat) : Option Profile := (playRowAt v).bind (profileOfRow Gen.cbPlayNames)

/-- The id under which the profile knows a packet named "set compression". -/
def setCompOf (P : Profile) : Option Nat := setCompIn P.others

/-- Each id the reactor reacts to is carried by exactly one class of the clientbound row (so the
dict `{get_id: class}` holds that class under it whatever the set iteration order), and each id it
writes by exactly one class of the serverbound row. -/
def unshared (r : PlayRow) (P : Profile) : Bool :=
  countId r.cb.2.2 P.kaCb == 1 && countId r.cb.2.2 P.posLookCb == 1 &&
    countId r.cb.2.2 P.disconnectCb == 1 && countId r.sb.2.2 P.kaSb == 1 &&
    countId r.sb.2.2 P.ackSb == 1

/-- No other known clientbound packet carries an id the reactor reacts to. -/
def othersDisjoint (P : Profile) : Bool :=
  P.others.all fun e => e.1 != P.kaCb && e.1 != P.posLookCb && e.1 != P.disconnectCb

/-- What the real reactor did is what the profile says: same dispatch ids; the position-and-look
acknowledged by a teleport confirm exactly when its READER found a teleport id (the reactor's own
version test agrees with the packet's); the replies written with the profile's ids; the
disconnect reaction. -/
def behaviourOk (P : Profile) (pr : Gen.PlayProbe) : Bool :=
  pr.kaCb == P.kaCb && pr.kaSb == P.kaSb && pr.posCb == P.posLookCb && pr.ackSb == P.ackSb &&
    pr.ackKind == (if P.newer107 then 1 else 0) && pr.discCb == P.disconnectCb &&
    pr.discKind == 1 && pr.setComp == setCompOf P

/-- All per-row play checks. -/
def rowOk (r : PlayRow) (P : Profile) : Bool :=
  P.cbDistinct && P.sbDistinct && unshared r P && othersDisjoint P && behaviourOk P r.pr &&
    (!P.dismount || P.newer107) && P.teleportConfirmSb == 0

def playRowOk (names : List (String × String)) (r : PlayRow) : Bool :=
  match profileOfRow names r with
  | some P => rowOk r P
  | none => false

/-- `flags` is `false` before the (first) position of `b` in `vs` and `true` from it on; `b` occurs
in `vs` and the lists have the same length. -/
def stepUp : List Nat → List Bool → Nat → Bool
  | v :: vs, f :: fs, b =>
    if v == b then f && fs.all id && fs.length == vs.length else !f && stepUp vs fs b
  | _, _, _ => false

/-- `flags` is `true` up to and including the (first) position of `b` in `vs` and `false` behind
it. -/
def stepDown : List Nat → List Bool → Nat → Bool
  | v :: vs, f :: fs, b =>
    if v == b then f && fs.all (!·) && fs.length == vs.length else f && stepDown vs fs b
  | _, _, _ => false

/-- The switch points along the chronological list of supported versions: Long keep-alive ids from
339 on, teleport ids from 107 on, the dismount flag from 755 on, and a play-state "set compression"
packet up to 47. -/
def playSwitchesOk (rows : List PlayRow) : Bool :=
  let vs := rows.map (·.v)
  stepUp vs (rows.map fun r => r.pr.kaRead == 1) 339 &&
    stepUp vs (rows.map fun r => r.pr.posRead != 0) 107 &&
    stepUp vs (rows.map fun r => r.pr.posRead == 2) 755 &&
    stepDown vs (rows.map fun r => r.pr.setComp.isSome) 47

/-- The whole play check: the rows are those of the supported versions, in order; every row
determines a profile that passes `rowOk`; the switches are where they belong. -/
def playTablesOk (T : Tables) (names : List (String × String)) (rows : List PlayRow) : Bool :=
  rows.map (·.v) == T.supportedProtocols && rows.all (playRowOk names) && playSwitchesOk rows

/-- A play-state "set compression" packet (`SrvPkt.setCompression`; the profile carries its id as
`setCompressionCb`, which for the live profiles is the id the table has under that name:
`setCompOf`).  `Model/PlayWire.lean` models the reaction of `PlayingReactor.react` to it (threshold and
compression switched for both directions from the next frame on); the ONE-threshold session of
`Model/SessionWire.lean` does not, so statements about whole sessions exclude it.  Only protocols up
to 47 know such a packet (`playSwitchesOk`). -/
def isSetCompression (p : SrvPkt) : Bool := p.isSetCompression

/-! ### login -/

structure LoginRow where
  cb : Gen.IdRow
  sb : Gen.IdRow
  pr : Gen.LoginProbe

def LoginRow.v (r : LoginRow) : Nat := r.cb.1

def loginRowsOf (cb sb : List Gen.IdRow) (pr : List Gen.LoginProbe) : List LoginRow :=
  (zip3 (supportedRows cb) (supportedRows sb) pr).map fun t => ⟨t.1, t.2.1, t.2.2⟩

def loginRows : List LoginRow := loginRowsOf Gen.cbLogin Gen.sbLogin Gen.loginProbe

def loginRowAt (v : Nat) : Option LoginRow := loginRows.find? (fun r => r.v == v)

/-- The version-dependent facts of the login state the models use. -/
structure LoginProfile where
  /-- `LoginStartPacket.get_id` (`HsWire`'s `lsId`). -/
  lsId : Nat
  /-- `EncryptionResponsePacket.get_id`, `PluginResponsePacket.get_id` (`LoginWire.Ids`). -/
  ids : LoginWire.Ids
  /-- Is a plugin response registered and a plugin request decodable. -/
  plugin : Bool
  /-- Clientbound ids by reaction: disconnect, encryption request, login success, set compression,
  login plugin request. -/
  discCb : Nat
  encReqCb : Nat
  successCb : Nat
  setCompCb : Nat
  plugReqCb : Option Nat
  /-- `LoginSuccessPacket.read` takes the UUID as 16 bytes (from 707 on) rather than a `String`. -/
  uuidBinary : Bool
deriving Repr, DecidableEq

/-- Which UUID format the real `LoginSuccessPacket.read` accepted. -/
def uuidOfProbe (pr : Gen.LoginProbe) : Option Bool :=
  if pr.successKind = 1 then some true else if pr.successKind = 0 then some false else none

/-- The login profile one row determines. -/
def loginProfileOfRow (names : List (String × String)) (r : LoginRow) : Option LoginProfile := do
  let disc ← dispatchIn r.cb.2.2 names "disconnect"
  let encReq ← dispatchIn r.cb.2.2 names "encryption request"
  let succ ← dispatchIn r.cb.2.2 names "login success"
  let setc ← dispatchIn r.cb.2.2 names "set compression"
  let plugReq := dispatchIn r.cb.2.2 names "login plugin request"
  let ls ← idIn r.sb.2.2 "LoginStartPacket"
  let enc ← idIn r.sb.2.2 "EncryptionResponsePacket"
  let plug := idIn r.sb.2.2 "PluginResponsePacket"
  let uuid ← uuidOfProbe r.pr
  if r.sb.1 = r.v ∧ r.pr.v = r.v ∧ r.cb.2.1 = true ∧ r.sb.2.1 = true ∧
      (namedIn r.cb.2.2 names "login plugin request" = [] ∨ plugReq.isSome) ∧
      plugReq.isSome = plug.isSome then
    some { lsId := ls, ids := ⟨enc, plug.getD r.pr.plugRespId⟩, plugin := plug.isSome,
           discCb := disc.2, encReqCb := encReq.2, successCb := succ.2, setCompCb := setc.2,
           plugReqCb := plugReq.map (·.2), uuidBinary := uuid }
  else none

/-- Version ↦ login profile. -/
def loginProfileOf (v : Nat) : Option LoginProfile :=
  (loginRowAt v).bind (loginProfileOfRow Gen.cbLoginNames)

/-- Version ↦ the parameters of `Model/LoginWire.lean` and `Model/HandshakeWire.lean`. -/
def idsAt (v : Nat) : Option LoginWire.Ids := (loginProfileOf v).map (·.ids)
def lsIdAt (v : Nat) : Option Nat := (loginProfileOf v).map (·.lsId)

/-- A session (`Model/SessionWire.lean`) whose version-dependent parameters are the ones protocol
`v` determines: negotiated protocol `v`, and login-start id, login ids and play profile as the
code computes them under `v`. -/
def AtVersion (S : Session.Session) (v : Nat) : Prop :=
  S.proto = v ∧ lsIdAt v = some S.lsId ∧ idsAt v = some S.ids ∧ profileOf v = some S.profile

/-- The three numberings of the login packets: before 385 (no plugin packets), the 1.13 snapshots
385–390 (plugin packets inserted at id 0), and from 391 on (plugin packets appended). -/
def loginShapeOk (L : LoginProfile) : Bool :=
  if L.plugin && L.lsId == 0 then
    L.ids == ⟨1, 2⟩ && L.discCb == 0 && L.encReqCb == 1 && L.successCb == 2 &&
      L.setCompCb == 3 && L.plugReqCb == some 4
  else if L.plugin then
    L.lsId == 1 && L.ids == ⟨2, 0⟩ && L.discCb == 1 && L.encReqCb == 2 && L.successCb == 3 &&
      L.setCompCb == 4 && L.plugReqCb == some 0
  else
    L.lsId == 0 && L.ids.encResp == 1 && L.discCb == 0 && L.encReqCb == 1 &&
      L.successCb == 2 && L.setCompCb == 3 && L.plugReqCb == none

/-- What the real login reactor did is what the profile says. -/
def loginBehaviourOk (L : LoginProfile) (pr : Gen.LoginProbe) : Bool :=
  pr.lsId == L.lsId && pr.discCb == L.discCb && pr.encReqCb == L.encReqCb &&
    pr.successCb == L.successCb && pr.setCompCb == L.setCompCb && pr.plugReqCb == L.plugReqCb &&
    pr.encResp == L.ids.encResp && pr.encKind == 1 && pr.plugRespId == L.ids.plugResp &&
    pr.plugReact == (if L.plugin then some L.ids.plugResp else none) &&
    pr.plugKind == (if L.plugin then 1 else 0) && pr.setCompKind == 1

/-- The ids in use are pairwise distinct and carried by one class each. -/
def loginDistinct (r : LoginRow) (L : LoginProfile) : Bool :=
  L.ids.encResp != L.ids.plugResp && L.lsId != L.ids.encResp &&
    (!L.plugin || L.lsId != L.ids.plugResp) &&
    countId r.sb.2.2 L.lsId == 1 && countId r.sb.2.2 L.ids.encResp == 1 &&
    (!L.plugin || countId r.sb.2.2 L.ids.plugResp == 1) &&
    countId r.cb.2.2 L.discCb == 1 && countId r.cb.2.2 L.encReqCb == 1 &&
    countId r.cb.2.2 L.successCb == 1 && countId r.cb.2.2 L.setCompCb == 1 &&
    (L.plugReqCb.all fun i => countId r.cb.2.2 i == 1) && decide (L.lsId < 2 ^ 32)

def loginRowOk (names : List (String × String)) (r : LoginRow) : Bool :=
  match loginProfileOfRow names r with
  | some L => loginShapeOk L && loginBehaviourOk L r.pr && loginDistinct r L
  | none => false

/-- The switch points of the login state: plugin packets from 385 on, the final numbering from 391
on, the binary UUID from 707 on. -/
def loginSwitchesOk (rows : List LoginRow) : Bool :=
  let vs := rows.map (·.v)
  stepUp vs (rows.map fun r => r.pr.plugReqCb.isSome) 385 &&
    stepUp vs (rows.map fun r => r.pr.plugReqCb.isSome && r.pr.lsId == 0) 391 &&
    stepUp vs (rows.map fun r => r.pr.successKind == 1) 707

def loginTablesOk (T : Tables) (names : List (String × String)) (rows : List LoginRow) : Bool :=
  rows.map (·.v) == T.supportedProtocols && rows.all (loginRowOk names) && loginSwitchesOk rows

/-! ### the declared layouts (`get_definition`) behind the hand-written field codecs -/

/-- The six fields every clientbound position-and-look has. -/
def posBase : Layout :=
  [("x", .int .f64), ("y", .int .f64), ("z", .int .f64), ("yaw", .int .f32), ("pitch", .int .f32),
   ("flags", .int .i8)]

def discLayout : Layout := [("json_data", .string)]
def echoLayout : Layout :=
  [("x", .int .f64), ("feet_y", .int .f64), ("z", .int .f64), ("yaw", .int .f32),
   ("pitch", .int .f32), ("on_ground", .bool)]
def tcLayout : Layout := [("teleport_id", .varint)]
def encRespLayout : Layout := [("shared_secret", .bytesVarint), ("verify_token", .bytesVarint)]
def encReqLayout : Layout :=
  [("server_id", .string), ("public_key", .bytesVarint), ("verify_token", .bytesVarint)]
def loginStartLayout : Layout := [("name", .string)]
def setCompLayout : Layout := [("threshold", .varint)]
def plugReqLayout : Layout := [("message_id", .varint), ("channel", .string), ("data", .trailing)]

/-- The known versions before `b` / from `b` on, in chronological order. -/
def before (K : List Nat) (b : Nat) : List Nat := K.takeWhile (· != b)
def since (K : List Nat) (b : Nat) : List Nat := K.dropWhile (· != b)

/-- The layout variants the play and login models rely on, as the extractor lists them (each with
the chronological list of the versions using it): one layout throughout for the fixed packets, and
for the four version-dependent ones a switch exactly at 339 (both keep-alive classes), at 107 and
755 (position-and-look) and at 707 (login success); teleport confirm exists from 107 on, the login
plugin request from 385 on (its response has a hand-written codec). -/
def layoutVariantsOk (K : List Nat) : Bool :=
  let ka : List (Option Layout × List Nat) :=
    [(some [("keep_alive_id", .varint)], before K 339), (some [("keep_alive_id", .int .i64)], since K 339)]
  Gen.cbPlayLayouts.lookup "KeepAlivePacket" == some ka &&
  Gen.sbPlayLayouts.lookup "KeepAlivePacket" == some ka &&
  Gen.cbPlayLayouts.lookup "PlayerPositionAndLookPacket" ==
    some [(some posBase, before K 107),
          (some (posBase ++ [("teleport_id", .varint)]), before (since K 107) 755),
          (some (posBase ++ [("teleport_id", .varint), ("dismount_vehicle", .bool)]),
            since (since K 107) 755)] &&
  Gen.cbPlayLayouts.lookup "DisconnectPacket" == some [(some discLayout, K)] &&
  Gen.sbPlayLayouts.lookup "PositionAndLookPacket" == some [(some echoLayout, K)] &&
  Gen.sbPlayLayouts.lookup "TeleportConfirmPacket" == some [(some tcLayout, since K 107)] &&
  Gen.cbLoginLayouts.lookup "DisconnectPacket" == some [(some discLayout, K)] &&
  Gen.cbLoginLayouts.lookup "EncryptionRequestPacket" == some [(some encReqLayout, K)] &&
  Gen.cbLoginLayouts.lookup "SetCompressionPacket" == some [(some setCompLayout, K)] &&
  Gen.cbLoginLayouts.lookup "PluginRequestPacket" == some [(some plugReqLayout, since K 385)] &&
  Gen.cbLoginLayouts.lookup "LoginSuccessPacket" ==
    some [(some [("UUID", .string), ("Username", .string)], before K 707),
          (some [("UUID", .uuid), ("Username", .string)], since K 707)] &&
  Gen.sbLoginLayouts.lookup "LoginStartPacket" == some [(some loginStartLayout, K)] &&
  Gen.sbLoginLayouts.lookup "EncryptionResponsePacket" == some [(some encRespLayout, K)] &&
  Gen.sbLoginLayouts.lookup "PluginResponsePacket" == some [(none, since K 385)]

/-! ### models of three seeded code changes (for the negative witnesses)

Each is what the generator emits when run on a copy of /repo with the change applied (checked with
`PYCRAFT_REPO=<copy> harness/gen/versionprofiles.py`): every other row is unchanged. -/

/-- `connection.py:814` `protocol_later_eq(107)` → `(108)`: under protocol 107 the packet is still
read with its teleport id, but the reactor answers with the position echo (id 0x0D). -/
def reactor108 (r : PlayRow) : PlayRow :=
  if r.pr.v = 107 then { r with pr := { r.pr with ackSb := 13, ackKind := 0 } } else r

/-- `keep_alive_packet.py:11` `protocol_later_eq(339)` → `(340)`: under protocol 339 both
keep-alive classes get the VarInt layout — ids are read and written as VarInts. -/
def keepAlive340 (r : PlayRow) : PlayRow :=
  if r.pr.v = 339 then { r with pr := { r.pr with kaRead := 0, kaWrite := 0 } } else r

/-- `player_position_and_look_packet.py:36` `protocol_later_eq(107)` → `(108)` (the packet's test
only): under 107 no teleport id is read, and the reactor's `packet.teleport_id` raises
`AttributeError` — nothing is written. -/
def layout108 (r : PlayRow) : PlayRow :=
  if r.pr.v = 107 then { r with pr := { r.pr with posRead := 0, ackSb := 16777215, ackKind := 2 } }
  else r

/-- `serverbound/login/__init__.py` `EncryptionResponsePacket.get_id`: `0x01 if
protocol_later_eq(391)` → `0x02`: from 391 on the encryption response gets the plugin response's
id. -/
def encResp2 (r : LoginRow) : LoginRow :=
  if r.pr.plugReqCb.isSome ∧ r.pr.lsId = 0 then
    { r with
      sb := (r.sb.1, r.sb.2.1, r.sb.2.2.map fun e =>
        if e.1 = "EncryptionResponsePacket" then (e.1, some 2) else e)
      pr := { r.pr with encResp := 2 } }
  else r

end PyCraft.VersionProfiles
