import PyCraft.Generated.Ids
import PyCraft.Generated.Layouts
import PyCraft.Generated.Versions
import PyCraft.Generated.VersionProfiles
import PyCraft.Model.PlayWire
import PyCraft.Model.LoginWire
/-!
Protocol version ↦ the version-dependent PARAMETERS of the byte-level play and login models.

`Model/PlayWire.lean` takes a `Profile` (six packet ids, the switches `kaLong`, `newer107`,
`dismount`, the other known ids), `Model/LoginWire.lean` an `Ids` (encryption response / plugin
response), `Model/HandshakeWire.lean` the login-start id `lsId`.  In pyCraft these are not
parameters: they are what the packet classes and reactors compute from
`connection.context.protocol_version`.  This file defines that map from the TABULATED live code:

* `Gen.cbPlay`/`sbPlay`/`cbLogin`/`sbLogin` (`Generated/Ids.lean`): `get_packets(ctx)` and
  `get_id(ctx)` of every known version;
* `Gen.*Layouts` (`Generated/Layouts.lean`): `get_definition(ctx)`;
* `Gen.cbPlayNames`/`cbLoginNames` (`Generated/VersionProfiles.lean`): class ↦ `packet_name`;
* `Gen.playProbe`/`loginProbe` (same file): what the real `PlayingReactor.react` /
  `LoginReactor.react` and the `read`/`write` of the packets involved DID under every supported
  version on reference inputs.

What mirrors which Python:

* `dispatchOf f name` — `PacketReactor.__init__` (`connection.py`, `self.clientbound_packets =
  {packet.get_id(context): packet for packet in get_clientbound_packets(context)}`) followed by the
  tests `packet.packet_name == "…"` of `react`: the reaction named `name` is triggered by THE class
  of the row with that `packet_name`, under its id.  `none` when there is no such class or more than
  one, or its id is missing/negative.
* `kaLongOf` — `AbstractKeepAlivePacket.get_definition` (`keep_alive_packet.py:10-13`): `Long` or
  `VarInt`.  `PlayWire.readKeepAlive` (clientbound `read`) and `PlayWire.replyFields` (serverbound
  `write_fields`) use ONE flag; `profileOfFacts` therefore demands that the clientbound and the
  serverbound class have the same layout.
* `posFlagsOf` — `PlayerPositionAndLookPacket.get_definition`
  (`player_position_and_look_packet.py:29-40`): the six fixed fields, `teleport_id` (VarInt) from
  107 on, `dismount_vehicle` (Boolean) from 755 on.
* `PlayFacts.…`/`playOk` — the second, independent test `protocol_later_eq(107)` in
  `PlayingReactor.react` (`connection.py:814`) is not visible in any table; it is observed by the
  probe (`ackKind`) and compared with the layout flag in `playOk`.
* serverbound ids — the reactor instantiates `serverbound.play.KeepAlivePacket`,
  `TeleportConfirmPacket`, `PositionAndLookPacket` by CLASS (`connection.py:809-826`), so these are
  looked up by class name in `Gen.sbPlay`; `TeleportConfirmPacket` is only registered (and only
  used) from 107 on — for older versions `teleportConfirmSb` is the unused value 0.
* `idsAt`/`lsIdAt` — `EncryptionResponsePacket.get_id`, `PluginResponsePacket.get_id`,
  `LoginStartPacket.get_id` (`serverbound/login/__init__.py`).  Before 385 no plugin response is
  registered and no plugin request can be decoded (`clientbound/login/__init__.py:16-19`); the id
  recorded there is the one the class WOULD be written with (observed by the probe), which the
  login model never uses on a script Python can decode.

Everything here is computable data and Bool-valued checks; the kernel evaluates them on every
supported version in `Lemmas/VersionProfiles.lean`.
-/
namespace PyCraft.VersionProfiles
open PyCraft PyCraft.PlayWire

/-- The `(class, id?)` entries of one table row. -/
abbrev Ents := List (String × Option Int)

/-- A declarative layout: `(field name, wire type)` in order. -/
abbrev Layout := List (String × WType)

/-- The row of a generated id table for version `v`. -/
def rowAt (tab : List Gen.IdRow) (v : Nat) : Option Ents :=
  (tab.find? (fun r => r.1 == v)).map (·.2.2)

/-- The id a row registers for class `cls` (`none`: not registered, or `get_id` gave no
non-negative integer). -/
def idIn (row : Ents) (cls : String) : Option Nat :=
  match row.lookup cls with
  | some (some i) => if 0 ≤ i then some i.toNat else none
  | _ => none

/-- `cls.get_definition(ctx)` under version `v` (`none`: hand-written codec or not defined). -/
def layoutAt (tab : List Gen.LayoutRow) (cls : String) (v : Nat) : Option Layout :=
  match tab.lookup cls with
  | none => none
  | some variants =>
    match variants.find? (fun x => x.2.contains v) with
    | some x => x.1
    | none => none

/-- How many entries of a row carry id `i`. -/
def countId (row : Ents) (i : Nat) : Nat := (row.filter (fun e => e.2 == some (i : Int))).length

/-- `e = .ok b` as a Bool. -/
def isOk (e : Except Err Bool) (b : Bool) : Bool :=
  match e with
  | .ok x => x == b
  | .error _ => false

/-! ### play -/

/-- Everything the tables say about the play state of one version. -/
structure PlayFacts where
  /-- `clientbound.play.get_packets(ctx)` with `get_id(ctx)`. -/
  cb : Ents
  /-- `serverbound.play.get_packets(ctx)` with `get_id(ctx)`. -/
  sb : Ents
  /-- class ↦ `packet_name` of the clientbound classes. -/
  names : List (String × String)
  /-- `get_definition(ctx)` of the clientbound / serverbound classes of the row. -/
  cbLays : List (String × Option Layout)
  sbLays : List (String × Option Layout)

def playFactsAt (v : Nat) : Option PlayFacts := do
  let cb ← rowAt Gen.cbPlay v
  let sb ← rowAt Gen.sbPlay v
  pure { cb := cb, sb := sb, names := Gen.cbPlayNames,
         cbLays := cb.map fun e => (e.1, layoutAt Gen.cbPlayLayouts e.1 v),
         sbLays := sb.map fun e => (e.1, layoutAt Gen.sbPlayLayouts e.1 v) }

/-- The entries of the clientbound row whose class has `packet_name = name`. -/
def namedIn (cb : Ents) (names : List (String × String)) (name : String) : Ents :=
  cb.filter fun e => names.lookup e.1 == some name

/-- THE class (and its id) the reactor's table dispatches to the reaction `name`. -/
def dispatchIn (cb : Ents) (names : List (String × String)) (name : String) :
    Option (String × Nat) :=
  match namedIn cb names name with
  | [(c, some i)] => if 0 ≤ i then some (c, i.toNat) else none
  | _ => none

def PlayFacts.dispatchOf (f : PlayFacts) (name : String) : Option (String × Nat) :=
  dispatchIn f.cb f.names name

def PlayFacts.cbLayout (f : PlayFacts) (cls : String) : Option Layout :=
  (f.cbLays.lookup cls).bind id

def PlayFacts.sbLayout (f : PlayFacts) (cls : String) : Option Layout :=
  (f.sbLays.lookup cls).bind id

/-- `AbstractKeepAlivePacket.get_definition`: which of its two layouts. -/
def kaLongOf (l : Layout) : Option Bool :=
  if l = [("keep_alive_id", .int .i64)] then some true
  else if l = [("keep_alive_id", .varint)] then some false
  else none

/-- The six fields every clientbound position-and-look has. -/
def posBase : Layout :=
  [("x", .int .f64), ("y", .int .f64), ("z", .int .f64), ("yaw", .int .f32), ("pitch", .int .f32),
   ("flags", .int .i8)]

/-- `PlayerPositionAndLookPacket.get_definition`: (`teleport_id` present, `dismount_vehicle`
present) — one of its three layouts. -/
def posFlagsOf (l : Layout) : Option (Bool × Bool) :=
  if l = posBase then some (false, false)
  else if l = posBase ++ [("teleport_id", .varint)] then some (true, false)
  else if l = posBase ++ [("teleport_id", .varint), ("dismount_vehicle", .bool)] then
    some (true, true)
  else none

/-- The layouts the play model hard-codes: clientbound disconnect (`readDisconnect`), serverbound
position-and-look and teleport confirm (`replyFields`). -/
def discLayout : Layout := [("json_data", .string)]
def echoLayout : Layout :=
  [("x", .int .f64), ("feet_y", .int .f64), ("z", .int .f64), ("yaw", .int .f32),
   ("pitch", .int .f32), ("on_ground", .bool)]
def tcLayout : Layout := [("teleport_id", .varint)]

/-- The packet names `PlayingReactor.react` tests for and the play model reacts to. -/
def reactedNames : List String := ["keep alive", "player position and look", "disconnect"]

/-- The remaining known clientbound packets: `(id, packet_name)`. -/
def othersOf (cb : Ents) (names : List (String × String)) : List (Nat × String) :=
  cb.filterMap fun e =>
    match names.lookup e.1, e.2 with
    | some n, some i => if reactedNames.contains n then none else if 0 ≤ i then some (i.toNat, n) else none
    | _, _ => none

/-- The play profile the tables determine (`none`: they do not determine one — a reacted name
without a unique class, an unrecognised layout, reader and writer of the keep-alive id
disagreeing, a layout the model hard-codes being different, …). -/
def profileOfFacts (f : PlayFacts) : Option Profile := do
  let ka ← f.dispatchOf "keep alive"
  let pos ← f.dispatchOf "player position and look"
  let disc ← f.dispatchOf "disconnect"
  let kaLong ← (f.cbLayout ka.1).bind kaLongOf
  let kaLongSb ← (f.sbLayout "KeepAlivePacket").bind kaLongOf
  let flags ← (f.cbLayout pos.1).bind posFlagsOf
  let kaSb ← idIn f.sb "KeepAlivePacket"
  let posLookSb ← idIn f.sb "PositionAndLookPacket"
  let tc ← if flags.1 then idIn f.sb "TeleportConfirmPacket" else some 0
  if kaLong = kaLongSb ∧ f.cbLayout disc.1 = some discLayout ∧
      f.sbLayout "PositionAndLookPacket" = some echoLayout ∧
      (flags.1 = true → f.sbLayout "TeleportConfirmPacket" = some tcLayout) then
    some { kaCb := ka.2, kaSb := kaSb, posLookCb := pos.2, teleportConfirmSb := tc,
           posLookSb := posLookSb, disconnectCb := disc.2, kaLong := kaLong, newer107 := flags.1,
           dismount := flags.2, others := othersOf f.cb f.names }
  else none

/-- Version ↦ play profile. -/
def profileOf (v : Nat) : Option Profile := (playFactsAt v).bind profileOfFacts

/-- The probe row of a version. -/
def playProbeAt (v : Nat) : Option Gen.PlayProbe := Gen.playProbe.find? (fun r => r.v == v)

/-- The id under which the profile knows a packet named "set compression". -/
def setCompOf (P : Profile) : Option Nat :=
  (P.others.find? (fun e => e.2 == "set compression")).map (·.1)

/-- Each id the reactor reacts to is carried by exactly one class of the clientbound row (so the
dict `{get_id: class}` holds that class under it whatever the set iteration order), and each id it
writes by exactly one class of the serverbound row. -/
def unshared (f : PlayFacts) (P : Profile) : Bool :=
  countId f.cb P.kaCb == 1 && countId f.cb P.posLookCb == 1 && countId f.cb P.disconnectCb == 1 &&
    countId f.sb P.kaSb == 1 && countId f.sb P.ackSb == 1

/-- The switch points: the three flags are the comparisons of `ConnectionContext` with 339, 107 and
755 (evaluated by the model of `protocol_later_eq` on the version tables `T`), and a play-state
"set compression" is known exactly up to protocol 47. -/
def flagsOk (T : Tables) (v : Nat) (P : Profile) : Bool :=
  isOk (laterEq T v 339) P.kaLong && isOk (laterEq T v 107) P.newer107 &&
    isOk (laterEq T v 755) P.dismount && isOk (earlierEq T v 47) (setCompOf P).isSome

/-- What the real reactor did (`pr`) is what the profile says: same dispatch ids, the keep-alive
read and echoed in the profile's width, the position-and-look read with the profile's optional
fields, acknowledged by a teleport confirm exactly when the LAYOUT has a teleport id (the reactor's
own version test agrees with the packet's), the replies written with the profile's ids. -/
def behaviourOk (v : Nat) (P : Profile) (pr : Gen.PlayProbe) : Bool :=
  pr.v == v && pr.kaCb == P.kaCb && pr.kaRead == (if P.kaLong then 1 else 0) && pr.kaSb == P.kaSb &&
    pr.kaWrite == (if P.kaLong then 1 else 0) && pr.posCb == P.posLookCb &&
    pr.posRead == (if P.dismount then 2 else if P.newer107 then 1 else 0) &&
    pr.ackSb == P.ackSb && pr.ackKind == (if P.newer107 then 1 else 0) &&
    pr.discCb == P.disconnectCb && pr.discKind == 1 && pr.setComp == setCompOf P

/-- All per-version play checks. -/
def playOk (T : Tables) (v : Nat) (f : PlayFacts) (pr : Gen.PlayProbe) (P : Profile) : Bool :=
  P.cbDistinct && P.sbDistinct && unshared f P && flagsOk T v P && behaviourOk v P pr &&
    (!P.dismount || P.newer107) && P.teleportConfirmSb == 0

/-- The check the kernel runs for one version of the live tables. -/
def playCheck (v : Nat) : Bool :=
  match playFactsAt v, playProbeAt v with
  | some f, some pr =>
    match profileOfFacts f with
    | some P => playOk liveTables v f pr P
    | none => false
  | _, _ => false

/-- A play-state "set compression" packet: known to the profile under that name.  The reaction of
`PlayingReactor.react` to it (`connection.py:798-800`: switch threshold and compression for both
directions from the next frame on) is NOT part of `Model/PlayWire.lean`; statements about Python
must exclude it.  Only protocols up to 47 know such a packet (`flagsOk`). -/
def isSetCompression : SrvPkt → Bool
  | .other _ name _ => name == "set compression"
  | _ => false

/-! ### login -/

/-- Everything the tables say about the login state of one version. -/
structure LoginFacts where
  cb : Ents
  sb : Ents
  names : List (String × String)
  cbLays : List (String × Option Layout)
  sbLays : List (String × Option Layout)

def loginFactsAt (v : Nat) : Option LoginFacts := do
  let cb ← rowAt Gen.cbLogin v
  let sb ← rowAt Gen.sbLogin v
  pure { cb := cb, sb := sb, names := Gen.cbLoginNames,
         cbLays := cb.map fun e => (e.1, layoutAt Gen.cbLoginLayouts e.1 v),
         sbLays := sb.map fun e => (e.1, layoutAt Gen.sbLoginLayouts e.1 v) }

def loginProbeAt (v : Nat) : Option Gen.LoginProbe := Gen.loginProbe.find? (fun r => r.v == v)

/-- The version-dependent facts of the login state the models use. -/
structure LoginProfile where
  /-- `LoginStartPacket.get_id` (`HsWire`'s `lsId`). -/
  lsId : Nat
  /-- `EncryptionResponsePacket.get_id`, `PluginResponsePacket.get_id` (`LoginWire.Ids`). -/
  ids : LoginWire.Ids
  /-- Is a plugin response registered (and a plugin request decodable). -/
  plugin : Bool
  /-- Clientbound ids by reaction: disconnect, encryption request, login success, set compression,
  login plugin request. -/
  discCb : Nat
  encReqCb : Nat
  successCb : Nat
  setCompCb : Nat
  plugReqCb : Option Nat
  /-- `LoginSuccessPacket`: the UUID is a 16-byte `UUID` (from 707 on) rather than a `String`. -/
  uuidBinary : Bool
deriving Repr, DecidableEq

def LoginFacts.cbLayout (f : LoginFacts) (cls : String) : Option Layout :=
  (f.cbLays.lookup cls).bind id

def LoginFacts.sbLayout (f : LoginFacts) (cls : String) : Option Layout :=
  (f.sbLays.lookup cls).bind id

/-- `LoginSuccessPacket.get_definition`: which of its two layouts. -/
def uuidBinaryOf (l : Layout) : Option Bool :=
  if l = [("UUID", .uuid), ("Username", .string)] then some true
  else if l = [("UUID", .string), ("Username", .string)] then some false
  else none

/-- The layouts the login models hard-code (`LoginWire.fieldsOf`/`decodeEncResp`, `HsWire.writePkt`
and the pre-parsed `LoginEv`s). -/
def encRespLayout : Layout := [("shared_secret", .bytesVarint), ("verify_token", .bytesVarint)]
def encReqLayout : Layout :=
  [("server_id", .string), ("public_key", .bytesVarint), ("verify_token", .bytesVarint)]
def loginStartLayout : Layout := [("name", .string)]
def setCompLayout : Layout := [("threshold", .varint)]
def plugReqLayout : Layout := [("message_id", .varint), ("channel", .string), ("data", .trailing)]

/-- The login profile the tables (and, for the id of an unregistered plugin response, the probe)
determine. -/
def loginProfileOfFacts (f : LoginFacts) (plugRespWire : Nat) : Option LoginProfile := do
  let disc ← dispatchIn f.cb f.names "disconnect"
  let encReq ← dispatchIn f.cb f.names "encryption request"
  let succ ← dispatchIn f.cb f.names "login success"
  let setc ← dispatchIn f.cb f.names "set compression"
  let plugReq := dispatchIn f.cb f.names "login plugin request"
  let ls ← idIn f.sb "LoginStartPacket"
  let enc ← idIn f.sb "EncryptionResponsePacket"
  let plug := idIn f.sb "PluginResponsePacket"
  let uuid ← (f.cbLayout succ.1).bind uuidBinaryOf
  if f.cbLayout disc.1 = some discLayout ∧ f.cbLayout encReq.1 = some encReqLayout ∧
      f.cbLayout setc.1 = some setCompLayout ∧
      (∀ c ∈ plugReq, f.cbLayout c.1 = some plugReqLayout) ∧
      f.sbLayout "LoginStartPacket" = some loginStartLayout ∧
      f.sbLayout "EncryptionResponsePacket" = some encRespLayout ∧
      (namedIn f.cb f.names "login plugin request" = [] ∨ plugReq.isSome) ∧
      plugReq.isSome = plug.isSome then
    some { lsId := ls, ids := ⟨enc, plug.getD plugRespWire⟩, plugin := plug.isSome,
           discCb := disc.2, encReqCb := encReq.2, successCb := succ.2, setCompCb := setc.2,
           plugReqCb := plugReq.map (·.2), uuidBinary := uuid }
  else none

/-- Version ↦ login profile. -/
def loginProfileOf (v : Nat) : Option LoginProfile := do
  let f ← loginFactsAt v
  let pr ← loginProbeAt v
  loginProfileOfFacts f pr.plugRespId

/-- Version ↦ the parameters of `Model/LoginWire.lean` and `Model/HandshakeWire.lean`. -/
def idsAt (v : Nat) : Option LoginWire.Ids := (loginProfileOf v).map (·.ids)
def lsIdAt (v : Nat) : Option Nat := (loginProfileOf v).map (·.lsId)

/-- The closed form of the login ids: the two renumberings at 385 and 391 and the UUID switch at
707, in terms of the model of `protocol_later_eq` on the version tables `T`. -/
def loginShapeOk (T : Tables) (v : Nat) (L : LoginProfile) : Bool :=
  match laterEq T v 385, laterEq T v 391, laterEq T v 707 with
  | .ok a, .ok b, .ok c =>
    L.plugin == a && L.uuidBinary == c &&
      (if b then
        L.lsId == 0 && L.ids == ⟨1, 2⟩ && L.discCb == 0 && L.encReqCb == 1 && L.successCb == 2 &&
          L.setCompCb == 3 && L.plugReqCb == some 4
      else if a then
        L.lsId == 1 && L.ids == ⟨2, 0⟩ && L.discCb == 1 && L.encReqCb == 2 && L.successCb == 3 &&
          L.setCompCb == 4 && L.plugReqCb == some 0
      else
        L.lsId == 0 && L.ids.encResp == 1 && L.discCb == 0 && L.encReqCb == 1 &&
          L.successCb == 2 && L.setCompCb == 3 && L.plugReqCb == none)
  | _, _, _ => false

/-- What the real login reactor did is what the profile says. -/
def loginBehaviourOk (v : Nat) (L : LoginProfile) (pr : Gen.LoginProbe) : Bool :=
  pr.v == v && pr.lsId == L.lsId && pr.discCb == L.discCb && pr.encReqCb == L.encReqCb &&
    pr.successCb == L.successCb && pr.setCompCb == L.setCompCb && pr.plugReqCb == L.plugReqCb &&
    pr.encResp == L.ids.encResp && pr.encKind == 1 && pr.plugRespId == L.ids.plugResp &&
    pr.plugReact == (if L.plugin then some L.ids.plugResp else none) &&
    pr.plugKind == (if L.plugin then 1 else 0) && pr.successKind == 1 && pr.setCompKind == 1

/-- The ids in use are pairwise distinct and carried by one class each. -/
def loginDistinct (f : LoginFacts) (L : LoginProfile) : Bool :=
  L.ids.encResp != L.ids.plugResp && L.lsId != L.ids.encResp &&
    (!L.plugin || L.lsId != L.ids.plugResp) &&
    countId f.sb L.lsId == 1 && countId f.sb L.ids.encResp == 1 &&
    (!L.plugin || countId f.sb L.ids.plugResp == 1) &&
    countId f.cb L.discCb == 1 && countId f.cb L.encReqCb == 1 && countId f.cb L.successCb == 1 &&
    countId f.cb L.setCompCb == 1 && (L.plugReqCb.all fun i => countId f.cb i == 1) &&
    decide (L.lsId < 2 ^ 32)

def loginOk (T : Tables) (v : Nat) (f : LoginFacts) (pr : Gen.LoginProbe) (L : LoginProfile) :
    Bool :=
  loginShapeOk T v L && loginBehaviourOk v L pr && loginDistinct f L

def loginCheck (v : Nat) : Bool :=
  match loginFactsAt v, loginProbeAt v with
  | some f, some pr =>
    match loginProfileOfFacts f pr.plugRespId with
    | some L => loginOk liveTables v f pr L
    | none => false
  | _, _ => false

/-! ### models of two seeded code changes (for the negative witnesses)

Both are what the generators emit when run on a copy of /repo with the change applied (checked with
`PYCRAFT_REPO=<copy> harness/gen/versionprofiles.py`, resp. `extract.py`): every other row and table
entry is unchanged. -/

/-- `connection.py:814` `protocol_later_eq(107)` → `(108)`: under protocol 107 the packet is still
read with its teleport id, but the reactor answers with the position echo (id 0x0D). -/
def probeReactor108 (pr : Gen.PlayProbe) : Gen.PlayProbe :=
  if pr.v = 107 then { pr with ackSb := 13, ackKind := 0 } else pr

/-- `keep_alive_packet.py:11` `protocol_later_eq(339)` → `(340)`: under protocol 339 both
keep-alive classes get the VarInt layout, are read and written as VarInts. -/
def factsKeepAlive340 (v : Nat) (f : PlayFacts) : PlayFacts :=
  if v = 339 then
    { f with
      cbLays := f.cbLays.map fun e =>
        if e.1 = "KeepAlivePacket" then (e.1, some [("keep_alive_id", .varint)]) else e
      sbLays := f.sbLays.map fun e =>
        if e.1 = "KeepAlivePacket" then (e.1, some [("keep_alive_id", .varint)]) else e }
  else f

def probeKeepAlive340 (pr : Gen.PlayProbe) : Gen.PlayProbe :=
  if pr.v = 339 then { pr with kaRead := 0, kaWrite := 0 } else pr

/-- `serverbound/login/__init__.py` `EncryptionResponsePacket.get_id`: `0x01 if
protocol_later_eq(391)` → `0x02`: from 391 on the encryption response gets the plugin response's
id. -/
def loginFactsEnc2 (T : Tables) (v : Nat) (f : LoginFacts) : LoginFacts :=
  if isOk (laterEq T v 391) true then
    { f with sb := f.sb.map fun e => if e.1 = "EncryptionResponsePacket" then (e.1, some 2) else e }
  else f

/-- The per-version check on explicitly given (possibly changed) tables. -/
def playCheckWith (v : Nat) (f : Option PlayFacts) (pr : Option Gen.PlayProbe) : Bool :=
  match f, pr with
  | some f, some pr =>
    match profileOfFacts f with
    | some P => playOk liveTables v f pr P
    | none => false
  | _, _ => false

def loginCheckWith (v : Nat) (f : Option LoginFacts) (pr : Option Gen.LoginProbe) : Bool :=
  match f, pr with
  | some f, some pr =>
    match loginProfileOfFacts f pr.plugRespId with
    | some L => loginOk liveTables v f pr L
    | none => false
  | _, _ => false

end PyCraft.VersionProfiles
