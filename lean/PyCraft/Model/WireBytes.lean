import PyCraft.Model.Frame
import PyCraft.Model.Writers
/-!
The BYTES of the concurrent writers' wire: connects `Model/Writers.lean` (whose `Sys.wire` is a list
of abstract chunks `(p, 0)` / `(p, 1)` — the two `socket.send` calls of `Packet._write_buffer`) with
`Model/Frame.lean` (what those two calls are given: `frameSends`).

`payload p` is the packet buffer of packet object `p` after `Packet.write` has written
`VarInt(id)` and the fields, i.e. the argument of `_write_buffer`.  It is a parameter: any function.
`Pkt` is the identity of the packet OBJECT (distinct objects may well carry the same bytes).
-/
namespace PyCraft.Writers
open PyCraft

/-- What `socket.send` is called with for chunk `c`: `(p, 0)` ↦ the VarInt length prefix of `p`'s
frame, `(p, 1)` ↦ the frame body — the two elements of `frameSends`. -/
def chunkBytes (z : ZlibOps) (thr : Option Int) (payload : Pkt → Bytes) (c : Chunk) : Bytes :=
  (frameSends z thr (payload c.1)).getD c.2.val []

/-- The sequence of `socket.send` arguments of a wire, one per chunk. -/
def sendsOf (z : ZlibOps) (thr : Option Int) (payload : Pkt → Bytes) (w : List Chunk) :
    List Bytes :=
  w.map (chunkBytes z thr payload)

/-- The byte stream a plain (unencrypted) socket carries for wire `w`. -/
def bytesOf (z : ZlibOps) (thr : Option Int) (payload : Pkt → Bytes) (w : List Chunk) : Bytes :=
  (sendsOf z thr payload w).flatten

/-- The cipher-text chunks handed to the inner socket when the connection's socket is an
`EncryptedSocketWrapper` whose encryptor context is `s0` when the first chunk is sent: every
`send` goes through `encryptor.update` separately, the context is carried along (`encSends`). -/
def encSendsOf {σ : Type} (enc : StreamXform σ) (s0 : σ) (z : ZlibOps) (thr : Option Int)
    (payload : Pkt → Bytes) (w : List Chunk) : List Bytes :=
  (encSends enc s0 (sendsOf z thr payload w)).2

/-- The cipher-text byte stream on the TCP connection. -/
def encBytesOf {σ : Type} (enc : StreamXform σ) (s0 : σ) (z : ZlibOps) (thr : Option Int)
    (payload : Pkt → Bytes) (w : List Chunk) : Bytes :=
  (encSendsOf enc s0 z thr payload w).flatten

/-- The packet buffer of a packet given as (wire id, field bytes): `Packet.write` writes
`VarInt(id)` then the fields (`packetPayload`). -/
def payloadOf (content : Pkt → Nat × Bytes) (p : Pkt) : Bytes :=
  packetPayload (content p).1 (content p).2

end PyCraft.Writers
