import PyCraft.Model.Dispatch
/-!
# A sequential `Connection` around the listener dispatch (audit gap 17, property C13)

`Model/Dispatch.lean` models ONE `_react` / `_write_packet` call on given listener lists.  This file
models the connection those calls live in, so that "for every incoming / outgoing packet" and "the
flags given at registration decide the role" become statements about whole sessions:

* `Connection.register_packet_listener`  connection.py l.248-278   → `Conn.register` (= `register`)
* `Connection.write_packet(p, force)`    connection.py l.205-222   → `Conn.writePacket`
* `Connection._pop_packet`               connection.py l.318-331   → `Conn.popPacket`
* `Connection._write_packet`             connection.py l.333-348   → `Conn.writeRaw` (= `Cfg.write`)
* the flush loop `while self._pop_packet(): pass`  l.467-468       → `Conn.flush`
* `Connection._react`                    connection.py l.575-583   → `Conn.react`
* one iteration of `NetworkingThread._run`  l.614-643              → `Conn.runIter`

Sequential: one thread at a time runs one of these calls to completion (the interleaving of threads
is the subject of C12/C15; the write of a frame never raises here, socket errors are C11/C16), and
the connection stays connected (`interrupt` is false throughout; `disconnect` is C16).

Listener callbacks are abstracted as in `Model/Dispatch.lean` (`ignores` only).  The built-in reaction
`self.reactor.react(packet)` is abstracted to what matters here (`Reactor`): the `write_packet` calls
it makes — e.g. `force=True` at connection.py l.758 (a NESTED `_write_packet` inside `_react`),
`force=False` at l.811/817/826 — and whether it raises `IgnorePacket` (allowed by the docstring,
l.721-723; the writes are performed first).

Every `write_packet`, completed `_write_packet`, completed `_react` and `register_packet_listener`
call appends one entry to the GHOST field `trace` (written, never read by the model), so that the
theorems can speak about "every packet" and "the registrations made before this packet".
-/
namespace PyCraft.Roles
open PyCraft

/-- A packet object: `uid` stands for the Python object's identity (so that "the same packet twice"
is expressible), `cls` for its class (as in `Model/Dispatch.lean`). -/
structure Pkt where
  uid : Nat
  cls : Nat
deriving Repr, DecidableEq

/-- The two call sites of `_write_packet`: `write_packet(force=True)` (l.220) and `_pop_packet`
(l.330). -/
inductive Site
  | forced
  | popped
deriving Repr, DecidableEq

/-- Entries of the ghost trace, in order of COMPLETION of the call. -/
inductive Tr
  /-- `register_packet_listener(…, early=, outgoing=)` returned. -/
  | reg (r : Reg)
  /-- `write_packet(p, force)` was entered. -/
  | issued (p : Pkt) (force : Bool)
  /-- one `_write_packet(p)` call ran, from `site`, with this call log (`OutEv.written` = the frame
  was handed to the socket). -/
  | out (site : Site) (p : Pkt) (evs : List OutEv)
  /-- one `_react(p)` call ran, with this call log; `ignored` = an `IgnorePacket` was swallowed. -/
  | inc (p : Pkt) (evs : List Ev) (ignored : Bool)
deriving Repr, DecidableEq

/-- The built-in reaction, abstracted: the `write_packet(q, force)` calls `reactor.react(p)` makes,
in order, and whether it then raises `IgnorePacket`. -/
structure Reactor where
  writes : Pkt → List (Pkt × Bool)
  ignores : Pkt → Bool

/-- A reactor given by finite tables keyed by the packet's class (driver, generated tables). -/
def Reactor.ofTable (ws : List (Nat × List (Pkt × Bool))) (ign : List Nat) : Reactor where
  writes p := (ws.lookup p.cls).getD []
  ignores p := ign.contains p.cls

/-- The part of a `Connection` that dispatch touches. -/
structure Conn where
  /-- the four listener lists (connection.py l.140-143) -/
  cfg : Cfg := {}
  /-- `_outgoing_packet_queue` (a deque; head = left) -/
  queue : List Pkt := []
  /-- packets that have arrived on the socket and that `reactor.read_packet` has not returned yet
  (`read_packet` returns `None` when this is empty: the `select` times out) -/
  inbox : List Pkt := []
  /-- GHOST -/
  trace : List Tr := []
deriving Repr, DecidableEq

/-- `register_packet_listener` (l.272-278): `Model/Dispatch.lean`'s `register` on the four lists. -/
def Conn.register (s : Conn) (r : Reg) : Conn :=
  { s with cfg := PyCraft.register s.cfg r.l r.early r.outgoing, trace := s.trace ++ [Tr.reg r] }

/-- `_write_packet(p)` (l.333-348): early-outgoing listeners, the write, outgoing listeners under one
`try … except IgnorePacket: pass` — `Cfg.write` of `Model/Dispatch.lean`.  Touches nothing but the
ghost trace. -/
def Conn.writeRaw (hier : Hier) (s : Conn) (site : Site) (p : Pkt) : Conn :=
  { s with trace := s.trace ++ [Tr.out site p (s.cfg.write hier p.cls)] }

/-- `write_packet(p, force)` (l.217-222): `if force: with self._write_lock: self._write_packet(p)`
`else: self._outgoing_packet_queue.append(p)`. -/
def Conn.writePacket (hier : Hier) (s : Conn) (p : Pkt) (force : Bool) : Conn :=
  let s := { s with trace := s.trace ++ [Tr.issued p force] }
  if force then s.writeRaw hier .forced p
  else { s with queue := s.queue ++ [p] }

/-- `_pop_packet()` (l.327-331): `False` on an empty queue, otherwise
`self._write_packet(queue.popleft())` and `True`. -/
def Conn.popPacket (hier : Hier) (s : Conn) : Conn × Bool :=
  match s.queue with
  | [] => (s, false)
  | p :: q => (({ s with queue := q }).writeRaw hier .popped p, true)

/-- `while self._pop_packet(): pass` with `fuel` iterations allowed. -/
def flushLoop (hier : Hier) : Nat → Conn → Conn
  | 0, s => s
  | fuel + 1, s =>
    match s.popPacket hier with
    | (s', true) => flushLoop hier fuel s'
    | (s', false) => s'

/-- The flush loop of `disconnect` (l.467-468).  Every successful `_pop_packet` shortens the queue
by one and nothing in the model lengthens it meanwhile, so `queue.length` iterations reach the
`False` answer (`Lemmas/C13Roles.lean`, `flush_queue`). -/
def Conn.flush (hier : Hier) (s : Conn) : Conn := flushLoop hier s.queue.length s

/-- The writes of the built-in reaction, one `write_packet` call after the other. -/
def Conn.writeAll (hier : Hier) (s : Conn) (ws : List (Pkt × Bool)) : Conn :=
  ws.foldl (fun s w => s.writePacket hier w.1 w.2) s

/-- `_react(p)` (l.575-583), statement by statement:
```
try:
    for listener in self.early_packet_listeners: listener.call_packet(packet)
    self.reactor.react(packet)
    for listener in self.packet_listeners: listener.call_packet(packet)
except IgnorePacket: pass
```
The reaction's forced writes are nested `_write_packet` calls (their trace entries precede this
call's own entry), its unforced writes lengthen the queue. -/
def Conn.react (hier : Hier) (R : Reactor) (s : Conn) (p : Pkt) : Conn :=
  let r1 := runListeners hier Ev.early p.cls s.cfg.earlyPacketListeners
  if r1.2 then { s with trace := s.trace ++ [Tr.inc p r1.1 true] }
  else
    let s' := s.writeAll hier (R.writes p)
    if R.ignores p then { s' with trace := s'.trace ++ [Tr.inc p (r1.1 ++ [Ev.reaction]) true] }
    else
      let r2 := runListeners hier Ev.ordinary p.cls s'.cfg.packetListeners
      { s' with trace := s'.trace ++ [Tr.inc p (r1.1 ++ [Ev.reaction] ++ r2.1) r2.2] }

/-- The two batch caps of `_run` (300 and 50 in the Python; parameters so that small instances can be
evaluated). -/
structure Caps where
  capW : Nat := 300
  capR : Nat := 50
deriving Repr, DecidableEq

/-- The write phase of one `_run` iteration (l.619-622),
`while not self.interrupt and self.connection._pop_packet(): num_packets += 1; if num_packets >= capW: break`,
with `budget = capW - num_packets` iterations left (`capW ≥ 1`; for `capW = 300` this is the Python
loop).  Returns the state and `num_packets`. -/
def writeLoop (hier : Hier) : Nat → Conn → Nat → Conn × Nat
  | 0, s, n => (s, n)
  | budget + 1, s, n =>
    match s.popPacket hier with
    | (s', true) => writeLoop hier budget s' (n + 1)
    | (s', false) => (s', n)

/-- The read phase of one `_run` iteration (l.636-643),
`while num_packets < capR and not self.interrupt: packet = read_packet(…); if not packet: break;`
`num_packets += 1; self.connection._react(packet)`, by recursion on the packets `read_packet` can still
return (`todo` = the inbox at loop entry; `_react` never touches the inbox). -/
def readLoop (hier : Hier) (R : Reactor) (capR : Nat) : List Pkt → Conn → Nat → Conn
  | [], s, _ => s
  | p :: ps, s, n =>
    if n < capR then readLoop hier R capR ps (({ s with inbox := ps }).react hier R p) (n + 1)
    else s

/-- One iteration of the `while not self.interrupt:` loop of `_run` (l.614-643): up to `capW` queued
packets are written, then packets are read and reacted to while the SAME counter is below `capR`. -/
def Conn.runIter (hier : Hier) (R : Reactor) (caps : Caps) (s : Conn) : Conn :=
  let w := writeLoop hier caps.capW s 0
  readLoop hier R caps.capR w.1.inbox w.1 w.2

/-- What can happen to a connected connection, one call at a time. -/
inductive Op
  /-- `register_packet_listener` -/
  | register (r : Reg)
  /-- a user thread calls `write_packet(p, force)` -/
  | write (p : Pkt) (force : Bool)
  /-- `_pop_packet()` -/
  | pop
  /-- `while self._pop_packet(): pass` -/
  | flush
  /-- packets arrive from the server -/
  | arrive (ps : List Pkt)
  /-- one iteration of `_run` -/
  | iter
deriving Repr, DecidableEq

def Conn.step (hier : Hier) (R : Reactor) (caps : Caps) (s : Conn) : Op → Conn
  | .register r => s.register r
  | .write p f => s.writePacket hier p f
  | .pop => (s.popPacket hier).1
  | .flush => s.flush hier
  | .arrive ps => { s with inbox := s.inbox ++ ps }
  | .iter => s.runIter hier R caps

/-- A whole session from a fresh `Connection` (four empty lists, empty queue). -/
def Conn.run (hier : Hier) (R : Reactor) (caps : Caps) (s : Conn) (ops : List Op) : Conn :=
  ops.foldl (Conn.step hier R caps) s

/-! ## Reading the trace -/

/-- The registrations recorded in a trace, in order. -/
def regsOf (t : List Tr) : List Reg :=
  t.filterMap fun | .reg r => some r | _ => none

/-- Packets given to `write_packet` with the given `force`, in call order. -/
def issuedOf (force : Bool) (t : List Tr) : List Pkt :=
  t.filterMap fun | .issued p f => if f = force then some p else none | _ => none

/-- Packets `_write_packet` was called with from the given site, in call order. -/
def outsOf (site : Site) (t : List Tr) : List Pkt :=
  t.filterMap fun | .out s p _ => if s = site then some p else none | _ => none

/-- Packets `_react` was called with, in call order. -/
def incsOf (t : List Tr) : List Pkt :=
  t.filterMap fun | .inc p _ _ => some p | _ => none

/-- The `write_packet` calls made by the built-in reactions that ran (the reaction runs in a
`_react` call iff `Ev.reaction` is in that call's log), in order. -/
def reactionWritesOf (R : Reactor) (t : List Tr) : List (Pkt × Bool) :=
  t.flatMap fun | .inc p evs _ => if Ev.reaction ∈ evs then R.writes p else [] | _ => []

/-- All `write_packet` calls of a trace, in order. -/
def allIssuedOf (t : List Tr) : List (Pkt × Bool) :=
  t.filterMap fun | .issued p f => some (p, f) | _ => none

/-- The `write_packet` calls the user makes in a session. -/
def userWritesOf (ops : List Op) : List (Pkt × Bool) :=
  ops.filterMap fun | .write p f => some (p, f) | _ => none

/-- The packets the server sends in a session. -/
def arrivedOf (ops : List Op) : List Pkt :=
  ops.flatMap fun | .arrive ps => ps | _ => []

end PyCraft.Roles
