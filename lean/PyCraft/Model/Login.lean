import PyCraft.Basic
/-!
Model of the login phase of `minecraft/networking/connection.py`:
`LoginReactor.react`, `Connection.write_packet` (queued vs. `force=True`), `_write_packet`
(framing mode read from `connection.options`/`connection.socket` AT WRITE TIME), `_pop_packet`, and
the part of `NetworkingThread._run`/`run` that matters for login (flush the queue, then read and
react to a batch of packets; an exception from `react` ends the thread without flushing).

What is abstracted (everything else mirrors the code branch by branch):
* RSA/PKCS1v15 (`encryption.encrypt_token_and_secret`) is the parameter `Rsa` (a deterministic
  function here; the real padding is randomised; loading a malformed DER key would raise — outside
  the model). `os.urandom(16)` is the parameter `secret` (a script with several encryption
  requests re-uses it). The verification hash is the parameter `hash` (modelled in `McHash`).
* `json.loads(packet.json_data)['text']` is the parameter `jsonText`, with THREE outcomes (see
  `TextField`): Python falls back to the raw string on `ValueError/TypeError/KeyError`, but a
  `text` member that is not a string makes `re.match` raise an uncaught `TypeError`.
* `auth_token.join` is assumed not to raise (it performs an HTTP request); only its argument is
  recorded.
* The cipher itself (C18) and the compressed framing (C07/C08) are not re-modelled: a written frame
  records the MODE in force when `_write_packet` ran (`encrypted`, `threshold`).
* The handshake and login-start packets queued by `connect()` before the thread starts are not in
  the outbox (they are written by the first write phase, in plaintext, before anything is read).
* Scheduling: a run is a list of `Step`s — `flush` (the write phase of one `_run` iteration; the
  queue never holds more than 50 + 2 packets during login, so the 300 cap cannot bite and the
  flush is complete) and `recv e` (read + `_react` of one packet).  Every interleaving the real
  loop can produce is such a list; `schedule cap` is the regular one "flush, then up to `cap`
  reads, flush, …, final flush".  The theorems in `Props/C10.lean` quantify over ALL step lists.
* After `login success` the reactor is the `PlayingReactor`: later clientbound bytes are parsed
  with the play-state tables, so later `LoginEv`s of a script are not login packets any more; the
  model ignores them (`recv` is a no-op in state `play`) but keeps flushing.
-/
namespace PyCraft.Login
open PyCraft

/-- Clientbound login packets (`clientbound.login`). -/
inductive LoginEv
  | encRequest (serverId : String) (pubKey token : Bytes)
  | setCompression (thr : Int)
  | pluginRequest (msgId : Nat) (channel : String) (data : Bytes)
  | success
  | disconnect (json : String)
deriving Repr, DecidableEq

/-- Serverbound login packets written by the reactor (or by a user plugin handler). -/
inductive ClientPkt
  | encResp (sharedSecret verifyToken : Bytes)
  | plugResp (msgId : Nat) (successful : Bool) (data : Option Bytes)
deriving Repr, DecidableEq

/-- A frame on the wire together with the framing mode in force when `_write_packet` wrote it. -/
structure Sent where
  pkt : ClientPkt
  encrypted : Bool
  threshold : Option Int
  forced : Bool
deriving Repr, DecidableEq

inductive Reactor | login | play
deriving Repr, DecidableEq

/-- The exception that ends the networking thread. `typeError` was the uncaught
`TypeError: expected string or bytes-like object` from `re.match` when the JSON `text` member is
not a string; since the repair (`fix:` commit in /repo) it is no longer produced. -/
inductive LoginErr
  | loginDisconnect (msg : String)
  | versionMismatch (ver : String)
  | typeError
deriving Repr, DecidableEq

/-- Outcome of `json.loads(packet.json_data)['text']`. -/
inductive TextField
  | absent              -- ValueError / TypeError / KeyError: not JSON, not an object, no "text"
  | str (s : String)    -- a JSON string
  | nonStr              -- present but a number / null / bool / list / object
deriving Repr, DecidableEq

/-- RSA encryption as a parameter; `law` is the only assumption the theorems use. -/
structure Rsa where
  enc : Bytes → Bytes → Bytes          -- public key (DER), message
  dec : Bytes → Bytes → Bytes          -- private key, ciphertext
  matching : Bytes → Bytes → Prop      -- (public, private) is a key pair
  law : ∀ pub priv m, matching pub priv → dec priv (enc pub m) = m

structure LoginParams where
  rsa : Rsa
  secret : Bytes                                   -- `encryption.generate_shared_secret()`
  hash : String → Bytes → Bytes → String           -- `generate_verification_hash`
  hasToken : Bool                                  -- `connection.auth_token is not None`
  jsonText : String → TextField
  /-- An early packet listener for plugin requests: `some d` = it queued a successful response
  with payload `d` and raised `IgnorePacket` (so the reactor's default answer is skipped);
  `none` = no listener took over. -/
  handler : Nat → String → Bytes → Option Bytes

structure ClientState where
  encrypted : Bool            -- socket / file object wrapped by the cipher
  threshold : Option Int      -- `none` = `compression_enabled` is False
  reactor : Reactor
  queue : List ClientPkt      -- `_outgoing_packet_queue`
  outbox : List Sent          -- what `_write_packet` has written, in order
  joins : List String         -- arguments of `auth_token.join`, in call order
  err : Option LoginErr
deriving Repr, DecidableEq

def ClientState.init : ClientState :=
  { encrypted := false, threshold := none, reactor := .login, queue := [], outbox := [],
    joins := [], err := none }

/-- The hash passed to the (last) `auth_token.join` call, if any. -/
def ClientState.joined (s : ClientState) : Option String := s.joins.getLast?

/-! ### The disconnect-message recogniser -/

/-- `\s` for a `str` pattern: `Py_UNICODE_ISSPACE`. -/
def pyIsSpace (c : Char) : Bool :=
  let n := c.toNat
  (0x09 ≤ n && n ≤ 0x0D) || (0x1C ≤ n && n ≤ 0x20) || n == 0x85 || n == 0xA0 || n == 0x1680 ||
  (0x2000 ≤ n && n ≤ 0x200A) || n == 0x2028 || n == 0x2029 || n == 0x202F || n == 0x205F ||
  n == 0x3000

def stripPrefix : List Char → List Char → Option (List Char)
  | [], l => some l
  | _ :: _, [] => none
  | a :: p, b :: l => if a = b then stripPrefix p l else none

/-- `(?P<ver>\S+)$`: the longest run of non-whitespace must be non-empty and be followed by the end
of the string or by a single final `"\n"` (Python's `$` without `re.MULTILINE`). Backtracking to a
shorter run cannot help: `$` would then stand before a non-whitespace character. -/
def verTail (rest : List Char) : Option (List Char) :=
  let v := rest.takeWhile (fun c => !pyIsSpace c)
  let tl := rest.dropWhile (fun c => !pyIsSpace c)
  if v ≠ [] ∧ (tl = [] ∨ tl = ['\n']) then some v else none

def outdatedPrefixes : List (List Char) :=
  ["Outdated client! Please use ".toList, "Outdated server! I'm still on ".toList]

/-- `re.match(r"Outdated (client! Please use|server! I'm still on) (?P<ver>\S+)$", msg)` on the
characters of `msg`; the two alternatives start differently, so at most one can match. -/
def outdatedVersionL (msg : List Char) : Option (List Char) :=
  match stripPrefix "Outdated client! Please use ".toList msg with
  | some rest => verTail rest
  | none =>
    match stripPrefix "Outdated server! I'm still on ".toList msg with
    | some rest => verTail rest
    | none => none

def outdatedVersion (msg : String) : Option String :=
  (outdatedVersionL msg.toList).map String.ofList

/-- The `disconnect` branch of `LoginReactor.react`: which exception is raised. -/
def classifyDisconnect (P : LoginParams) (json : String) : LoginErr :=
  -- `msg = json.loads(data)['text']` when that is a string, else the raw `json_data`
  -- (a non-string `text` member falls back to the raw data as well)
  let msg := match P.jsonText json with
    | .str t => t
    | _ => json
  match outdatedVersion msg with
  | some v => .versionMismatch v
  | none => .loginDisconnect msg

/-! ### Writing -/

/-- `_write_packet(packet)` now: the frame is produced with the current options/socket. -/
def ClientState.writeNow (s : ClientState) (p : ClientPkt) (forced : Bool) : ClientState :=
  { s with outbox := s.outbox ++ [⟨p, s.encrypted, s.threshold, forced⟩] }

/-- `write_packet(packet)` with `force=False`: append to the queue. -/
def ClientState.enqueue (s : ClientState) (p : ClientPkt) : ClientState :=
  { s with queue := s.queue ++ [p] }

/-- The write phase of `_run`: `while _pop_packet()` — every queued packet is written with the
modes in force NOW. -/
def ClientState.flushQueue (s : ClientState) : ClientState :=
  { s with outbox := s.outbox ++ s.queue.map (fun p => ⟨p, s.encrypted, s.threshold, false⟩),
           queue := [] }

/-- The default answer to a plugin request (or the one queued by the user's early listener). -/
def pluginReply (P : LoginParams) (msgId : Nat) (channel : String) (data : Bytes) : ClientPkt :=
  match P.handler msgId channel data with
  | some d => .plugResp msgId true (some d)
  | none => .plugResp msgId false none

/-- `Connection._react` with the `LoginReactor`. -/
def react (P : LoginParams) (s : ClientState) : LoginEv → ClientState
  | .encRequest serverId pubKey token =>
    -- token, encrypted_secret = encrypt_token_and_secret(public_key, verify_token, secret)
    let encSecret := P.rsa.enc pubKey P.secret
    let encToken := P.rsa.enc pubKey token
    -- if server_id != '-': hash; if auth_token is not None: join(hash)
    let s1 : ClientState :=
      if serverId ≠ "-" then
        let h := P.hash serverId P.secret pubKey
        if P.hasToken then { s with joins := s.joins ++ [h] } else s
      else s
    -- write_packet(encryption_response, force=True) BEFORE the cipher is installed …
    let s2 := s1.writeNow (.encResp encSecret encToken) true
    -- … then wrap socket and file object
    { s2 with encrypted := true }
  | .disconnect json => { s with err := some (classifyDisconnect P json) }
  | .success => { s with reactor := .play }
  | .setCompression thr => { s with threshold := some thr }
  | .pluginRequest msgId channel data => s.enqueue (pluginReply P msgId channel data)

/-! ### The loop -/

inductive Step
  | flush                 -- write phase of one `_run` iteration
  | recv (e : LoginEv)    -- `read_packet` + `_react` of one packet in the read phase
deriving Repr, DecidableEq

/-- One step. After an exception the thread is gone (`_handle_exception` →
`disconnect(immediate=True)`: nothing more is written or read); in state `play` the login model no
longer interprets incoming packets but the queue is still flushed. -/
def step (P : LoginParams) (s : ClientState) : Step → ClientState
  | .flush => if s.err.isSome then s else s.flushQueue
  | .recv e => if s.err.isSome || s.reactor == .play then s else react P s e

def exec (P : LoginParams) (s : ClientState) (steps : List Step) : ClientState :=
  steps.foldl (step P) s

/-- The packets a step list delivers, in order. -/
def events : List Step → List LoginEv
  | [] => []
  | .flush :: r => events r
  | .recv e :: r => e :: events r

/-- `sched cap k script`: `k` reads are still allowed in the current iteration. -/
def sched (cap : Nat) : Nat → List LoginEv → List Step
  | _, [] => [.flush]
  | 0, e :: es => .flush :: .recv e :: sched cap (cap - 1) es
  | k + 1, e :: es => .recv e :: sched cap k es

/-- Regular schedule: flush, up to `cap` reads, flush, …, and a last flush (the write phase of the
iteration after the last read). `cap ≤ 1` flushes before every read. -/
def schedule (cap : Nat) (script : List LoginEv) : List Step := sched cap 0 script

def runLogin (P : LoginParams) (cap : Nat) (script : List LoginEv) : ClientState :=
  exec P .init (schedule cap script)

/-! ### Vocabulary used by the property statements -/

def LoginEv.isTerminal : LoginEv → Bool
  | .success => true
  | .disconnect _ => true
  | _ => false

def LoginEv.isDisconnect : LoginEv → Bool
  | .disconnect _ => true
  | _ => false

def LoginEv.isSetCompression : LoginEv → Bool
  | .setCompression _ => true
  | _ => false

def LoginEv.isEncRequest : LoginEv → Bool
  | .encRequest .. => true
  | _ => false

/-- The events the login reactor actually reacts to: up to and including the first
`success`/`disconnect`. -/
def processed : List LoginEv → List LoginEv
  | [] => []
  | e :: es => if e.isTerminal then [e] else e :: processed es

/-- The response each plugin request must receive. -/
def expectedPluginReply (P : LoginParams) : LoginEv → Option ClientPkt
  | .pluginRequest i c d => some (pluginReply P i c d)
  | _ => none

def ClientPkt.isPlugResp : ClientPkt → Bool
  | .plugResp .. => true
  | _ => false

/-- The `join` call an event must cause. -/
def expectedJoin (P : LoginParams) : LoginEv → Option String
  | .encRequest sid pk _ => if sid ≠ "-" ∧ P.hasToken = true then some (P.hash sid P.secret pk) else none
  | _ => none

end PyCraft.Login
