import PyCraft.Basic
/-!
Model of version negotiation and of the plain status query in
`minecraft/networking/connection.py`:

* `Connection.__init__`  (the nested `proto_version`, `allowed_proto_versions`,
  `default_proto_version`, `context.protocol_version`)            → `resolve`, `ctor`
* `Connection.connect`  (single allowed version → direct login, else status query) → `connectPlan`
* `Connection._handshake` + the packets queued right after it     → `firstFrames`
* `PlayingStatusReactor.handle_status / handle_proto_version / handle_failure / handle_exception`
  and `Connection._version_mismatch`                               → `evalStatus`, `mismatchMessage`
* the whole two-connection exchange                                → `session`
* `Connection.status` + `StatusReactor.react` + `NetworkingThread.run/_run` + `_handle_exit`
                                                                   → `react`, `runStatus`

Python objects and their models:

* the module tables `SUPPORTED_MINECRAFT_VERSIONS` (ordered dict id → protocol),
  `SUPPORTED_PROTOCOL_VERSIONS` (list) and `KNOWN_PROTOCOL_VERSIONS` (list; `PROTOCOL_VERSION_INDICES`
  maps a protocol to its index in it) → the three fields of `VEnv`.  They are *parameters*: every
  definition and theorem is for all tables.
* a Python `set` of protocol numbers → a duplicate-free `List Nat`; `ctor` produces it in the
  canonical order "ascending rank" (`toSet`).
* `ValueError` → `.error .value`; `TypeError` → `.error .type`.

Everything lives in `PyCraft.Neg` because the names asked for (`ctor`, `react`, `Act`, `Plan`, …) are
short and several other models are being written concurrently.
-/
namespace PyCraft.Neg
open PyCraft

/-! ### Tables -/

/-- The version tables the code consults.
`supportedNames` = `SUPPORTED_MINECRAFT_VERSIONS.items()`, `supportedProtocols` =
`SUPPORTED_PROTOCOL_VERSIONS`, `knownOrder` = `KNOWN_PROTOCOL_VERSIONS` (so that
`PROTOCOL_VERSION_INDICES.get(v)` is the index of `v` in `knownOrder`, `None` when absent). -/
structure VEnv where
  supportedNames : List (String × Nat)
  supportedProtocols : List Nat
  knownOrder : List Nat
deriving Repr, DecidableEq

/-- The sanity condition `initglobals` guarantees: `SUPPORTED_PROTOCOL_VERSIONS ⊆
KNOWN_PROTOCOL_VERSIONS`, i.e. every supported protocol has a rank. -/
abbrev Sane (env : VEnv) : Prop := ∀ p ∈ env.supportedProtocols, p ∈ env.knownOrder

/-- `dict.get(key)` on an insertion-ordered dict given by its items. -/
def dictGet : List (String × Nat) → String → Option Nat
  | [], _ => none
  | (k, v) :: rest, s => if k = s then some v else dictGet rest s

/-- `PROTOCOL_VERSION_INDICES.get(v)` when it is not `None`: the index of `v` in `knownOrder`. -/
def rankOf (env : VEnv) (v : Nat) : Nat := env.knownOrder.idxOf v

/-- `PROTOCOL_VERSION_INDICES.get(v) is not None`. -/
def ranked (env : VEnv) (v : Nat) : Bool := decide (v ∈ env.knownOrder)

/-- `x in s` for a Python int `x` and a collection `s` of non-negative ints. -/
def inZ (n : Int) (l : List Nat) : Bool := decide (0 ≤ n) && decide (n.toNat ∈ l)

/-! ### `Connection.__init__` -/

/-- What the caller may pass as a version: a `str`, an `int`, or an object of any other type. -/
inductive VReq
  | name (s : String)
  | num (n : Int)
  | other
deriving DecidableEq, Repr

/-- The first half of `proto_version(version)`: the `isinstance` dispatch (`none` = Python `None`). -/
def protoOf (env : VEnv) : VReq → Option Int
  | .name s => (dictGet env.supportedNames s).map Int.ofNat
  | .num n => some n
  | .other => none

/-- The nested function `proto_version(version)` of `Connection.__init__`:
```
if isinstance(version, str):   proto_version = SUPPORTED_MINECRAFT_VERSIONS.get(version)
elif isinstance(version, int): proto_version = version
else:                          proto_version = None
if proto_version not in SUPPORTED_PROTOCOL_VERSIONS: raise ValueError(...)
return proto_version
``` -/
def resolve (env : VEnv) (r : VReq) : Except Err Nat :=
  match protoOf env r with
  | none => .error .value
  | some n => if inZ n env.supportedProtocols then .ok n.toNat else .error .value

/-- `map(proto_version, allowed_versions)` consumed by `set(...)`: the first failing element
raises. -/
def resolveAll (env : VEnv) : List VReq → Except Err (List Nat)
  | [] => .ok []
  | r :: rs =>
    match resolve env r with
    | .error e => .error e
    | .ok v =>
      match resolveAll env rs with
      | .error e => .error e
      | .ok vs => .ok (v :: vs)

/-- Remove duplicates (keeps one occurrence of each element). -/
def dedup : List Nat → List Nat
  | [] => []
  | x :: xs => if x ∈ xs then dedup xs else x :: dedup xs

/-- `set(l)` in canonical order: the members that have a rank in ascending rank, then the members
without a rank; no duplicates. -/
def toSet (env : VEnv) (l : List Nat) : List Nat :=
  dedup (env.knownOrder.filter (fun v => decide (v ∈ l))
          ++ l.filter (fun v => decide (v ∉ env.knownOrder)))

/-- One comparison of `max(..., key=PROTOCOL_VERSION_INDICES.get)`: keep the later-ranked one (the
first maximal element wins ties, as in Python). -/
def pickLater (env : VEnv) (best x : Nat) : Nat :=
  if rankOf env x > rankOf env best then x else best

/-- `max(s, key=PROTOCOL_VERSION_INDICES.get)`:
an empty `s` raises `ValueError`; a one-element `s` returns that element without comparing any
keys; with two or more elements every key takes part in a `>` comparison, and a `None` key
(protocol not in `KNOWN_PROTOCOL_VERSIONS`) raises `TypeError`. -/
def latest (env : VEnv) : List Nat → Except Err Nat
  | [] => .error .value
  | [v] => .ok v
  | v :: w :: rest =>
    if (v :: w :: rest).all (ranked env) then .ok ((w :: rest).foldl (pickLater env) v)
    else .error .type

/-- The three attributes computed by `Connection.__init__`: `allowed_proto_versions`,
`default_proto_version`, `context.protocol_version`. -/
structure Cfg where
  allowed : List Nat
  default : Nat
  ctx : Nat
deriving DecidableEq, Repr

/-- `self.allowed_proto_versions`: `set(SUPPORTED_PROTOCOL_VERSIONS)` when `allowed_versions is
None`, else `set(map(proto_version, allowed_versions))`. -/
def allowedSet (env : VEnv) : Option (List VReq) → Except Err (List Nat)
  | none => .ok (toSet env env.supportedProtocols)
  | some reqs =>
    match resolveAll env reqs with
    | .error e => .error e
    | .ok l => .ok (toSet env l)

/-- `Connection.__init__(…, initial_version=initial, allowed_versions=allowed)`; `none` is Python
`None`.  Order of evaluation as in the source: allowed set, then `max`, then `initial_version`. -/
def ctor (env : VEnv) (allowed : Option (List VReq)) (initial : Option VReq) : Except Err Cfg :=
  match allowedSet env allowed with
  | .error e => .error e
  | .ok al =>
    match latest env al with
    | .error e => .error e
    | .ok lt =>
      match initial with
      | none => .ok ⟨al, lt, lt⟩
      | some r =>
        match resolve env r with
        | .error e => .error e
        | .ok d => .ok ⟨al, d, lt⟩

/-! ### `Connection.connect` -/

/-- What `connect()` does after opening the socket: log in directly with version `v`, or issue a
status query whose handshake carries protocol `hsProto`. -/
inductive Plan
  | direct (v : Nat)
  | query (hsProto : Nat)
deriving DecidableEq, Repr

/-- `connect()`: `context.protocol_version = max(allowed, key=INDICES.get)` is evaluated first (and
can raise); then `len(allowed) == 1` selects the branch.  `allowed` is a set, i.e. duplicate-free. -/
def connectPlan (env : VEnv) (allowed : List Nat) : Except Err Plan :=
  match latest env allowed with
  | .error e => .error e
  | .ok v => if allowed.length = 1 then .ok (.direct v) else .ok (.query v)

/-- The fields of `HandShakePacket` set by `_handshake`. -/
structure Handshake where
  proto : Nat
  host : String
  port : Nat
  next : Nat
deriving DecidableEq, Repr

/-- The per-connection parameters stored by `__init__`: `options.address`, `options.port`,
`username` (`none` = Python `None`) and `auth_token.profile.name` when an auth token was given
(`AuthenticationToken` defines neither `__bool__` nor `__len__`, so `if self.auth_token:` is true
exactly when a token was given). -/
structure ConnParams where
  host : String
  port : Nat
  username : Option String
  authProfile : Option String
deriving DecidableEq, Repr

/-- `login_start_packet.name`. -/
def loginName (p : ConnParams) : Option String :=
  match p.authProfile with
  | some a => some a
  | none => p.username

/-- Packets queued by `connect()` on the fresh connection, in order. -/
inductive Frame
  | handshake (h : Handshake)
  | loginStart (name : Option String)
  | statusRequest
deriving DecidableEq, Repr

def STATE_STATUS : Nat := 1
def STATE_PLAYING : Nat := 2

def firstFrames (p : ConnParams) : Plan → List Frame
  | .direct v => [.handshake ⟨v, p.host, p.port, STATE_PLAYING⟩, .loginStart (loginName p)]
  | .query v => [.handshake ⟨v, p.host, p.port, STATE_STATUS⟩, .statusRequest]

/-! ### `PlayingStatusReactor` -/

/-- What comes back on the status connection: a status object whose `version.protocol` is the
integer `n` (and `version.get('name')` is `name`), an object without `'version'`, an object whose
`'version'` has no `'protocol'`, the empty object `{}`, or end of stream before any reply. -/
inductive StatusReply
  | proto (n : Int) (name : Option String)
  | noVersion
  | noProtocolKey
  | emptyObj
  | closedBeforeReply
deriving DecidableEq, Repr

inductive NegOutcome
  | connect (v : Nat)
  | mismatch (serverProto : Int) (serverName : Option String) (supported : Bool)
  | invalidStatus
deriving DecidableEq, Repr

/-- `_version_mismatch(server_protocol=n, server_version=name)` with an integer `n`: the
`VersionMismatch` raised; `supported` is `server_protocol in SUPPORTED_PROTOCOL_VERSIONS`. -/
def versionMismatch (env : VEnv) (n : Int) (name : Option String) : NegOutcome :=
  .mismatch n name (inZ n env.supportedProtocols)

/-- `handle_proto_version(v)`: `allowed_proto_versions = {v}; connect()`. -/
def handleProtoVersion (v : Nat) : NegOutcome := .connect v

/-- `handle_failure()`. -/
def handleFailure (dflt : Nat) : NegOutcome := handleProtoVersion dflt

/-- `handle_status(status)` for the four shapes of status object, and `handle_exception(EOFError)`
for a closed stream (`disconnect(immediate=True); handle_failure(); return True`). -/
def evalStatus (env : VEnv) (allowed : List Nat) (dflt : Nat) : StatusReply → NegOutcome
  | .emptyObj => .invalidStatus                       -- raise IOError('Invalid server status.')
  | .noVersion => handleFailure dflt
  | .noProtocolKey => handleFailure dflt
  | .proto n name =>
    if inZ n allowed then handleProtoVersion n.toNat   -- proto in allowed_proto_versions
    else versionMismatch env n name
  | .closedBeforeReply => handleFailure dflt

/-- The text of the `VersionMismatch`, built as in `_version_mismatch`:
`vs = 'protocol version of %d' % n + ('' if name is None else ' (%s)' % name)`,
`ss = 'supported, but not allowed for this connection' if supported else 'not supported'`,
`"Server's %s is %s." % (vs, ss)`. -/
def mismatchMessage (n : Int) (name : Option String) (supported : Bool) : String :=
  let vs := "protocol version of " ++ toString n ++
    (match name with
     | none => ""
     | some s => " (" ++ s ++ ")")
  let ss := if supported then "supported, but not allowed for this connection" else "not supported"
  "Server's " ++ vs ++ " is " ++ ss ++ "."

/-- Everything `connect()` puts on the wire until login starts or negotiation fails: the list of
TCP connections opened (each with its first frames) and the outcome.  With a status query and a
`connect v` outcome, `handle_proto_version` sets `allowed := {v}` and calls `connect()` again. -/
structure Session where
  conns : List (List Frame)
  outcome : NegOutcome
deriving DecidableEq, Repr

def session (env : VEnv) (p : ConnParams) (allowed : List Nat) (dflt : Nat) (r : StatusReply) :
    Except Err Session :=
  match connectPlan env allowed with
  | .error e => .error e
  | .ok (.direct v) => .ok ⟨[firstFrames p (.direct v)], .connect v⟩
  | .ok (.query h) =>
    match evalStatus env allowed dflt r with
    | .connect v =>
      match connectPlan env [v] with
      | .error e => .error e
      | .ok plan2 => .ok ⟨[firstFrames p (.query h), firstFrames p plan2], .connect v⟩
    | o => .ok ⟨[firstFrames p (.query h)], o⟩

/-! ### Plain status query: `Connection.status` and `StatusReactor` -/

/-- Clientbound packets in the status state: `"response"` (payload = the JSON text),
`"ping"` (the pong, carrying a signed 64-bit `time`), anything else. -/
inductive StatusPkt
  | response (json : String)
  | pong (time : Int)
  | other
deriving DecidableEq, Repr

/-- Observable actions of the reactor.  `handleStatus j` = `handle_status(json.loads(j))`,
`sendPing t` = a `PingPacket(time=t)` is queued, `disconnect` = `connection.disconnect()`,
`handlePing l` = `handle_ping(l)`. -/
inductive Act
  | handleStatus (json : String)
  | sendPing (t : Nat)
  | disconnect
  | handlePing (latency : Int)
deriving DecidableEq, Repr

/-- The two flags `disconnect()` changes: `connection.connected` and `networking_thread.interrupt`. -/
structure StatusSt where
  connected : Bool
  interrupt : Bool
deriving DecidableEq, Repr

def StatusSt.init : StatusSt := ⟨true, false⟩

/-- `disconnect()`: `connected = False`, `networking_thread.interrupt = True`. -/
def StatusSt.disc (_ : StatusSt) : StatusSt := ⟨false, true⟩

/-- Does `react` evaluate `int(1000 * timeit.default_timer())` for this packet? -/
def usesTimer (doPing : Bool) : StatusPkt → Bool
  | .response _ => doPing
  | .pong _ => doPing
  | .other => false

/-- `StatusReactor.react(packet)`; `now` is the value of `int(1000 * timeit.default_timer())` if
it is evaluated. -/
def react (doPing : Bool) (st : StatusSt) (pkt : StatusPkt) (now : Nat) : StatusSt × List Act :=
  match pkt with
  | .response j =>
    if doPing then (st, [.sendPing now, .handleStatus j])
    else (st.disc, [.disconnect, .handleStatus j])
  | .pong t =>
    if doPing then (st.disc, [.disconnect, .handlePing ((now : Int) - t)])
    else (st, [])
  | .other => (st, [])

/-- The read loop of `NetworkingThread._run`: `while … and not self.interrupt: packet = read();
react(packet)`.  `none` = the clock list ran out (not a Python behaviour: a malformed script). -/
def runLoop (doPing : Bool) : StatusSt → List StatusPkt → List Nat → Option (StatusSt × List Act)
  | st, [], _ => some (st, [])
  | st, pkt :: rest, clock =>
    if st.interrupt then some (st, [])
    else if usesTimer doPing pkt then
      match clock with
      | [] => none
      | now :: clock' =>
        match runLoop doPing (react doPing st pkt now).1 rest clock' with
        | none => none
        | some (st', acts) => some (st', (react doPing st pkt now).2 ++ acts)
    else
      match runLoop doPing (react doPing st pkt 0).1 rest clock with
      | none => none
      | some (st', acts) => some (st', (react doPing st pkt 0).2 ++ acts)

/-- Result of a status run: the action log, whether the connection was closed, how many times the
exit callback ran. -/
structure StatusRun where
  acts : List Act
  closed : Bool
  exitCalls : Nat
deriving DecidableEq, Repr

/-- `Connection.status(handle_ping = False?)` against a server that sends `script`.
When the loop ends because `interrupt` was set, `_run` returns and `run` calls `_handle_exit`,
which calls the exit callback iff `not connected`.  If the script ends with `interrupt` unset the
thread is still waiting for packets: not closed, no exit callback. -/
def runStatus (doPing : Bool) (script : List StatusPkt) (clock : List Nat) : Option StatusRun :=
  match runLoop doPing StatusSt.init script clock with
  | none => none
  | some (st, acts) =>
    some ⟨acts, !st.connected, if st.interrupt && !st.connected then 1 else 0⟩

end PyCraft.Neg
