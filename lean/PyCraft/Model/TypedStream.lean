import PyCraft.Model.Frame
import PyCraft.Model.Layout
import PyCraft.Model.Custom
/-!
Packets with typed fields through the framed stream: `Packet.write` of
`minecraft/networking/packets/packet.py` end to end

```
def write(self, socket, compression_threshold=None):
    packet_buffer = PacketBuffer()
    VarInt.send(self.id, packet_buffer)          # packetPayload
    self.write_fields(packet_buffer)             # encodeFields  (Model/Layout.lean)
    self._write_buffer(socket, packet_buffer, compression_threshold)   # frame (Model/Frame.lean)
```

and the reading side: `PacketReactor.read_packet` (`readAll`, `Model/Frame.lean`) followed by
`packet.read(packet_data)` (`decodeFields`) on the payload of each delivered packet.
The custom-type codec `cc` is a parameter (`realCustom` of `Model/Custom.lean` is the library's).
-/
namespace PyCraft

/-- A packet instance ready to be written: its wire id, its `definition` (already resolved for the
connection's context) and the values of its fields in definition order. -/
structure TPacket where
  id : Nat
  layout : Layout
  vals : List Value

/-- `Packet.write`: the frame of one packet, or the exception raised by a field's `send`
(nothing is sent then: the packet buffer is only handed to the socket at the end). -/
def writeTyped (cc : CustomCodec) (z : ZlibOps) (thr : Option Int) (p : TPacket) :
    Except Err Bytes := do
  let fields ← encodeFields cc p.layout p.vals
  pure (packetFrame z thr (p.id, fields))

/-- Writing a sequence of packets: the concatenated frames; the first failing packet aborts. -/
def writeTypedAll (cc : CustomCodec) (z : ZlibOps) (thr : Option Int) :
    List TPacket → Except Err Bytes
  | [] => .ok []
  | p :: ps => do
    let a ← writeTyped cc z thr p
    let b ← writeTypedAll cc z thr ps
    pure (a ++ b)

/-- `packet.read(packet_data)` on a delivered `(id, payload)` for a packet class whose definition is
`L`: the id, and the field values together with the UNREAD rest of the payload (or the exception). -/
def decodeTyped (cc : CustomCodec) (L : Layout) (raw : Nat × Bytes) :
    Nat × Except Err (List Value × Bytes) :=
  (raw.1, decodeFields cc L raw.2)

/-- The reading side on a plain stream: all packets delivered by `read_packet`, the `i`-th decoded
with the `i`-th of `layouts`; and the exception that ended the loop. -/
def readTyped (cc : CustomCodec) (z : ZlibOps) (compressed : Bool) (layouts : List Layout)
    (segs : Segs) : List (Nat × Except Err (List Value × Bytes)) × Err :=
  let r := readAll z compressed segs
  (List.zipWith (decodeTyped cc) layouts r.1, r.2)

/-- … on an encrypted stream (decryptor context `s0`). -/
def readTypedEnc {σ : Type} (cc : CustomCodec) (dec : StreamXform σ) (s0 : σ) (z : ZlibOps)
    (compressed : Bool) (layouts : List Layout) (segs : Segs) :
    List (Nat × Except Err (List Value × Bytes)) × Err :=
  let r := readAllEnc dec s0 z compressed segs
  (List.zipWith (decodeTyped cc) layouts r.1, r.2)

/-- The reading side as the reactor does it: the packet class — hence the definition — is looked up
by the packet id (`table`); a packet whose id is not in the table is delivered as a bare `Packet`
and not decoded (dropped from this list). -/
def readDispatch (cc : CustomCodec) (z : ZlibOps) (compressed : Bool) (table : Nat → Option Layout)
    (segs : Segs) : List (Nat × Except Err (List Value × Bytes)) × Err :=
  let r := readAll z compressed segs
  (r.1.filterMap fun raw => (table raw.1).map fun L => decodeTyped cc L raw, r.2)

/-- The explicit guard of the typed round trip, for the library's custom codecs: the definition is
admissible (`Layout.ok`: a trailing byte array only in last position), every value is in the domain
of its field's type (`WellTypedFields realDom`), and the id and the two frame lengths pass C01's
VarInt guard `FrameOK`.  Decidable (`Lemmas/TypedStream.lean`). -/
def TypedOK (z : ZlibOps) (thr : Option Int) (p : TPacket) : Prop :=
  p.layout.ok = true ∧ WellTypedFields realDom p.layout p.vals ∧
    match encodeFields realCustom p.layout p.vals with
    | .ok fields => FrameOK z thr (p.id, fields)
    | .error _ => False

end PyCraft
