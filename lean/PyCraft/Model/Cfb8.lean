import PyCraft.Model.StreamXform
/-!
Model of the cipher contexts pyCraft obtains from
`Cipher(algorithms.AES(secret), modes.CFB8(secret)).encryptor()/.decryptor()` and of the two wrappers
of `minecraft/networking/encryption.py` (`EncryptedSocketWrapper`, `EncryptedFileObjectWrapper`).

CFB8 (NIST SP 800-38A §6.3 with s = 8) is written generically over the block function
`E : Bytes → Bytes` (the block cipher with the key already applied; `Model/Aes.lean` supplies
`aes128 key`).  The context state is the 16-byte shift register, initially the IV.

Per byte:   encrypt  `c = p XOR MSB8(E reg)`,  `reg' = LSB120(reg) ‖ c`
            decrypt  `p = c XOR MSB8(E reg)`,  `reg' = LSB120(reg) ‖ c`
(the ciphertext byte is what is shifted in, in both directions).

Nothing is assumed about `E`: the stream laws (`len`, `chunk`) and the inverse law hold for every
function `E` whatsoever, so they are fields of `cfb8EncX`, `cfb8DecX`, `cfb8Pair` proved here.
-/
namespace PyCraft

/-- Key-stream byte for the current register: the most significant (first) byte of `E reg`. -/
def cfb8Key (E : Bytes → Bytes) (reg : Bytes) : UInt8 := (E reg).headD 0

/-- Shift the register left by one byte, feeding the ciphertext byte `c` in on the right. -/
def cfb8Shift (reg : Bytes) (c : UInt8) : Bytes := reg.tail ++ [c]

/-- `encryptor.update(data)`: new register and the ciphertext. -/
def cfb8Enc (E : Bytes → Bytes) : Bytes → Bytes → Bytes × Bytes
  | reg, [] => (reg, [])
  | reg, p :: ps =>
    let c := p ^^^ cfb8Key E reg
    let r := cfb8Enc E (cfb8Shift reg c) ps
    (r.1, c :: r.2)

/-- `decryptor.update(data)`: new register and the plaintext. -/
def cfb8Dec (E : Bytes → Bytes) : Bytes → Bytes → Bytes × Bytes
  | reg, [] => (reg, [])
  | reg, c :: cs =>
    let p := c ^^^ cfb8Key E reg
    let r := cfb8Dec E (cfb8Shift reg c) cs
    (r.1, p :: r.2)

/-- A sequence of `update` calls on one context: final state and one output per call. -/
def updates {σ : Type} (f : σ → Bytes → σ × Bytes) : σ → List Bytes → σ × List Bytes
  | s, [] => (s, [])
  | s, c :: cs =>
    let r := f s c
    let rs := updates f r.1 cs
    (rs.1, r.2 :: rs.2)

/-- `encryptor.update(c)` for each chunk `c` of `cs` in turn. -/
def cfb8EncChunks (E : Bytes → Bytes) (reg : Bytes) (cs : List Bytes) : Bytes × List Bytes :=
  updates (cfb8Enc E) reg cs

/-- `decryptor.update(c)` for each chunk `c` of `cs` in turn. -/
def cfb8DecChunks (E : Bytes → Bytes) (reg : Bytes) (cs : List Bytes) : Bytes × List Bytes :=
  updates (cfb8Dec E) reg cs

/-! ### the stream laws, for every block function -/

theorem cfb8Enc_nil (E : Bytes → Bytes) (reg : Bytes) : cfb8Enc E reg [] = (reg, []) := rfl
theorem cfb8Dec_nil (E : Bytes → Bytes) (reg : Bytes) : cfb8Dec E reg [] = (reg, []) := rfl

theorem cfb8Enc_cons (E : Bytes → Bytes) (reg : Bytes) (p : UInt8) (ps : Bytes) :
    cfb8Enc E reg (p :: ps) =
      ((cfb8Enc E (cfb8Shift reg (p ^^^ cfb8Key E reg)) ps).1,
        (p ^^^ cfb8Key E reg) :: (cfb8Enc E (cfb8Shift reg (p ^^^ cfb8Key E reg)) ps).2) := rfl

theorem cfb8Dec_cons (E : Bytes → Bytes) (reg : Bytes) (c : UInt8) (cs : Bytes) :
    cfb8Dec E reg (c :: cs) =
      ((cfb8Dec E (cfb8Shift reg c) cs).1,
        (c ^^^ cfb8Key E reg) :: (cfb8Dec E (cfb8Shift reg c) cs).2) := rfl

theorem cfb8Enc_length (E : Bytes → Bytes) (reg x : Bytes) :
    (cfb8Enc E reg x).2.length = x.length := by
  induction x generalizing reg with
  | nil => rfl
  | cons p ps ih => simp [cfb8Enc_cons, ih]

theorem cfb8Dec_length (E : Bytes → Bytes) (reg x : Bytes) :
    (cfb8Dec E reg x).2.length = x.length := by
  induction x generalizing reg with
  | nil => rfl
  | cons p ps ih => simp [cfb8Dec_cons, ih]

theorem cfb8Enc_append (E : Bytes → Bytes) (reg a b : Bytes) :
    cfb8Enc E reg (a ++ b) =
      ((cfb8Enc E (cfb8Enc E reg a).1 b).1,
        (cfb8Enc E reg a).2 ++ (cfb8Enc E (cfb8Enc E reg a).1 b).2) := by
  induction a generalizing reg with
  | nil => rfl
  | cons p ps ih => simp [cfb8Enc_cons, ih]

theorem cfb8Dec_append (E : Bytes → Bytes) (reg a b : Bytes) :
    cfb8Dec E reg (a ++ b) =
      ((cfb8Dec E (cfb8Dec E reg a).1 b).1,
        (cfb8Dec E reg a).2 ++ (cfb8Dec E (cfb8Dec E reg a).1 b).2) := by
  induction a generalizing reg with
  | nil => rfl
  | cons p ps ih => simp [cfb8Dec_cons, ih]

/-- Decrypting, from the same register, what the encryptor produced gives the plaintext back and
leaves both registers equal (they have shifted in the same ciphertext bytes). -/
theorem cfb8Dec_enc (E : Bytes → Bytes) (reg x : Bytes) :
    (cfb8Dec E reg (cfb8Enc E reg x).2).2 = x ∧
      (cfb8Dec E reg (cfb8Enc E reg x).2).1 = (cfb8Enc E reg x).1 := by
  induction x generalizing reg with
  | nil => exact ⟨rfl, rfl⟩
  | cons p ps ih =>
    have h := ih (cfb8Shift reg (p ^^^ cfb8Key E reg))
    simp only [cfb8Enc_cons, cfb8Dec_cons, h.1, h.2, UInt8.xor_assoc, UInt8.xor_self,
      UInt8.xor_zero, and_self]

/-- The other way round: encrypting, from the same register, what the decryptor returned gives the
ciphertext back. -/
theorem cfb8Enc_dec (E : Bytes → Bytes) (reg y : Bytes) :
    (cfb8Enc E reg (cfb8Dec E reg y).2).2 = y ∧
      (cfb8Enc E reg (cfb8Dec E reg y).2).1 = (cfb8Dec E reg y).1 := by
  induction y generalizing reg with
  | nil => exact ⟨rfl, rfl⟩
  | cons c cs ih =>
    have h := ih (cfb8Shift reg c)
    simp only [cfb8Enc_cons, cfb8Dec_cons, h.1, h.2, UInt8.xor_assoc, UInt8.xor_self,
      UInt8.xor_zero, and_self]

/-- The CFB8 encryptor context over block function `E`, as a `StreamXform`. -/
def cfb8EncX (E : Bytes → Bytes) : StreamXform Bytes where
  update := cfb8Enc E
  len := cfb8Enc_length E
  chunk := cfb8Enc_append E

/-- The CFB8 decryptor context over block function `E`, as a `StreamXform`. -/
def cfb8DecX (E : Bytes → Bytes) : StreamXform Bytes where
  update := cfb8Dec E
  len := cfb8Dec_length E
  chunk := cfb8Dec_append E

/-- Encryptor and decryptor over the same `E`, as a `CipherPair`. -/
def cfb8Pair (E : Bytes → Bytes) : CipherPair Bytes where
  enc := cfb8EncX E
  dec := cfb8DecX E
  inv := cfb8Dec_enc E

/-! ### the wrappers -/

/-- State of an encrypted connection: the registers of the ONE encryptor context (used by
`EncryptedSocketWrapper.send`) and of the ONE decryptor context (shared by
`EncryptedSocketWrapper.recv` and `EncryptedFileObjectWrapper.read`; see
`connection.py`, `LoginReactor.react` on `EncryptionRequestPacket`). -/
structure Chan where
  encReg : Bytes
  decReg : Bytes
deriving DecidableEq, Repr

/-- `cipher = create_AES_cipher(secret); cipher.encryptor(); cipher.decryptor()`:
both contexts start from IV = secret. -/
def Chan.init (secret : Bytes) : Chan := ⟨secret, secret⟩

/-- `create_AES_cipher(secret)` raises `ValueError` unless the secret is a valid AES key that is
also a valid CFB8 IV (16 bytes; 24/32-byte keys fail the IV-length check). -/
def Chan.create (secret : Bytes) : Except Err Chan :=
  if secret.length = 16 then .ok (Chan.init secret) else .error .value

/-- `EncryptedSocketWrapper.send(data)`: `actual_socket.send(encryptor.update(data))`.
Second component: the bytes handed to the inner socket. -/
def Chan.send (E : Bytes → Bytes) (c : Chan) (data : Bytes) : Chan × Bytes :=
  let r := cfb8Enc E c.encReg data
  ({ c with encReg := r.1 }, r.2)

/-- `EncryptedSocketWrapper.recv(n)`: `decryptor.update(actual_socket.recv(n))`, where `chunk` is
what the inner socket returned.  Second component: the plaintext returned to the caller. -/
def Chan.recv (E : Bytes → Bytes) (c : Chan) (chunk : Bytes) : Chan × Bytes :=
  let r := cfb8Dec E c.decReg chunk
  ({ c with decReg := r.1 }, r.2)

/-- `EncryptedFileObjectWrapper.read(n)`: `decryptor.update(actual_file_object.read(n))` — the SAME
decryptor context as `recv`. -/
def Chan.read (E : Bytes → Bytes) (c : Chan) (chunk : Bytes) : Chan × Bytes := Chan.recv E c chunk

/-- One call on the wrappers. -/
inductive Op
  | send (data : Bytes)   -- socket wrapper `send(data)`
  | recv (chunk : Bytes)  -- socket wrapper `recv(n)`, inner socket returned `chunk`
  | read (chunk : Bytes)  -- file wrapper `read(n)`, inner file object returned `chunk`
deriving DecidableEq, Repr

def Op.isSend : Op → Bool
  | .send _ => true
  | _ => false

/-- `recv` on the socket wrapper or `read` on the file wrapper. -/
def Op.isRecv : Op → Bool
  | .send _ => false
  | _ => true

/-- Plaintext this call contributes to the outgoing stream. -/
def Op.sent : Op → Bytes
  | .send d => d
  | _ => []

/-- Ciphertext this call consumes from the incoming stream. -/
def Op.rcvd : Op → Bytes
  | .send _ => []
  | .recv ch => ch
  | .read ch => ch

def Chan.step (E : Bytes → Bytes) (c : Chan) : Op → Chan × Bytes
  | .send d => c.send E d
  | .recv ch => c.recv E ch
  | .read ch => c.read E ch

/-- Any interleaving of calls: final state and one output per call (for `send` the ciphertext
handed to the inner socket, for `recv`/`read` the plaintext returned). -/
def Chan.run (E : Bytes → Bytes) : Chan → List Op → Chan × List Bytes
  | c, [] => (c, [])
  | c, op :: ops =>
    let r := c.step E op
    let rs := Chan.run E r.1 ops
    (rs.1, r.2 :: rs.2)

/-- The outputs (`outs`, one per call of `ops`) of the calls selected by `p`, in order. -/
def outsOf (p : Op → Bool) : List Op → List Bytes → List Bytes
  | op :: ops, o :: outs => if p op then o :: outsOf p ops outs else outsOf p ops outs
  | _, _ => []

end PyCraft
