import PyCraft.Model.Versions
/-!
# The version tables as OBJECTS shared by reference (audit gap 25 (d), property C08)

`Model/Versions.lean` treats the seven tables of `minecraft/__init__.py` as VALUES.  In Python they
are objects that other modules got hold of by reference when they were imported:

* `minecraft/utility.py:6`               `from . import PROTOCOL_VERSION_INDICES`
* `minecraft/networking/connection.py:15-18`
  `from .. import (utility, KNOWN_MINECRAFT_VERSIONS, SUPPORTED_MINECRAFT_VERSIONS,
                   SUPPORTED_PROTOCOL_VERSIONS, PROTOCOL_VERSION_INDICES)`

`from M import NAME` copies the binding that `M.NAME` has AT THAT MOMENT into the importing module.
`initglobals` (`minecraft/__init__.py:508-545`) therefore never assigns to the seven globals: it
calls `.clear()` on the existing objects and refills them ("All updates are done by reference to
allow this to work elsewhere in the code", docstring `:517-518`).  `utility.protocol_earlier[_eq]`
(`utility.py:9-20`) subscript the dict bound in `utility`, and the five `ConnectionContext`
predicates (`connection.py:36-61`) call those two functions afresh on every call with
`self.protocol_version`; a context stores nothing else (`connection.py:33-34`).

Here: a heap of objects, the name→object bindings of the three modules, contexts, and HISTORIES of
user actions.  What each statement of `initglobals` computes is taken from `Model/Versions.lean`
(`initglobals`, the statement-level value model); this file adds WHERE the result is stored.

The two places where the real code could have been written differently without changing any table
are the two fields of `Code`; `Code.real` is the code of `/repo`, the other two values are the seeded
changes C08-m2 (`seeded/C08-m2/patch.diff`: the index dict is rebuilt with a comprehension and
REBOUND with `global PROTOCOL_VERSION_INDICES`) and C08-m3 (`seeded/C08-m3/patch.diff`: a context
remembers the index of its own version).  They are modelled only to be refuted.

Not modelled: threads observing `initglobals` half way (it is not atomic); the user REBINDING a
global of `minecraft` (e.g. `minecraft.SUPPORTED_MINECRAFT_VERSIONS = {...}`), which the importing
modules would not see — user edits are in-place (`supSet`, `setRecords`).
-/
namespace PyCraft.VerRef
open PyCraft

/-- Which code is modelled.  `rebindIdx = false`: `PROTOCOL_VERSION_INDICES.clear()` and in-place
assignment (`__init__.py:525,529-530`); `true`: seeded C08-m2.  `ctxCache = false`: the predicates
go through `utility` on every call (`connection.py:36-61`); `true`: seeded C08-m3. -/
structure Code where
  rebindIdx : Bool
  ctxCache : Bool
deriving DecidableEq, Repr

/-- The code of `/repo`. -/
def Code.real : Code := ⟨false, false⟩
/-- Seeded change C08-m2. -/
def Code.m2 : Code := ⟨true, false⟩
/-- Seeded change C08-m3. -/
def Code.m3 : Code := ⟨false, true⟩

/-! ### Heap and bindings -/

/-- The objects, by Python type; a reference is a position in the list of its type.
`ods`: `OrderedDict` str→int; `lsts`: `list` of int; `idxs`: `dict` int→int. -/
structure Heap where
  ods : List (List (String × Nat))
  lsts : List (List Nat)
  idxs : List (List (Nat × Nat))
deriving DecidableEq, Repr

/-- Dereference (`[]` for a dangling reference, which no operation below creates). -/
def Heap.od (h : Heap) (r : Nat) : List (String × Nat) := (h.ods[r]?).getD []
def Heap.lst (h : Heap) (r : Nat) : List Nat := (h.lsts[r]?).getD []
def Heap.idx (h : Heap) (r : Nat) : List (Nat × Nat) := (h.idxs[r]?).getD []

/-- The seven globals of module `minecraft` (`__init__.py:482-505`): name ↦ reference. -/
structure Names where
  knownVersions : Nat        -- KNOWN_MINECRAFT_VERSIONS      (ods)
  knownProtocols : Nat       -- KNOWN_PROTOCOL_VERSIONS       (lsts)
  supportedVersions : Nat    -- SUPPORTED_MINECRAFT_VERSIONS  (ods)
  indices : Nat              -- PROTOCOL_VERSION_INDICES      (idxs)
  supportedProtocols : Nat   -- SUPPORTED_PROTOCOL_VERSIONS   (lsts)
  releaseVersions : Nat      -- RELEASE_MINECRAFT_VERSIONS    (ods)
  releaseProtocols : Nat     -- RELEASE_PROTOCOL_VERSIONS     (lsts)
deriving DecidableEq, Repr

/-- The four names that `connection.py:15-18` imports from `minecraft`. -/
structure ConnNames where
  knownVersions : Nat
  supportedVersions : Nat
  supportedProtocols : Nat
  indices : Nat
deriving DecidableEq, Repr

/-- The current contents of the objects the seven names refer to. -/
def deref (h : Heap) (n : Names) : Tables :=
  { knownVersions := h.od n.knownVersions
    knownProtocols := h.lst n.knownProtocols
    supportedVersions := h.od n.supportedVersions
    indices := h.idx n.indices
    supportedProtocols := h.lst n.supportedProtocols
    releaseVersions := h.od n.releaseVersions
    releaseProtocols := h.lst n.releaseProtocols }

/-- `X.clear()` followed by refilling `X`, for the six tables that every variant updates in place:
the objects keep their identity, their contents become those of `t`. -/
def storeSix (h : Heap) (n : Names) (t : Tables) : Heap :=
  { ods := ((h.ods.set n.knownVersions t.knownVersions).set n.supportedVersions
              t.supportedVersions).set n.releaseVersions t.releaseVersions
    lsts := ((h.lsts.set n.knownProtocols t.knownProtocols).set n.supportedProtocols
              t.supportedProtocols).set n.releaseProtocols t.releaseProtocols
    idxs := h.idxs }

/-- The same for all seven (`PROTOCOL_VERSION_INDICES.clear()`, `:525`, and `:529-530`). -/
def storeInPlace (h : Heap) (n : Names) (t : Tables) : Heap :=
  let h := storeSix h n t
  { h with idxs := h.idxs.set n.indices t.indices }

/-- `initglobals(use_known_records)` acting on the heap through the globals of `minecraft`.
The new contents are those computed by the statement-level model `PyCraft.initglobals` from the
current contents (with `use_known_records=False` the four "known" tables come back unchanged).

Real code: every object is updated in place, no global is assigned.
C08-m2: with `use_known_records=True` the index dict is NOT cleared; after the loop
`PROTOCOL_VERSION_INDICES = {protocol: index for (index, protocol) in
enumerate(KNOWN_PROTOCOL_VERSIONS)}` allocates a new dict and rebinds the global of `minecraft`. -/
def initCore (code : Code) (useKnown : Bool) (records : List Rec) (h : Heap) (n : Names) :
    Heap × Names :=
  let t' := initglobals useKnown records (deref h n)
  if code.rebindIdx && useKnown then
    let h' := storeSix h n t'
    let fresh := t'.knownProtocols.zipIdx.foldl (fun d e => odSet d e.1 e.2) []
    ({ h' with idxs := h'.idxs ++ [fresh] }, { n with indices := h'.idxs.length })
  else
    (storeInPlace h n t', n)

/-! ### Contexts and the comparison functions -/

/-- A `ConnectionContext`.  The real class has the single attribute `protocol_version`
(`connection.py:33-34`; `None` when the keyword is not given).  The two cache fields exist only in
C08-m3 (`_index_version`, `_index`, both initially `None`) and are never touched by the real
code. -/
structure Ctx where
  pv : Option Nat
  cacheVersion : Option Nat := none
  cacheIdx : Option Nat := none
deriving DecidableEq, Repr

/-- `D[pv]` on an index dict; `KeyError` (`.error .other`) for a missing key — in particular for
`None`, which is never a key. -/
def lookupE (d : List (Nat × Nat)) : Option Nat → Except Err Nat
  | none => .error .other
  | some pv =>
    match odGet d pv with
    | some i => .ok i
    | none => .error .other

/-- `utility.protocol_earlier(pv1, pv2)` (`utility.py:9-13`) on the dict `d` that the name
`PROTOCOL_VERSION_INDICES` is bound to IN `utility`: left subscript first, then the right one. -/
def uEarlier (d : List (Nat × Nat)) (pv1 pv2 : Option Nat) : Except Err Bool := do
  let i ← lookupE d pv1
  let j ← lookupE d pv2
  pure (decide (i < j))

/-- `utility.protocol_earlier_eq(pv1, pv2)` (`utility.py:16-20`). -/
def uEarlierEq (d : List (Nat × Nat)) (pv1 pv2 : Option Nat) : Except Err Bool := do
  let i ← lookupE d pv1
  let j ← lookupE d pv2
  pure (decide (i ≤ j))

/-- The five predicates of `ConnectionContext`. -/
inductive Pred
  | earlier | earlierEq | later | laterEq | inRange
deriving DecidableEq, Repr

/-- Real code, `connection.py:36-61`, with `d` the dict of `utility`.  The arguments are
`(other_pv, _)` for the four binary predicates and `(start_pv, end_pv)` for `protocol_in_range`. -/
def ctxCallReal (d : List (Nat × Nat)) (pv : Option Nat) : Pred → Nat → Nat → Except Err Bool
  | .earlier, o, _ => uEarlier d pv (some o)       -- :39
  | .earlierEq, o, _ => uEarlierEq d pv (some o)   -- :44
  | .later, o, _ => uEarlier d (some o) pv         -- :49
  | .laterEq, o, _ => uEarlierEq d (some o) pv     -- :54
  | .inRange, s, e => do                           -- :60-61, `and` short-circuits
    let a ← uEarlier d pv (some e)
    if a then uEarlierEq d (some s) pv else pure false

/-- C08-m3 `_protocol_index()`: look the version up only if nothing is remembered or the version
was reassigned; a `KeyError` leaves the cache as it was (the assignment is not reached). -/
def protocolIndex (d : List (Nat × Nat)) (c : Ctx) : Except Err Nat × Ctx :=
  match c.cacheIdx, decide (c.cacheVersion = c.pv) with
  | some i, true => (.ok i, c)
  | _, _ =>
    match lookupE d c.pv with
    | .error e => (.error e, c)
    | .ok i => (.ok i, { c with cacheIdx := some i, cacheVersion := c.pv })

/-- C08-m3 predicates, with `d` the dict bound in `connection` (operand order as in the patch). -/
def ctxCallCached (d : List (Nat × Nat)) (c : Ctx) : Pred → Nat → Nat → Except Err Bool × Ctx
  | .earlier, o, _ =>     -- self._protocol_index() < PROTOCOL_VERSION_INDICES[other_pv]
    match protocolIndex d c with
    | (.error e, c') => (.error e, c')
    | (.ok i, c') => ((lookupE d (some o)).map fun j => decide (i < j), c')
  | .earlierEq, o, _ =>
    match protocolIndex d c with
    | (.error e, c') => (.error e, c')
    | (.ok i, c') => ((lookupE d (some o)).map fun j => decide (i ≤ j), c')
  | .later, o, _ =>       -- PROTOCOL_VERSION_INDICES[other_pv] < self._protocol_index()
    match lookupE d (some o) with
    | .error e => (.error e, c)
    | .ok j =>
      match protocolIndex d c with
      | (.error e, c') => (.error e, c')
      | (.ok i, c') => (.ok (decide (j < i)), c')
  | .laterEq, o, _ =>
    match lookupE d (some o) with
    | .error e => (.error e, c)
    | .ok j =>
      match protocolIndex d c with
      | (.error e, c') => (.error e, c')
      | (.ok i, c') => (.ok (decide (j ≤ i)), c')
  | .inRange, s, e =>     -- index = ...; index < IDX[end_pv] and IDX[start_pv] <= index
    match protocolIndex d c with
    | (.error x, c') => (.error x, c')
    | (.ok i, c') =>
      match lookupE d (some e) with
      | .error x => (.error x, c')
      | .ok je =>
        if i < je then ((lookupE d (some s)).map fun js => decide (js ≤ i), c')
        else (.ok false, c')

/-! ### The world and histories -/

/-- Everything that exists after `import minecraft.networking.connection`. -/
structure World where
  heap : Heap
  /-- contents of the list `KNOWN_MINECRAFT_VERSION_RECORDS` (read by `initglobals` only) -/
  records : List Rec
  /-- globals of `minecraft` -/
  mc : Names
  /-- `utility.PROTOCOL_VERSION_INDICES` -/
  utilIdx : Nat
  /-- the four names in `connection` -/
  conn : ConnNames
  /-- the `ConnectionContext` objects created so far -/
  ctxs : List Ctx
deriving DecidableEq, Repr

/-- What a user of the library does. -/
inductive Op
  /-- any in-place edit of `KNOWN_MINECRAFT_VERSION_RECORDS` (append, insert, …): new contents -/
  | setRecords (recs : List Rec)
  /-- `minecraft.SUPPORTED_MINECRAFT_VERSIONS[k] = v` -/
  | supSet (k : String) (v : Nat)
  /-- `minecraft.initglobals(use_known_records=b)` -/
  | init (useKnown : Bool)
  /-- `ConnectionContext(protocol_version=pv)`; the new context gets the next number -/
  | newCtx (pv : Option Nat)
  /-- `context.protocol_version = pv` on context number `c` -/
  | setPv (c : Nat) (pv : Option Nat)
  /-- `context.<predicate>(a)` resp. `context.protocol_in_range(a, b)` on context number `c` -/
  | call (c : Nat) (p : Pred) (a b : Nat)
deriving DecidableEq, Repr

/-- The state after `import minecraft.networking.connection` with the record list `recs`:
`__init__.py:482-505` binds the seven globals to fresh empty objects, `:548` runs
`initglobals(use_known_records=True)`, and only THEN are `utility` and `connection` imported, each
copying the bindings current at that moment. -/
def boot (code : Code) (recs : List Rec) : World :=
  let r := initCore code true recs ⟨[[], [], []], [[], [], []], [[]]⟩ ⟨0, 0, 1, 0, 1, 2, 2⟩
  { heap := r.1, records := recs, mc := r.2
    utilIdx := r.2.indices
    conn := ⟨r.2.knownVersions, r.2.supportedVersions, r.2.supportedProtocols, r.2.indices⟩
    ctxs := [] }

/-- One predicate call on a context: the answer and the context afterwards. -/
def ctxCall (code : Code) (w : World) (c : Ctx) (p : Pred) (a b : Nat) : Except Err Bool × Ctx :=
  if code.ctxCache then ctxCallCached (w.heap.idx w.conn.indices) c p a b
  else (ctxCallReal (w.heap.idx w.utilIdx) c.pv p a b, c)

/-- One action: the world afterwards and, for a `call`, the answer (`none` for the other actions
and for a context number that does not exist). -/
def step (code : Code) (w : World) : Op → World × Option (Except Err Bool)
  | .setRecords recs => ({ w with records := recs }, none)
  | .supSet k v =>
    ({ w with heap := { w.heap with
        ods := w.heap.ods.set w.mc.supportedVersions (odSet (w.heap.od w.mc.supportedVersions) k v) } },
     none)
  | .init b =>
    let r := initCore code b w.records w.heap w.mc
    ({ w with heap := r.1, mc := r.2 }, none)
  | .newCtx pv => ({ w with ctxs := w.ctxs ++ [{ pv := pv }] }, none)
  | .setPv c pv =>
    match w.ctxs[c]? with
    | some cx => ({ w with ctxs := w.ctxs.set c { cx with pv := pv } }, none)
    | none => (w, none)
  | .call c p a b =>
    match w.ctxs[c]? with
    | some cx =>
      let r := ctxCall code w cx p a b
      ({ w with ctxs := w.ctxs.set c r.2 }, some r.1)
    | none => (w, none)

/-- A history: the final world and the answers of its `call`s, in order. -/
def run (code : Code) (w : World) : List Op → World × List (Except Err Bool)
  | [] => (w, [])
  | op :: ops =>
    let r := step code w op
    let r' := run code r.1 ops
    (r'.1, (match r.2 with | some a => [a] | none => []) ++ r'.2)

/-- The final world of a history. -/
def runW (code : Code) (w : World) (ops : List Op) : World := (run code w ops).1

/-! ### Observations -/

/-- The tables as `minecraft.<NAME>` shows them now. -/
def tablesOf (w : World) : Tables := deref w.heap w.mc

/-- The dict that `utility.protocol_earlier` subscripts now. -/
def utilDict (w : World) : List (Nat × Nat) := w.heap.idx w.utilIdx

/-- `utility.protocol_earlier(a, b)` / `utility.protocol_earlier_eq(a, b)` called now. -/
def utilEarlier (w : World) (a b : Nat) : Except Err Bool := uEarlier (utilDict w) (some a) (some b)
def utilEarlierEq (w : World) (a b : Nat) : Except Err Bool :=
  uEarlierEq (utilDict w) (some a) (some b)

/-- Everything observable from outside at the end of a history (what the generated table
`Generated/C08Live.lean` records from the real code). -/
structure Obs where
  answers : List (Except Err Bool)
  /-- `minecraft.<the seven names>` -/
  mcTables : Tables
  /-- `utility.PROTOCOL_VERSION_INDICES.items()` -/
  utilIdx : List (Nat × Nat)
  /-- `connection.KNOWN_MINECRAFT_VERSIONS`, `SUPPORTED_MINECRAFT_VERSIONS`,
  `SUPPORTED_PROTOCOL_VERSIONS`, `PROTOCOL_VERSION_INDICES` -/
  connKnown : List (String × Nat)
  connSupported : List (String × Nat)
  connSupportedProtocols : List Nat
  connIdx : List (Nat × Nat)
  /-- `utility.PROTOCOL_VERSION_INDICES is minecraft.PROTOCOL_VERSION_INDICES`, and the same four
  identity tests for `connection` (all at once) -/
  utilSame : Bool
  connSame : Bool
deriving DecidableEq, Repr

def observe (code : Code) (recs : List Rec) (ops : List Op) : Obs :=
  let r := run code (boot code recs) ops
  let w := r.1
  { answers := r.2
    mcTables := tablesOf w
    utilIdx := utilDict w
    connKnown := w.heap.od w.conn.knownVersions
    connSupported := w.heap.od w.conn.supportedVersions
    connSupportedProtocols := w.heap.lst w.conn.supportedProtocols
    connIdx := w.heap.idx w.conn.indices
    utilSame := decide (w.utilIdx = w.mc.indices)
    connSame := decide (w.conn = ⟨w.mc.knownVersions, w.mc.supportedVersions,
                                   w.mc.supportedProtocols, w.mc.indices⟩) }

/-! ### The value semantics of a history (no object identity)

What the existing value model says the tables are after the same history: the reference point for
the theorems (`Props/C08Live.lean`: the real code's heap always shows exactly this, to every
module). -/

structure Val where
  tables : Tables
  records : List Rec
deriving DecidableEq, Repr

def valStep (s : Val) : Op → Val
  | .setRecords recs => { s with records := recs }
  | .supSet k v =>
    { s with tables := { s.tables with supportedVersions := odSet s.tables.supportedVersions k v } }
  | .init b => { s with tables := initglobals b s.records s.tables }
  | .newCtx _ => s
  | .setPv _ _ => s
  | .call _ _ _ _ => s

def valRun (recs : List Rec) (ops : List Op) : Val := ops.foldl valStep ⟨initKnown recs, recs⟩

/-- The answer the value model gives for a predicate of a context whose version is `pv`
(`None` ↦ `KeyError`). -/
def predVal (t : Tables) : Option Nat → Pred → Nat → Nat → Except Err Bool
  | none, _, _, _ => .error .other
  | some v, .earlier, o, _ => earlier t v o
  | some v, .earlierEq, o, _ => earlierEq t v o
  | some v, .later, o, _ => later t v o
  | some v, .laterEq, o, _ => laterEq t v o
  | some v, .inRange, s, e => inRange t v s e

end PyCraft.VerRef
