import PyCraft.Model.Writers
/-!
# Progress vocabulary for the concurrent-writers model (property C12, "reach the wire")

`Model/Writers.lean` is a deterministic transition system driven by a schedule.  This file adds what
is needed to talk about PROGRESS (liveness) in it — nothing here changes the model:

* `enabled cfg s t`   — thread `t` can perform its next atomic action in `s` (it is neither finished
  nor blocked in `RLock.acquire`);
* `moves cfg u s sched` — how many entries of the schedule `sched` were actions actually performed
  by thread `u` (entries that are not enabled are skipped by `run`, and do not count);
* infinite schedules `σ : Nat → Tid`, `runN cfg s σ n` (state after the first `n` picks; a pick of a
  thread that is not enabled is a no-op, exactly as in `run`), and the fairness assumptions
  `WeakFair` (justice: a thread that is enabled continuously from some pick on is picked again) and
  `FairUpTo k` (each of the threads `0..k` is picked infinitely often).

and two MUTANT step functions.  They are models of CHANGED Python code — not of `/repo` — and exist
only so that `Props/C12Progress.lean` can show concretely that the new theorems are violated by
them (both satisfy every theorem of `Props/C12.lean`, `C12Bytes.lean`, `C12Final.lean`):

* `stepNoPop`        — `connection.py:613` `while not self.interrupt and self.connection._pop_packet():`
  replaced by `while False:` (the networking thread never writes a queued packet);
* `stepForceQueued`  — `connection.py:216-220`: `write_packet(p, force=True)` silently does
  `self._outgoing_packet_queue.append(packet)` like the `else` branch.
-/
namespace PyCraft.Writers

/-- Thread `t` can perform its next atomic action. -/
def enabled (cfg : Cfg) (s : Sys) (t : Tid) : Bool := (step cfg s t).isSome

/-- Number of entries of `sched` at which thread `u` actually performed an action. -/
def moves (cfg : Cfg) (u : Tid) (s : Sys) : List Tid → Nat
  | [] => 0
  | t :: ts =>
    match step cfg s t with
    | some s' => moves cfg u s' ts + (if t = u then 1 else 0)
    | none => moves cfg u s ts

/-! ### Infinite schedules -/

/-- The state after the first `n` picks of the infinite schedule `σ`. -/
def runN (cfg : Cfg) (s : Sys) (σ : Nat → Tid) : Nat → Sys
  | 0 => s
  | n + 1 =>
    match step cfg (runN cfg s σ n) (σ n) with
    | some s' => s'
    | none => runN cfg s σ n

/-- `σ` from pick `a` on. -/
def shift (σ : Nat → Tid) (a : Nat) : Nat → Tid := fun n => σ (a + n)

/-- Weak fairness (justice) of `σ` for the run from `s`: a thread that is enabled at every pick from
`n` on is picked at some `m ≥ n`. -/
def WeakFair (cfg : Cfg) (s : Sys) (σ : Nat → Tid) : Prop :=
  ∀ t n, (∀ m, n ≤ m → enabled cfg (runN cfg s σ m) t = true) → ∃ m, n ≤ m ∧ σ m = t

/-- Unconditional fairness towards the threads `0..k`: each of them is picked infinitely often. -/
def FairUpTo (k : Nat) (σ : Nat → Tid) : Prop := ∀ t, t ≤ k → ∀ n, ∃ m, n ≤ m ∧ σ m = t

/-- Round robin over the thread ids `0..k`. -/
def roundRobin (k : Nat) : Nat → Tid := fun n => n % (k + 1)

/-! ### Running an arbitrary step function (used for the mutants only) -/

/-- `run` for an arbitrary step function. -/
def runWith (stp : Sys → Tid → Option Sys) (s : Sys) : List Tid → Sys
  | [] => s
  | t :: ts =>
    match stp s t with
    | some s' => runWith stp s' ts
    | none => runWith stp s ts

/-- `step` with the two per-thread-kind step functions as parameters; `stepWith stepUser stepNet`
is `step` (`stepWith_real`). -/
def stepWith (su : Sys → Tid → UPc → List Op → Option Sys)
    (sn : Cfg → Sys → Tid → NPc → Nat → List Op → Option Sys) (cfg : Cfg) (s : Sys) (t : Tid) :
    Option Sys :=
  match (s.thr t).pc with
  | .user pc => su s t pc (s.thr t).todo
  | .net pc n => sn cfg s t pc n (s.thr t).todo

theorem stepWith_real (cfg : Cfg) (s : Sys) (t : Tid) :
    stepWith stepUser stepNet cfg s t = step cfg s t := rfl

theorem runWith_real (cfg : Cfg) (sched : List Tid) :
    ∀ s, runWith (step cfg) s sched = run cfg s sched := by
  induction sched with
  | nil => intro s; rfl
  | cons t ts ih =>
    intro s; simp only [runWith, run]
    cases step cfg s t with
    | some s' => exact ih s'
    | none => exact ih s

/-! ### Mutant 1: the networking thread never pops -/

/-- MUTANT of `_run` (`connection.py:613`): `while False:` instead of
`while not self.interrupt and self.connection._pop_packet():`.  After acquiring the lock the thread
goes straight to `if self.connection._outgoing_packet_queue:` (`wChk2`); nothing else changes. -/
def stepNetNoPop (cfg : Cfg) (s : Sys) (t : Tid) (pc : NPc) (n : Nat) (todo : List Op) :
    Option Sys :=
  match pc with
  | .wAcq =>
    if canAcq s t then
      some { s with owner := some t, depth := s.depth + 1,
                    log := s.log ++ [(t, .acq)], thr := upd s t (.net .wChk2 n) todo }
    else none
  | pc => stepNet cfg s t pc n todo

def stepNoPop : Cfg → Sys → Tid → Option Sys := stepWith stepUser stepNetNoPop

/-! ### Mutant 2: a forced write is silently queued -/

/-- MUTANT of `write_packet` (`connection.py:216-220`): the `if force:` branch does
`self._outgoing_packet_queue.append(packet)` instead of writing under the lock. -/
def stepUserForceQueued (s : Sys) (t : Tid) (pc : UPc) (todo : List Op) : Option Sys :=
  match pc, todo with
  | .idle, .forced p :: rest =>
    some { s with queue := s.queue ++ [p], issued := s.issued ++ [p],
                  log := s.log ++ [(t, .app p)], thr := upd s t (.user .idle) rest }
  | pc, todo => stepUser s t pc todo

def stepForceQueued : Cfg → Sys → Tid → Option Sys := stepWith stepUserForceQueued stepNet

end PyCraft.Writers
