import PyCraft.Model.Wire
import PyCraft.Model.Position
/-!
The REAL codec of the custom `Type` subclasses that occur in packet definitions, plugged into
`Model/Wire.lean` through `CustomCodec`:

* `Position` (`types/basic.py`) — `encPos` / `decPos` of `Model/Position.lean`; the value is the
  coordinate triple `Value.list [.int x, .int y, .int z]`;
* `MultiBlockChangePacket.ChunkSectionPos` — `encSecPos` / `decSecPos`, same value shape;
* `MultiBlockChangePacket.Record` — `encRecord` / `decRecord`; value
  `Value.list [.int x, .int y, .int z, .int blockStateId]`;
* `ExplosionPacket.Record` — `for coord in record: Byte.send(coord)` / three `Byte.read`s; a
  `Vector`, i.e. exactly three coordinates (the value `Value.list` of three ints stands for the
  `Vector` instance; a list of another length stands for no `Vector` — `Vector(*xs)` is a
  `TypeError` — and is `.error .type`);
* `SoundEffectPacket.EffectPosition` — three `Integer`s; the value is the three WIRE integers (the
  `int(coordinate * 8)` / `/ 8.0` scaling is outside the wire level);
* `SoundEffectPacket.Pitch` — `Float` when `protocol ≥ 201` (`f32 = true`; value = the IEEE bit
  pattern, as for `.int .f32`) else `Byte`; the `× 63.5` scaling (`scaled`) is outside the wire
  level and does not affect the bytes;
* `NBT` — NOT modelled: reading and writing NBT is done by the external `pynbt` library, which is
  outside the model.  `enc` / `dec` return `.error .other` and no value is in the domain
  (`realDom .nbt _ = False`), so nothing is claimed about layouts containing an NBT field.

A value of the wrong shape is `.error .type`.
-/
namespace PyCraft

/-- the integers of a list of `Value.int`s (`none` if some element is not an int) -/
def intsOf : List Value → Option (List Int)
  | [] => some []
  | .int i :: vs => (intsOf vs).map (i :: ·)
  | _ :: _ => none

/-- a tuple of Python ints -/
def Value.ints? : Value → Option (List Int)
  | .list vs => intsOf vs
  | _ => none

/-- the tuple `(x, y, z, …)` as a value -/
def Value.ofInts (is : List Int) : Value := .list (is.map .int)

/-- three consecutive fixed-width integers: `for c in value: T.send(c, socket)` -/
def encTriple (t : IntT) (x y z : Int) : Except Err Bytes := do
  let a ← t.pack x
  let b ← t.pack y
  let c ← t.pack z
  pure (a ++ b ++ c)

/-- `cls(*(T.read(file_object) for i in range(3)))` -/
def decTriple (t : IntT) (bs : Bytes) : Except Err (Value × Bytes) := do
  let (x, r) ← t.unpack bs
  let (y, r) ← t.unpack r
  let (z, r) ← t.unpack r
  pure (Value.ofInts [x, y, z], r)

/-- wire type of `SoundEffectPacket.Pitch`: `Float` from protocol 201, `Byte` before -/
def pitchT (f32 : Bool) : IntT := if f32 then .f32 else .i8

/-- apply a three-coordinate writer to a tuple value (`x, y, z = value`) -/
def encInts3 (f : Int → Int → Int → Except Err Bytes) (v : Value) : Except Err Bytes :=
  match v.ints? with
  | some [x, y, z] => f x y z
  | _ => .error .type

def encInts4 (f : Int → Int → Int → Int → Except Err Bytes) (v : Value) : Except Err Bytes :=
  match v.ints? with
  | some [x, y, z, b] => f x y z b
  | _ => .error .type

def realEnc : CustomT → Value → Except Err Bytes
  | .position newer, v => encInts3 (encPos newer) v
  | .secpos, v => encInts3 encSecPos v
  | .record v741, v => encInts4 (encRecord v741) v
  | .explRecord, v => encInts3 (encTriple .i8) v
  | .effectPos, v => encInts3 (encTriple .i32) v
  | .pitch f32 _, v =>
    match v with
    | .int i => (pitchT f32).pack i
    | _ => .error .type
  | .nbt, _ => .error .other

def realDec : CustomT → Bytes → Except Err (Value × Bytes)
  | .position newer, bs =>
    match decPos newer bs with
    | .error e => .error e
    | .ok ((x, y, z), r) => .ok (Value.ofInts [x, y, z], r)
  | .secpos, bs =>
    match decSecPos bs with
    | .error e => .error e
    | .ok ((x, y, z), r) => .ok (Value.ofInts [x, y, z], r)
  | .record v741, bs =>
    match decRecord v741 bs with
    | .error e => .error e
    | .ok ((x, y, z, b), r) => .ok (Value.ofInts [x, y, z, b], r)
  | .explRecord, bs => decTriple .i8 bs
  | .effectPos, bs => decTriple .i32 bs
  | .pitch f32 _, bs => do
    let (v, r) ← (pitchT f32).unpack bs
    pure (.int v, r)
  | .nbt, _ => .error .other

/-- the codec of the library's custom types (NBT excepted, see above) -/
def realCustom : CustomCodec := ⟨realEnc, realDec⟩

/-- a predicate on integer tuples, as a predicate on values -/
def domInts (P : List Int → Prop) (v : Value) : Prop :=
  match v.ints? with
  | some is => P is
  | none => False

def posDom : List Int → Prop
  | [x, y, z] => -2 ^ 25 ≤ x ∧ x < 2 ^ 25 ∧ -2 ^ 11 ≤ y ∧ y < 2 ^ 11 ∧ -2 ^ 25 ≤ z ∧ z < 2 ^ 25
  | _ => False

def secDom : List Int → Prop
  | [x, y, z] => -2 ^ 21 ≤ x ∧ x < 2 ^ 21 ∧ -2 ^ 19 ≤ y ∧ y < 2 ^ 19 ∧ -2 ^ 21 ≤ z ∧ z < 2 ^ 21
  | _ => False

def recDom (v741 : Bool) : List Int → Prop
  | [x, y, z, b] =>
    0 ≤ x ∧ x < 16 ∧ 0 ≤ y ∧ (y < if v741 then 16 else 256) ∧ 0 ≤ z ∧ z < 16 ∧
    0 ≤ b ∧ (b < if v741 then 2 ^ 65 else 2 ^ 42)
  | _ => False

def tripleDom (t : IntT) : List Int → Prop
  | [x, y, z] => t.inDom x ∧ t.inDom y ∧ t.inDom z
  | _ => False

/-- the domain on which the custom codecs round-trip: the hypotheses of `C04.pos_rt`,
`C04.section_rt`, `C04.record_rt`; the `struct` ranges for the plain triples and the pitch;
nothing for NBT -/
def realDom : CustomT → Value → Prop
  | .position _, v => domInts posDom v
  | .secpos, v => domInts secDom v
  | .record v741, v => domInts (recDom v741) v
  | .explRecord, v => domInts (tripleDom .i8) v
  | .effectPos, v => domInts (tripleDom .i32) v
  | .pitch f32 _, v =>
    match v with
    | .int i => (pitchT f32).inDom i
    | _ => False
  | .nbt, _ => False

instance (P : List Int → Prop) [DecidablePred P] (v : Value) : Decidable (domInts P v) := by
  unfold domInts; split <;> infer_instance
instance : DecidablePred posDom := fun is => by unfold posDom; split <;> infer_instance
instance : DecidablePred secDom := fun is => by unfold secDom; split <;> infer_instance
instance (b : Bool) : DecidablePred (recDom b) := fun is => by unfold recDom; split <;> infer_instance
instance (t : IntT) : DecidablePred (tripleDom t) := fun is => by
  unfold tripleDom; split <;> infer_instance

instance (c : CustomT) (v : Value) : Decidable (realDom c v) := by
  unfold realDom; split <;> try infer_instance
  split <;> infer_instance

end PyCraft
