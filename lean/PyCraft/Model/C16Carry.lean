import PyCraft.Basic
/-!
# The `Connection` object ACROSS sessions (properties C16 / C11 / C10)

Sequential, executable model of `minecraft/networking/connection.py`: the attributes of ONE
`Connection` object that survive the end of a session, and every operation that reads or writes
them.  One `Op` = one atomic block of the Python (a public API call executed under `_write_lock`, the
write phase of `NetworkingThread._run`, one `read_packet` + `_react`, the whole `except`/`finally`
tail of `NetworkingThread.run`).  The interleaving of those blocks is the business of
`Model/Lifecycle.lean`; here a history is simply a list of blocks, in any order.

Line numbers refer to `minecraft/networking/connection.py`.

## What is carried (`Obj`)

| field            | Python attribute                                                            |
|------------------|-----------------------------------------------------------------------------|
| `compEnabled`    | `options.compression_enabled`                                               |
| `compThreshold`  | `options.compression_threshold`                                             |
| `socket`         | `socket`: `None` / a socket whose `connect` raised / connected, plain or `EncryptedSocketWrapper` |
| `file`           | `file_object`: `None` / open / closed, plain or `EncryptedFileObjectWrapper` |
| `queue`          | `_outgoing_packet_queue` (`none`: the attribute does not exist yet)         |
| `connected`      | `connected`                                                                 |
| `spawned`        | `spawned` (`none`: the attribute does not exist yet)                        |
| `reactor`        | class of `reactor`                                                          |
| `exc`            | `exception` (which session's thread recorded it, and what)                  |
| `proto`          | `context.protocol_version`                                                  |
| `allowed`/`dflt` | `allowed_proto_versions` / `default_proto_version`                          |
| `nt`, `newNt`    | `networking_thread`, `new_networking_thread` (their `interrupt` flags)      |

Ghost fields (not attributes; they describe the PEER and the observations): `sess` counts the TCP
connections established so far (= index of the current transport), `srvThr`/`srvEnc` is what has
been negotiated ON THE CURRENT TRANSPORT (reset when a new transport is established, set by the very
reactions that process the server's Set Compression / Encryption Request), `wire` the frames
written, `exits` the runs of the `handle_exit` callback, `starts` the observable state right after
every `connect()` / `status()` that returned normally.

## Variants

`Variant.real` is the code as it is.  `Variant.chg1` and `Variant.chg2` are two CHANGED programs kept
only to show that the theorems of `Props/C16Carry.lean` tell them apart:
* `chg1`: lines 453–454 (`compression_enabled = False; compression_threshold = -1`) moved from
  `_connect` to the end of `disconnect`;
* `chg2`: `_handle_exit` additionally tests `self.exception is None`.

## Not modelled

Packet listeners / user exception handlers other than "calls `connect()`"; the in-flight race in
which a packet already returned by `read_packet` is reacted to AFTER another thread has executed
`disconnect(); connect()` (reactions are only enabled for an un-interrupted networking thread, see
`step`; the real code does have that window — `_react` runs without the lock and reads
`self.reactor` late — and a stale Set Compression then switches compression on in the NEW session);
authentication (`auth_token.join`); byte contents of packets (see `Model/*Wire.lean`).
Thresholds are `Int` although `VarInt.read` only ever yields non-negative ones (−1 arises from the
reset alone).  Protocol numbers are release protocol numbers, for which numeric order = chronological order
(`PROTOCOL_VERSION_INDICES`).
-/
namespace PyCraft.Carry

/-! ## vocabulary -/

/-- `Connection.socket`. -/
inductive SockSt
  | none                 -- `None`
  | unconnected          -- `socket.socket(...)` stored (450) but `connect` raised (451)
  | open (enc : Bool)    -- connected; `enc`: wrapped in `EncryptedSocketWrapper` (764)
deriving DecidableEq, Repr

/-- `Connection.file_object`. -/
inductive FileSt
  | none
  | open (enc : Bool)    -- `enc`: wrapped in `EncryptedFileObjectWrapper` (766)
  | closed (enc : Bool)  -- `close()`d by `disconnect` (487); the attribute keeps the object
deriving DecidableEq, Repr

/-- `file_object.close()` when it is not `None` (486–487). -/
def FileSt.close : FileSt → FileSt
  | .none => .none
  | .open e => .closed e
  | .closed e => .closed e

/-- `EncryptedFileObjectWrapper(file_object, decryptor)` (766–768). -/
def FileSt.wrap : FileSt → FileSt
  | .none => .none
  | .open _ => .open true
  | .closed _ => .closed true

/-- Class of `Connection.reactor`. -/
inductive Reactor
  | base                 -- `PacketReactor` (186)
  | login                -- `LoginReactor` (415)
  | play                 -- `PlayingReactor` (788)
  | status (ping : Bool) -- `StatusReactor(do_ping=ping)` (370)
  | playingStatus        -- `PlayingStatusReactor` (421)
deriving DecidableEq, Repr

/-- Serverbound packets (what can sit in `_outgoing_packet_queue`). -/
inductive Pkt
  | handshake (proto : Nat) (next : Nat)   -- 491–498; `next` = 1 (`STATE_STATUS`) or 2 (`STATE_PLAYING`)
  | loginStart                             -- 409–414
  | request                                -- 382 / 420
  | ping                                   -- 849–853
  | encResponse                            -- 752–758
  | pluginResponse (id : Nat)              -- 795–797
  | keepAlive (id : Nat)                   -- 809–811
  | teleportConfirm (id : Nat)             -- 815–817
  | positionLook                           -- 819–826
  | user (n : Nat)                         -- a packet handed to `write_packet` by the user
deriving DecidableEq, Repr

/-- Exceptions that matter. -/
inductive ExcKind
  | eof               -- `EOFError` (the only class `PlayingStatusReactor.handle_exception` looks for)
  | io                -- `IOError` / `OSError` other than the two below
  | loginDisconnect   -- `LoginDisconnect` (784)
  | versionMismatch   -- `VersionMismatch` (566)
  | attribute         -- `AttributeError` (`None.send`, missing `_outgoing_packet_queue`)
  | invalidState      -- `InvalidState` (193, 428)
  | refused           -- `ConnectionRefusedError` from `socket.connect` (451)
  | resolve           -- `socket.gaierror` from `getaddrinfo` (439)
  | notImplemented    -- `PacketReactor.react` (725)
  | other (n : Nat)   -- anything else, labelled
deriving DecidableEq, Repr

/-- `Connection.exception`: `sess` = the transport the recording thread was started for. -/
structure Exc where
  sess : Nat
  kind : ExcKind
deriving DecidableEq, Repr

/-- A `NetworkingThread` object: `interrupt`, and (ghost) the transport it was started for. -/
structure Thr where
  intr : Bool
  sess : Nat
deriving DecidableEq, Repr

/-- One frame written to a socket: the arguments `_write_packet` used (`thr` = the
`compression_threshold` argument of `Packet.write`, `none` = not passed; `enc` = through an
`EncryptedSocketWrapper`) and what the peer of that transport had negotiated at that moment. -/
structure Sent where
  sess : Nat
  thr : Option Int
  enc : Bool
  srvThr : Option Int
  srvEnc : Bool
  pkt : Pkt
deriving DecidableEq, Repr

/-- The fields that decide what is written to / read from the transport. -/
structure View where
  compEnabled : Bool
  compThreshold : Int
  socket : SockSt
  file : FileSt
  queue : Option (List Pkt)
  reactor : Reactor
  spawned : Option Bool
  connected : Bool
deriving DecidableEq, Repr

/-- Which call started a session. -/
inductive StartKind
  | connect
  | status (ping : Bool)
deriving DecidableEq, Repr

/-- Log entry: the view right after `connect()` / `status()` returned normally; `allowed` =
`allowed_proto_versions` and `protoBefore` = `context.protocol_version` when the call was made. -/
structure Start where
  kind : StartKind
  allowed : List Nat
  protoBefore : Nat
  view : View
deriving DecidableEq, Repr

/-- The two changed programs (see the header).  `real` = the code under study. -/
structure Variant where
  resetInDisconnect : Bool
  exitTestsExc : Bool
deriving DecidableEq, Repr

def Variant.real : Variant := ⟨false, false⟩
/-- CHANGED PROGRAM (1): the compression reset moved from `_connect` into `disconnect`. -/
def Variant.chg1 : Variant := ⟨true, false⟩
/-- CHANGED PROGRAM (2): `_handle_exit` also requires `self.exception is None`. -/
def Variant.chg2 : Variant := ⟨false, true⟩

structure Obj where
  allowed : List Nat
  dflt : Nat
  hasExit : Bool                 -- `handle_exit is not None`
  compEnabled : Bool
  compThreshold : Int
  socket : SockSt
  file : FileSt
  queue : Option (List Pkt)
  connected : Bool
  spawned : Option Bool
  reactor : Reactor
  exc : Option Exc
  proto : Nat
  nt : Option Thr
  newNt : Option Thr
  sess : Nat
  srvThr : Option Int
  srvEnc : Bool
  wire : List Sent
  exits : List Nat               -- one entry (the thread's `sess`) per run of the callback
  starts : List Start
deriving DecidableEq, Repr

structure Cfg where
  allowed : List Nat
  dflt : Nat
  hasExit : Bool
deriving DecidableEq, Repr

/-- `max(self.allowed_proto_versions, key=PROTOCOL_VERSION_INDICES.get)` (163, 399). -/
def latest (l : List Nat) : Nat := l.foldl Nat.max 0

/-- `Connection.__init__` (134–186). -/
def fresh (c : Cfg) : Obj where
  allowed := c.allowed
  dflt := c.dflt
  hasExit := c.hasExit
  compEnabled := false          -- 65–70, 173
  compThreshold := -1
  socket := .none               -- 138
  file := .none                 -- 139
  queue := none                 -- not assigned before `_connect`
  connected := false            -- 178
  spawned := none               -- not assigned before `connect`
  reactor := .base              -- 186
  exc := none                   -- 181
  proto := latest c.allowed     -- 171
  nt := none                    -- 136
  newNt := none                 -- 137
  sess := 0
  srvThr := none
  srvEnc := false
  wire := []
  exits := []
  starts := []

def Obj.view (s : Obj) : View :=
  ⟨s.compEnabled, s.compThreshold, s.socket, s.file, s.queue, s.reactor, s.spawned, s.connected⟩

/-- The `compression_threshold` argument `_write_packet` passes to `Packet.write` (340–343). -/
def Obj.thrArg (s : Obj) : Option Int := if s.compEnabled then some s.compThreshold else none

/-- How the environment answers one TCP connection attempt. -/
inductive Net
  | ok
  | refused       -- `socket.connect` raises (451)
  | resolveFail   -- `getaddrinfo` raises (439)
deriving DecidableEq, Repr

/-- What the caller of an operation sees. -/
inductive Outcome
  | ok
  | exc (k : ExcKind)   -- the call raised / the thread went down the exception path with `k`
  | skip                -- the operation is not enabled in this state (nothing happened)
deriving DecidableEq, Repr

/-! ## threads -/

/-- The condition of `_check_connection` (425–428) and `_start_network_thread` (190–193). -/
def busy (s : Obj) : Bool :=
  (match s.nt with
   | some t => !t.intr
   | none => false) || s.newNt.isSome

/-- `_start_network_thread` (188–203). -/
def startThread (s : Obj) : Obj × Outcome :=
  if busy s then (s, .exc .invalidState)
  else
    match s.nt with
    | none => ({ s with nt := some ⟨false, s.sess⟩ }, .ok)          -- 195–196
    | some _ => ({ s with newNt := some ⟨false, s.sess⟩ }, .ok)     -- 201–203

/-- `finally: networking_thread = None` (610–611), followed by the prologue of the successor, if
one was started (598–603: it has been waiting in `join`). -/
def epilogue (s : Obj) : Obj :=
  match s.newNt with
  | some n => { s with nt := some n, newNt := none }
  | none => { s with nt := none }

/-! ## writing -/

inductive WriteRes
  | ok
  | ioError      -- caught by `disconnect` (469) and by the write phase of `_run` (624)
  | attrError    -- not an `IOError`
deriving DecidableEq, Repr

/-- `_write_packet` (333–348) without listeners; `failNow`: the transport raises `IOError`. -/
def writePacket (s : Obj) (p : Pkt) (failNow : Bool) : Obj × WriteRes :=
  match s.socket with
  | .none => (s, .attrError)              -- `None.send`
  | .unconnected => (s, .ioError)         -- `send` on a socket that never connected: `OSError`
  | .open e =>
    if failNow then (s, .ioError)
    else ({ s with wire := s.wire ++ [⟨s.sess, s.thrArg, e, s.srvThr, s.srvEnc, p⟩] }, .ok)

/-- `while … self._pop_packet()` (327–331): at most `budget` packets; `fail = some k`: the `k`-th
write (from 0) raises.  `popleft` happens BEFORE the write (330): the failing packet is lost. -/
def drain (s : Obj) : List Pkt → Nat → Option Nat → Obj × WriteRes
  | [], _, _ => ({ s with queue := some [] }, .ok)
  | p :: q, 0, _ => ({ s with queue := some (p :: q) }, .ok)
  | p :: q, b + 1, fail =>
    match writePacket s p (fail == some 0) with
    | (s', .ok) => drain s' q b (fail.map (· - 1))
    | (s', r) => ({ s' with queue := some q }, r)

/-- `write_packet(packet)` with `force=False` (217, 222). -/
def push (s : Obj) (p : Pkt) : Obj := { s with queue := s.queue.map (· ++ [p]) }

/-! ## `disconnect` -/

/-- `while self._pop_packet(): pass` inside `try … except IOError: pass` (466–473). -/
def flushAll (s : Obj) (fail : Option Nat) : Obj :=
  match s.queue with
  | some q => (drain s q q.length fail).1
  | none => s                        -- (no socket has ever existed without a queue)

/-- 475–478: `interrupt = True` on the successor if there is one, else on the current thread. -/
def interruptTarget (s : Obj) : Obj :=
  match s.newNt, s.nt with
  | some t, _ => { s with newNt := some { t with intr := true } }
  | none, some t => { s with nt := some { t with intr := true } }
  | none, none => s

/-- 480–489: `shutdown` (errors ignored), `file_object.close()`, `socket.close()`,
`self.socket = None`; `file_object` keeps pointing at the closed object. -/
def closeSocket (s : Obj) : Obj :=
  if s.socket != .none then { s with file := s.file.close, socket := .none } else s

/-- `disconnect(immediate)` (457–489).  Leaves alone: `options`, `reactor`, `spawned`, `exception`,
`context`, the queue object (emptied by the flush only), and keeps the closed `file_object`. -/
def disconnect (v : Variant) (s : Obj) (imm : Bool) (fail : Option Nat) : Obj :=
  let s := { s with connected := false }                                   -- 462
  let s := if !imm && s.socket != .none then flushAll s fail else s         -- 464–473
  let s := closeSocket (interruptTarget s)                                  -- 475–489
  -- CHANGED PROGRAM (1) only: the reset that `_connect` performs at 453–454
  if v.resetInDisconnect then { s with compEnabled := false, compThreshold := -1 } else s

/-! ## `connect` / `status` -/

/-- `_connect` (430–455), in order: new queue, (resolve), new socket object, TCP connect, new file
object, compression reset, `connected = True`.  A refused connect leaves: the NEW empty queue, an
unconnected socket object, and everything else as it was (old closed file object, old compression
options, `connected`). -/
def connectSock (v : Variant) (s : Obj) (r : Net) : Obj × Outcome :=
  let s := { s with queue := some [] }                                      -- 437
  match r with
  | .resolveFail => (s, .exc .resolve)                                      -- 439
  | .refused => ({ s with socket := .unconnected }, .exc .refused)          -- 450, 451 raises
  | .ok =>
    let s := { s with socket := .open false,                                -- 450–451
                      sess := s.sess + 1, srvThr := none, srvEnc := false } -- (ghost: a new transport)
    let s := { s with file := .open false }                                 -- 452
    let s := if v.resetInDisconnect then s                                  -- CHANGED PROGRAM (1)
             else { s with compEnabled := false, compThreshold := -1 }      -- 453–454
    ({ s with connected := true }, .ok)                                     -- 455

def logStart (s : Obj) (k : StartKind) (allowed : List Nat) (protoBefore : Nat) : Obj :=
  { s with starts := s.starts ++ [⟨k, allowed, protoBefore, s.view⟩] }

/-- `connect()` (385–422). -/
def connect (v : Variant) (s : Obj) (r : Net) : Obj × Outcome :=
  if busy s then (s, .exc .invalidState)                                    -- 393
  else
    let allowed0 := s.allowed
    let proto0 := s.proto
    let s := { s with proto := latest s.allowed }                           -- 398–400
    let s := { s with spawned := some false }                               -- 402
    match connectSock v s r with                                            -- 403
    | (s, .ok) =>
      let s :=
        if s.allowed.length = 1 then                                        -- 404
          { push (push s (.handshake s.proto 2)) .loginStart with reactor := .login }     -- 408–415
        else
          { push (push s (.handshake s.proto 1)) .request with reactor := .playingStatus } -- 419–421
      match startThread s with                                              -- 422
      | (s, .ok) => (logStart s .connect allowed0 proto0, .ok)
      | (s, o) => (s, o)
    | (s, o) => (s, o)

/-- `status(handle_status, handle_ping)` (350–383); `ping` = `handle_ping is not False`.
Unlike `connect()` it assigns neither `context.protocol_version` nor `spawned`. -/
def status (v : Variant) (s : Obj) (ping : Bool) (r : Net) : Obj × Outcome :=
  if busy s then (s, .exc .invalidState)                                    -- 363
  else
    let allowed0 := s.allowed
    let proto0 := s.proto
    match connectSock v s r with                                            -- 365
    | (s, .ok) =>
      let s := push s (.handshake s.proto 1)                                -- 366
      match startThread s with                                              -- 367
      | (s, .ok) =>
        let s := { s with reactor := .status ping }                         -- 370
        let s := push s .request                                            -- 382–383
        (logStart s (.status ping) allowed0 proto0, .ok)
      | (s, o) => (s, o)
    | (s, o) => (s, o)

/-! ## reactions -/

/-- Clientbound packets the reactors look at (by `packet_name`). -/
inductive InPkt
  | setCompression (t : Int)
  | encryptionRequest
  | loginSuccess
  | pluginRequest (id : Nat)
  | keepAlive (id : Nat)
  | position (tid : Nat)              -- "player position and look"
  | disconnect (fail : Option Nat)    -- `fail`: which write of the flush raises, if any
  | response (proto : Option Nat) (r : Net)  -- status response; `proto = none`: no usable version
                                      -- field; `r`: answer to the `connect()` it may trigger
  | pong
  | other
deriving DecidableEq, Repr

def excOf : Outcome → Option ExcKind
  | .exc k => some k
  | _ => none

/-- `LoginReactor.react` (738–797). -/
def reactLogin (s : Obj) : InPkt → Obj × Option ExcKind
  | .encryptionRequest =>
    match writePacket s .encResponse false with                             -- 758 (`force=True`)
    | (s, .ok) =>
      ({ s with socket := match s.socket with                               -- 764–765
                          | .open _ => .open true
                          | x => x,
                file := s.file.wrap,                                        -- 766–768
                srvEnc := true }, none)
    | (s, .ioError) => (s, some .io)
    | (s, .attrError) => (s, some .attribute)
  | .disconnect _ => (s, some .loginDisconnect)                             -- 770–785
  | .loginSuccess => ({ s with reactor := .play }, none)                    -- 787–788
  | .setCompression t =>                                                    -- 790–792
    ({ s with compThreshold := t, compEnabled := true, srvThr := some t }, none)
  | .pluginRequest id =>                                                    -- 794–797 (login/__init__.py 16)
    if s.proto ≥ 385 then (push s (.pluginResponse id), none) else (s, none)
  | _ => (s, none)

/-- `PlayingReactor.react` (803–835). -/
def reactPlay (v : Variant) (s : Obj) : InPkt → Obj × Option ExcKind
  | .setCompression t =>                    -- 804–806; the packet exists at protocol ≤ 47 only
    if s.proto ≤ 47 then                    -- (clientbound/play/__init__.py 54–57)
      ({ s with compThreshold := t, compEnabled := true, srvThr := some t }, none)
    else (s, none)
  | .keepAlive id => (push s (.keepAlive id), none)                         -- 808–811
  | .position tid =>                                                        -- 813–827
    let s := if s.proto ≥ 107 then push s (.teleportConfirm tid) else push s .positionLook
    ({ s with spawned := some true }, none)
  | .disconnect fail => (disconnect v s false fail, none)                   -- 829–835
  | _ => (s, none)

/-- `StatusReactor.react` (845–862) with the default `handle_status` / `handle_ping`. -/
def reactStatus (v : Variant) (s : Obj) (ping : Bool) : InPkt → Obj × Option ExcKind
  | .response _ _ =>
    if ping then (push s .ping, none)                                       -- 848–853
    else (disconnect v s false none, none)                                  -- 855
  | .pong => if ping then (disconnect v s false none, none) else (s, none)  -- 858–862
  | _ => (s, none)

/-- `PlayingStatusReactor`: `StatusReactor.react` with `do_ping=False` (855), then `handle_status`
(875–894): a reconnect from inside the reaction. -/
def reactPlayingStatus (v : Variant) (s : Obj) : InPkt → Obj × Option ExcKind
  | .response pr r =>
    let s := disconnect v s false none                                      -- 855
    match pr with
    | none =>                                                               -- 881–882, 896–897
      let s := { s with allowed := [s.dflt] }                               -- 893
      match connect v s r with                                              -- 894
      | (s, o) => (s, excOf o)
    | some p =>
      if s.allowed.contains p then                                          -- 885
        let s := { s with allowed := [p] }                                  -- 890, 893
        match connect v s r with                                            -- 894
        | (s, o) => (s, excOf o)
      else (s, some .versionMismatch)                                       -- 886–888
  | _ => (s, none)

/-- `self.reactor.react(packet)` (579). -/
def react (v : Variant) (s : Obj) (p : InPkt) : Obj × Option ExcKind :=
  match s.reactor with
  | .base => (s, some .notImplemented)                                      -- 725
  | .login => reactLogin s p
  | .play => reactPlay v s p
  | .status ping => reactStatus v s ping p
  | .playingStatus => reactPlayingStatus v s p

/-! ## the ends of a networking thread -/

/-- What the exception handlers do: `reconnects` — a registered handler calls `connect()`;
`net` — the answer every `connect()` attempted while this exception is handled gets. -/
structure Handler where
  reconnects : Bool
  net : Net
deriving DecidableEq, Repr

def Handler.none : Handler := ⟨false, .ok⟩

/-- 503–508: the current reactor's `handle_exception`.  Only `PlayingStatusReactor` has one that
does anything (899–905), and only for `EOFError`: `disconnect(immediate=True)`, then
`handle_failure()` = `connect()` with the default version.  Result: state, the exception that is
current afterwards, and whether 506 returns (`True`: nothing else happens, nothing is recorded). -/
def reactorHandles (v : Variant) (s : Obj) (e : ExcKind) (h : Handler) : Obj × ExcKind × Bool :=
  if s.reactor = .playingStatus ∧ e = .eof then
    let s := disconnect v s true none                                       -- 903
    let s := { s with allowed := [s.dflt] }                                 -- 904 → 897 → 893
    match connect v s h.net with                                            -- 894
    | (s, .exc k) => (s, k, false)                                          -- 507–508
    | (s, _) => (s, e, true)                                                -- 905, 506
  else (s, e, false)                                                        -- 727–732

/-- 511–520: the user-registered handlers; an exception raised in one replaces `exc`. -/
def userHandlers (v : Variant) (s : Obj) (e : ExcKind) (h : Handler) : Obj × ExcKind :=
  if h.reconnects then
    match connect v s h.net with
    | (s, .exc k) => (s, k)
    | (s, _) => (s, e)
  else (s, e)

/-- 544–546: `if (new_networking_thread or networking_thread).interrupt:
disconnect(immediate=True)` — i.e. only when no successor has been started. -/
def finalCheck (v : Variant) (s : Obj) : Obj :=
  match s.newNt, s.nt with
  | some n, _ => if n.intr then disconnect v s true none else s
  | none, some n => if n.intr then disconnect v s true none else s
  | none, none => s

/-- `_handle_exception(exc, exc_info)` (500–551), called by thread `t` (whose `interrupt` is set). -/
def handleException (v : Variant) (s : Obj) (t : Thr) (e : ExcKind) (h : Handler) : Obj :=
  let r1 := reactorHandles v s e h                                          -- 503–508
  if r1.2.2 then r1.1                                                       -- 506
  else
    let r2 := userHandlers v r1.1 r1.2.1 h                                  -- 511–527
    finalCheck v { r2.1 with exc := some ⟨t.sess, r2.2⟩ }                    -- 536, 544–546

/-- `except Exception as e: self.interrupt = True; _handle_exception(e, …)` and `finally`
(606–611). -/
def endByError (v : Variant) (s : Obj) (e : ExcKind) (h : Handler) : Obj :=
  match s.nt with
  | none => s
  | some t =>
    let t := { t with intr := true }
    let s := { s with nt := some t }                                        -- 607
    epilogue (handleException v s t e h)                                    -- 608, 610–611

/-- `_handle_exit()` (571–573), called by thread `t`; the Bool says whether the callback ran. -/
def handleExit (v : Variant) (s : Obj) (t : Thr) : Obj × Bool :=
  if !s.connected && s.hasExit &&
      (!v.exitTestsExc || s.exc.isNone) then         -- second conjunct: CHANGED PROGRAM (2) only
    ({ s with exits := s.exits ++ [t.sess] }, true)
  else (s, false)

/-- `self._run()` has returned (the thread saw its `interrupt`): `_handle_exit()` (605) and
`finally` (610–611).  `rc = some r`: the callback calls `connect()` (answer `r`); if that raises,
the exception is handled like any other (606–608). -/
def endByExit (v : Variant) (s : Obj) (t : Thr) (rc : Option Net) : Obj × Outcome :=
  match handleExit v s t with
  | (s, true) =>
    match rc with
    | some r =>
      match connect v s r with
      | (s, .exc k) => (epilogue (handleException v s t k Handler.none), .exc k)
      | (s, _) => (epilogue s, .ok)
    | none => (epilogue s, .ok)
  | (s, false) => (epilogue s, .ok)

/-! ## histories -/

inductive Op
  | connect (r : Net)                          -- `connect()` (user thread, listener, callback)
  | status (ping : Bool) (r : Net)             -- `status(handle_ping=…)`
  | write (n : Nat)                            -- `write_packet(<user packet n>)`
  | disconnect (imm : Bool) (fail : Option Nat)  -- `disconnect(immediate)` by the user
  | flush (n : Nat) (fail : Option Nat)        -- write phase of `_run` (617–625), ≤ `n` packets
  | recv (p : InPkt) (h : Handler)             -- `read_packet` returned `p`; `_react(p)` (637–642);
                                               -- `h` is used if the reaction raises
  | error (e : ExcKind) (h : Handler)          -- `e` leaves `_run` (EOF, IOError after 651, …)
  | exit (rc : Option Net)                     -- `_run` returns normally
deriving DecidableEq, Repr

/-- One atomic block.  Networking-thread blocks are those of `networking_thread` (`nt`): a successor
in `new_networking_thread` does nothing until `epilogue` hands over.  `flush` and `recv` need an
un-interrupted thread (617/619, 636); `exit` an interrupted one (614); `error` any. -/
def step (v : Variant) (s : Obj) : Op → Obj × Outcome
  | .connect r => connect v s r
  | .status ping r => status v s ping r
  | .write n =>
    match s.queue with
    | none => (s, .exc .attribute)             -- 222 before any `_connect`
    | some _ => (push s (.user n), .ok)
  | .disconnect imm fail => (disconnect v s imm fail, .ok)
  | .flush n fail =>
    match s.nt with
    | some t =>
      if t.intr then (s, .skip)
      else
        match s.queue with
        | none => (s, .exc .attribute)
        | some q =>
          match drain s q n fail with
          | (s, .ok) => (s, .ok)
          | (s, .ioError) => (s, .exc .io)     -- remembered in `exc_info` (625); raised at 651–653
          | (s, .attrError) => (s, .exc .attribute)  -- unless a disconnect packet is read first
    | none => (s, .skip)
  | .recv p h =>
    match s.nt with
    | some t =>
      if t.intr then (s, .skip)
      else
        match react v s p with
        | (s, none) => (s, .ok)
        | (s, some e) => (endByError v s e h, .exc e)
    | none => (s, .skip)
  | .error e h =>
    match s.nt with
    | some _ => (endByError v s e h, .exc e)
    | none => (s, .skip)
  | .exit rc =>
    match s.nt with
    | some t => if t.intr then endByExit v s t rc else (s, .skip)
    | none => (s, .skip)

def run (v : Variant) (s : Obj) : List Op → Obj
  | [] => s
  | op :: ops => run v (step v s op).1 ops

/-- The outcome of every operation of a history, in order. -/
def outcomes (v : Variant) (s : Obj) : List Op → List Outcome
  | [] => []
  | op :: ops => (step v s op).2 :: outcomes v (step v s op).1 ops

/-! ## what "clean" means -/

/-- The view right after the FIRST `connect()` of a fresh object whose allowed versions are
`allowed`: compression off, plain socket and file object, exactly the packets `connect()` queues,
login (one allowed version) or status reactor, not spawned, connected. -/
def cleanConnectView (allowed : List Nat) : View :=
  if allowed.length = 1 then
    ⟨false, -1, .open false, .open false,
     some [.handshake (latest allowed) 2, .loginStart], .login, some false, true⟩
  else
    ⟨false, -1, .open false, .open false,
     some [.handshake (latest allowed) 1, .request], .playingStatus, some false, true⟩

/-- The same for `status()`, which leaves `spawned` and `context.protocol_version` alone. -/
def cleanStatusView (ping : Bool) (proto : Nat) (spawned : Option Bool) : View :=
  ⟨false, -1, .open false, .open false, some [.handshake proto 1, .request], .status ping,
   spawned, true⟩

def Start.clean (e : Start) : Bool :=
  match e.kind with
  | .connect => e.view == cleanConnectView e.allowed
  | .status ping => e.view == cleanStatusView ping e.protoBefore e.view.spawned

end PyCraft.Carry
