import PyCraft.Model.Lifecycle
/-!
# Infinite schedules and fairness for the lifecycle model (property C16, liveness part)

`Model/Lifecycle.lean` runs FINITE schedules (`run env s (sched : List Tid)`).  Here:

* an infinite schedule is a function `σ : Nat → Tid` (the `n`-th scheduler pick);
* `runN env s σ n` is the state after the first `n` picks; a pick of a thread that is not enabled
  is a no-op, exactly as in `run` (`runN_eq_run` in `Lemmas/LifecycleFair.lean`:
  `runN env s σ n = run env s ((List.range n).map σ)`);
* `Enabled env s t` = thread `t` has a next atomic action in `s`;
* fairness predicates, from strong to weak hypotheses:
  - `Fair σ`            — every thread id is picked infinitely often (unconditional fairness);
  - `WeakFair env s σ`  — weak fairness ("justice"): a thread that is enabled CONTINUOUSLY from some
                          pick on is picked again.  `Fair σ → WeakFair env s σ` for every `env`, `s`.
  The liveness theorems of `Props/C16Live.lean` assume only `WeakFair`.
* concrete schedules: `diag` (a "ruler" enumeration that picks every one of the infinitely many
  thread ids infinitely often) and `rr U N` (round-robin over user threads `0 … U-1` and networking
  threads `0 … N-1`).
-/
namespace PyCraft.Life

/-- State after the first `n` picks of the infinite schedule `σ` (picks that are not enabled are
skipped). -/
def runN (env : List Beh) (s : Sys) (σ : Nat → Tid) : Nat → Sys
  | 0 => s
  | n + 1 =>
    match step env (runN env s σ n) (σ n) with
    | some s' => s'
    | none => runN env s σ n

/-- Thread `t` has a next atomic action in state `s`. -/
def Enabled (env : List Beh) (s : Sys) (t : Tid) : Prop := step env s t ≠ none

instance (env : List Beh) (s : Sys) (t : Tid) : Decidable (Enabled env s t) := by
  unfold Enabled
  cases step env s t with
  | none => exact isFalse (fun h => h rfl)
  | some _ => exact isTrue (fun h => nomatch h)

/-- The schedule `σ` from pick `a` on. -/
def shift (σ : Nat → Tid) (a : Nat) : Nat → Tid := fun k => σ (a + k)

/-- Unconditional fairness: every thread id is picked infinitely often. -/
def Fair (σ : Nat → Tid) : Prop := ∀ t n, ∃ m, n ≤ m ∧ σ m = t

/-- Weak fairness (justice) of `σ` for the run from `s`: a thread that is enabled at EVERY pick
from the `n`-th on is picked at some pick `m ≥ n`. -/
def WeakFair (env : List Beh) (s : Sys) (σ : Nat → Tid) : Prop :=
  ∀ t n, (∀ m, n ≤ m → Enabled env (runN env s σ m) t) → ∃ m, n ≤ m ∧ σ m = t

/-! ### Concrete schedules -/

/-- Number of trailing zero bits of `n` (at most `fuel`). -/
def tz : Nat → Nat → Nat
  | 0, _ => 0
  | fuel + 1, n => if n % 2 = 0 then tz fuel (n / 2) + 1 else 0

/-- Code `2u ↦ user u`, `2i+1 ↦ net i`. -/
def tidOfCode (c : Nat) : Tid := if c % 2 = 0 then .user (c / 2) else .net (c / 2)

/-- The "ruler" schedule 0 1 0 2 0 1 0 3 … (as thread codes): pick `n` is the thread whose code
is the number of trailing zeros of `n + 1`.  Every thread id occurs infinitely often. -/
def diag (n : Nat) : Tid := tidOfCode (tz (n + 1) (n + 1))

/-- Round-robin over the user threads `0 … U-1` and the networking threads `0 … N-1`. -/
def rr (U N : Nat) (n : Nat) : Tid :=
  if n % (U + N) < U then .user (n % (U + N)) else .net (n % (U + N) - U)

end PyCraft.Life
