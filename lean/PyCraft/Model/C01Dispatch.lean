import PyCraft.Model.TypedStream
/-!
Model of the two things `Model/Frame.lean` abstracts away (audit gap 22, property C01):

1. **the id table in `PacketReactor.read_packet`** (`minecraft/networking/connection.py`):

```
            packet_id = VarInt.read(packet_data)                      # end of `parseBody`

            # If we know the structure of the packet, attempt to parse it
            # otherwise, just return an instance of the base Packet class.
            if packet_id in self.clientbound_packets:                 # l.707  `table id = some rd`
                packet = self.clientbound_packets[packet_id]()
                packet.context = self.connection.context
                packet.read(packet_data)                              # l.710  `rd fields` (may raise)
            else:                                                     # l.711  `table id = none`
                packet = packets.Packet()
                packet.context = self.connection.context
                packet.id = packet_id                                 # l.714  `.bare id …`
            return packet
```

   `readPacketDK` = `readPacketK` (frame, inflate, id) followed by this branch (`dispatchBody`);
   `readAllDK` = the networking loop around it: the first exception — also one raised by a known
   packet's `read` — ends the loop (unlike `readDispatch` of `Model/TypedStream.lean`, which decodes
   after the fact).

2. **the connection's framing mode as the TWO variables it really is** (`_ConnectionOptions`,
   `connection.py:64-70`): `compression_enabled`, `compression_threshold`; who writes them
   (`_connect` l.453-454, `LoginReactor.react` l.790-792, `PlayingReactor.react` l.804-806) and who
   reads them (`_write_packet` l.340-343 → `writerThr`, `read_packet` l.690 → `readerFlag`).
-/
namespace PyCraft

/-! ## 1. dispatch by packet id -/

/-- `packet.read(packet_data)` of one packet class, on the bytes behind the packet id: the decoded
content and the UNREAD rest of the buffer, or the exception.  For a class with a declarative
`definition` this is `decodeFields cc L` (`layoutTable`). -/
abbrev BodyReader (α : Type) := Bytes → Except Err (α × Bytes)

/-- `self.clientbound_packets`, seen as a function: `none` = `packet_id not in …`. -/
abbrev IdTable (α : Type) := Nat → Option (BodyReader α)

/-- What `read_packet` returns.  `unread` is a ghost field (Python drops the `PacketBuffer` when
`read_packet` returns): the bytes of the frame's payload that were NOT consumed —
for `known` what `packet.read` left over, for `bare` everything behind the id. -/
inductive Delivered (α : Type) where
  /-- an instance of `clientbound_packets[id]` after `read` -/
  | known (id : Nat) (content : α) (unread : Bytes)
  /-- `packets.Packet()` with only `.id` set -/
  | bare (id : Nat) (unread : Bytes)

/-- `connection.py:707-714` on `(packet_id, bytes behind the id)`. -/
def dispatchBody {α : Type} (table : IdTable α) (raw : Nat × Bytes) : Except Err (Delivered α) :=
  match table raw.1 with
  | some rd =>
    match rd raw.2 with
    | .error e => .error e
    | .ok (v, rest) => .ok (.known raw.1 v rest)
  | none => .ok (.bare raw.1 raw.2)

/-- The SPECIFICATION of the branch, phrased as a relation between what was framed and what is
handed on: an id outside the table gives a bare packet carrying that id, all field bytes unread;
an id in the table gives the class's instance with whatever its `read` decodes from the field bytes,
`rest` unread.  (No clause for a `read` that raises: then nothing is delivered.) -/
def Dispatches {α : Type} (table : IdTable α) (raw : Nat × Bytes) (d : Delivered α) : Prop :=
  (table raw.1 = none ∧ d = .bare raw.1 raw.2) ∨
  (∃ rd v rest, table raw.1 = some rd ∧ rd raw.2 = .ok (v, rest) ∧ d = .known raw.1 v rest)

/-- The table of a reactor all of whose packet classes are declarative: id ↦ `definition`. -/
def layoutTable (cc : CustomCodec) (t : Nat → Option Layout) : IdTable (List Value) :=
  fun id => (t id).map (decodeFields cc)

/-- A finite table given as the list of `(id, definition)` (first match wins; C06 proves the real
tables injective, so the order is immaterial there). -/
def assocTable (cc : CustomCodec) (ents : List (Nat × Layout)) : IdTable (List Value) :=
  layoutTable cc fun id => (ents.find? (·.1 == id)).map (·.2)

/-- `PacketReactor.read_packet` (stream readable), complete: `disp` is the branch at l.707-714.
The loop functions take `disp` as a parameter so that a CHANGED branch can be plugged in and
compared (`Props/C01Dispatch.lean`, refutations); the library's is `dispatchBody table`. -/
def readPacketWithK {σ δ : Type} (x : StreamXform σ) (z : ZlibOps) (compressed : Bool)
    (disp : Nat × Bytes → Except Err δ) (k : Sock σ) : Except Err δ × Sock σ :=
  match readPacketK x z compressed k with
  | (.error e, k) => (.error e, k)
  | (.ok raw, k) => (disp raw, k)

/-- The networking loop: call `read_packet` until it raises.  Same fuel convention as
`readAllFuel`. -/
def readAllWithFuel {σ δ : Type} (x : StreamXform σ) (z : ZlibOps) (compressed : Bool)
    (disp : Nat × Bytes → Except Err δ) : Nat → Sock σ → (List δ × Err) × Sock σ
  | 0, k => (([], .other), k)
  | fuel + 1, k =>
    match readPacketWithK x z compressed disp k with
    | (.error e, k') => (([], e), k')
    | (.ok d, k') =>
      let r := readAllWithFuel x z compressed disp fuel k'
      ((d :: r.1.1, r.1.2), r.2)

def readAllWithK {σ δ : Type} (x : StreamXform σ) (z : ZlibOps) (compressed : Bool)
    (disp : Nat × Bytes → Except Err δ) (k : Sock σ) : (List δ × Err) × Sock σ :=
  readAllWithFuel x z compressed disp (k.segs.flatten.length + 1) k

/-- `read_packet` with the library's dispatch. -/
def readPacketDK {σ α : Type} (x : StreamXform σ) (z : ZlibOps) (compressed : Bool)
    (table : IdTable α) (k : Sock σ) : Except Err (Delivered α) × Sock σ :=
  readPacketWithK x z compressed (dispatchBody table) k

/-- All packets delivered from a plain stream by the library's `read_packet`, and the exception
that ended the loop. -/
def readAllD {α : Type} (z : ZlibOps) (compressed : Bool) (table : IdTable α) (s : Segs) :
    List (Delivered α) × Err :=
  (readAllWithK idXform z compressed (dispatchBody table) (Sock.plain s)).1

/-- … from an encrypted stream (decryptor context `s0`). -/
def readAllDEnc {σ α : Type} (dec : StreamXform σ) (s0 : σ) (z : ZlibOps) (compressed : Bool)
    (table : IdTable α) (s : Segs) : List (Delivered α) × Err :=
  (readAllWithK dec z compressed (dispatchBody table) (Sock.enc s0 s)).1

/-- The pure counterpart of the loop on the list of raw `(id, bytes)` packets: dispatch one after
the other, stop at the first exception (which replaces the exception `e` that would have ended the
raw loop; the packets behind it are never read). -/
def cutDispatch {δ : Type} (disp : Nat × Bytes → Except Err δ) :
    List (Nat × Bytes) → Err → List δ × Err
  | [], e => ([], e)
  | raw :: rs, e =>
    match disp raw with
    | .error e' => ([], e')
    | .ok d => let r := cutDispatch disp rs e; (d :: r.1, r.2)

/-- What is put on the wire in the interleaving theorem: a packet the reader knows (written by
`Packet.write` from its definition and values) or any `(id, field bytes)` it does not know. -/
inductive WItem where
  | typed (p : TPacket)
  | raw (id : Nat) (fields : Bytes)

/-- `(id, field bytes)` of an item (`[]` if `write_fields` raises; excluded by `TypedOK`). -/
def WItem.rawOf (cc : CustomCodec) : WItem → Nat × Bytes
  | .typed p => (p.id, match encodeFields cc p.layout p.vals with | .ok b => b | .error _ => [])
  | .raw id fields => (id, fields)

/-- what the reader is expected to hand on for an item -/
def WItem.expected : WItem → Delivered (List Value)
  | .typed p => .known p.id p.vals []
  | .raw id fields => .bare id fields

/-- The explicit guard of the interleaving theorem for one item, relative to the reader's table
`t` (id ↦ definition): a known packet passes `TypedOK` and the table maps ITS id to ITS definition;
an unknown one passes C01's VarInt guard `FrameOK` and its id is not in the table. -/
def WItem.OK (z : ZlibOps) (thr : Option Int) (t : Nat → Option Layout) : WItem → Prop
  | .typed p => TypedOK z thr p ∧ t p.id = some p.layout
  | .raw id fields => FrameOK z thr (id, fields) ∧ t id = none

/-- The writer's side for one item: `Packet.write` for a typed packet; the frame of the given
`(id, field bytes)` for a raw one (any peer may have produced it). -/
def writeItem (cc : CustomCodec) (z : ZlibOps) (thr : Option Int) : WItem → Except Err Bytes
  | .typed p => writeTyped cc z thr p
  | .raw id fields => .ok (packetFrame z thr (id, fields))

/-- … for a sequence: the concatenated frames; the first failing `write` aborts. -/
def writeItems (cc : CustomCodec) (z : ZlibOps) (thr : Option Int) : List WItem → Except Err Bytes
  | [] => .ok []
  | i :: is => do
    let a ← writeItem cc z thr i
    let b ← writeItems cc z thr is
    pure (a ++ b)

/-- zlib given as a finite table of observed `(compressed, plain)` pairs (for the probe tables of
`Generated/C01Dispatch.lean`): `deflate` of an unlisted payload is `[]`, `inflate` of unlisted
bytes is `zlib.error`. -/
def tableZlib (pairs : List (Bytes × Bytes)) : ZlibOps where
  deflate := fun p => ((pairs.find? (·.2 == p)).map (·.1)).getD []
  inflate := fun c => (pairs.find? (·.1 == c)).map (·.2)

/-! ## 2. the connection options -/

/-- `connection.options` (`_ConnectionOptions`), the two framing variables. -/
structure ConnOpts where
  /-- `compression_enabled` -/
  enabled : Bool
  /-- `compression_threshold` -/
  threshold : Int
deriving DecidableEq, Repr

/-- `_ConnectionOptions.__init__` defaults (`connection.py:65-70`). -/
def ConnOpts.init : ConnOpts := { enabled := false, threshold := -1 }

/-- `Connection._connect`, l.453-454: `compression_enabled = False; compression_threshold = -1`. -/
def ConnOpts.connectReset (_o : ConnOpts) : ConnOpts := { enabled := false, threshold := -1 }

/-- `LoginReactor.react` l.790-792 and `PlayingReactor.react` l.804-806 on a "set compression"
packet: `compression_threshold = packet.threshold; compression_enabled = True`. -/
def ConnOpts.setCompression (_o : ConnOpts) (t : Int) : ConnOpts := { enabled := true, threshold := t }

/-- `_write_packet` l.340-343: `packet.write(socket, threshold)` if enabled, else `packet.write(socket)`
(whose default is `compression_threshold=None`). -/
def writerThr (o : ConnOpts) : Option Int := if o.enabled then some o.threshold else none

/-- `read_packet` l.690: `if self.connection.options.compression_enabled:`. -/
def readerFlag (o : ConnOpts) : Bool := o.enabled

/-- the events that write the options -/
inductive OptEv where
  | connect
  | setCompression (t : Int)
deriving DecidableEq, Repr

def ConnOpts.step (o : ConnOpts) : OptEv → ConnOpts
  | .connect => o.connectReset
  | .setCompression t => o.setCompression t

def ConnOpts.run (o : ConnOpts) (evs : List OptEv) : ConnOpts := evs.foldl ConnOpts.step o

/-- The collapsed view used by `Props/C01.lean` (`thr : Option Int`), phrased independently of the
two variables: no threshold after a connect, the announced one after a "set compression". -/
def thrSpecStep (_ : Option Int) : OptEv → Option Int
  | .connect => none
  | .setCompression t => some t

end PyCraft
