import PyCraft.Basic
/-!
Model of the protocol-version tables of `minecraft/__init__.py` (`initglobals`), of
`minecraft/utility.py` (`protocol_earlier`, `protocol_earlier_eq`) and of the five comparison
methods of `ConnectionContext` in `minecraft/networking/connection.py`.

Python objects and their models:

* `Version(id, protocol, supported)` (namedtuple)            → `Rec`
* `OrderedDict` / `dict` (insertion ordered)                 → association list, `odSet` is `d[k] = v`
* the seven module globals that `initglobals` rebuilds        → `Tables`
* `KeyError` from `PROTOCOL_VERSION_INDICES[pv]`              → `.error .other`

Protocol numbers are `Nat` (all records use non-negative ints; `PRE | n` is just a big number).
-/
namespace PyCraft

/-- `Version = namedtuple('Version', ('id', 'protocol', 'supported'))`. -/
structure Rec where
  id : String
  protocol : Nat
  supported : Bool
deriving DecidableEq, Repr

/-- `d[k] = v` on an insertion-ordered dict: an existing key keeps its ORIGINAL position (and the
original key object) and only the value is replaced; a new key is appended at the end. -/
def odSet {α β : Type} [DecidableEq α] : List (α × β) → α → β → List (α × β)
  | [], k, v => [(k, v)]
  | (k', v') :: rest, k, v =>
    if k' = k then (k', v) :: rest else (k', v') :: odSet rest k v

/-- `d[k]` / `d.get(k)`: `none` stands for `KeyError`. -/
def odGet {α β : Type} [DecidableEq α] : List (α × β) → α → Option β
  | [], _ => none
  | (k', v') :: rest, k => if k' = k then some v' else odGet rest k

/-! ### The release-name recogniser `re.match(r'\d+(\.\d+)+$', version_id)`

`re.match` anchors at the start of the string; `$` (without `re.MULTILINE`) matches at the very end
of the string AND just before a newline that is the last character.  Since neither `\d` nor `\.`
matches `'\n'`, the set of accepted strings is exactly `L ∪ L·"\n"` with `L = D⁺ ('.' D⁺)⁺`, which
the four-state machine below recognises (mirrored: a single trailing `'\n'` after an accepting
state is accepted).

ASSUMPTION (documented restriction): in Python 3 `str` patterns `\d` matches every Unicode decimal
digit (category Nd, e.g. ARABIC-INDIC DIGIT ONE); the model's digit class is ASCII `0`–`9` only.
The two agree on every id whose characters are all ASCII, which holds for all records shipped with
pyCraft; the harness must not generate non-ASCII digits (or must compare them separately). -/

/-- ASCII decimal digit (see the assumption above). -/
def isAsciiDigit (c : Char) : Bool := decide ('0' ≤ c) && decide (c ≤ '9')

inductive RelState
  | start  -- nothing read yet: a digit is required
  | int    -- inside the first digit group
  | dot    -- just read a '.': a digit is required
  | frac   -- inside a digit group after at least one '.', the only accepting state
deriving DecidableEq, Repr

def relStep : RelState → Char → Option RelState
  | .start, c => if isAsciiDigit c then some .int else none
  | .int, c => if isAsciiDigit c then some .int else if c = '.' then some .dot else none
  | .dot, c => if isAsciiDigit c then some .frac else none
  | .frac, c => if isAsciiDigit c then some .frac else if c = '.' then some .dot else none

def relRun : RelState → List Char → Bool
  | st, [] => decide (st = .frac)
  | st, c :: cs =>
    if st = .frac ∧ c = '\n' ∧ cs = [] then true
    else match relStep st c with
      | some st' => relRun st' cs
      | none => false

/-- `bool(re.match(r'\d+(\.\d+)+$', s))`, ASCII digits only. -/
def isRelease (s : String) : Bool := relRun .start s.toList

/-! ### The derived tables -/

/-- The module globals rebuilt by `initglobals`, in this order:
`KNOWN_MINECRAFT_VERSIONS`, `KNOWN_PROTOCOL_VERSIONS`, `SUPPORTED_MINECRAFT_VERSIONS`,
`PROTOCOL_VERSION_INDICES`, `SUPPORTED_PROTOCOL_VERSIONS`, `RELEASE_MINECRAFT_VERSIONS`,
`RELEASE_PROTOCOL_VERSIONS`.  Dicts are listed in iteration (= insertion) order. -/
structure Tables where
  knownVersions : List (String × Nat)
  knownProtocols : List Nat
  supportedVersions : List (String × Nat)
  indices : List (Nat × Nat)
  supportedProtocols : List Nat
  releaseVersions : List (String × Nat)
  releaseProtocols : List Nat
deriving DecidableEq, Repr

def Tables.empty : Tables := ⟨[], [], [], [], [], [], []⟩

/-- One iteration of `for version in KNOWN_MINECRAFT_VERSION_RECORDS:`. -/
def stepKnown (t : Tables) (r : Rec) : Tables :=
  -- KNOWN_MINECRAFT_VERSIONS[version.id] = version.protocol
  let t := { t with knownVersions := odSet t.knownVersions r.id r.protocol }
  -- if version.protocol not in KNOWN_PROTOCOL_VERSIONS:
  let t :=
    if r.protocol ∈ t.knownProtocols then t
    else
      -- PROTOCOL_VERSION_INDICES[version.protocol] = len(KNOWN_PROTOCOL_VERSIONS)
      let t := { t with indices := odSet t.indices r.protocol t.knownProtocols.length }
      -- KNOWN_PROTOCOL_VERSIONS.append(version.protocol)
      { t with knownProtocols := t.knownProtocols ++ [r.protocol] }
  -- if version.supported: SUPPORTED_MINECRAFT_VERSIONS[version.id] = version.protocol
  if r.supported then { t with supportedVersions := odSet t.supportedVersions r.id r.protocol }
  else t

/-- One iteration of `for (version_id, protocol) in SUPPORTED_MINECRAFT_VERSIONS.items():`. -/
def stepSupported (t : Tables) (e : String × Nat) : Tables :=
  -- if re.match(r'\d+(\.\d+)+$', version_id):
  let t :=
    if isRelease e.1 then
      -- RELEASE_MINECRAFT_VERSIONS[version_id] = protocol
      let t := { t with releaseVersions := odSet t.releaseVersions e.1 e.2 }
      -- if protocol not in RELEASE_PROTOCOL_VERSIONS: RELEASE_PROTOCOL_VERSIONS.append(protocol)
      if e.2 ∈ t.releaseProtocols then t
      else { t with releaseProtocols := t.releaseProtocols ++ [e.2] }
    else t
  -- if protocol not in SUPPORTED_PROTOCOL_VERSIONS: SUPPORTED_PROTOCOL_VERSIONS.append(protocol)
  if e.2 ∈ t.supportedProtocols then t
  else { t with supportedProtocols := t.supportedProtocols ++ [e.2] }

/-- The unconditional second half of `initglobals`: the three `clear()` calls, then the loop over
the items of `SUPPORTED_MINECRAFT_VERSIONS` (a dict: keys are distinct). -/
def rebuildSupported (t : Tables) : Tables :=
  t.supportedVersions.foldl stepSupported
    { t with supportedProtocols := [], releaseVersions := [], releaseProtocols := [] }

/-- `initglobals(use_known_records=True)` started with the globals in state `prev` and with
`KNOWN_MINECRAFT_VERSION_RECORDS = recs`: the four `clear()` calls, the loop over the records, then
the second half. -/
def initKnownFrom (prev : Tables) (recs : List Rec) : Tables :=
  rebuildSupported
    (recs.foldl stepKnown
      { prev with knownVersions := [], knownProtocols := [], supportedVersions := [],
                  indices := [] })

/-- `initglobals(use_known_records=True)` as run at import time (all globals empty). -/
def initKnown (recs : List Rec) : Tables := initKnownFrom Tables.empty recs

/-- `initglobals(use_known_records=False)` (the default) with the globals in state `t`, after the
user has set `SUPPORTED_MINECRAFT_VERSIONS` to the dict `supportedVersions`.  Only the second half
runs: the known tables and the index map are NOT touched. -/
def initSupportedOnly (t : Tables) (supportedVersions : List (String × Nat)) : Tables :=
  rebuildSupported { t with supportedVersions := supportedVersions }

/-- `initglobals(use_known_records)`, both modes. -/
def initglobals (useKnownRecords : Bool) (recs : List Rec) (t : Tables) : Tables :=
  if useKnownRecords then initKnownFrom t recs else initSupportedOnly t t.supportedVersions

/-! ### Comparisons -/

/-- `PROTOCOL_VERSION_INDICES[pv]` (`none` = `KeyError`). -/
def index (t : Tables) (pv : Nat) : Option Nat := odGet t.indices pv

/-- The subscript expression `PROTOCOL_VERSION_INDICES[pv]` as an `Except`. -/
def indexE (t : Tables) (pv : Nat) : Except Err Nat :=
  match index t pv with
  | some i => .ok i
  | none => .error .other

/-- `utility.protocol_earlier(pv1, pv2)`: both subscripts are evaluated (left first), then `<`. -/
def earlier (t : Tables) (pv1 pv2 : Nat) : Except Err Bool := do
  let i ← indexE t pv1
  let j ← indexE t pv2
  pure (decide (i < j))

/-- `utility.protocol_earlier_eq(pv1, pv2)`. -/
def earlierEq (t : Tables) (pv1 pv2 : Nat) : Except Err Bool := do
  let i ← indexE t pv1
  let j ← indexE t pv2
  pure (decide (i ≤ j))

/-- `ConnectionContext(protocol_version=v).protocol_later(other)`. -/
def later (t : Tables) (v other : Nat) : Except Err Bool := earlier t other v

/-- `ConnectionContext(protocol_version=v).protocol_later_eq(other)`. -/
def laterEq (t : Tables) (v other : Nat) : Except Err Bool := earlierEq t other v

/-- `ConnectionContext(protocol_version=v).protocol_in_range(start, end)`:
`protocol_earlier(v, end) and protocol_earlier_eq(start, v)` — Python's `and` short-circuits, so
`start` is only looked up when `v` is earlier than `end`. -/
def inRange (t : Tables) (v start «end» : Nat) : Except Err Bool := do
  let a ← earlier t v «end»
  if a then earlierEq t start v else pure false

end PyCraft
