import PyCraft.Basic
/-!
Model of the helper value types:

* `MutableRecord` (`minecraft/networking/types/utility.py`): `__eq__`, `__ne__`, `__hash__` over
  `_all_slots()`;
* `Vector` (same file) and its subclasses (`Position`): element-wise arithmetic returning
  `type(self)(…)`;
* the attribute descriptors of `minecraft/utility.py`: `attribute_alias`, `attribute_transform`,
  `multi_attribute_alias` (positional names).

Slot / attribute values are an arbitrary type `Val` with decidable equality standing for Python `==`
(so values like NaN, which are not equal to themselves, are outside the model).
-/
namespace PyCraft.Records

/-! ### MutableRecord -/

/-- An instance of a `MutableRecord` subclass: `tag` identifies `type(self)`; `slots` lists
`_all_slots()` in order with the current value, `none` = the slot was never assigned
(`getattr` raises `AttributeError`). -/
structure Rec (Val : Type) where
  tag : Nat
  slots : List (String × Option Val)

variable {Val : Type}

/-- `getattr(r, a)` for a slot name: `AttributeError` (→ `Err.other`) if absent or unset. -/
def getSlot (r : Rec Val) (a : String) : Except Err Val :=
  match r.slots.lookup a with
  | some (some v) => .ok v
  | _ => .error .other

/-- `all(getattr(self, a) == getattr(other, a) for a in self._all_slots())`, left to right, stopping
at the first `False`; an unset slot met before that raises. -/
def allSlotsEq [DecidableEq Val] (self other : Rec Val) : List (String × Option Val) → Except Err Bool
  | [] => .ok true
  | (a, _) :: rest =>
    match getSlot self a with
    | .error e => .error e
    | .ok x =>
      match getSlot other a with
      | .error e => .error e
      | .ok y => if x = y then allSlotsEq self other rest else .ok false

/-- `MutableRecord.__eq__`: `type(self) is type(other) and all(...)`. -/
def recEq [DecidableEq Val] (self other : Rec Val) : Except Err Bool :=
  if self.tag ≠ other.tag then .ok false else allSlotsEq self other self.slots

/-- `MutableRecord.__ne__`: `not (self == other)`. -/
def recNe [DecidableEq Val] (self other : Rec Val) : Except Err Bool :=
  match recEq self other with
  | .error e => .error e
  | .ok b => .ok (!b)

/-- `MutableRecord.__hash__`: `hash((type(self), tuple(getattr(self, a, None) for a in slots)))`.
The builtin `hash` of such a pair is a parameter `h`; `pyNone` is the value `None`.  Never raises. -/
def recHash (h : Nat → List Val → Nat) (pyNone : Val) (r : Rec Val) : Nat :=
  h r.tag (r.slots.map fun s => s.2.getD pyNone)

/-- All slots assigned (e.g. after a constructor call giving every field). -/
def Rec.complete (r : Rec Val) : Bool := r.slots.all fun s => s.2.isSome

/-- The slot names, `list(type(r)._all_slots())`. -/
def Rec.names (r : Rec Val) : List String := r.slots.map Prod.fst

/-! ### Vector -/

/-- Which class the tuple is an instance of: `Vector` itself or a subclass (`Position` = 1, …). -/
inductive VecType
  | vector
  | sub (id : Nat)
deriving DecidableEq, Repr

/-- A `Vector` (or subclass) instance over a carrier `α` of numbers. -/
structure Vec (α : Type) where
  ty : VecType
  x : α
  y : α
  z : α
deriving DecidableEq, Repr

/-- The right operand of `+` / `-`. -/
inductive Operand (α : Type)
  | vec (v : Vec α)    -- `isinstance(other, Vector)`
  | nonVec             -- anything else

variable {α : Type}

/-- `Vector.__add__`; `none` = `NotImplemented`. -/
def vadd [Add α] (a : Vec α) : Operand α → Option (Vec α)
  | .nonVec => none
  | .vec b => some ⟨a.ty, a.x + b.x, a.y + b.y, a.z + b.z⟩

/-- `Vector.__sub__`; `none` = `NotImplemented`. -/
def vsub [Sub α] (a : Vec α) : Operand α → Option (Vec α)
  | .nonVec => none
  | .vec b => some ⟨a.ty, a.x - b.x, a.y - b.y, a.z - b.z⟩

/-- `Vector.__neg__`. -/
def vneg [Neg α] (a : Vec α) : Vec α := ⟨a.ty, -a.x, -a.y, -a.z⟩

/-- `Vector.__mul__(self, k)` = `self * k` for a number `k`. -/
def vmul [Mul α] (a : Vec α) (k : α) : Vec α := ⟨a.ty, a.x * k, a.y * k, a.z * k⟩

/-- `Vector.__rmul__(self, k)` = `k * self` for a number `k`. -/
def vrmul [Mul α] (k : α) (a : Vec α) : Vec α := ⟨a.ty, k * a.x, k * a.y, k * a.z⟩

/-- `Vector.__floordiv__` on integer components: Python `//` is floor division and raises
`ZeroDivisionError` (→ `Err.other`) for a zero divisor (at the first component). -/
def vfloordiv (a : Vec Int) (k : Int) : Except Err (Vec Int) :=
  if k = 0 then .error .other else .ok ⟨a.ty, a.x.fdiv k, a.y.fdiv k, a.z.fdiv k⟩

/-- `Vector.__truediv__` on rational components (`/` on Python numbers), `ZeroDivisionError` for 0. -/
def vtruediv (a : Vec Rat) (k : Rat) : Except Err (Vec Rat) :=
  if k = 0 then .error .other else .ok ⟨a.ty, a.x / k, a.y / k, a.z / k⟩

/-! ### Attribute aliases -/

/-- An object's attributes (`name → value`, in assignment order). -/
abbrev Obj (Val : Type) := List (String × Val)

/-- `getattr(o, name)`: `AttributeError` (→ `Err.other`) if unset. -/
def getAttr (o : Obj Val) (name : String) : Except Err Val :=
  match o.lookup name with
  | some v => .ok v
  | none => .error .other

/-- `setattr(o, name, v)`. -/
def setAttr : Obj Val → String → Val → Obj Val
  | [], name, v => [(name, v)]
  | (n, w) :: rest, name, v => if n = name then (n, v) :: rest else (n, w) :: setAttr rest name v

/-- `attribute_alias(name)`: getter and setter. -/
def aliasGet (name : String) (o : Obj Val) : Except Err Val := getAttr o name
def aliasSet (name : String) (o : Obj Val) (v : Val) : Obj Val := setAttr o name v

/-- `attribute_transform(name, from_orig, to_orig)`: getter and setter. -/
def transformGet (name : String) (fromOrig : Val → Val) (o : Obj Val) : Except Err Val :=
  match getAttr o name with
  | .error e => .error e
  | .ok v => .ok (fromOrig v)
def transformSet (name : String) (toOrig : Val → Val) (o : Obj Val) (v : Val) : Obj Val :=
  setAttr o name (toOrig v)

/-- `multi_attribute_alias(container, *arg_names)` getter: `container(*(getattr(self, n) for n in
arg_names))`; the container's positional fields are returned as a list. -/
def multiGet : List String → Obj Val → Except Err (List Val)
  | [], _ => .ok []
  | n :: ns, o =>
    match getAttr o n with
    | .error e => .error e
    | .ok v =>
      match multiGet ns o with
      | .error e => .error e
      | .ok vs => .ok (v :: vs)

/-- … setter: `for name, value in zip(arg_names, values): setattr(self, name, value)` (`zip` stops
at the shorter of the two). -/
def multiSet : List String → Obj Val → List Val → Obj Val
  | n :: ns, o, v :: vs => multiSet ns (setAttr o n v) vs
  | _, o, _ => o

end PyCraft.Records
