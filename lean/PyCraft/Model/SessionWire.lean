import PyCraft.Model.HandshakeWire
import PyCraft.Model.LoginWire
import PyCraft.Model.PlayWire
/-!
ONE model of the whole client → server byte stream of a direct-login session
(handshake → login → play) and ONE reference server for it.  The three byte-level layers
`Model/HandshakeWire.lean` (`HsWire`), `Model/LoginWire.lean` (`LoginWire`) and
`Model/PlayWire.lean` (`PlayWire`) are the building blocks; what is new here is the GLUE, which in
`minecraft/networking/connection.py` is implicit in three facts:

* there is ONE `connection.socket`.  `LoginReactor.react` replaces it ONCE, at the encryption
  response, by an `EncryptedSocketWrapper` holding ONE `encryptor` context
  (`create_AES_cipher(secret)`: key = IV = secret).  `login success` only replaces
  `connection.reactor` (`PlayingReactor(self.connection)`); socket, file object and cipher contexts
  are untouched.  So the encryptor register reached after the last login frame is the register the
  first play frame is encrypted from (`wireRun` returns it, `clientChunks` hands it on);
* there is ONE `connection.options` (`compression_enabled`, `compression_threshold`), read by
  `_write_packet` AT WRITE TIME.  `_connect()` resets it, the login-state `set compression` sets
  it, nothing resets it at `login success`: the threshold in force at the end of login frames every
  play packet (`finalMode`);
* there is ONE `_outgoing_packet_queue` (FIFO) and ONE networking thread: handshake and login
  start are queued by `connect()` before the thread starts and leave in its first write phase
  (plaintext, uncompressed, before anything is read); a login plugin response still queued when
  `login success` is processed leaves in the next write phase — BEFORE any play reply, because the
  play replies are appended to the same queue later — and is written with the final mode.  The
  login part of a session is therefore `Login.exec` on the server's steps FOLLOWED BY ONE FLUSH
  (`loginEnd`), and the stream is first frames ++ login frames ++ play frames, in this order.

Client side: `clientChunks` = the chunks handed to the REAL socket's `send` (`Packet._write_buffer`
sends the length prefix and the body separately; the wrapper encrypts call by call);
`clientBytes` = their concatenation.  Failures are not totalised away: if writing one of the first
frames raises (`struct.error` for a port ≥ 65536, `AttributeError` for a missing login name) the
networking thread dies there — the result carries the exception and only what was sent before it.
A login that ends in an exception, or never reaches `login success`, has no play part.

Server side (`serverRecoverSession`): NOT pyCraft code — an independent reference peer reading the
stream under any segmentation: the handshake frame (`HsWire.serverParseHandshake`; next state must
be 2) and the login start (`HsWire.decodeServerbound`) in plaintext; then the login frames as
`LoginWire.serverRecover` does (plaintext until the frame that is the encryption response, whose
first byte array it RSA-decrypts to the key; from the next byte on through a CFB8 decryptor with
register = key); then, when its script is exhausted (it has sent `login success` and collected the
answers it was waiting for), the play replies with `PlayWire.serverDecodeReplies` — called on the
decryptor state and the unread segments AS THEY ARE at that moment (`k.st`, `k.segs`): ONE
decryptor context across the state change.  Its compression flag is ONE variable `comp`, switched
by the `Expect.comp` entries of its script (the moments its own `set compression` took effect
relative to the client's frames) and simply kept when the play phase starts.

Not modelled (as in the layers below): a `set compression` packet received in the PLAY state
(protocol 47's `PlayingReactor` branch) — `Login.exec` ignores packets after `login success`, so
`finalMode` is the mode for the whole play part; several reached encryption requests (nested
wrappers); `create_AES_cipher` raising for a secret that is not 16 bytes (`Chan.create`, C18) — the
block function `E` is a parameter and the theorems hold for every `E` and every secret.
-/
namespace PyCraft.Session
open PyCraft PyCraft.Login PyCraft.Play

/-- Everything that determines the client → server stream of one direct-login session. -/
structure Session where
  /-- `options.address`, `options.port`, `username`, `auth_token.profile.name`. -/
  conn : Neg.ConnParams
  /-- The negotiated protocol: the session's plan is `Neg.Plan.direct proto`. -/
  proto : Nat
  /-- `LoginStartPacket.get_id(context)`. -/
  lsId : Nat
  /-- RSA, the fresh secret, hash, token, JSON text extraction, plugin handler. -/
  lp : LoginParams
  /-- Ids of the encryption response and the plugin response. -/
  ids : LoginWire.Ids
  /-- The server's login packets and the placement of the client's write phases. -/
  steps : List Step
  /-- Ids and layout switches of the play packets involved. -/
  profile : PlayWire.Profile
  /-- The server's play packets. -/
  pkts : List PlayWire.SrvPkt
  /-- Has the server kept its end open when it sends a disconnect packet (`Model/Play.lean`). -/
  peerOpen : Bool
  /-- Write / read caps of `NetworkingThread._run` (300 / 50 in the code). -/
  capW : Nat
  capR : Nat

/-- The plan of a direct login with the negotiated protocol. -/
def Session.plan (S : Session) : Neg.Plan := .direct S.proto

/-- The frames `connect()` queues. -/
def Session.firstFrames (S : Session) : List HsWire.CFrame :=
  (Neg.firstFrames S.conn S.plan).map .first

/-- The login part: the server's steps, then the write phase that precedes every later read
(queued plugin responses leave before any play reply). -/
def Session.loginSteps (S : Session) : List Step := S.steps ++ [.flush]

/-- The client's state when the login part is over. -/
def loginEnd (S : Session) : ClientState := exec S.lp .init S.loginSteps

/-- The login frames of the session, with the modes they were written in. -/
def outbox (S : Session) : List Sent := (loginEnd S).outbox

/-- The run ends in the play state: `login success` was processed and nothing was raised before
it (a disconnect packet, which is the only thing that raises in the login model, would have set
`err` and kept the reactor in the login state). -/
def ReachesPlay (S : Session) : Prop := (loginEnd S).reactor = .play ∧ (loginEnd S).err = none

instance (S : Session) : Decidable (ReachesPlay S) := by unfold ReachesPlay; exact inferInstance

/-- The framing mode of a connection: `options.compression_threshold` (`none` =
`compression_enabled` is False) and the secret of the installed cipher (`none` = plain socket). -/
structure Mode where
  threshold : Option Int
  cipher : Option Bytes
deriving DecidableEq, Repr

/-- The mode in force after the login part — read off the login model's final state. -/
def finalMode (S : Session) : Mode :=
  ⟨(loginEnd S).threshold, if (loginEnd S).encrypted then some S.lp.secret else none⟩

/-- The threshold a script announces: the last `set compression` among the packets the login
reactor reacts to (`none` if there is none). -/
def announced (evs : List LoginEv) : Option Int :=
  (processed evs).foldl (fun acc e => match e with
    | .setCompression t => some t
    | _ => acc) none

/-! ### client -/

/-- The first write phase, `send` call by `send` call: every queued first frame is
`_write_buffer(socket, buffer, None)` — two chunks — until a `write_fields` raises. -/
def firstSends (lsId : Nat) : List HsWire.CFrame → List Bytes × Option Err
  | [] => ([], none)
  | f :: fs =>
    match HsWire.writePkt lsId f with
    | .error e => ([], some e)
    | .ok p =>
      (frameSends HsWire.noZlib none (packetPayload p.1 p.2) ++ (firstSends lsId fs).1,
        (firstSends lsId fs).2)

/-- `LoginWire.wireGo` that also returns the encryptor register it ends with (the context
`connection.socket.encryptor` is left in). -/
def wireRun (z : ZlibOps) (E : Bytes → Bytes) (ids : LoginWire.Ids) :
    Bytes → List Sent → Bytes × List Bytes
  | reg, [] => (reg, [])
  | reg, s :: rest =>
    if s.encrypted then
      let r := encSends (cfb8EncX E) reg (LoginWire.sendsOfSent z ids s)
      let q := wireRun z E ids r.1 rest
      (q.1, r.2 ++ q.2)
    else
      let q := wireRun z E ids reg rest
      (q.1, LoginWire.sendsOfSent z ids s ++ q.2)

/-- The login part on the wire: (encryptor register afterwards, chunks).  The register starts as
the secret (IV = secret); it is only meaningful when a cipher was installed. -/
def loginRun (z : ZlibOps) (E : Bytes → Bytes) (S : Session) : Bytes × List Bytes :=
  wireRun z E S.ids S.lp.secret (outbox S)

/-- The encryptor's register when the login part is over. -/
def loginReg (z : ZlibOps) (E : Bytes → Bytes) (S : Session) : Bytes := (loginRun z E S).1

/-- The replies the playing reactor puts on the wire (`Play.runLoop` on what it decodes). -/
def playReplies (S : Session) : List Reply :=
  match runLoop S.profile.newer107 S.peerOpen S.capW S.capR (PlayWire.inboxOf S.pkts) with
  | some r => r.wire
  | none => []

/-- The play part on the wire: `PlayWire.clientWire` with threshold `thr`, through the SAME
encryptor from register `reg` when a cipher is installed, else on the plain socket. -/
def playChunks (z : ZlibOps) (E : Bytes → Bytes) (thr : Option Int) (P : PlayWire.Profile)
    (reg : Option Bytes) (replies : List Reply) : List Bytes :=
  match reg with
  | some r => PlayWire.clientWire z thr P (cfb8EncX E) r replies
  | none => PlayWire.clientWire z thr P idXform () replies

/-- What happens to the framing mode at the login → play boundary: the register the play part
starts from, given the secret and the register carried over, and the threshold, given the one in
force.  pyCraft is `Boundary.carry`; the others are seeded faults for the negative witnesses. -/
structure Boundary where
  reg : Bytes → Bytes → Bytes
  thr : Option Int → Option Int

/-- The real behaviour: nothing happens — same context, same options. -/
def Boundary.carry : Boundary := ⟨fun _ carried => carried, fun t => t⟩

/-- Fault: a fresh cipher (`create_AES_cipher(secret)` again: IV = secret) for the play state. -/
def Boundary.restartCipher : Boundary := ⟨fun secret _ => secret, fun t => t⟩

/-- Fault: the threshold forgotten (`compression_enabled = False`) for the play state. -/
def Boundary.forgetThreshold : Boundary := ⟨fun _ carried => carried, fun _ => none⟩

/-- The chunks of the play part: nothing unless the login part ended in the play state; else the
replies framed with the (boundary-treated) final threshold, through the encryptor from the
(boundary-treated) register carried over from the login part when a cipher is installed. -/
def playChunksWith (b : Boundary) (z : ZlibOps) (E : Bytes → Bytes) (S : Session) : List Bytes :=
  if ReachesPlay S then
    playChunks z E (b.thr (finalMode S).threshold) S.profile
      ((finalMode S).cipher.map fun sec => b.reg sec (loginReg z E S)) (playReplies S)
  else []

/-- The networking thread's writes in order: if the first write phase raised, that is all there
is; else whatever is written afterwards follows. -/
def assemble (first : List Bytes × Option Err) (later : List Bytes) : List Bytes × Option Err :=
  match first.2 with
  | some e => (first.1, some e)
  | none => (first.1 ++ later, none)

/-- The chunks handed to the real socket during the whole session, and the exception that killed
the networking thread while it was writing the first frames (`none`: it did not). -/
def clientChunksWith (b : Boundary) (z : ZlibOps) (E : Bytes → Bytes) (S : Session) :
    List Bytes × Option Err :=
  assemble (firstSends S.lsId S.firstFrames) ((loginRun z E S).2 ++ playChunksWith b z E S)

/-- … as pyCraft does it. -/
def clientChunks (z : ZlibOps) (E : Bytes → Bytes) (S : Session) : List Bytes × Option Err :=
  clientChunksWith .carry z E S

/-- The flat client → server byte stream (and the exception, as above). -/
def clientBytesWith (b : Boundary) (z : ZlibOps) (E : Bytes → Bytes) (S : Session) :
    Bytes × Option Err :=
  ((clientChunksWith b z E S).1.flatten, (clientChunksWith b z E S).2)

def clientBytes (z : ZlibOps) (E : Bytes → Bytes) (S : Session) : Bytes × Option Err :=
  clientBytesWith .carry z E S

/-- The frames of the play part in plaintext, one per reply, framed with `thr`. -/
def playFrames (z : ZlibOps) (thr : Option Int) (P : PlayWire.Profile) (replies : List Reply) :
    Bytes :=
  (replies.map (PlayWire.replyFrame z thr P)).flatten

/-! ### the reference server -/

/-- One entry of the server's script for the login phase: read one frame, or "my
`set compression` has taken effect by now" (`on = true`; `false` never occurs in the script of a
real run — thresholds are never unset — but the reader does not depend on that). -/
inductive Expect
  | frame
  | comp (on : Bool)
deriving DecidableEq, Repr

/-- The script for login frames written under the compression flags `modes` (current flag
`cur`), after which the play phase runs under `fin`. -/
def expectOf (cur : Bool) : List Bool → Bool → List Expect
  | [], fin => if fin = cur then [] else [.comp fin]
  | m :: ms, fin => (if m = cur then [] else [.comp m]) ++ .frame :: expectOf m ms fin

/-- What the server got out of the stream. -/
structure Recovered where
  hs : Option Neg.Handshake      -- the handshake record
  name : Option String           -- the name in the login start
  login : List (Nat × Bytes)     -- (id, field bytes) of the login frames, in order
  key : Option Bytes             -- the cipher key it derived (`none`: never switched)
  replies : List Reply           -- the play replies it decoded
  err : Option Err               -- the exception that stopped it BEFORE the play phase, if any
  playEnd : Option Err           -- how the play loop ended (`some .eof`: the stream was exhausted;
                                 -- `none`: the play phase was not reached)
deriving DecidableEq, Repr

def Recovered.fail (e : Err) : Recovered := ⟨none, none, [], none, [], some e, none⟩

def Recovered.cons (p : Nat × Bytes) (r : Recovered) : Recovered :=
  { r with login := p :: r.login }

/-- The play phase: `PlayWire.serverDecodeReplies` on the socket AS IT IS — decryptor context
`k.st`, unread segments `k.segs`, compression flag `comp`. -/
def playPhase {τ : Type} (z : ZlibOps) (P : PlayWire.Profile) (dec : StreamXform τ) (comp : Bool)
    (key : Option Bytes) (k : Sock τ) : Recovered :=
  let r := PlayWire.serverDecodeReplies P dec k.st z comp k.segs
  ⟨none, none, [], key, r.1, none, some r.2⟩

/-- Encrypted login phase (as `LoginWire.recvEnc`), then the play phase on the same socket. -/
def sessEnc (z : ZlibOps) (EK : Bytes → Bytes → Bytes) (key : Bytes) (P : PlayWire.Profile) :
    Bool → List Expect → Sock Bytes → Recovered
  | c, [], k => playPhase z P (cfb8DecX (EK key)) c (some key) k
  | _, .comp b :: es, k => sessEnc z EK key P b es k
  | c, .frame :: es, k =>
    match readPacketK (cfb8DecX (EK key)) z c k with
    | (.error e, _) => ⟨none, none, [], some key, [], some e, none⟩
    | (.ok p, k') => (sessEnc z EK key P c es k').cons p

/-- Plaintext login phase (as `LoginWire.recvPlain`): switches to `sessEnc` right behind the
encryption response, on the segments not yet read, key = `rsaDec` of the first byte array,
register = key; if the script ends first, the play phase is read in plaintext. -/
def sessPlain (z : ZlibOps) (EK : Bytes → Bytes → Bytes) (rsaDec : Bytes → Bytes)
    (encRespId : Nat) (P : PlayWire.Profile) : Bool → List Expect → Sock Unit → Recovered
  | c, [], k => playPhase z P idXform c none k
  | _, .comp b :: es, k => sessPlain z EK rsaDec encRespId P b es k
  | c, .frame :: es, k =>
    match readPacketK idXform z c k with
    | (.error e, _) => ⟨none, none, [], none, [], some e, none⟩
    | (.ok p, k') =>
      if p.1 = encRespId then
        match LoginWire.decodeEncResp p.2 with
        | .error e => ⟨none, none, [p], none, [], some e, none⟩
        | .ok (a, _) =>
          (sessEnc z EK (rsaDec a) P c es (Sock.enc (rsaDec a) k'.segs)).cons p
      else (sessPlain z EK rsaDec encRespId P c es k').cons p

/-- The reference server on the arrival segments `segs`.  `EK key` is the block cipher under
`key`, `rsaDec` decryption with the server's private key, `lsId` / `encRespId` the ids of login
start and encryption response, `P` the play profile, `script` what it expects during login. -/
def serverRecoverSession (z : ZlibOps) (EK : Bytes → Bytes → Bytes) (rsaDec : Bytes → Bytes)
    (lsId encRespId : Nat) (P : PlayWire.Profile) (script : List Expect) (segs : Segs) :
    Recovered :=
  match readPacketK idXform HsWire.noZlib false (Sock.plain segs) with
  | (.error e, _) => .fail e
  | (.ok p, k1) =>
    if p.1 ≠ 0 then .fail .other
    else
      match HsWire.serverParseHandshake p.2 with
      | .error e => .fail e
      | .ok (h, left) =>
        if left ≠ [] then .fail .other
        else if h.next ≠ 2 then { Recovered.fail .other with hs := some h }
        else
          match readPacketK idXform HsWire.noZlib false k1 with
          | (.error e, _) => { Recovered.fail e with hs := some h }
          | (.ok q, k2) =>
            match HsWire.decodeServerbound lsId 2 q with
            | .loginStart name =>
              { sessPlain z EK rsaDec encRespId P false script k2 with
                hs := some h, name := some name }
            | _ => { Recovered.fail .other with hs := some h }

/-- The script of the session's server: the compression flags of the login frames, then the flag
of the final mode. -/
def serverScript (S : Session) : List Expect :=
  expectOf false (LoginWire.modesOf (outbox S)) (finalMode S).threshold.isSome

/-- What an ideal receiver should deliver for the session (`name` = the login name). -/
def expected (S : Session) (name : String) : Recovered :=
  { hs := some ⟨S.proto, S.conn.host, S.conn.port, 2⟩
    name := some name
    login := (outbox S).map (LoginWire.wirePkt S.ids)
    key := (finalMode S).cipher
    replies := PlayWire.due S.profile S.pkts
    err := none
    playEnd := some .eof }

end PyCraft.Session
