import PyCraft.Basic
/-!
Model of the play phase of `minecraft/networking/connection.py`:
`PlayingReactor.react` (including the `try: disconnect() except IOError: disconnect(immediate=True)`
around a server disconnect), `Connection.write_packet` (queued), `_pop_packet`, `disconnect`,
`NetworkingThread._run` (write phase capped by `capW` = 300, read phase capped by `capR` = 50, with
the counter `num_packets` SHARED between the two phases), `NetworkingThread.run`, `_handle_exit`
and `_react` (early listeners, reactor, listeners).

What is abstracted:
* All of the server's packets are available from the start (`inbox`), so `read_packet` returns
  `None` only when the inbox is exhausted. The real thread then idles in `select`; the model stops
  once the inbox is exhausted AND the queue is drained ("quiescent"), with the connection open.
* Writes succeed, except possibly the ones attempted by `disconnect()` while reacting to the
  server's disconnect packet: `peerOpen = false` means the server has already closed its end, so
  the first `send` of that flush raises `BrokenPipeError` (an `IOError`).
* Only this thread touches the queue; there are no user listeners that write or raise (listeners
  only observe: `delivered`). Position fields are opaque values (`Int` stands for the float).
* A packet with an unknown id is returned by `read_packet` as a bare `Packet` carrying only the
  id — the payload is dropped with the frame buffer (`PlayEv.asSeen`).
* `other name` is any known packet without a default reaction. (`PlayingReactor` also reacts to
  "set compression"; framing is not part of this model.)
-/
namespace PyCraft.Play
open PyCraft

/-- Clientbound packets as seen by the playing reactor. -/
inductive PlayEv
  | keepAlive (id : Nat)
  | posLook (x y z yaw pitch : Int) (flags : Nat) (teleportId : Nat)
  | unknown (pid : Nat) (data : Bytes)
  | other (name : String)
  | disconnect
deriving Repr, DecidableEq

/-- Serverbound packets the reactor writes. -/
inductive Reply
  | keepAlive (id : Nat)
  | teleportConfirm (id : Nat)
  | positionEcho (x feetY z yaw pitch : Int) (onGround : Bool)
deriving Repr, DecidableEq

/-- What a listener receives for an event: an unknown id yields a generic `Packet` without data. -/
def PlayEv.asSeen : PlayEv → PlayEv
  | .unknown pid _ => .unknown pid []
  | e => e

/-- The connection and thread state the loop works on. -/
structure Conn where
  queue : List Reply          -- `_outgoing_packet_queue`
  wire : List Reply           -- packets that reached the socket, in order
  delivered : List PlayEv     -- packets passed to the (non-early) listeners
  spawned : Bool              -- `connection.spawned`
  connected : Bool            -- `connection.connected`
  interrupt : Bool            -- `networking_thread.interrupt`
  closed : Bool               -- `connection.socket is None`
deriving Repr, DecidableEq

def Conn.init : Conn :=
  { queue := [], wire := [], delivered := [], spawned := false, connected := true,
    interrupt := false, closed := false }

def PlayEv.isPosLook : PlayEv → Bool
  | .posLook .. => true
  | _ => false

/-- `Connection.disconnect(immediate)`. Returns the state reached and whether an `IOError` escaped
(state changes made before the raise persist: `connected = False`, one packet popped and lost). -/
def disconnect (peerOpen immediate : Bool) (c : Conn) : Conn × Option Err :=
  let c := { c with connected := false }
  let finish (c : Conn) : Conn × Option Err :=
    -- interrupt the thread; shutdown (socket.error swallowed), close, `socket = None`
    ({ c with interrupt := true, closed := true }, none)
  if !immediate && !c.closed then
    -- `while self._pop_packet(): pass`
    match c.queue with
    | [] => finish c
    | _ :: q =>
      if peerOpen then finish { c with wire := c.wire ++ c.queue, queue := [] }
      else ({ c with queue := q }, some .other)
  else finish c

/-- `PlayingReactor.react`. -/
def react (newer107 peerOpen : Bool) (c : Conn) : PlayEv → Conn
  | .disconnect =>
    match disconnect peerOpen false c with
    | (c', none) => c'
    | (c', some _) => (disconnect peerOpen true c').1      -- `except IOError:`
  | .keepAlive id =>
    { c with queue := c.queue ++ [.keepAlive id] }              -- write_packet(keep_alive_packet)
  | .posLook x y z yaw pitch _ tid =>
    let c' : Conn :=
      if newer107 then { c with queue := c.queue ++ [.teleportConfirm tid] }
      else { c with queue := c.queue ++ [.positionEcho x y z yaw pitch true] }
    { c' with spawned := true }
  | .unknown _ _ => c
  | .other _ => c

/-- `Connection._react`: reactor, then the listeners see the packet. -/
def reactAll (newer107 peerOpen : Bool) (c : Conn) (e : PlayEv) : Conn :=
  let c' := react newer107 peerOpen c e
  { c' with delivered := c'.delivered ++ [e.asSeen] }

/-- Write phase: `while _pop_packet(): num_packets += 1; if num_packets >= capW: break`.
Returns `(num_packets, queue, wire)`. Note that the test comes AFTER the write, so `capW = 0`
behaves like `capW = 1`. -/
def writeLoop (capW : Nat) : Nat → List Reply → List Reply → Nat × List Reply × List Reply
  | num, [], wire => (num, [], wire)
  | num, p :: q, wire =>
    if num + 1 ≥ capW then (num + 1, q, wire ++ [p]) else writeLoop capW (num + 1) q (wire ++ [p])

/-- Read phase: `while num_packets < capR and not interrupt: read; num_packets += 1; _react`.
Returns the state and the unread rest of the inbox. -/
def readLoop (newer107 peerOpen : Bool) (capR : Nat) : Nat → Conn → List PlayEv → Conn × List PlayEv
  | _, c, [] => (c, [])
  | num, c, e :: rest =>
    if num < capR ∧ c.interrupt = false then
      readLoop newer107 peerOpen capR (num + 1) (reactAll newer107 peerOpen c e) rest
    else (c, e :: rest)

/-- `NetworkingThread._run`, one iteration per unit of fuel; `none` = fuel exhausted. -/
def loop (newer107 peerOpen : Bool) (capW capR : Nat) : Nat → Conn → List PlayEv → Option Conn
  | 0, _, _ => none
  | fuel + 1, c, inbox =>
    if c.interrupt then some c                       -- `while not self.interrupt`
    else if inbox = [] ∧ c.queue = [] then some c    -- quiescent (the real thread idles)
    else
      let w := writeLoop capW 0 c.queue c.wire       -- `num_packets = 0`; write phase
      let c1 := { c with queue := w.2.1, wire := w.2.2 }
      let r := readLoop newer107 peerOpen capR w.1 c1 inbox   -- read phase, SAME counter
      loop newer107 peerOpen capW capR fuel r.1 r.2

structure Result where
  wire : List Reply
  delivered : List PlayEv
  spawned : Bool
  closed : Bool
  exitCalls : Nat
  errors : Nat
deriving Repr, DecidableEq

/-- `NetworkingThread.run`: `_run()` then `_handle_exit()` (`if not connected: handle_exit()`).
No path of the model raises out of `_run` (the only failing write is caught inside `react`), so
`_handle_exception` is never entered: `errors = 0`.

Every iteration that does not end the loop writes a packet or reads one (for `capR ≥ 1`), and a
read adds at most one packet to the queue, so `2·|inbox| + |queue|` decreases: `2·|inbox| + 1`
iterations suffice (proved in `Lemmas/Play.lean`). `none` means the loop makes no progress — which
is what the Python does for `capR = 0`: it would never read. -/
def runLoop (newer107 peerOpen : Bool) (capW capR : Nat) (inbox : List PlayEv) : Option Result :=
  match loop newer107 peerOpen capW capR (2 * inbox.length + 1) Conn.init inbox with
  | none => none
  | some c =>
    some { wire := c.wire, delivered := c.delivered, spawned := c.spawned, closed := c.closed,
           exitCalls := if c.connected then 0 else 1, errors := 0 }

/-! ### Vocabulary used by the property statements -/

/-- Specification vocabulary: the reply each event must receive (none for most). -/
def replyTo (newer107 : Bool) : PlayEv → List Reply
  | .keepAlive id => [.keepAlive id]
  | .posLook x y z yaw pitch _ tid =>
    if newer107 then [.teleportConfirm tid] else [.positionEcho x y z yaw pitch true]
  | _ => []

/-- The events before the first server disconnect. -/
def beforeDisc (inbox : List PlayEv) : List PlayEv := inbox.takeWhile (fun e => e != .disconnect)

def hasDisc (inbox : List PlayEv) : Bool := inbox.contains .disconnect

def PlayEv.isUnknown : PlayEv → Bool
  | .unknown .. => true
  | _ => false

def PlayEv.keepAliveId? : PlayEv → Option Nat
  | .keepAlive id => some id
  | _ => none

def Reply.keepAliveId? : Reply → Option Nat
  | .keepAlive id => some id
  | _ => none

def Reply.isKeepAlive : Reply → Bool
  | .keepAlive _ => true
  | _ => false

/-- The acknowledgement a position-and-look packet must receive. -/
def expectedAck (newer107 : Bool) : PlayEv → Option Reply
  | .posLook x y z yaw pitch _ tid =>
    some (if newer107 then .teleportConfirm tid else .positionEcho x y z yaw pitch true)
  | _ => none

end PyCraft.Play
