import PyCraft.Basic
/-!
Generic part of C06: what "total and injective id table" means for one row of a tabulated
`get_packets`/`get_id`, and the `dict` that `PacketReactor.__init__` builds from it
(`{packet.get_id(context): packet for packet in get_packets(context)}` — iteration order of a
Python `set` is arbitrary, later entries overwrite earlier ones).
-/
namespace PyCraft

abbrev IdEnt := String × Option Int

/-- every registered class resolves to a non-negative integer id -/
def entsTotal (ents : List IdEnt) : Bool :=
  ents.all fun e => match e.2 with | some i => decide (0 ≤ i) | none => false

/-- ids shared by two different entries -/
def dupIds : List IdEnt → List (Option Int)
  | [] => []
  | e :: rest => (if rest.any (fun f => f.2 == e.2) then [e.2] else []) ++ dupIds rest

/-- injective except for the listed ids -/
def entsInjExcept (known : List (Option Int)) (ents : List IdEnt) : Bool :=
  (dupIds ents).all fun i => known.contains i

/-- the dict built by the comprehension, in iteration order `ents`: last writer wins -/
def buildDict (ents : List (String × Int)) : List (Int × String) :=
  ents.foldl (fun d e => (e.2, e.1) :: d.filter (fun kv => kv.1 ≠ e.2)) []

def dictGet (d : List (Int × String)) (i : Int) : Option String := (d.find? (·.1 == i)).map (·.2)

end PyCraft
