import PyCraft.Model.Play
/-!
Play loop WITH FAILING WRITES (audit gap 11 of C11: "a server disconnect packet … reports no error"
was true in `Model/Play.lean` because `errors := 0` is a literal there).

This is `Model/Play.lean` again, extended by the one mechanism of `connection.py` that decides that
clause (line numbers of the current tree, i.e. after commit 584a461):

* a `socket.send` may raise an `IOError` (the peer has gone away). `fails k = true` means: the k-th
  call of `_write_packet` on this connection (k = 0, 1, …, counted over the write phases AND the
  flush inside `disconnect()`) raises. The reviewer's `failFrom n` ("the peer is gone from the n-th
  write on") is the instance `failFrom n k = decide (n ≤ k)`; the theorems hold for every `fails`.
* `_pop_packet` (l.318-331) pops BEFORE it writes, so a packet whose write raises is lost: ghost
  field `lost`.
* `NetworkingThread._run` (l.613-653): the write phase runs inside `try … except IOError:
  exc_info = sys.exc_info()` (l.618-625); the read phase forgets that `exc_info` when a packet named
  "disconnect" has been read and reacted to (l.648-649); after the read phase a remaining `exc_info`
  is re-raised (l.651-653).
* `NetworkingThread.run` (l.596-611): `_run(); _handle_exit()` inside `try`; on an exception
  `interrupt = True; _handle_exception(e, …)` — `_handle_exit` is skipped. `_handle_exception`
  (l.500-551) reports the exception (counted in `errors`) and, the thread being interrupted, calls
  `disconnect(immediate=True)` (l.544-546).
* `Connection.disconnect` (l.457-489) as it is NOW: the flush is guarded
  (`try: while self._pop_packet(): pass  except IOError: pass`, l.466-473), so `disconnect()` itself
  no longer raises; the `except IOError: disconnect(immediate=True)` of `PlayingReactor.react`
  (l.830-835) is therefore unreachable when the only failing operation is `send`.

Everything else is abstracted exactly as in `Model/Play.lean` (all server packets available from the
start; `read_packet` returns `None` when the inbox is exhausted; listeners only observe; the model
stops when the inbox is exhausted and the queue is drained). `PlayEv.disconnect` is THE clientbound
play packet whose `packet_name` is "disconnect"; `.other name` stands for known packets with other
names (`Generated/C11Errors.lean` tabulates, for every supported version, the classes with that
name: exactly `DisconnectPacket`).
-/
namespace PyCraft.PlayErr
open PyCraft PyCraft.Play

/-- The part of the connection that `_pop_packet` works on. -/
structure Out where
  queue : List Reply          -- `_outgoing_packet_queue`
  wire : List Reply           -- packets that reached the socket, in order
  lost : List Reply           -- ghost: packets popped whose write raised, in order
deriving Repr, DecidableEq

/-- Connection and thread state. -/
structure Conn where
  out : Out
  delivered : List PlayEv     -- packets passed to the (non-early) listeners
  spawned : Bool              -- `connection.spawned`
  connected : Bool            -- `connection.connected`
  interrupt : Bool            -- `networking_thread.interrupt`
  closed : Bool               -- `connection.socket is None`
deriving Repr, DecidableEq

def Conn.init : Conn :=
  { out := ⟨[], [], []⟩, delivered := [], spawned := false, connected := true,
    interrupt := false, closed := false }

/-- `failFrom n`: the first `n` writes succeed, every later one raises. -/
def failFrom (n : Nat) (k : Nat) : Bool := decide (n ≤ k)

/-- The flush of `disconnect()` (l.466-473):
`try: while self._pop_packet(): pass  except IOError: pass`. Arguments: queue, wire, lost.
The index of the write about to be attempted is `wire.length + lost.length`. -/
def flushQ (fails : Nat → Bool) : List Reply → List Reply → List Reply → Out
  | [], wire, lost => ⟨[], wire, lost⟩
  | p :: q, wire, lost =>
    if fails (wire.length + lost.length) then ⟨q, wire, lost ++ [p]⟩   -- popped, raised, caught
    else flushQ fails q (wire ++ [p]) lost

/-- `Connection.disconnect(immediate)` (l.457-489). Never raises (the flush is guarded; the
`socket.error` of `shutdown` is swallowed, l.481-484). -/
def disconnect (fails : Nat → Bool) (immediate : Bool) (c : Conn) : Conn :=
  let c := { c with connected := false }                                   -- l.462
  let c := if !immediate && !c.closed then                                -- l.464
      { c with out := flushQ fails c.out.queue c.out.wire c.out.lost }    -- l.466-473
    else c
  { c with interrupt := true, closed := true }                            -- l.475-489

/-- `PlayingReactor.react` (l.803-835). -/
def react (newer107 : Bool) (fails : Nat → Bool) (c : Conn) : PlayEv → Conn
  | .disconnect => disconnect fails false c        -- l.829-831 (the `except IOError` cannot fire)
  | .keepAlive id =>
    { c with out := { c.out with queue := c.out.queue ++ [.keepAlive id] } }       -- l.808-811
  | .posLook x y z yaw pitch _ tid =>
    let c' : Conn :=
      if newer107 then
        { c with out := { c.out with queue := c.out.queue ++ [.teleportConfirm tid] } }
      else
        { c with out := { c.out with queue := c.out.queue ++ [.positionEcho x y z yaw pitch true] } }
    { c' with spawned := true }                                                     -- l.813-827
  | .unknown _ _ => c
  | .other _ => c

/-- `Connection._react` (l.575-583): reactor, then the listeners see the packet. -/
def reactAll (newer107 : Bool) (fails : Nat → Bool) (c : Conn) (e : PlayEv) : Conn :=
  let c' := react newer107 fails c e
  { c' with delivered := c'.delivered ++ [e.asSeen] }

/-- Result of a write phase. -/
structure WRes where
  num : Nat                   -- `num_packets` after the phase
  out : Out
  exc : Bool                  -- `exc_info is not None`
deriving Repr, DecidableEq

/-- Write phase (l.618-625):
```
try:
    while not self.interrupt and self.connection._pop_packet():
        num_packets += 1
        if num_packets >= 300: break
    exc_info = None
except IOError:
    exc_info = sys.exc_info()
```
Arguments: `num_packets`, queue, wire, lost. A failing `_pop_packet` has already popped the packet
and does not count in `num_packets`. (`self.interrupt` is false when the phase starts and nothing in
the phase sets it.) -/
def writeLoop (fails : Nat → Bool) (capW : Nat) :
    Nat → List Reply → List Reply → List Reply → WRes
  | num, [], wire, lost => ⟨num, ⟨[], wire, lost⟩, false⟩
  | num, p :: q, wire, lost =>
    if fails (wire.length + lost.length) then ⟨num, ⟨q, wire, lost ++ [p]⟩, true⟩
    else if num + 1 ≥ capW then ⟨num + 1, ⟨q, wire ++ [p], lost⟩, false⟩
    else writeLoop fails capW (num + 1) q (wire ++ [p]) lost

/-- The write phase of one iteration, started in state `c` (`num_packets = 0`, l.616). -/
def writePhase (fails : Nat → Bool) (capW : Nat) (c : Conn) : WRes :=
  writeLoop fails capW 0 c.out.queue c.out.wire c.out.lost

/-- Result of a read phase / of one iteration of `_run`. -/
structure RRes where
  conn : Conn
  rest : List PlayEv          -- unread rest of the inbox
  exc : Bool                  -- `exc_info is not None`
deriving Repr, DecidableEq

/-- Read phase (l.636-649):
```
while num_packets < 50 and not self.interrupt:
    packet = read_packet(…)
    if not packet: break
    num_packets += 1
    self.connection._react(packet)
    if exc_info is not None and packet.packet_name == "disconnect": exc_info = None
``` -/
def readLoop (newer107 : Bool) (fails : Nat → Bool) (capR : Nat) :
    Nat → Conn → List PlayEv → Bool → RRes
  | _, c, [], exc => ⟨c, [], exc⟩
  | num, c, e :: rest, exc =>
    if num < capR ∧ c.interrupt = false then
      readLoop newer107 fails capR (num + 1) (reactAll newer107 fails c e) rest
        (exc && (e != .disconnect))
    else ⟨c, e :: rest, exc⟩

/-- One iteration of the `while not self.interrupt` loop of `_run` up to (not including) the
re-raise of l.651-653: write phase, then read phase with the SAME counter. -/
def iter (newer107 : Bool) (fails : Nat → Bool) (capW capR : Nat) (c : Conn)
    (inbox : List PlayEv) : RRes :=
  let w := writePhase fails capW c
  readLoop newer107 fails capR w.num { c with out := w.out } inbox w.exc

/-- `NetworkingThread._run` over an iteration function `it`, one iteration per unit of fuel.
Returns the state and whether an exception left `_run` (l.651-653); `none` = fuel exhausted. -/
def loopG (it : Conn → List PlayEv → RRes) : Nat → Conn → List PlayEv → Option (Conn × Bool)
  | 0, _, _ => none
  | fuel + 1, c, inbox =>
    if c.interrupt then some (c, false)                       -- `while not self.interrupt`
    else if inbox = [] ∧ c.out.queue = [] then some (c, false)   -- quiescent (the real thread idles)
    else
      let r := it c inbox
      if r.exc then some (r.conn, true)                       -- `raise exc_value…` (l.651-653)
      else loopG it fuel r.conn r.rest

def loop (newer107 : Bool) (fails : Nat → Bool) (capW capR : Nat) :
    Nat → Conn → List PlayEv → Option (Conn × Bool) :=
  loopG (iter newer107 fails capW capR)

structure Result where
  wire : List Reply
  lost : List Reply           -- ghost: popped, write raised
  unsent : List Reply         -- still queued at the end
  delivered : List PlayEv
  spawned : Bool
  closed : Bool
  exitCalls : Nat
  errors : Nat
deriving Repr, DecidableEq

/-- The rest of `NetworkingThread.run` (l.596-611) after `_run` has returned (`raised = false`:
`_handle_exit()`, l.571-573) or raised (`raised = true`: `self.interrupt = True;
_handle_exception(e, …)`, which reports the exception and then, the thread being interrupted,
calls `disconnect(immediate=True)`, l.544-546; `_handle_exit` is not reached). -/
def finish (fails : Nat → Bool) (c : Conn) (raised : Bool) : Result :=
  if raised then
    let c := disconnect fails true { c with interrupt := true }
    { wire := c.out.wire, lost := c.out.lost, unsent := c.out.queue, delivered := c.delivered,
      spawned := c.spawned, closed := c.closed, exitCalls := 0, errors := 1 }
  else
    { wire := c.out.wire, lost := c.out.lost, unsent := c.out.queue, delivered := c.delivered,
      spawned := c.spawned, closed := c.closed,
      exitCalls := if c.connected then 0 else 1, errors := 0 }

/-- `NetworkingThread.run` started in state `c` with `inbox` unread. -/
def runFrom (newer107 : Bool) (fails : Nat → Bool) (capW capR : Nat) (fuel : Nat) (c : Conn)
    (inbox : List PlayEv) : Option Result :=
  match loop newer107 fails capW capR fuel c inbox with
  | none => none
  | some (c', raised) => some (finish fails c' raised)

/-- `NetworkingThread.run` on a fresh play-state connection. Fuel as in `Play.runLoop`
(`2·|inbox| + 1` iterations suffice for `capR ≥ 1`, proved in `Lemmas/C11Errors.lean`). -/
def runLoop (newer107 : Bool) (fails : Nat → Bool) (capW capR : Nat) (inbox : List PlayEv) :
    Option Result :=
  runFrom newer107 fails capW capR (2 * inbox.length + 1) Conn.init inbox

/-! ### Vocabulary used by the property statements -/

/-- The thread is running on an open connection. -/
def Live (c : Conn) : Prop := c.interrupt = false ∧ c.connected = true ∧ c.closed = false

/-- Partition of a list of popped packets by the fate of their write, the first one being write
number `i`: (those that reached the wire, those that were lost). -/
def sift {α : Type} (fails : Nat → Bool) : Nat → List α → List α × List α
  | _, [] => ([], [])
  | i, p :: ps =>
    if fails i then ((sift fails (i + 1) ps).1, p :: (sift fails (i + 1) ps).2)
    else (p :: (sift fails (i + 1) ps).1, (sift fails (i + 1) ps).2)

/-- Forget the ghost fields: the observables of `Play.Result`. -/
def Result.toPlay (r : Result) : Play.Result :=
  { wire := r.wire, delivered := r.delivered, spawned := r.spawned, closed := r.closed,
    exitCalls := r.exitCalls, errors := r.errors }

/-- States reached at the start of an iteration of `_run` in the run on `inbox0`. -/
inductive Reach (newer107 : Bool) (fails : Nat → Bool) (capW capR : Nat) (inbox0 : List PlayEv) :
    Conn → List PlayEv → Prop
  | start : Reach newer107 fails capW capR inbox0 Conn.init inbox0
  | step {c inbox} : Reach newer107 fails capW capR inbox0 c inbox →
      c.interrupt = false → ¬(inbox = [] ∧ c.out.queue = []) →
      (iter newer107 fails capW capR c inbox).exc = false →
      Reach newer107 fails capW capR inbox0 (iter newer107 fails capW capR c inbox).conn
        (iter newer107 fails capW capR c inbox).rest

/-! ### Seeded changes (models of CHANGED code, used only for refutations in `Props/C11Errors.lean`) -/

/-- Read phase with l.648-649 deleted (the pending `exc_info` is never forgotten). -/
def readLoopNoClear (newer107 : Bool) (fails : Nat → Bool) (capR : Nat) :
    Nat → Conn → List PlayEv → Bool → RRes
  | _, c, [], exc => ⟨c, [], exc⟩
  | num, c, e :: rest, exc =>
    if num < capR ∧ c.interrupt = false then
      readLoopNoClear newer107 fails capR (num + 1) (reactAll newer107 fails c e) rest exc
    else ⟨c, e :: rest, exc⟩

def iterNoClear (newer107 : Bool) (fails : Nat → Bool) (capW capR : Nat) (c : Conn)
    (inbox : List PlayEv) : RRes :=
  let w := writePhase fails capW c
  readLoopNoClear newer107 fails capR w.num { c with out := w.out } inbox w.exc

def runLoopNoClear (newer107 : Bool) (fails : Nat → Bool) (capW capR : Nat)
    (inbox : List PlayEv) : Option Result :=
  match loopG (iterNoClear newer107 fails capW capR) (2 * inbox.length + 1) Conn.init inbox with
  | none => none
  | some (c', raised) => some (finish fails c' raised)

/-- `except IOError` of l.624 narrowed to a class that does not cover the error raised by `send`
(e.g. `except socket.timeout`): the exception leaves `_run` from the write phase at once; the read
phase of that iteration does not run. -/
def iterNarrow (newer107 : Bool) (fails : Nat → Bool) (capW capR : Nat) (c : Conn)
    (inbox : List PlayEv) : RRes :=
  let w := writePhase fails capW c
  if w.exc then ⟨{ c with out := w.out }, inbox, true⟩
  else readLoop newer107 fails capR w.num { c with out := w.out } inbox false

def runLoopNarrow (newer107 : Bool) (fails : Nat → Bool) (capW capR : Nat)
    (inbox : List PlayEv) : Option Result :=
  match loopG (iterNarrow newer107 fails capW capR) (2 * inbox.length + 1) Conn.init inbox with
  | none => none
  | some (c', raised) => some (finish fails c' raised)

end PyCraft.PlayErr
