import PyCraft.Basic
/-!
Exact-arithmetic model of the scaling done by `Angle` and `FixedPoint`
(`minecraft/networking/types/basic.py`).  A Python float is the exact rational `p / q` (`q > 0`,
`float.as_integer_ratio`); float rounding inside the Python expressions is NOT modelled (the
correspondence avoids inputs within 1e-9 of a rounding boundary and enumerates every wire value).
-/
namespace PyCraft

/-- Python's `round(N / D)` for integers `N`, `D > 0` computed exactly: round half to even. -/
def roundHalfEven (N D : Int) : Int :=
  let fl := N / D          -- floor (Int division by a positive divisor rounds down in Lean core `/`)
  let r := N % D
  if 2 * r < D then fl
  else if 2 * r > D then fl + 1
  else if fl % 2 = 0 then fl else fl + 1

/-- `Angle.send`: `round(256 * ((value % 360) / 360)) % 256` for `value = p / q`. -/
def angleStep (p q : Int) : Int :=
  roundHalfEven (256 * (p % (360 * q))) (360 * q) % 256

/-- `Angle.read`: `360 * step / 256` as an exact fraction `(num, den)`. -/
def angleOfStep (s : Int) : Int × Int := (360 * s, 256)

/-- `FixedPoint.send`: `int(value * 2**bits)` (truncation toward zero) for `value = p / q`. -/
def fixedWire (bits : Nat) (p q : Int) : Int := Int.tdiv (p * 2 ^ bits) q

/-- `FixedPoint.read`: `wire / 2**bits` as an exact fraction. -/
def fixedOfWire (bits : Nat) (w : Int) : Int × Int := (w, 2 ^ bits)

end PyCraft
