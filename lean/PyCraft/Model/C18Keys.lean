import PyCraft.Model.LoginWire
import PyCraft.Model.Aes
/-!
Model for the two C18 clauses the audit found without a theorem (audit_report.md, ranks 9 and 10):

* "AES-128-CFB8, key and IV BOTH equal to the shared secret" — `KChan`: the cipher contexts of
  `create_AES_cipher(secret)` (`encryption.py:13-16`) WITH the key as part of the state, the block
  function being the concrete `aes128 key` of `Model/Aes.lean` (not an arbitrary `E`), and the two
  wrappers (`encryption.py:65-99`) on top of it;
* "the shared secret is 16 fresh random bytes per login" — `reactK`/`execK`: the login reactor
  (`connection.py:732-781`) re-modelled with `os.urandom` as an ORACLE `Urandom.draw : Nat → Bytes`
  (the n-th call of the process; law: 16 bytes) and a counter `nDraws` of the calls made so far,
  writing through the real NESTED wrapper stack: a second encryption request wraps the already
  wrapped socket (`connection.py:750-754`), which `Model/Login.lean` (one Bool, one secret) does not
  represent.

The line that draws the secret (`connection.py:735`) and the cipher constructor
(`connection.py:747`) are PARAMETERS of `reactWith`, so that models of CHANGED code (constant
secret, secret drawn once and kept, reversed/constant key) are the same function at another
argument; `reactK := reactWith genUrandom KChan.create` is the model of the code as it is.

What is abstracted: RSA (parameter `Rsa`, as in `Model/Login.lean`), zlib (parameter `ZlibOps`),
the verification hash, JSON text extraction and the plugin handler (fields of `LoginParams`, whose
`secret` field is NOT used here — see `KeyParams.login`).  Incoming bytes are not modelled (events
arrive parsed, as in `Model/Login.lean`); the decryptor registers are carried but only exercised by
`KChan.run`/`stackRecv`.
-/
namespace PyCraft.Keys
open PyCraft PyCraft.Login PyCraft.LoginWire

/-! ## the keyed channel (`encryption.py`) -/

/-- `cipher = Cipher(algorithms.AES(key), modes.CFB8(iv))` after `cipher.encryptor()` and
`cipher.decryptor()` (`connection.py:747-749`): the key, the shift register of the ONE encryptor
context and the shift register of the ONE decryptor context (shared by the socket wrapper's `recv`
and the file wrapper's `read`, `connection.py:750-754`). -/
structure KChan where
  key : Bytes
  encReg : Bytes
  decReg : Bytes
deriving DecidableEq, Repr

/-- `algorithms.AES(key)` accepts 128-, 192- and 256-bit keys (`ValueError: Invalid key size`
otherwise). -/
def aesKeyLenOk (n : Nat) : Bool := n == 16 || n == 24 || n == 32

/-- `create_AES_cipher(shared_secret)` (`encryption.py:13-16`) followed by `.encryptor()` and
`.decryptor()`.  Two failure points, both `ValueError`: `algorithms.AES(shared_secret)` on a bad key
size, then `Cipher(…, modes.CFB8(shared_secret))` validating the IV against the 16-byte block
(`Invalid IV size`) — so exactly the 16-byte secrets pass, and then key = IV = secret: both
registers start as the secret, the block function is AES under the secret. -/
def KChan.create (secret : Bytes) : Except Err KChan :=
  if aesKeyLenOk secret.length then
    if secret.length = 16 then .ok ⟨secret, secret, secret⟩ else .error .value
  else .error .value

/-- The block function of the channel: AES-128 under its key. -/
def KChan.E (c : KChan) : Bytes → Bytes := aes128 c.key

/-- Forget the key (the state of `Model/Cfb8.lean`). -/
def KChan.toChan (c : KChan) : Chan := ⟨c.encReg, c.decReg⟩

/-- `EncryptedSocketWrapper.send(data)` (`encryption.py:89-90`):
`actual_socket.send(encryptor.update(data))`; second component = what the inner socket is handed. -/
def KChan.send (c : KChan) (data : Bytes) : KChan × Bytes :=
  let r := cfb8Enc (aes128 c.key) c.encReg data
  ({ c with encReg := r.1 }, r.2)

/-- `EncryptedSocketWrapper.recv(n)` (`encryption.py:86-87`):
`decryptor.update(actual_socket.recv(n))`, `chunk` being what the inner socket returned. -/
def KChan.recv (c : KChan) (chunk : Bytes) : KChan × Bytes :=
  let r := cfb8Dec (aes128 c.key) c.decReg chunk
  ({ c with decReg := r.1 }, r.2)

/-- `EncryptedFileObjectWrapper.read(n)` (`encryption.py:70-71`) — the same decryptor context. -/
def KChan.read (c : KChan) (chunk : Bytes) : KChan × Bytes := c.recv chunk

def KChan.step (c : KChan) : Op → KChan × Bytes
  | .send d => c.send d
  | .recv ch => c.recv ch
  | .read ch => c.read ch

/-- Any interleaving of wrapper calls: final state and one output per call. -/
def KChan.run : KChan → List Op → KChan × List Bytes
  | c, [] => (c, [])
  | c, op :: ops =>
    let r := c.step op
    let rs := KChan.run r.1 ops
    (rs.1, r.2 :: rs.2)

/-! ### models of CHANGED constructors (used only by the refutations in `Props/C18Keys.lean`) -/

/-- CHANGED code `Cipher(algorithms.AES(shared_secret[::-1]), modes.CFB8(shared_secret))`. -/
def KChan.createRevKey (secret : Bytes) : Except Err KChan :=
  if aesKeyLenOk secret.reverse.length then
    if secret.length = 16 then .ok ⟨secret.reverse, secret, secret⟩ else .error .value
  else .error .value

/-- CHANGED code `Cipher(algorithms.AES(b'\0' * 16), modes.CFB8(shared_secret))`. -/
def KChan.createConstKey (secret : Bytes) : Except Err KChan :=
  if aesKeyLenOk (List.replicate 16 (0 : UInt8)).length then
    if secret.length = 16 then .ok ⟨List.replicate 16 0, secret, secret⟩ else .error .value
  else .error .value

/-- CHANGED code `Cipher(algorithms.AES(shared_secret), modes.CFB8(b'\0' * 16))`. -/
def KChan.createConstIV (secret : Bytes) : Except Err KChan :=
  if aesKeyLenOk secret.length then
    if (List.replicate 16 (0 : UInt8)).length = 16 ∧ secret.length = 16 then
      .ok ⟨secret, List.replicate 16 0, List.replicate 16 0⟩
    else .error .value
  else .error .value

/-- CHANGED code `EncryptedFileObjectWrapper(file_object, cipher.decryptor())`: the file wrapper
gets a decryptor of its own (audit rank 2 / seeded C18-m1).  State: the channel plus the second
decryptor's register. -/
def KChan.runOwnFileDec : KChan × Bytes → List Op → (KChan × Bytes) × List Bytes
  | c, [] => (c, [])
  | (c, freg), .read ch :: ops =>
    let r := cfb8Dec (aes128 c.key) freg ch
    let rs := KChan.runOwnFileDec (c, r.1) ops
    (rs.1, r.2 :: rs.2)
  | (c, freg), op :: ops =>
    let r := c.step op
    let rs := KChan.runOwnFileDec (r.1, freg) ops
    (rs.1, r.2 :: rs.2)

/-! ## the wrapper stack -/

/-- `connection.socket.send(data)` when `connection.socket` is the real socket under the
`EncryptedSocketWrapper`s `st` (head = outermost = installed last): every wrapper runs
`actual_socket.send(encryptor.update(data))`, so the outermost cipher is applied first.
Second component: what the REAL socket's `send` is handed. -/
def stackSend : List KChan → Bytes → List KChan × Bytes
  | [], d => ([], d)
  | c :: inner, d =>
    let r := c.send d
    let q := stackSend inner r.2
    (r.1 :: q.1, q.2)

/-- `connection.socket.recv(n)` / `connection.file_object.read(n)` through the same stack
(`decryptor.update(actual.recv(n))`: the INNERMOST decryptor is applied first), `chunk` being what
the real socket / raw file object returned.  Layer `i` of the file-object stack shares its
decryptor with layer `i` of the socket stack, so one function serves both. -/
def stackRecv : List KChan → Bytes → List KChan × Bytes
  | [], ch => ([], ch)
  | c :: inner, ch =>
    let q := stackRecv inner ch
    let r := c.recv q.2
    (r.1 :: q.1, r.2)

/-- One call on the (possibly nested) wrappers: `send` on `connection.socket`, `recv` on it, or
`read` on `connection.file_object`. -/
def stackStep (st : List KChan) : Op → List KChan × Bytes
  | .send d => stackSend st d
  | .recv ch => stackRecv st ch
  | .read ch => stackRecv st ch

/-- Any interleaving of calls on the installed wrappers: one output per call (for `send` what the
REAL socket is handed, for `recv`/`read` the plaintext returned when the real socket / raw file
object returned the chunk). -/
def stackRun : List KChan → List Op → List Bytes
  | _, [] => []
  | st, op :: ops => (stackStep st op).2 :: stackRun (stackStep st op).1 ops

/-- The stack obtained by installing a cipher for each secret in turn (the first is the innermost);
`create_AES_cipher` may raise. -/
def mkStack : List Bytes → Except Err (List KChan)
  | [] => .ok []
  | d :: ds =>
    match KChan.create d, mkStack ds with
    | .ok c, .ok st => .ok (st ++ [c])
    | .error e, _ => .error e
    | _, .error e => .error e

/-! ## the login reactor with an entropy oracle -/

/-- `os.urandom(16)` as an oracle: `draw n` is what the n-th call of the process returns.  The only
law: it returns 16 bytes.  (Randomness proper is not expressible; the theorems say WHICH draw a
secret is and that no draw is used twice.) -/
structure Urandom where
  draw : Nat → Bytes
  len16 : ∀ n, (draw n).length = 16

/-- How the reactor obtains the secret (`connection.py:735`), given the oracle and the number of
calls made so far: the secret and the new number of calls. -/
abbrev SecretGen := Urandom → Nat → Bytes × Nat

/-- The code as it is: `encryption.generate_shared_secret()` = `os.urandom(16)`
(`encryption.py:9-10`), one new call per encryption request. -/
def genUrandom : SecretGen := fun rng n => (rng.draw n, n + 1)

/-- CHANGED code `def generate_shared_secret(): return b'\0' * 16`. -/
def genZero : SecretGen := fun _ n => (List.replicate 16 0, n)

/-- CHANGED code: the secret is drawn ONCE (call number `c`: at import time, when the `Connection`
is created, or at its first login — seeded C18-m6 "secret kept in the context across logins") and
that value is used for every later request. -/
def genFixed (c : Nat) : SecretGen := fun rng n => (rng.draw c, n)

structure KeyParams where
  /-- `rsa`, `hash`, `hasToken`, `jsonText`, `handler` as in `Model/Login.lean`; `base.secret` is
  not used by this model -/
  base : LoginParams
  rng : Urandom
  z : ZlibOps
  ids : Ids

/-- The parameters of `Model/Login.lean` that has `secret` as its one shared secret. -/
def KeyParams.login (P : KeyParams) (secret : Bytes) : LoginParams := { P.base with secret := secret }

/-- The exception that ends the networking thread: one of `Model/Login.lean`'s, or the
`ValueError` of `create_AES_cipher`. -/
inductive KErr
  | login (e : LoginErr)
  | cipher (e : Err)
deriving Repr, DecidableEq

structure KState where
  /-- number of `os.urandom` calls made so far (state of the process, not of the connection) -/
  nDraws : Nat
  /-- the `EncryptedSocketWrapper`s around the real socket, outermost (installed last) first -/
  layers : List KChan
  threshold : Option Int
  reactor : Reactor
  queue : List ClientPkt
  /-- arguments of the REAL socket's `send`, in call order -/
  wire : List Bytes
  /-- what `_write_packet` has written, in order, with the modes in force (`encrypted` = at least
  one wrapper installed) -/
  log : List Sent
  joins : List String
  err : Option KErr
deriving Repr, DecidableEq

/-- A fresh connection in a process that has made `n` calls of `os.urandom` so far. -/
def KState.init (n : Nat) : KState :=
  { nDraws := n, layers := [], threshold := none, reactor := .login, queue := [], wire := [],
    log := [], joins := [], err := none }

/-- `_write_packet(packet)` (`connection.py:333-348`): `packet.write(self.socket, threshold)` →
the two `send` calls of `_write_buffer` on whatever `connection.socket` is NOW. -/
def KState.writeNow (P : KeyParams) (s : KState) (p : ClientPkt) (forced : Bool) : KState :=
  let r := updates stackSend s.layers (frameSends P.z s.threshold (payloadOf P.ids p))
  { s with layers := r.1, wire := s.wire ++ r.2,
           log := s.log ++ [⟨p, !s.layers.isEmpty, s.threshold, forced⟩] }

/-- The write phase of `_run`: `while self._pop_packet(): pass`. -/
def KState.flushQueue (P : KeyParams) (s : KState) : KState :=
  { s.queue.foldl (fun t p => t.writeNow P p false) s with queue := [] }

/-- `LoginReactor.react` (`connection.py:732-781`), line 735 (`gen`) and line 747 (`mk`) being
parameters. -/
def reactWith (gen : SecretGen) (mk : Bytes → Except Err KChan) (P : KeyParams) (s : KState) :
    LoginEv → KState
  | .encRequest serverId pubKey token =>
    -- l.735  secret = encryption.generate_shared_secret()
    let g := gen P.rng s.nDraws
    let secret := g.1
    let s0 : KState := { s with nDraws := g.2 }
    -- l.736-737  token, encrypted_secret = encrypt_token_and_secret(public_key, verify_token, secret)
    let encToken := P.base.rsa.enc pubKey token
    let encSecret := P.base.rsa.enc pubKey secret
    -- l.740-744  hash and join
    let s1 : KState :=
      if serverId ≠ "-" then
        let h := P.base.hash serverId secret pubKey
        if P.base.hasToken then { s0 with joins := s0.joins ++ [h] } else s0
      else s0
    -- l.746-752  write_packet(encryption_response, force=True) through the CURRENT socket
    let s2 := s1.writeNow P (.encResp encSecret encToken) true
    -- l.755-757  cipher = create_AES_cipher(secret); encryptor; decryptor
    match mk secret with
    | .error e => { s2 with err := some (.cipher e) }
    -- l.758-762  wrap connection.socket and connection.file_object (one decryptor for both)
    | .ok c => { s2 with layers := c :: s2.layers }
  | .disconnect json => { s with err := some (.login (classifyDisconnect P.base json)) }
  | .success => { s with reactor := .play }
  | .setCompression thr => { s with threshold := some thr }
  | .pluginRequest msgId channel data =>
    { s with queue := s.queue ++ [pluginReply P.base msgId channel data] }

/-- One step of the loop, as `Login.step`. -/
def stepWith (gen : SecretGen) (mk : Bytes → Except Err KChan) (P : KeyParams) (s : KState) :
    Step → KState
  | .flush => if s.err.isSome then s else s.flushQueue P
  | .recv e => if s.err.isSome || s.reactor == .play then s else reactWith gen mk P s e

def execWith (gen : SecretGen) (mk : Bytes → Except Err KChan) (P : KeyParams) (s : KState)
    (steps : List Step) : KState :=
  steps.foldl (stepWith gen mk P) s

/-- The code as it is. -/
abbrev reactK := reactWith genUrandom KChan.create
abbrev stepK := stepWith genUrandom KChan.create
abbrev execK := execWith genUrandom KChan.create

/-- Several logins one after the other in one process: login `i` is preceded by `gap` other calls
of `os.urandom` (anything else in the process may draw) and runs its step list on a fresh
connection state; the oracle's call counter is the only thing carried over. -/
def loginsWith (gen : SecretGen) (mk : Bytes → Except Err KChan) (P : KeyParams) :
    Nat → List (Nat × List Step) → List KState
  | _, [] => []
  | n, (gap, steps) :: rest =>
    let s := execWith gen mk P (.init (n + gap)) steps
    s :: loginsWith gen mk P s.nDraws rest

abbrev logins := loginsWith genUrandom KChan.create

/-- The keys of the ciphers a connection has installed, in installation order. -/
def KState.keys (s : KState) : List Bytes := s.layers.reverse.map (·.key)

/-! ### vocabulary of the statements -/

/-- (server id, public key, verify token) of the encryption requests among `evs`. -/
def reqs : List LoginEv → List (String × Bytes × Bytes)
  | [] => []
  | .encRequest sid pk tok :: r => (sid, pk, tok) :: reqs r
  | _ :: r => reqs r

/-- The `join` call the request `(sid, pk, _)` must cause when its secret is `d`. -/
def joinOf (P : KeyParams) (d : Bytes) (sid : String) (pk : Bytes) : List String :=
  if sid ≠ "-" ∧ P.base.hasToken = true then [P.base.hash sid d pk] else []

/-- The reply to the request `(_, pk, tok)` when its secret is `d`. -/
def replyOf (P : KeyParams) (d pk tok : Bytes) : ClientPkt :=
  .encResp (P.base.rsa.enc pk d) (P.base.rsa.enc pk tok)

/-- The draw indices used by a sequence of logins started at call number `n`: login `i` uses the
`k i` consecutive calls after its gap. -/
def drawIdxs : Nat → List (Nat × Nat) → List Nat
  | _, [] => []
  | n, (gap, k) :: rest => List.range' (n + gap) k ++ drawIdxs (n + gap + k) rest

/-! ## RSAES-PKCS1-v1_5 (RFC 8017 §7.2) over an abstract RSA permutation

`pubkey.encrypt(m, PKCS1v15())` (`encryption.py:30-31`) is the `cryptography` package / OpenSSL,
not pyCraft code; what pyCraft decides is the padding scheme (`PKCS1v15()`), the key (the server's)
and the two messages (the 16-byte secret, the server's token).  `Model/Login.lean` takes the
whole of it as a parameter `Rsa` with the ASSUMED law `dec priv (enc pub m) = m`.  Here the scheme
is written out, so that this law is DERIVED (for every message the scheme accepts) from the one
property of the RSA primitive itself: `RSADP (RSAEP x) = x` for `x < n`. -/

/-- OS2IP: big-endian octets to integer. -/
def os2ip (bs : Bytes) : Nat := bs.foldl (fun a b => 256 * a + b.toNat) 0

/-- The `k` low-order base-256 digits of `x`, most significant first. -/
def toBE : Nat → Nat → Bytes
  | _, 0 => []
  | x, k + 1 => toBE (x / 256) k ++ [UInt8.ofNat (x % 256)]

/-- I2OSP: "integer too large" unless `x < 256^k`. -/
def i2osp (x k : Nat) : Except Err Bytes := if x < 256 ^ k then .ok (toBE x k) else .error .value

/-- EME-PKCS1-v1_5 encoding (§7.2.1 step 2) with the padding string `ps` the library drew:
`EM = 00 ‖ 02 ‖ PS ‖ 00 ‖ M`; "message too long" unless `mLen ≤ k − 11`. -/
def emeEncode (k : Nat) (ps m : Bytes) : Except Err Bytes :=
  if m.length + 11 ≤ k then .ok ([0x00, 0x02] ++ ps ++ [0x00] ++ m) else .error .value

/-- What the library guarantees about the padding string: `k − mLen − 3` NONZERO octets. -/
def PsOK (k : Nat) (ps m : Bytes) : Prop := ps.length = k - m.length - 3 ∧ ∀ b ∈ ps, b ≠ 0

instance (k : Nat) (ps m : Bytes) : Decidable (PsOK k ps m) := by unfold PsOK; exact inferInstance

/-- EME-PKCS1-v1_5 decoding (§7.2.2 step 3): "decryption error" if the first octet is not 00, the
second not 02, there is no 00 octet to separate PS from M, or PS is shorter than 8 octets. -/
def emeDecode (em : Bytes) : Except Err Bytes :=
  match em with
  | a :: b :: rest =>
    if a = 0 ∧ b = 2 then
      match rest.dropWhile (· ≠ 0) with
      | [] => .error .value
      | _ :: m => if 8 ≤ (rest.takeWhile (· ≠ 0)).length then .ok m else .error .value
    else .error .value
  | _ => .error .value

/-- The RSA primitive for one key pair: modulus `n` of `k` octets, `f` = RSAEP (`x ↦ x^e mod n`),
`finv` = RSADP (`y ↦ y^d mod n`).  The only law used: RSADP inverts RSAEP below `n`. -/
structure Trapdoor where
  k : Nat
  n : Nat
  f : Nat → Nat
  finv : Nat → Nat
  n_lo : 256 ^ (k - 1) ≤ n
  n_hi : n < 256 ^ k
  f_lt : ∀ x, x < n → f x < n
  inv : ∀ x, x < n → finv (f x) = x

/-- RSAES-PKCS1-V1_5-ENCRYPT (§7.2.1). -/
def rsaesEncrypt (T : Trapdoor) (ps m : Bytes) : Except Err Bytes :=
  match emeEncode T.k ps m with
  | .error e => .error e
  | .ok em =>
    -- RSAEP: "message representative out of range" unless below the modulus
    if os2ip em < T.n then i2osp (T.f (os2ip em)) T.k else .error .value

/-- RSAES-PKCS1-V1_5-DECRYPT (§7.2.2). -/
def rsaesDecrypt (T : Trapdoor) (c : Bytes) : Except Err Bytes :=
  if c.length = T.k ∧ 11 ≤ T.k then
    if os2ip c < T.n then
      match i2osp (T.finv (os2ip c)) T.k with
      | .error e => .error e
      | .ok em => emeDecode em
    else .error .value
  else .error .value

end PyCraft.Keys
