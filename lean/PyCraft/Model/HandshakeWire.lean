import PyCraft.Model.Negotiate
import PyCraft.Model.Frame
import PyCraft.Model.Wire
/-!
Byte-level refinement of the negotiation / status model (`Model/Negotiate.lean`): what the frames
`connect()` and `status()` queue first look like ON THE WIRE, an independent reference server that
reads them back, and the clientbound side of the status exchange.

Client side (mirrors the Python literally):
* `writePkt` — `Packet.write`'s buffer for
  `HandShakePacket` (id 0x00: `VarInt protocol_version`, `String server_address`,
  `UnsignedShort server_port`, `VarInt next_state`),
  `serverbound.status.RequestPacket` (id 0x00, no fields),
  `serverbound.status.PingPacket` (id 0x01: `Long time`),
  `serverbound.login.LoginStartPacket` (id `get_id(context)` — 0x00 in every release, 0x01 on the
  1.13 snapshots 385..390 — here the parameter `lsId`; `String name`).
  Failure points: `UnsignedShort.send` = `struct.pack('>H', port)` raises `struct.error` outside
  `0..65535` (reachable through `connect()`: glibc's `getaddrinfo(host, 70000)` silently resolves
  to port `70000 mod 65536 = 4464`, so `_connect()` succeeds and the handshake write then raises
  in the networking thread); `Long.send` = `struct.pack('>q', t)` raises `struct.error` outside `-2^63..2^63-1`;
  `String.send(None)` (no user name and no auth token) raises `AttributeError` (`Err.other`).
  `VarInt.send` and `String.send` of a `str` never raise for the values of the model (`Nat`
  protocol numbers, Lean `String`s, which — unlike Python `str` — cannot hold lone surrogates).
* `writeFrame` — `_write_buffer(socket, buffer, None)`: `_connect()` resets
  `options.compression_enabled = False`, and `_write_packet` passes a threshold only when that flag
  is set, so every frame of this file is `VarInt(len(payload)) ++ payload` (`frame z none`), zlib
  is never called.
* `Packet.write` fills a `PacketBuffer` first and calls `socket.send` only at the end, so a write
  that raises puts NOTHING on the wire: `frameBytes` (= the bytes that reach the socket for one
  frame) is `[]` then.  `clientWrites` is the networking thread working through the queue: frame
  after frame until one raises; nothing is written after that.
* `firstBytes p plan` — the byte stream of the frames `connect()` queues (`Neg.firstFrames`).

Strings are UTF-8 (`utf8 s` = `s.toByteArray`, which for a core Lean `String` IS its UTF-8
encoding = `String.toUTF8`) behind a VarInt BYTE-length prefix.

Server side — NOT pyCraft code, an independent reference peer: C01's reader `readPacketK` (the
model of `read_packet`) over arrival segments, then `serverParseHandshake` on the field bytes of
the first frame (`decVarInt`, `readString`, `IntT.u16.unpack`, `decVarInt`, written without
reference to the encoder), then — `recvFrames` — one `read_packet` per frame until the peer has
nothing more to deliver; `decodeServerbound` interprets those frames in the state the handshake
selected.  It is strict where a real server is: a first frame whose id is not 0 or that has bytes
left behind `next_state` is refused (`Err.other`).

Clientbound status side: `responseBytes` / `pongBytes` (what a server writes:
`ResponsePacket` id 0x00 `String json_response`, `PingResponsePacket` id 0x01 `Long time`),
`serverReply` (the reference status server: answers a request with the response, a ping with a
pong carrying the `Long` it DECODED, re-encoded), and the client's reading of them —
`decodeClientboundStatus` = the `packet.read` of the class `read_packet` selects by id (`String.read`
/ `Long.read`; an id that is not in `clientbound.status.get_packets` gives a bare `Packet`, i.e.
`StatusPkt.other`), `clientRecvStatus` = that applied to every frame of the stream, until
`read_packet` raises — `EOFError` at the latest, when the stream is exhausted (the client has no
notion of a "clean end"; only the reference server's `recvFrames` has).
`String.read` has NO length limit in the library (`VarInt.read`, `read(length)`, `EOFError` when
short, `decode('utf-8')`).
-/
namespace PyCraft.HsWire
open PyCraft PyCraft.Neg

/-- zlib is never called on the frames of this file (threshold `None`); the identity instance. -/
def noZlib : ZlibOps := Zlib.ident.toZlibOps

/-- `Packet.write(socket)` with `compression_threshold=None` for a packet `(id, field bytes)`. -/
def plainFrame (id : Nat) (fields : Bytes) : Bytes := packetFrame noZlib none (id, fields)

/-! ### client: what is written -/

/-- `String.send(value)`: `value.encode('utf-8')`, `VarInt(len(bytes))`, the bytes. -/
def encString (s : String) : Bytes := encVarInt (utf8 s).length ++ utf8 s

/-- The fields of `HandShakePacket` when `UnsignedShort.send` accepts the port
(`beBytes 2` = `struct.pack('>H', ·)` on `0..65535`). -/
def handshakeFields (h : Handshake) : Bytes :=
  encVarInt h.proto ++ encString h.host ++ beBytes 2 h.port ++ encVarInt h.next

/-- The frames a client writes on a fresh connection: those `connect()` queues (`Neg.Frame`) and
the status ping. -/
inductive CFrame
  | first (f : Frame)
  | ping (time : Int)
deriving DecidableEq, Repr

/-- `Packet.write`'s buffer as (id, field bytes), or the exception a field's `send` raises.
`lsId` = `LoginStartPacket.get_id(context)`. -/
def writePkt (lsId : Nat) : CFrame → Except Err (Nat × Bytes)
  | .first (.handshake h) =>
    (IntT.u16.pack (h.port : Int)).map fun port =>
      (0, encVarInt h.proto ++ encString h.host ++ port ++ encVarInt h.next)
  | .first (.loginStart none) => .error .other
  | .first (.loginStart (some name)) => .ok (lsId, encString name)
  | .first .statusRequest => .ok (0, [])
  | .ping time => (IntT.i64.pack time).map fun t => (1, t)

/-- `packet.write(self.socket)`: the frame, or the exception (then nothing was sent). -/
def writeFrame (lsId : Nat) (f : CFrame) : Except Err Bytes :=
  match writePkt lsId f with
  | .error e => .error e
  | .ok p => .ok (packetFrame noZlib none p)

/-- The bytes that reach the socket when the frame is written (none if the write raises). -/
def frameBytes (lsId : Nat) (f : CFrame) : Bytes :=
  match writeFrame lsId f with
  | .ok b => b
  | .error _ => []

/-- The networking thread writing the queued frames in order: the bytes sent, and the exception
that stopped it (`none`: everything was written). -/
def clientWrites (lsId : Nat) : List CFrame → Bytes × Option Err
  | [] => ([], none)
  | f :: fs =>
    match writeFrame lsId f with
    | .error e => ([], some e)
    | .ok b => (b ++ (clientWrites lsId fs).1, (clientWrites lsId fs).2)

/-- The byte stream of one connection's first frames. -/
def connBytes (lsId : Nat) (fs : List Frame) : Bytes :=
  fs.flatMap fun f => frameBytes lsId (.first f)

/-- The byte stream `connect()` produces on the fresh connection for `plan`. -/
def firstBytes (lsId : Nat) (p : ConnParams) (plan : Plan) : Bytes :=
  connBytes lsId (firstFrames p plan)

/-- The client → server stream of a plain `status()`: handshake (next state 1) carrying
`context.protocol_version`, the request, and — when latency is measured — the ping the reactor
writes on receiving the response. -/
def statusFrames (p : ConnParams) (ctx : Nat) (ping : Option Int) : List CFrame :=
  (firstFrames p (.query ctx)).map .first ++
    (match ping with
     | none => []
     | some t => [.ping t])

/-! ### well-formedness guards (explicit, decidable) -/

/-- A string whose UTF-8 byte length fits the VarInt length prefix (the protocol's 32-bit VarInt;
the reference reader would accept anything below `2^42`). -/
def StrOK (s : String) : Prop := (utf8 s).length < 2 ^ 31

instance (s : String) : Decidable (StrOK s) := by unfold StrOK; exact inferInstance

/-- The handshake record is encodable and decodable: protocol and next state in VarInt range,
host byte length in range, port accepted by `struct.pack('>H')`. -/
def HsOK (h : Handshake) : Prop :=
  h.proto < 2 ^ 32 ∧ StrOK h.host ∧ h.port < 65536 ∧ h.next < 2 ^ 32

instance (h : Handshake) : Decidable (HsOK h) := by unfold HsOK; exact inferInstance

/-- The protocol number a plan puts into the handshake. -/
def planProto : Plan → Nat
  | .direct v => v
  | .query v => v

/-- The next state a plan puts into the handshake: 2 (`STATE_PLAYING`) for a direct login, 1
(`STATE_STATUS`) for a status query. -/
def planNext : Plan → Nat
  | .direct _ => 2
  | .query _ => 1

/-- The connection parameters and plan can be written and read back: host, port and protocol as
in `HsOK`; for a direct login additionally a login name exists (else `String.send(None)` raises)
in range, and the login-start id is a VarInt. -/
def FirstOK (lsId : Nat) (p : ConnParams) (plan : Plan) : Prop :=
  StrOK p.host ∧ p.port < 65536 ∧ planProto plan < 2 ^ 32 ∧
    match plan with
    | .query _ => True
    | .direct _ =>
      lsId < 2 ^ 32 ∧
        match loginName p with
        | some name => StrOK name
        | none => False

instance (lsId : Nat) (p : ConnParams) (plan : Plan) : Decidable (FirstOK lsId p plan) := by
  unfold FirstOK
  cases plan with
  | query v => exact inferInstance
  | direct v =>
    cases h : loginName p with
    | none => simp only []; exact inferInstance
    | some n => simp only []; exact inferInstance

/-! ### the reference server -/

/-- `String.read`: `VarInt.read`, `read(length)`, `EOFError` if short, strict UTF-8 decoding. -/
def readString (bs : Bytes) : Except Err (String × Bytes) :=
  match decVarInt 5 bs with
  | .error e => .error e
  | .ok (n, r) =>
    if r.length < n then .error .eof
    else
      match utf8Decode (r.take n) with
      | some s => .ok (s, r.drop n)
      | none => .error .decode

/-- The fields of a handshake packet: VarInt, String, big-endian unsigned short, VarInt; returns
the record and the bytes behind it. -/
def serverParseHandshake (bs : Bytes) : Except Err (Handshake × Bytes) :=
  match decVarInt 5 bs with
  | .error e => .error e
  | .ok (proto, r1) =>
    match readString r1 with
    | .error e => .error e
    | .ok (host, r2) =>
      match IntT.u16.unpack r2 with
      | .error e => .error e
      | .ok (port, r3) =>
        match decVarInt 5 r3 with
        | .error e => .error e
        | .ok (next, r4) => .ok (⟨proto, host, port.toNat, next⟩, r4)

/-- One `read_packet` per frame until the peer has nothing more to deliver (`none`: the stream
ended at a frame boundary; `some e`: the exception `read_packet` raised, e.g. `eof` inside a
frame).  `fuel` bounds the number of frames; callers supply (bytes remaining + 1). -/
def recvFrames : Nat → Sock Unit → List (Nat × Bytes) × Option Err
  | 0, _ => ([], some .other)
  | fuel + 1, k =>
    if k.segs.flatten.isEmpty then ([], none)
    else
      match readPacketK idXform noZlib false k with
      | (.error e, _) => ([], some e)
      | (.ok p, k') => (p :: (recvFrames fuel k').1, (recvFrames fuel k').2)

/-- What the server got out of the stream: the handshake record, the frames that followed as
(id, field bytes), and how the stream ended. -/
structure Received where
  hs : Handshake
  frames : List (Nat × Bytes)
  err : Option Err
deriving DecidableEq, Repr

/-- The reference server on the arrival segments `segs`. -/
def serverRecv (segs : Segs) : Except Err Received :=
  match readPacketK idXform noZlib false (Sock.plain segs) with
  | (.error e, _) => .error e
  | (.ok p, k) =>
    if p.1 ≠ 0 then .error .other
    else
      match serverParseHandshake p.2 with
      | .error e => .error e
      | .ok (h, left) =>
        if left ≠ [] then .error .other
        else
          .ok ⟨h, (recvFrames (k.segs.flatten.length + 1) k).1,
            (recvFrames (k.segs.flatten.length + 1) k).2⟩

/-- A serverbound frame as the server understands it in the state the handshake selected. -/
inductive SFrame
  | request
  | ping (time : Int)
  | loginStart (name : String)
  | unknown (id : Nat) (fields : Bytes)
deriving DecidableEq, Repr

/-- State 1 (status): id 0 without fields is the request, id 1 with exactly a `Long` the ping.
State 2 (login): id `lsId` with exactly a `String` is the login start.  Everything else
(other ids, other states, undecodable or over-long fields) is `unknown`. -/
def decodeServerbound (lsId next : Nat) (p : Nat × Bytes) : SFrame :=
  if next = 1 then
    if p.1 = 0 then (if p.2 = [] then .request else .unknown p.1 p.2)
    else if p.1 = 1 then
      match IntT.i64.unpack p.2 with
      | .ok (t, []) => .ping t
      | _ => .unknown p.1 p.2
    else .unknown p.1 p.2
  else if next = 2 then
    if p.1 = lsId then
      match readString p.2 with
      | .ok (s, []) => .loginStart s
      | _ => .unknown p.1 p.2
    else .unknown p.1 p.2
  else .unknown p.1 p.2

/-- The frames behind the handshake, decoded. -/
def Received.decoded (lsId : Nat) (r : Received) : List SFrame :=
  r.frames.map (decodeServerbound lsId r.hs.next)

/-! ### clientbound status packets -/

/-- `ResponsePacket` as a server writes it. -/
def responseBytes (json : String) : Bytes := plainFrame 0 (encString json)

/-- `PingResponsePacket` as a server writes it (`struct.error` outside the signed 64-bit range). -/
def pongBytes (time : Int) : Except Err Bytes :=
  (IntT.i64.pack time).map (plainFrame 1)

/-- The reference status server's answer to one decoded frame. -/
def serverReply (json : String) : SFrame → Except Err Bytes
  | .request => .ok (responseBytes json)
  | .ping t => pongBytes t
  | _ => .ok []

/-- `packet.read(packet_data)` for the class `read_packet` picks in the status state. -/
def decodeClientboundStatus (p : Nat × Bytes) : Except Err StatusPkt :=
  if p.1 = 0 then
    match readString p.2 with
    | .error e => .error e
    | .ok (s, _) => .ok (.response s)
  else if p.1 = 1 then
    match IntT.i64.unpack p.2 with
    | .error e => .error e
    | .ok (t, _) => .ok (.pong t)
  else .ok .other

/-- Decode frame after frame; stop at the first `read` that raises. -/
def decodeStatusAll : List (Nat × Bytes) → List StatusPkt × Option Err
  | [] => ([], none)
  | p :: ps =>
    match decodeClientboundStatus p with
    | .error e => ([], some e)
    | .ok s => (s :: (decodeStatusAll ps).1, (decodeStatusAll ps).2)

/-- The client's networking thread on the server → client stream of a status connection
(`NetworkingThread._run_network_loop`: `read_packet` — C01's reader `readAll` — until it raises, each
frame handed to the `packet.read` of its class): the packets handed to `StatusReactor.react`, and
the exception that ended the run.  The loop has no other way out: when the stream is EXHAUSTED — no
byte at all, or a clean end between two frames — `VarInt.read` gets an empty `read(1)` and raises
`EOFError`, so the run ends with `.eof` there too (exactly as `readAll … = (…, .eof)`); a frame whose
`read` raises ends it earlier with that exception. -/
def clientRecvStatus (segs : Segs) : List StatusPkt × Err :=
  let r := readAll noZlib false segs
  let d := decodeStatusAll r.1
  (d.1, match d.2 with
        | some e => e
        | none => r.2)

/-! ### seeded encoder faults for the negative witness -/

/-- Fault 1: the port written little-endian. -/
def handshakeFieldsLE (h : Handshake) : Bytes :=
  encVarInt h.proto ++ encString h.host ++ (beBytes 2 h.port).reverse ++ encVarInt h.next

/-- Fault 2: the string prefixed with its CHARACTER count (`len(value)` taken before
`encode`) instead of its byte count. -/
def encStringChars (s : String) : Bytes := encVarInt s.length ++ utf8 s

def handshakeFieldsChars (h : Handshake) : Bytes :=
  encVarInt h.proto ++ encStringChars h.host ++ beBytes 2 h.port ++ encVarInt h.next

end PyCraft.HsWire
