import PyCraft.Model.TypedStream
import PyCraft.Model.Ids
import PyCraft.Model.Versions
import PyCraft.Model.Scaled
import PyCraft.Model.Packets.Map
import PyCraft.Model.Packets.PlayerListItem
import PyCraft.Model.Packets.SpawnObject
import PyCraft.Model.Packets.CombatEvent
import PyCraft.Model.Packets.FacePlayer
import PyCraft.Model.Packets.PluginResponse
import PyCraft.Generated.Ids
import PyCraft.Generated.Versions
import PyCraft.Generated.C05Dispatch
/-!
# id ↔ class ↔ codec, composed (audit gap 14 of property C05)

What a packet CLASS is on the wire under one protocol version is three things the library computes
separately:

* `cls.get_id(context)`                               — `Generated/Ids.lean` (`Gen.idTables`);
* the codec: `Packet.read` / `Packet.write_fields` over `cls.get_definition(context)`
  (`packet.py:66-70, 106-112`), or the class's own `read` / `write_fields`
                                                       — `Generated/C05Dispatch.lean` (`codecs`, `…Idx`);
* for the codecs that branch on the context — the six hand-written classes and the custom types
  `Position`, `MultiBlockChangePacket.Record`, `SoundEffectPacket.Pitch` — the value of every
  `context.protocol_…` test                            — modelled HERE (`mapFlagsOf`, …: the same tests
  with the same arguments as the Python) and tied to the live code by `customProbe` and the spy tables
  of `Generated/C05Dispatch.lean`.

This file composes them: `regTable` is, for each of the 8 state/direction tables and every known
protocol version, the list of registered classes, each with its id and its codec (`RegEnt` = the class
object as far as the wire is concerned); `reactorDict` / `deliver` are `PacketReactor.__init__` and the
tail of `PacketReactor.read_packet` (`connection.py:668-670`, `:703-716`); `writeReg` is `Packet.write`
(`packet.py:97-105`) of an instance of a registered class.

Everything lives in `namespace PyCraft.Dsp`.
-/
namespace PyCraft.Dsp
open PyCraft PyCraft.Pk PyCraft.Gen

/-! ## A. the comparisons of `ConnectionContext(protocol_version = v)` (`connection.py:36-61`)

`none` = the `KeyError` of `PROTOCOL_VERSION_INDICES[...]`. -/

/-- `minecraft.PRE = 1 << 30` -/
def PRE : Nat := 1073741824

/-- `context.protocol_later_eq(thr)` -/
def cmpGe (v thr : Nat) : Option Bool := (laterEq liveTables v thr).toOption

/-- `context.protocol_earlier(thr)` -/
def cmpLt (v thr : Nat) : Option Bool := (earlier liveTables v thr).toOption

/-- `context.protocol_in_range(s, e)` -/
def cmpRange (v s e : Nat) : Option Bool := (inRange liveTables v s e).toOption

/-! ## B. version ↦ flags of the hand-written codecs

Each flag is the Python test named in the doc comment of the flag structures of `Model/Packets/*.lean`,
with the same argument. -/

/-- `map_packet.py:76-88,141-149`: `protocol_later_eq(107)`, `(452)`, `(PRE | 6)`, `(373)`, `(364)` -/
def mapFlagsOf (v : Nat) : Option MapFlags := do
  let v107 ← cmpGe v 107
  let v452 ← cmpGe v 452
  let pre6 ← cmpGe v (PRE + 6)
  let v373 ← cmpGe v 373
  let v364 ← cmpGe v 364
  pure ⟨v107, v452, pre6, v373, v364⟩

/-- `spawn_object_packet.py:102-121`: `protocol_later_eq(49)`, `(458)`, `(100)` -/
def spawnFlagsOf (v : Nat) : Option SpawnFlags := do
  let v49 ← cmpGe v 49
  let v458 ← cmpGe v 458
  let v100 ← cmpGe v 100
  pure ⟨v49, v458, v100⟩

/-- `face_player_packet.py:31,53`: `protocol_later_eq(353)` -/
def faceFlagsOf (v : Nat) : Option FaceFlags := do
  let v353 ← cmpGe v 353
  pure ⟨v353⟩

/-- `combat_event_packet.py:105,112`: `self.context and self.context.protocol_later_eq(PRE | 15)`
(the context of a packet read or written through a connection is always set) -/
def combatFlagsOf (v : Nat) : Option CombatFlags := do
  let pre15 ← cmpGe v (PRE + 15)
  pure ⟨pre15⟩

/-! ## C. the codec of a class: a field list, or one of the six hand-written pairs -/

/-- which `read` / `write_fields` pair a class has -/
inductive Codec
  /-- `Packet.read` / `Packet.write_fields` over the definition `L` -/
  | fields (L : Layout)
  | map (f : MapFlags)
  | pli
  | spawn (f : SpawnFlags)
  | combat (f : CombatFlags)
  | face (f : FaceFlags)
  | plug
deriving DecidableEq, Repr

/-- the field values of a packet instance, in the representation of its codec's model -/
inductive PVal
  | fields (vals : List Value)
  | map (p : MapPkt)
  | pli (p : PliPkt)
  | spawn (p : SpawnPkt)
  | combat (ev : CombatEvent)
  | face (p : FacePkt)
  | plug (p : PluginRespPkt)

/-- `packet.write_fields(packet_buffer)`.  A value of another class's shape has no Python counterpart
(an instance always has the attributes of its own class); it is `.error .type`, and excluded by `WF`. -/
def Codec.write : Codec → PVal → Except Err Bytes
  | .fields L, .fields vals => encodeFields realCustom L vals
  | .map f, .map p => writeMap f p
  | .pli, .pli p => writePli p
  | .spawn f, .spawn p => writeSpawn f p
  | .combat f, .combat ev => writeCombat f ev
  | .face f, .face p => writeFace f p
  | .plug, .plug p => writePluginResp p
  | _, _ => .error .type

/-- `packet.read(packet_data)`: the field values and the UNREAD rest of the payload -/
def Codec.read : Codec → Bytes → Except Err (PVal × Bytes)
  | .fields L, bs => (decodeFields realCustom L bs).map fun r => (.fields r.1, r.2)
  | .map f, bs => (readMap f bs).map fun r => (.map r.1, r.2)
  | .pli, bs => (readPli bs).map fun r => (.pli r.1, r.2)
  | .spawn f, bs => (readSpawn f bs).map fun r => (.spawn r.1, r.2)
  | .combat f, bs => (readCombat f bs).map fun r => (.combat r.1, r.2)
  | .face f, bs => (readFace f bs).map fun r => (.face r.1, r.2)
  | .plug, bs => (readPluginResp bs).map fun r => (.plug r.1, r.2)

/-- wire-representable field values: the guards of `C05.layout_rt_real` and of the `C05Hand` theorems -/
def Codec.WF : Codec → PVal → Prop
  | .fields L, .fields vals => L.ok = true ∧ WellTypedFields realDom L vals
  | .map f, .map p => MapWF f p
  | .pli, .pli p => PliWF p
  | .spawn f, .spawn p => SpawnWF f p
  | .combat f, .combat ev => CombatWF f ev
  | .face f, .face p => FaceWF f p
  | .plug, .plug p => PluginRespWF p
  | _, _ => False

/-- what the reader returns for what the writer was given (`normalise` of `Model/Packets/*.lean`:
attributes that are not on the wire; identity for field lists, player-list and combat packets) -/
def Codec.norm : Codec → PVal → PVal
  | .map f, .map p => .map (p.normalise f)
  | .spawn f, .spawn p => .spawn (p.normalise f)
  | .face f, .face p => .face (p.normalise f)
  | .plug, .plug p => .plug p.normalise
  | _, v => v

/-- the written body can be followed by other data and is still read back exactly -/
def Codec.selfDelimiting : Codec → PVal → Bool
  | .fields L, _ => L.allSD
  | .plug, .plug p => !p.effSuccessful
  | .plug, _ => false
  | _, _ => true

/-- some field is (an array of) NBT: the one wire type outside this model (`Model/Custom.lean`) -/
def wtHasNbt : WType → Bool
  | .custom .nbt => true
  | .array _ t => wtHasNbt t
  | _ => false

def Codec.hasNbt : Codec → Bool
  | .fields L => L.any fun f => wtHasNbt f.2
  | _ => false

/-! ## D. the custom types whose format depends on the context -/

/-- the formats of `Position` (x,z,y if `pos`), `MultiBlockChangePacket.Record` (VarLong if `recNew`) and
`SoundEffectPacket.Pitch` (`Float` if `pitchF32`; `× 63.5` if `pitchScaled`) -/
structure CustomFlags where
  pos : Bool
  recNew : Bool
  pitchF32 : Bool
  pitchScaled : Bool
deriving DecidableEq, Repr

def bit? : Nat → Option Bool
  | 0 => some false
  | 1 => some true
  | _ => none

/-- a row of `customProbe`: the format written by the live `send_with_context` and the one accepted by
the live `read_with_context` must be the same known format, for each of the three types -/
def customFlagsOfRow : List Nat → Option CustomFlags
  | [ps, pr, rs, rr, fs, fr, ss, sr] =>
    if ps = pr ∧ rs = rr ∧ fs = fr ∧ ss = sr then do
      let a ← bit? ps
      let b ← bit? rs
      let c ← bit? fs
      let d ← bit? ss
      pure ⟨a, b, c, d⟩
    else none
  | _ => none

/-- the formats in force under version `v`, as probed from the live code -/
def customFlagsAt (v : Nat) : Option CustomFlags := (C05D.customProbe.lookup v).bind customFlagsOfRow

/-- fill the context-dependent flags into a type -/
def instT (fl : CustomFlags) : WType → WType
  | .custom (.position _) => .custom (.position fl.pos)
  | .custom (.record _) => .custom (.record fl.recNew)
  | .custom (.pitch _ _) => .custom (.pitch fl.pitchF32 fl.pitchScaled)
  | .array l t => .array l (instT fl t)
  | t => t

def instLayout (fl : CustomFlags) (L : Layout) : Layout := L.map fun f => (f.1, instT fl f.2)

/-- the type mentions `Position`, `Record` or `Pitch` -/
def wtNeedsFlags : WType → Bool
  | .custom (.position _) => true
  | .custom (.record _) => true
  | .custom (.pitch _ _) => true
  | .array _ t => wtNeedsFlags t
  | _ => false

def needsFlags (L : Layout) : Bool := L.any fun f => wtNeedsFlags f.2

/-- the definition `L` (as tabulated, placeholder flags) resolved for version `v` -/
def layoutAt (v : Nat) (L : Layout) : Option Layout :=
  if needsFlags L then (customFlagsAt v).map fun fl => instLayout fl L else some L

/-! ## E. the registered classes -/

/-- the class's own `read` / `write_fields`, for the class NAMED `cls` under version `v` -/
def handCodec (cls : String) (v : Nat) : Option Codec :=
  if cls = "MapPacket" then (mapFlagsOf v).map .map
  else if cls = "PlayerListItemPacket" then some .pli
  else if cls = "SpawnObjectPacket" then (spawnFlagsOf v).map .spawn
  else if cls = "CombatEventPacket" then (combatFlagsOf v).map .combat
  else if cls = "FacePlayerPacket" then (faceFlagsOf v).map .face
  else if cls = "PluginResponsePacket" then some .plug
  else none

def handNames : List String :=
  ["MapPacket", "PlayerListItemPacket", "SpawnObjectPacket", "CombatEventPacket", "FacePlayerPacket",
   "PluginResponsePacket"]

/-- the codec with index `k` of `Gen.C05D.codecs`, for class `cls` under version `v`
(`none` = no model: an index out of range, an unknown hand-written class, a version unknown to the
probes) -/
def codecOfIdx (cls : String) (v : Nat) (k : Nat) : Option Codec :=
  match C05D.codecs[k]? with
  | some none => handCodec cls v
  | some (some L) => (layoutAt v L).map .fields
  | none => none

/-- a registered class under one version, as far as the wire is concerned: name, `get_id(context)`
(`none`: it raised or did not return an int) and codec -/
structure RegEnt where
  cls : String
  id : Option Int
  codec : Option Codec
deriving DecidableEq, Repr

/-- `get_packets(context)` for one version -/
structure RegRow where
  v : Nat
  supported : Bool
  ents : List RegEnt
deriving Repr

def mkEnt (v : Nat) (e : String × Option Int) (k : Nat) : RegEnt := ⟨e.1, e.2, codecOfIdx e.1 v k⟩

def mkRow (tab : C05D.IdxTable) (r : IdRow) (x : Nat × Nat) : RegRow :=
  ⟨r.1, r.2.1, List.zipWith (mkEnt r.1) r.2.2 (((tab.shapes[x.2]?).getD []).map (·.2))⟩

def mkTable (t : String × List IdRow) (x : String × C05D.IdxTable) : String × List RegRow :=
  (t.1, List.zipWith (mkRow x.2) t.2 x.2.rows)

/-- the 8 state/direction tables × every known protocol version: the id table and the codec-index
table of the generators, zipped (they list the classes of a row in the same order: the class names of
both are compared by `Dsp.alignOK`, `Lemmas/C05DispatchReg.lean`) -/
def regTable : List (String × List RegRow) := List.zipWith mkTable idTables C05D.codecIdx

/-- the id-table view of a row -/
def RegRow.idRow (r : RegRow) : IdRow := (r.v, r.supported, r.ents.map fun e => (e.cls, e.id))

def regRow (t : String) (v : Nat) : Option RegRow := (regTable.lookup t).bind (·.find? (·.v == v))

/-- the class named `c` of table `t` under version `v` -/
def regEnt (t : String) (v : Nat) (c : String) : Option RegEnt :=
  (regRow t v).bind (·.ents.find? (·.cls == c))

/-! ## F. `PacketReactor.__init__` and the tail of `read_packet` -/

/-- `[(packet.get_id(context), packet) for packet in order]`: a `get_id` that raises aborts the
comprehension -/
def keyed : List RegEnt → Except Err (List (Int × RegEnt))
  | [] => .ok []
  | e :: es =>
    match e.id with
    | none => .error .other
    | some i => (keyed es).map ((i, e) :: ·)

/-- a dict built by inserting the pairs in order: a later entry replaces an earlier one with the same
key (as `buildDict` of `Model/Ids.lean`, for any value type) -/
def buildDictG {α : Type} (ents : List (Int × α)) : List (Int × α) :=
  ents.foldl (fun d e => e :: d.filter (fun kv => kv.1 ≠ e.1)) []

def dictGetG {α : Type} (d : List (Int × α)) (i : Int) : Option α := (d.find? (·.1 == i)).map (·.2)

/-- `self.clientbound_packets = {packet.get_id(context): packet for packet in get_packets(context)}`
(`connection.py:668-670`); `order` is the iteration order of the set -/
def reactorDict (order : List RegEnt) : Except Err (List (Int × RegEnt)) := (keyed order).map buildDictG

/-- what `read_packet` returns for a delivered `(packet_id, payload)` -/
inductive Delivered
  /-- an instance of the class found under the id, after `packet.read(packet_data)`: the field values
  and the unread rest, or the exception -/
  | known (ent : RegEnt) (res : Except Err (PVal × Bytes))
  /-- a bare `Packet` with `id = packet_id` -/
  | unknown (id : Nat)

/-- `connection.py:703-716`: `if packet_id in self.clientbound_packets: packet =
self.clientbound_packets[packet_id](); packet.read(packet_data) else: packet = Packet(); packet.id =
packet_id` -/
def deliver (dict : List (Int × RegEnt)) (raw : Nat × Bytes) : Delivered :=
  match dictGetG dict (raw.1 : Int) with
  | some e =>
    .known e (match e.codec with
      | some k => k.read raw.2
      | none => .error .other)
  | none => .unknown raw.1

/-- `read_packet` in a loop on a plain stream, until the exception that ends it -/
def readReg (z : ZlibOps) (compressed : Bool) (dict : List (Int × RegEnt)) (segs : Segs) :
    List Delivered × Err :=
  let r := readAll z compressed segs
  (r.1.map (deliver dict), r.2)

/-- … on an encrypted stream -/
def readRegEnc {σ : Type} (dec : StreamXform σ) (s0 : σ) (z : ZlibOps) (compressed : Bool)
    (dict : List (Int × RegEnt)) (segs : Segs) : List Delivered × Err :=
  let r := readAllEnc dec s0 z compressed segs
  (r.1.map (deliver dict), r.2)

/-! ## G. `Packet.write` of an instance of a registered class -/

/-- an instance of a registered class with its field values -/
structure RPacket where
  ent : RegEnt
  val : PVal

/-- `packet.py:97-105`: `VarInt.send(self.id, packet_buffer)` with `self.id = self.get_id(self.context)`
(`packet.py:22-24`); `self.write_fields(packet_buffer)`; `self._write_buffer(...)`.  Nothing reaches the
socket when an earlier step raises. -/
def writeReg (z : ZlibOps) (thr : Option Int) (p : RPacket) : Except Err Bytes :=
  match p.ent.id with
  | none => .error .other                      -- `get_id` raised
  | some i =>
    if i < 0 then .error .value                -- `VarInt.send`: "Cannot encode a negative number"
    else
      match p.ent.codec with
      | none => .error .other                  -- no model
      | some k => do
        let fields ← k.write p.val
        pure (packetFrame z thr (i.toNat, fields))

def writeRegAll (z : ZlibOps) (thr : Option Int) : List RPacket → Except Err Bytes
  | [] => .ok []
  | p :: ps => do
    let a ← writeReg z thr p
    let b ← writeRegAll z thr ps
    pure (a ++ b)

/-- the explicit guard of the registered round trip: the class has an id ≥ 0 and a codec, the values
are wire-representable for it, and the frame passes C01's VarInt guard -/
def RegOK (z : ZlibOps) (thr : Option Int) (p : RPacket) : Prop :=
  match p.ent.id, p.ent.codec with
  | some i, some k =>
    0 ≤ i ∧ k.WF p.val ∧
      match k.write p.val with
      | .ok fields => FrameOK z thr (i.toNat, fields)
      | .error _ => False
  | _, _ => False

/-- what the reader should deliver for `p` -/
def RPacket.expected (p : RPacket) : Delivered :=
  .known p.ent (match p.ent.codec with
    | some k => .ok (k.norm p.val, [])
    | none => .error .other)

/-! ## H. what the recording context must have seen

The comparisons performed by `write_fields` / `read` of each hand-written class on a sample packet that
exercises every branch, as a function of the flags: `(kind, argument, second argument, result)` with
kind 0 = `protocol_earlier`, 3 = `protocol_later_eq`, 4 = `protocol_in_range`; sorted. -/

/-- `map_packet.py:139-171` -/
def mapSendLog (f : MapFlags) : C05D.SpyLog :=
  [(3, 364, 0, f.v364), (3, 373, 0, f.v373), (3, 452, 0, f.v452), (3, PRE + 6, 0, f.pre6),
   (4, 107, PRE + 6, f.v107 && !f.pre6)]

/-- `map_packet.py:72-116`: the `elif protocol_earlier(107)` is only evaluated when the
`protocol_in_range` before it is false -/
def mapReadLog (f : MapFlags) : C05D.SpyLog :=
  (if f.v107 && !f.pre6 then [] else [(0, 107, 0, !f.v107)]) ++ mapSendLog f

def spawnLog (f : SpawnFlags) : C05D.SpyLog :=
  [(3, 49, 0, f.v49), (3, 100, 0, f.v100), (3, 458, 0, f.v458)]

def faceLog (f : FaceFlags) : C05D.SpyLog := [(3, 353, 0, f.v353)]

def combatLog (f : CombatFlags) : C05D.SpyLog := [(3, PRE + 15, 0, f.pre15)]

/-- the formats `Position` / `Record` / `Pitch` must use under `v`: `basic.py:322,345`
(`protocol_later_eq(443)`), `block_change_packet.py:116,132` (`(741)`), `sound_effect_packet.py:77,81,
86,88` (`protocol_later_eq(201)`, `protocol_earlier(204)`) -/
def customFlagsOf (v : Nat) : Option CustomFlags := do
  let a ← cmpGe v 443
  let b ← cmpGe v 741
  let c ← cmpGe v 201
  let d ← cmpLt v 204
  pure ⟨a, b, c, d⟩

/-! ## I. value-level scaling of `SoundEffectPacket.EffectPosition` and `Pitch`
(`sound_effect_packet.py:62-90`), in the exact arithmetic of `Model/Scaled.lean`: a Python float is the
rational `p / q`, `q > 0`; float rounding is not modelled. -/

/-- `EffectPosition.send`: `Integer.send(int(coordinate * 8))` for `coordinate = p / q` -/
def effPosWire (p q : Int) : Int := Int.tdiv (p * 8) q

/-- `EffectPosition.read`: `Integer.read(file_object) / 8.0` as a fraction -/
def effPosOfWire (w : Int) : Int × Int := (w, 8)

/-- `Pitch.send_with_context` before protocol 201: `value *= 63.5` (only `if protocol_earlier(204)`),
then `Byte.send(int(value))`, for `value = p / q`; `63.5 = 127 / 2` -/
def pitchByteWire (scaled : Bool) (p q : Int) : Int :=
  if scaled then Int.tdiv (p * 127) (q * 2) else Int.tdiv p q

/-- `Pitch.read_with_context` before protocol 201: `value = Byte.read(); value /= 63.5` (only `if
protocol_earlier(204)`), as a fraction -/
def pitchOfByte (scaled : Bool) (b : Int) : Int × Int := if scaled then (b * 2, 127) else (b, 1)

end PyCraft.Dsp
