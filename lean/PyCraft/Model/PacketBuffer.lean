import PyCraft.Basic
/-!
Model of `minecraft/networking/packets/packet_buffer.py` (`PacketBuffer` over `io.BytesIO`): the
scratch buffer `Packet.write` assembles a frame in and `PacketReactor.read_packet` reads a frame back
from.  `BytesIO` has ONE cursor shared by `write` and `read`; `write` stores at the cursor
(overwriting what is there) and `getvalue` ignores the cursor.
-/
namespace PyCraft.PBuf

/-- `self.bytes`: contents and cursor of the `BytesIO`. -/
structure St where
  buf : Bytes
  pos : Nat
deriving Repr, DecidableEq

/-- The public operations of `PacketBuffer` (`recv` is `read`). -/
inductive Op
  | send (v : Bytes)          -- `send(value)`  = `self.bytes.write(value)`
  | read (n : Option Nat)     -- `read(length)` = `self.bytes.read(length)`; `none` = `None`
  | reset                     -- `reset()`      = a fresh `BytesIO`
  | rewind                    -- `reset_cursor()` = `seek(0)`
  | getw                      -- `get_writable()` = `getvalue()`
deriving Repr, DecidableEq

/-- `PacketBuffer()`. -/
def init : St := ⟨[], 0⟩

/-- One operation: new state and what the call returns (`none` for the procedures). -/
def step (s : St) : Op → St × Option Bytes
  | .send v => (⟨s.buf.take s.pos ++ v ++ s.buf.drop (s.pos + v.length), s.pos + v.length⟩, none)
  | .read none => let out := s.buf.drop s.pos; (⟨s.buf, s.pos + out.length⟩, some out)
  | .read (some n) => let out := (s.buf.drop s.pos).take n; (⟨s.buf, s.pos + out.length⟩, some out)
  | .reset => (init, none)
  | .rewind => (⟨s.buf, 0⟩, none)
  | .getw => (s, some s.buf)

/-- A sequence of operations: final state and the returned byte strings, in call order. -/
def run (s : St) : List Op → St × List Bytes
  | [] => (s, [])
  | op :: ops =>
    let r := step s op
    let rr := run r.1 ops
    (rr.1, match r.2 with | some b => b :: rr.2 | none => rr.2)

/-- Reference: cut a byte string into consecutive pieces of the requested sizes (short at the end). -/
def chunks : Bytes → List Nat → List Bytes
  | _, [] => []
  | bs, n :: ns => bs.take n :: chunks (bs.drop n) ns

end PyCraft.PBuf
