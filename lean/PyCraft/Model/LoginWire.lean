import PyCraft.Model.Login
import PyCraft.Model.Frame
import PyCraft.Model.Cfb8
/-!
Byte-level refinement of the login model (`Model/Login.lean`): what the frames recorded in
`ClientState.outbox` look like ON THE WIRE, and a reference server that reads them back.

Client side (mirrors the Python literally):
* `fieldsOf` — `EncryptionResponsePacket.definition` (two `VarIntPrefixedByteArray`s:
  `shared_secret`, `verify_token`) and `PluginResponsePacket.write_fields` (`VarInt message_id`,
  `Boolean successful`, and — only when `successful` — `TrailingByteArray data`);
  `payloadOf` = `Packet.write`'s buffer: `VarInt(id)` then the fields.  The packet ids are the
  parameter `Ids` (the protocol snapshots shift them: 1/–, 2/0, 1/2).
* `sendsOfSent` — the two `socket.send` calls of `Packet._write_buffer` for one outbox entry, framed
  with the threshold recorded in the entry (the mode in force when `_write_packet` ran).
* `wireGo`/`wireChunks`/`wireBytes` — what the INNER (real) socket is handed: a frame whose entry
  has `encrypted = false` was written before `connection.socket` was replaced, so its two chunks
  go out as they are; a frame with `encrypted = true` goes through
  `EncryptedSocketWrapper.send` = `encryptor.update` chunk by chunk, on ONE encryptor context whose
  register starts as the shared secret (`create_AES_cipher(secret)`: key = IV = secret) and is
  carried from frame to frame.  `E` is the block function with the key applied (`aes128 secret` in
  pyCraft); the theorems hold for every `E`.

Server side (`serverRecover`): NOT pyCraft code — an independent reference peer built from C01's
reader (`readPacketK`, the model of `read_packet`) over arrival segments.  It reads plaintext
frames; when the frame it has just read is the encryption response it parses the two byte arrays
(`decodeEncResp`, the mirror of `VarIntPrefixedByteArray.read` twice), RSA-decrypts the first with
its private key to obtain the key, and wraps the remaining UNREAD segments with a CFB8 decryptor
(block function `EK key`, register = `key`) — exactly there, not a byte earlier or later.  The
compression flag used for frame `i` is `modes[i]` (what the server itself had announced when the
client wrote that frame; the theorems take it from the outbox: `modesOf`).

Faithfulness note.  `Login.ClientState.encrypted` is one Bool and `LoginParams.secret` one value:
a script with SEVERAL reached encryption requests (no real server sends that) makes the Python
nest a second `EncryptedSocketWrapper` (with a fresh secret) around the first; the login model —
and therefore `wireBytes` — keeps a single cipher.  For runs with at most one reached encryption
request `wireBytes` is exactly what the real socket is handed.
-/
namespace PyCraft.LoginWire
open PyCraft PyCraft.Login

/-- Packet ids of the two serverbound login packets the reactor writes
(`EncryptionResponsePacket.get_id`, `PluginResponsePacket.get_id`). -/
structure Ids where
  encResp : Nat
  plugResp : Nat
deriving Repr, DecidableEq

def pktId (ids : Ids) : ClientPkt → Nat
  | .encResp .. => ids.encResp
  | .plugResp .. => ids.plugResp

/-- `VarIntPrefixedByteArray.send`. -/
def prefixedArray (b : Bytes) : Bytes := encVarInt b.length ++ b

/-- `write_fields`.  `plugResp i true none` is the one shape on which Python raises
(`TrailingByteArray.send(None)` → `TypeError`); the reactor never builds it
(`C10Wire.outbox_packets_writable`), here it gets the bytes written before the raise. -/
def fieldsOf : ClientPkt → Bytes
  | .encResp sharedSecret verifyToken => prefixedArray sharedSecret ++ prefixedArray verifyToken
  | .plugResp msgId successful data =>
    encVarInt msgId ++ [if successful then 1 else 0] ++
      (if successful then data.getD [] else [])

/-- The shapes `write_fields` accepts. -/
def writable : ClientPkt → Bool
  | .plugResp _ true none => false
  | _ => true

def isEncResp : ClientPkt → Bool
  | .encResp .. => true
  | _ => false

/-- `Packet.write`'s buffer before `_write_buffer`: `VarInt(id)` then the fields. -/
def payloadOf (ids : Ids) (p : ClientPkt) : Bytes := packetPayload (pktId ids p) (fieldsOf p)

/-- What an ideal receiver should deliver for an outbox entry: (packet id, field bytes). -/
def wirePkt (ids : Ids) (s : Sent) : Nat × Bytes := (pktId ids s.pkt, fieldsOf s.pkt)

/-- The two `send` calls of `_write_buffer` for one outbox entry. -/
def sendsOfSent (z : ZlibOps) (ids : Ids) (s : Sent) : List Bytes :=
  frameSends z s.threshold (payloadOf ids s.pkt)

/-- The frame of one outbox entry (plaintext view). -/
def frameOfSent (z : ZlibOps) (ids : Ids) (s : Sent) : Bytes :=
  frame z s.threshold (payloadOf ids s.pkt)

/-- The chunks handed to the real socket, `reg` being the encryptor's register: entries written
before the wrapper was installed bypass it, the others go through `encryptor.update` call by call
and move the register on. -/
def wireGo (z : ZlibOps) (E : Bytes → Bytes) (ids : Ids) : Bytes → List Sent → List Bytes
  | _, [] => []
  | reg, s :: rest =>
    if s.encrypted then
      let r := encSends (cfb8EncX E) reg (sendsOfSent z ids s)
      r.2 ++ wireGo z E ids r.1 rest
    else
      sendsOfSent z ids s ++ wireGo z E ids reg rest

/-- … from the register `create_AES_cipher(secret)` sets up (IV = secret). -/
def wireChunks (z : ZlibOps) (E : Bytes → Bytes) (secret : Bytes) (ids : Ids)
    (outbox : List Sent) : List Bytes :=
  wireGo z E ids secret outbox

/-- The client → server byte stream of the login phase (after the handshake/login-start frames,
which are not part of the login model's outbox). -/
def wireBytes (z : ZlibOps) (E : Bytes → Bytes) (secret : Bytes) (ids : Ids)
    (outbox : List Sent) : Bytes :=
  (wireChunks z E secret ids outbox).flatten

/-- Cut the outbox behind the FIRST encryption response (everything, if there is none). -/
def splitAtEncResp : List Sent → List Sent × List Sent
  | [] => ([], [])
  | s :: rest =>
    if isEncResp s.pkt then ([s], rest)
    else ((s :: (splitAtEncResp rest).1), (splitAtEncResp rest).2)

/-- Compression flag per frame: was a threshold in force when the frame was written. -/
def modesOf (outbox : List Sent) : List Bool := outbox.map (·.threshold.isSome)

/-- A seeded client fault for the negative witness: the cipher installed one frame too early, i.e.
the encryption response itself already written through the wrapper. -/
def earlySwitch (outbox : List Sent) : List Sent :=
  outbox.map fun s => if isEncResp s.pkt then { s with encrypted := true } else s

/-- The opposite fault: the frame right after the encryption response still written in plaintext
(the cipher installed one frame too late). -/
def lateSwitch : List Sent → List Sent
  | [] => []
  | s :: rest =>
    if isEncResp s.pkt then
      match rest with
      | [] => [s]
      | t :: rest' => s :: { t with encrypted := false } :: rest'
    else s :: lateSwitch rest

/-! ### the reference server -/

/-- `VarIntPrefixedByteArray.read`: `VarInt.read`, then `struct.unpack(str(n)+"s", read(n))`
(`struct.error` when fewer than `n` bytes are left). -/
def readPrefixedArray (bs : Bytes) : Except Err (Bytes × Bytes) :=
  match decVarInt 5 bs with
  | .error e => .error e
  | .ok (n, rest) =>
    if n ≤ rest.length then .ok (rest.take n, rest.drop n) else .error .struct

/-- The fields of an encryption response: (encrypted shared secret, encrypted verify token). -/
def decodeEncResp (fields : Bytes) : Except Err (Bytes × Bytes) :=
  match readPrefixedArray fields with
  | .error e => .error e
  | .ok (a, r1) =>
    match readPrefixedArray r1 with
    | .error e => .error e
    | .ok (b, _) => .ok (a, b)

/-- What the server got out of the stream. -/
structure Recovered where
  packets : List (Nat × Bytes)   -- (id, field bytes) of every frame delivered, in order
  key : Option Bytes             -- the cipher key it derived (`none`: never switched)
  err : Option Err               -- the exception that stopped it, if any
  rest : Bytes                   -- bytes that arrived but were not consumed
deriving Repr, DecidableEq

def Recovered.cons (p : Nat × Bytes) (r : Recovered) : Recovered :=
  { r with packets := p :: r.packets }

/-- Encrypted phase: one `read_packet` per expected frame through the CFB8 decryptor keyed `key`. -/
def recvEnc (z : ZlibOps) (EK : Bytes → Bytes → Bytes) (key : Bytes) :
    List Bool → Sock Bytes → Recovered
  | [], k => ⟨[], some key, none, k.segs.flatten⟩
  | c :: cs, k =>
    match readPacketK (cfb8DecX (EK key)) z c k with
    | (.error e, k') => ⟨[], some key, some e, k'.segs.flatten⟩
    | (.ok p, k') => (recvEnc z EK key cs k').cons p

/-- Plaintext phase; switches to `recvEnc` right behind the encryption response, on the segments
not yet read, with key = `rsaDec` of the first byte array and register = key. -/
def recvPlain (z : ZlibOps) (EK : Bytes → Bytes → Bytes) (rsaDec : Bytes → Bytes)
    (encRespId : Nat) : List Bool → Sock Unit → Recovered
  | [], k => ⟨[], none, none, k.segs.flatten⟩
  | c :: cs, k =>
    match readPacketK idXform z c k with
    | (.error e, k') => ⟨[], none, some e, k'.segs.flatten⟩
    | (.ok p, k') =>
      if p.1 = encRespId then
        match decodeEncResp p.2 with
        | .error e => ⟨[p], none, some e, k'.segs.flatten⟩
        | .ok (a, _) =>
          (recvEnc z EK (rsaDec a) cs (Sock.enc (rsaDec a) k'.segs)).cons p
      else (recvPlain z EK rsaDec encRespId cs k').cons p

/-- The reference server on the arrival segments `segs`, expecting `modes.length` frames.
`EK key` is the block cipher under `key`, `rsaDec` decryption with the server's private key. -/
def serverRecover (z : ZlibOps) (EK : Bytes → Bytes → Bytes) (rsaDec : Bytes → Bytes)
    (encRespId : Nat) (modes : List Bool) (segs : Segs) : Recovered :=
  recvPlain z EK rsaDec encRespId modes (Sock.plain segs)

end PyCraft.LoginWire
