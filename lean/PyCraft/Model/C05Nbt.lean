import PyCraft.Model.Custom
/-!
# The `NBT` field type (`types/basic.py:349-359`) and the custom codec with NBT plugged in

`Model/Custom.lean` leaves `NBT` out (`realEnc .nbt _ = .error .other`, `realDom .nbt _ = False`),
which makes every C05 theorem vacuous for the layouts with an NBT field (JoinGamePacket from protocol
718, RespawnPacket from 748).  This file closes that hole in two layers.

## A. the codec of the `NBT` type as a parameter

`NbtCodec` (`enc` = `NBT.send`, `dec` = `NBT.read`, both on `Value`s) with the law `NbtLaw` the C02/C05
proofs need (round trip with any continuation, non-empty encoding, every strict prefix is rejected),
`realCustomWith n` = `realCustom` with `n` in the `.nbt` slot, `realDomWith d` = `realDom` with `d` as
the domain of `.nbt`.  Everything else is untouched: `realCustomWith n c = realCustom c` for `c ≠ .nbt`.

## B. a literal model of what `NBT.send` / `NBT.read` do: `pynbt` 3.2.0

```
class NBT(Type):
    @staticmethod
    def read(file_object):                                   # basic.py:350-352
        return pynbt.NBTFile(io=file_object)
    @staticmethod
    def send(value, socket):                                 # basic.py:354-358
        buffer = io.BytesIO()
        pynbt.NBTFile(value=value).save(buffer)
        socket.send(buffer.getvalue())
```

`pynbt` (`/venv/lib/python3.12/site-packages/pynbt.py`, 365 lines) is mirrored branch by branch:
`BaseTag.write` (l.123-165) is `savePayload` / `saveItems` / `saveEntries` / `saveFile`,
`BaseTag.read` (l.45-121) is `readBody` / `readPayload` / `readNamed` / `entriesLoop`,
`NBTFile.__init__` (l.303-337) is `loadFile`, `_read_utf8` / `_write_utf8` (l.31-43) are
`readUtf8` / `writeUtf8`.  The one library below `pynbt` — `mutf8` (a C extension) — is a parameter
(`Mutf8`: two functions; the law `Mutf8Law` is a hypothesis of the theorems, never an axiom);
`Mutf8.utf8` (strict UTF-8) is an executable instance that agrees with `mutf8` on every string whose
characters are in U+0001…U+FFFF.

### what a `Tag` stands for

A pynbt object in NORMAL FORM, without its `name` attribute: the name of a child of a compound is its
key (that is what `TAG_Compound.__setitem__` / `update` establish for unnamed tags and what `read`
produces), the name of a list item is `None` (what `read(..., has_name=False)` produces), list items
are instances of the list's `type_`.  Objects outside the normal form are not representable.  A
`compound` whose keys are not pairwise distinct stands for no `dict` and is `.error .type`, like a
list item of the wrong class (there Python coerces `type_(item)` and usually — not always — raises;
the model always refuses: outside the round-trip domain either way).
Floats are their IEEE bit patterns, as everywhere in `Model/Wire.lean`.

The value of an NBT FIELD is the root: `Value.list [.str name, .list entries]` (`rootValue`); a
plain `dict` is a root with name `""`.  `NBT.send` ignores the name (`NBTFile(value=value)` has
`name=''`); `NBT.read` returns the name found on the wire.

### failure points kept
`struct.error` (short read, out-of-range value, string longer than 32767 bytes, negative array
length → `.struct`), `IOError('NBTFile does not begin with 0x0A.')` and `IndexError` of `_tags[tag]`
(→ `.other`; NEGATIVE tag bytes −13…−1 index the tuple from the end, mirrored by `tagClass`), the
decoder of `mutf8` (→ whatever `Mutf8.dec` returns).  NOT detected, exactly as in Python: a short
`read.src.read(n)` for a byte array or a string (`takeLenient`; a negative `n` reads everything);
duplicate keys (the later value wins, `dictSet`); `TAG_End` as the item type of a non-empty list
(two bytes per item are consumed, `Tag.end_`; on writing such an item produces no bytes).

### recursion depth
`BaseTag.read` / `write` recurse once per nesting level; CPython raises `RecursionError` at about
1000 frames (measured on the bare thread: depth 980 works, 990 fails).  The reader carries a fuel
`maxDepth = 512` (`.error .other` on exhaustion stands for `RecursionError`); the round-trip domain
asks for nesting ≤ 512, well inside what CPython handles.  The writer is structurally recursive (no
fuel): beyond the domain it succeeds where CPython would raise.  The `while True` loop over the
children of a compound carries its own fuel (input length + 1: every iteration consumes a byte).
-/
namespace PyCraft

/-! ## A. the `NBT` codec as a parameter -/

/-- the codec of the `NBT` field type: `enc` = `NBT.send`, `dec` = `NBT.read` (basic.py:349-359) -/
structure NbtCodec where
  enc : Value → Except Err Bytes
  dec : Bytes → Except Err (Value × Bytes)

/-- what the C02 / C05 proofs need of an NBT codec on its domain `dom` — the `.nbt` instance of
`CustomLaw`: an in-domain value is written, the bytes are not empty and are read back exactly
whatever follows; no strict prefix of them is accepted. -/
structure NbtLaw (n : NbtCodec) (dom : Value → Prop) : Prop where
  rt : ∀ v rest, dom v →
    ∃ bs, n.enc v = .ok bs ∧ bs ≠ [] ∧ n.dec (bs ++ rest) = .ok (v, rest)
  prefixErr : ∀ v bs, dom v → n.enc v = .ok bs →
    ∀ p, p <+: bs → p ≠ bs → ∃ e, n.dec p = .error e

/-- `realCustom` with an NBT codec in the `.nbt` slot -/
def realCustomWith (n : NbtCodec) : CustomCodec where
  enc := fun c v => match c with
    | .nbt => n.enc v
    | c => realEnc c v
  dec := fun c bs => match c with
    | .nbt => n.dec bs
    | c => realDec c bs

/-- `realDom` with `nd` as the domain of `.nbt` -/
def realDomWith (nd : Value → Prop) : CustomT → Value → Prop
  | .nbt, v => nd v
  | c, v => realDom c v

/-! ## B. pynbt -/

namespace Nbt

/-- `mutf8.encode_modified_utf8` / `mutf8.decode_modified_utf8` -/
structure Mutf8 where
  enc : String → Bytes
  dec : Bytes → Except Err String

/-- the two facts about `mutf8` the proofs use: decoding undoes encoding, and the empty string
(the root name `NBT.send` writes) encodes to no bytes -/
structure Mutf8Law (m : Mutf8) : Prop where
  rt : ∀ s, m.dec (m.enc s) = .ok s
  empty : m.enc "" = []

/-- strict UTF-8: an executable instance (equal to `mutf8` on strings over U+0001…U+FFFF) -/
def Mutf8.utf8 : Mutf8 where
  enc := PyCraft.utf8
  dec := fun b => match utf8Decode b with
    | some s => .ok s
    | none => .error .decode

/-- a pynbt tag object in normal form, without its name (see the file header); index in `_tags`
(pynbt.py:262-276) = `tagId` -/
inductive Tag
  | end_ (v : Int)                 -- TAG_End: only ever produced by reading a list of item type 0
  | byte (v : Int) | short (v : Int) | int (v : Int) | long (v : Int)
  | float (bits : Int) | double (bits : Int)
  | byteArray (b : Bytes)
  | string (s : String)
  | list (ty : Nat) (items : List Tag)       -- `type_` = `_tags[ty]`
  | compound (entries : List (String × Tag)) -- the dict, in insertion order
  | intArray (vs : List Int)
  | longArray (vs : List Int)
deriving Repr, Inhabited

abbrev Entries := List (String × Tag)

/-- `_tags.index(self.__class__)` -/
def Tag.tagId : Tag → Nat
  | .end_ _ => 0 | .byte _ => 1 | .short _ => 2 | .int _ => 3 | .long _ => 4 | .float _ => 5
  | .double _ => 6 | .byteArray _ => 7 | .string _ => 8 | .list _ _ => 9 | .compound _ => 10
  | .intArray _ => 11 | .longArray _ => 12

/-- the keys of a dict are pairwise distinct -/
def keysOk (es : Entries) : Bool := decide (es.map (·.1)).Nodup

/-! ### writing: `BaseTag.write` (pynbt.py:123-165), `NBTFile.save` (l.339-352) -/

/-- `_write_utf8` (l.38-43): `write('h', len(encoded)); dst.write(encoded)` -/
def writeUtf8 (m : Mutf8) (s : String) : Except Err Bytes := do
  let e := m.enc s
  let h ← IntT.i16.pack e.length
  pure (h ++ e)

/-- the values of `struct.pack('>{n}i', *vs)` -/
def packAll (t : IntT) : List Int → Except Err Bytes
  | [] => .ok []
  | v :: vs => do
    let a ← t.pack v
    let b ← packAll t vs
    pure (a ++ b)

mutual
  /-- `write` of a tag whose name is `None`: the part after the `if self.name is not None` block -/
  def savePayload (m : Mutf8) : Tag → Except Err Bytes
    | .end_ _ => .ok []                                   -- no branch applies: nothing written
    | .byte v => IntT.i8.pack v                           -- write('b', self.value)
    | .short v => IntT.i16.pack v
    | .int v => IntT.i32.pack v
    | .long v => IntT.i64.pack v
    | .float b => IntT.f32.pack b
    | .double b => IntT.f64.pack b
    | .byteArray b => do                                  -- write('i', len); dst.write(bytes(value))
      let h ← IntT.i32.pack b.length
      pure (h ++ b)
    | .string s => writeUtf8 m s
    | .list ty items => do                                -- write('bi', _tags.index(type_), len)
      if 12 < ty then throw .type
      let h1 ← IntT.i8.pack ty
      let h2 ← IntT.i32.pack items.length
      let body ← saveItems m ty items
      pure (h1 ++ h2 ++ body)
    | .compound es => do                                  -- for v in values: v.write; write('b', 0)
      if !keysOk es then throw .type
      let body ← saveEntries m es
      pure (body ++ [0])
    | .intArray vs => do                                  -- write('i{n}i', n, *value)
      let h ← IntT.i32.pack vs.length
      let b ← packAll .i32 vs
      pure (h ++ b)
    | .longArray vs => do
      let h ← IntT.i32.pack vs.length
      let b ← packAll .i64 vs
      pure (h ++ b)
  /-- `for item in self.value: item.write(write)` (items of the list's class, names `None`) -/
  def saveItems (m : Mutf8) (ty : Nat) : List Tag → Except Err Bytes
    | [] => .ok []
    | t :: ts => do
      if t.tagId ≠ ty then throw .type
      let a ← savePayload m t
      let b ← saveItems m ty ts
      pure (a ++ b)
  /-- `for v in self.value.values(): v.write(write)`: each child has a name (its key), so the
  `if self.name is not None` block writes the tag id and the name first -/
  def saveEntries (m : Mutf8) : Entries → Except Err Bytes
    | [] => .ok []
    | (k, t) :: es => do
      let i ← IntT.i8.pack t.tagId
      let n ← writeUtf8 m k
      let p ← savePayload m t
      let r ← saveEntries m es
      pure (i ++ n ++ p ++ r)
end

/-- `NBTFile(name=…, value=…).save(io)`: `write('b', 0x0A)`, the name, the compound branch -/
def saveFile (m : Mutf8) (name : String) (es : Entries) : Except Err Bytes := do
  if !keysOk es then throw .type
  let n ← writeUtf8 m name
  let body ← saveEntries m es
  pure (0x0A :: n ++ body ++ [0])

/-! ### reading: `BaseTag.read` (pynbt.py:45-121), `NBTFile.__init__` (l.303-337) -/

/-- `src.read(n)` on a buffer: as many bytes as there are, at most `n`; everything for `n < 0`.
A short read is NOT an error. -/
def takeLenient (n : Int) (bs : Bytes) : Bytes × Bytes :=
  if n < 0 then (bs, []) else (bs.take n.toNat, bs.drop n.toNat)

/-- `_read_utf8` (l.31-35): `read('h', 2)` then `src.read(name_length)` then the mutf8 decoder -/
def readUtf8 (m : Mutf8) (bs : Bytes) : Except Err (String × Bytes) := do
  let (n, r) ← IntT.i16.unpack bs
  let (raw, r') := takeLenient n r
  let s ← m.dec raw
  pure (s, r')

/-- `_tags[i]` for a signed byte `i`: Python's negative indices count from the end of the 13-tuple;
anything else is `IndexError` -/
def tagClass (i : Int) : Except Err Nat :=
  if 0 ≤ i ∧ i < 13 then .ok i.toNat
  else if -13 ≤ i ∧ i < 0 then .ok (i + 13).toNat
  else .error .other

/-- `[f(read) for x in range(0, n)]` -/
def repeatRead {α : Type} (f : Bytes → Except Err (α × Bytes)) : Nat → Bytes → Except Err (List α × Bytes)
  | 0, bs => .ok ([], bs)
  | n + 1, bs => do
    let (v, r) ← f bs
    let (vs, r') ← repeatRead f n r
    pure (v :: vs, r')

def readScalar (t : IntT) (mk : Int → Tag) (bs : Bytes) : Except Err (Tag × Bytes) := do
  let (v, r) ← t.unpack bs
  pure (mk v, r)

/-- `read('{n}i', n * 4)`: a negative `n` is a bad struct format, a short buffer a size mismatch -/
def readIntArray (t : IntT) (mk : List Int → Tag) (bs : Bytes) : Except Err (Tag × Bytes) := do
  let (n, r) ← IntT.i32.unpack bs
  if n < 0 then throw .struct
  let (vs, r') ← repeatRead t.unpack n.toNat r
  pure (mk vs, r')

/-- `final[tmp.name] = tmp`: an existing key keeps its place and gets the new value -/
def dictSet : Entries → String → Tag → Entries
  | [], k, t => [(k, t)]
  | (k', t') :: rest, k, t => if k' = k then (k', t) :: rest else (k', t') :: dictSet rest k t

/-- `cls.read(read)` with `has_name=True` for `cls = _tags[c]`: the name, then the payload -/
def readNamed (m : Mutf8) (rd : Nat → Bytes → Except Err (Tag × Bytes)) (c : Nat) (bs : Bytes) :
    Except Err ((String × Tag) × Bytes) := do
  let (name, r) ← readUtf8 m bs
  let (t, r') ← rd c r
  pure ((name, t), r')

/-- the `while True` loop of the `TAG_Compound` branch (l.54-70) -/
def entriesLoop (rn : Nat → Bytes → Except Err ((String × Tag) × Bytes)) :
    Nat → Entries → Bytes → Except Err (Entries × Bytes)
  | 0, _, _ => .error .other
  | k + 1, acc, bs => do
    let (tag, r) ← IntT.i8.unpack bs                   -- tag = read('b', 1)[0]
    if tag = 0 then pure (acc, r) else do              -- TAG_End: break
      let c ← tagClass tag                             -- _tags[tag]
      let (e, r') ← rn c r                             -- tmp = _tags[tag].read(read)
      entriesLoop rn k (dictSet acc e.1 e.2) r'        -- final[tmp.name] = tmp

/-- the branches of `BaseTag.read` after the name, for `cls = _tags[ty]`; `rd` reads a nested
payload (one frame deeper) -/
def readBody (m : Mutf8) (rd : Nat → Bytes → Except Err (Tag × Bytes)) (ty : Nat) (bs : Bytes) :
    Except Err (Tag × Bytes) :=
  match ty with
  | 0 => do                                            -- cls(read('2b', 2)[0])
    let (a, r) ← IntT.i8.unpack bs
    let (_, r') ← IntT.i8.unpack r
    pure (.end_ a, r')
  | 1 => readScalar .i8 .byte bs
  | 2 => readScalar .i16 .short bs
  | 3 => readScalar .i32 .int bs
  | 4 => readScalar .i64 .long bs
  | 5 => readScalar .f32 .float bs
  | 6 => readScalar .f64 .double bs
  | 7 => do                                            -- length = read('i', 4)[0]; src.read(length)
    let (n, r) ← IntT.i32.unpack bs
    let (b, r') := takeLenient n r
    pure (.byteArray b, r')
  | 8 => do
    let (s, r) ← readUtf8 m bs
    pure (.string s, r)
  | 9 => do                                            -- tag_type, length = read('bi', 5)
    let (tt, r) ← IntT.i8.unpack bs
    let (len, r') ← IntT.i32.unpack r
    let c ← tagClass tt                                -- tag_read = _tags[tag_type].read
    let (items, r'') ← repeatRead (rd c) len.toNat r'  -- range(0, length): empty when negative
    pure (.list c items, r'')
  | 10 => do
    let (es, r) ← entriesLoop (readNamed m rd) (bs.length + 1) [] bs
    pure (.compound es, r)
  | 11 => readIntArray .i32 .intArray bs
  | 12 => readIntArray .i64 .longArray bs
  | _ => .error .other                                 -- unreachable: `ty` comes from `tagClass`

/-- `_tags[ty].read(read, has_name=False)` with `fuel` Python frames left -/
def readPayload (m : Mutf8) : Nat → Nat → Bytes → Except Err (Tag × Bytes)
  | 0, _, _ => .error .other
  | f + 1, ty, bs => readBody m (readPayload m f) ty bs

/-- `NBTFile(io=file_object)`: the first byte must be 0x0A, then `TAG_Compound.read(read)` (name,
children); the result's name is the one read -/
def loadFile (m : Mutf8) (fuel : Nat) (bs : Bytes) : Except Err ((String × Entries) × Bytes) := do
  let (b, r) ← IntT.i8.unpack bs
  if b ≠ 10 then throw .other
  let (name, r') ← readUtf8 m r
  let (es, r'') ← entriesLoop (readNamed m (readPayload m fuel)) (r'.length + 1) [] r'
  pure ((name, es), r'')

/-- nesting levels the reader accepts below the root (see the header) -/
def maxDepth : Nat := 512

/-! ### nesting depth -/

mutual
  def Tag.depth : Tag → Nat
    | .list _ items => depthItems items + 1
    | .compound es => depthEntries es + 1
    | _ => 1
  def depthItems : List Tag → Nat
    | [] => 0
    | t :: ts => Nat.max t.depth (depthItems ts)
  def depthEntries : Entries → Nat
    | [] => 0
    | (_, t) :: es => Nat.max t.depth (depthEntries es)
end

/-! ### the round-trip domain -/

mutual
  /-- every number in the range of its `struct` code, every string at most 32767 encoded bytes,
  list items of the list's class, distinct keys, no `TAG_End` object -/
  def Tag.wf (m : Mutf8) : Tag → Bool
    | .end_ _ => false
    | .byte v => decide (IntT.i8.inDom v)
    | .short v => decide (IntT.i16.inDom v)
    | .int v => decide (IntT.i32.inDom v)
    | .long v => decide (IntT.i64.inDom v)
    | .float b => decide (IntT.f32.inDom b)
    | .double b => decide (IntT.f64.inDom b)
    | .byteArray b => decide (b.length < 2 ^ 31)
    | .string s => decide ((m.enc s).length < 2 ^ 15)
    | .list ty items => decide (ty ≤ 12) && decide (items.length < 2 ^ 31) && wfItems m ty items
    | .compound es => keysOk es && wfEntries m es
    | .intArray vs => decide (vs.length < 2 ^ 31) && vs.all fun v => decide (IntT.i32.inDom v)
    | .longArray vs => decide (vs.length < 2 ^ 31) && vs.all fun v => decide (IntT.i64.inDom v)
  def wfItems (m : Mutf8) (ty : Nat) : List Tag → Bool
    | [] => true
    | t :: ts => decide (t.tagId = ty) && t.wf m && wfItems m ty ts
  def wfEntries (m : Mutf8) : Entries → Bool
    | [] => true
    | (k, t) :: es => decide ((m.enc k).length < 2 ^ 15) && t.wf m && wfEntries m es
end

/-- the children of a root that `NBT.send` / `NBT.read` carry faithfully -/
def rootWf (m : Mutf8) (es : Entries) : Bool :=
  keysOk es && wfEntries m es && decide (depthEntries es ≤ maxDepth)

/-! ### tags as `Value`s -/

mutual
  /-- `[.int tagId, payload…]` -/
  def Tag.toValue : Tag → Value
    | .end_ v => .list [.int 0, .int v]
    | .byte v => .list [.int 1, .int v]
    | .short v => .list [.int 2, .int v]
    | .int v => .list [.int 3, .int v]
    | .long v => .list [.int 4, .int v]
    | .float b => .list [.int 5, .int b]
    | .double b => .list [.int 6, .int b]
    | .byteArray b => .list [.int 7, .bytes b]
    | .string s => .list [.int 8, .str s]
    | .list ty items => .list [.int 9, .int ty, .list (itemsToValue items)]
    | .compound es => .list [.int 10, .list (entriesToValue es)]
    | .intArray vs => .list [.int 11, Value.ofInts vs]
    | .longArray vs => .list [.int 12, Value.ofInts vs]
  def itemsToValue : List Tag → List Value
    | [] => []
    | t :: ts => t.toValue :: itemsToValue ts
  /-- `[[.str key, child], …]` -/
  def entriesToValue : Entries → List Value
    | [] => []
    | (k, t) :: es => .list [.str k, t.toValue] :: entriesToValue es
end

mutual
  /-- the tag a value stands for (exact shapes only) -/
  def ofValue : Value → Option Tag
    | .list [.int 0, .int v] => some (.end_ v)
    | .list [.int 1, .int v] => some (.byte v)
    | .list [.int 2, .int v] => some (.short v)
    | .list [.int 3, .int v] => some (.int v)
    | .list [.int 4, .int v] => some (.long v)
    | .list [.int 5, .int v] => some (.float v)
    | .list [.int 6, .int v] => some (.double v)
    | .list [.int 7, .bytes b] => some (.byteArray b)
    | .list [.int 8, .str s] => some (.string s)
    | .list [.int 9, .int ty, .list items] =>
      if 0 ≤ ty then (ofValues items).map (.list ty.toNat) else none
    | .list [.int 10, .list es] => (ofEntries es).map .compound
    | .list [.int 11, .list vs] => (intsOf vs).map .intArray
    | .list [.int 12, .list vs] => (intsOf vs).map .longArray
    | _ => none
  def ofValues : List Value → Option (List Tag)
    | [] => some []
    | v :: vs => do
      let t ← ofValue v
      let ts ← ofValues vs
      pure (t :: ts)
  def ofEntries : List Value → Option Entries
    | [] => some []
    | .list [.str k, v] :: es => do
      let t ← ofValue v
      let r ← ofEntries es
      pure ((k, t) :: r)
    | _ :: _ => none
end

/-- the value of an NBT field: an `NBTFile` / `dict` with its root name -/
def rootValue (name : String) (es : Entries) : Value := .list [.str name, .list (entriesToValue es)]

def ofRootValue : Value → Option (String × Entries)
  | .list [.str name, .list es] => (ofEntries es).map fun r => (name, r)
  | _ => none

mutual
  /-- structural equality of values (`Value` is a nested inductive: `DecidableEq` is not derivable) -/
  def valEqb : Value → Value → Bool
    | .bool a, .bool b => a == b
    | .int a, .int b => a == b
    | .bytes a, .bytes b => a == b
    | .str a, .str b => a == b
    | .list a, .list b => valsEqb a b
    | _, _ => false
  def valsEqb : List Value → List Value → Bool
    | [], [] => true
    | a :: as, b :: bs => valEqb a b && valsEqb as bs
    | _, _ => false
end

/-! ### `NBT.send` / `NBT.read` -/

/-- `NBT.send(value, socket)` (basic.py:354-358): `NBTFile(value=value)` — root name `''`, whatever
name `value` had — saved to a buffer that is then sent in one piece (nothing is sent on failure).
A value that is not a dict of tags is `.error .type`. -/
def nbtSend (m : Mutf8) (v : Value) : Except Err Bytes :=
  match ofRootValue v with
  | none => .error .type
  | some (_, es) => saveFile m "" es

/-- `NBT.read(file_object)` (basic.py:350-352): `NBTFile(io=file_object)` -/
def nbtRead (m : Mutf8) (bs : Bytes) : Except Err (Value × Bytes) := do
  let (r, rest) ← loadFile m maxDepth bs
  pure (rootValue r.1 r.2, rest)

/-- the real NBT codec (over a given `mutf8`) -/
def pynbt (m : Mutf8) : NbtCodec := ⟨nbtSend m, nbtRead m⟩

/-- the domain on which it round-trips: a root named `''` whose children are `rootWf`; checked by
re-building the value from the tags it stands for -/
def nbtDomB (m : Mutf8) (v : Value) : Bool :=
  match ofRootValue v with
  | none => false
  | some (name, es) => name == "" && rootWf m es && valEqb (rootValue name es) v

def nbtDom (m : Mutf8) (v : Value) : Prop := nbtDomB m v = true

instance (m : Mutf8) (v : Value) : Decidable (nbtDom m v) := by unfold nbtDom; infer_instance

/-! ### models of CHANGED code (used only to show that the theorems would notice)

Each is a one-line edit of `basic.py:349-359` after which every field layout is still `Layout.ok`. -/

/-- `NBT.read` rewritten as `pynbt.NBTFile(io=io.BytesIO(file_object.read()))` ("read the rest of the
packet, then parse"): the parse is the same, but everything after the NBT field is gone -/
def nbtReadWholeRest (m : Mutf8) (bs : Bytes) : Except Err (Value × Bytes) := do
  let (v, _) ← nbtRead m bs
  pure (v, [])

/-- `NBT.send` rewritten with `pynbt.NBTFile(name=None, value=value)` (the nameless root of the
1.20.2+ network format): `BaseTag.write` then skips the 0x0A byte and the name -/
def nbtSendNameless (m : Mutf8) (v : Value) : Except Err Bytes :=
  match ofRootValue v with
  | none => .error .type
  | some (_, es) => do
    if !keysOk es then throw .type
    let body ← saveEntries m es
    pure (body ++ [0])

/-- `NBT.send` without its last line (`socket.send(buffer.getvalue())`) -/
def nbtSendNothing (m : Mutf8) (v : Value) : Except Err Bytes := do
  let _ ← nbtSend m v
  pure []

end Nbt

/-- the library's custom codecs, NBT included (strings through `m`) -/
def realCustomNbt (m : Nbt.Mutf8) : CustomCodec := realCustomWith (Nbt.pynbt m)

/-- … and their round-trip domain -/
def realDomNbt (m : Nbt.Mutf8) : CustomT → Value → Prop := realDomWith (Nbt.nbtDom m)

end PyCraft
