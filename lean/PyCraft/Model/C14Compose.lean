import PyCraft.Model.Handlers
import PyCraft.Model.Lifecycle
/-!
# C14, composed: from the ORIGIN of an exception to the end of the networking thread

The existing C14 model (`Model/Handlers.lean`) starts at the call of `_handle_exception` with the
exception as a parameter and stops before the cleanup.  This file models, sequentially and from the
point of view of ONE networking thread `T`, everything around it
(`minecraft/networking/connection.py`, line numbers of the current tree):

* `PacketListener.call_packet` with callbacks that return, raise `IgnorePacket` or raise something
  else (`packet_listener.py:12-17`)                                   — `runListenersX`
* `Connection._react` (l.575-583)                                     — `reactX`
* `NetworkingThread._run` (l.613-653): write phase with the deferred `IOError`, read loop,
  dispatch, the "disconnect packet forgives the write error" rule     — `readLoop`, `runLoop`
* `Connection._handle_exit` (l.571-573)                               — in `runThread`
* `NetworkingThread.run` (l.596-611): `except Exception as e: self.interrupt = True;
  _handle_exception(e, sys.exc_info())`, `finally: networking_thread = None` — `runThread`
* `Connection._handle_exception` (l.500-551) WITH the `exc_info` pair, with callbacks that call
  `disconnect()` / `connect()`, with the final locked block
  `if (new_networking_thread or networking_thread).interrupt: disconnect(immediate=True)` and the
  re-raise of `exc_info[1]`                                            — `hx`
* `Connection.disconnect` (l.457-489), `Connection.connect` / `_check_connection` /
  `_start_network_thread` (l.385-428, l.188-207) on the attributes they touch — `Conn.disconnect`,
  `Conn.connect`

Exceptions, class hierarchies, handler behaviours, call events and the pure `Outcome` are those of
`Model/Handlers.lean`; `Props/C14Compose.lean` proves that the pure part of `hx` IS
`handleException` (so the eight C14 theorems apply to the composed run).

Cross-checked against the real code by `harness/corr/c14compose.py` (the real `run`, `_run`,
`_react`, `_handle_exit`, `_handle_exception`, `connect`, `disconnect` executed on a scripted
connection; driver command `thread`, `Drive/C14Compose.lean`), which is how the replacement of
`self.reactor` by `connect()` (`Setup.rhNew`) was found.

Scope.  One thread, no interleaving: what other threads can do in between is the subject of the
transition system `Model/Lifecycle.lean`; the second half of `Props/C14Compose.lean` proves the
corresponding facts there (for all schedules).  The prologue of `run` (waiting for the previous
thread, taking over the slot) is not modelled: `T` IS `connection.networking_thread` from the start
of `_run` until its own `finally` (`Life.LInv.nt_iff`), which is why `T.interrupt` is the flag of
the thread in the slot (`Conn.nt`).  The server accepts every `connect()` (refusals:
`Model/Lifecycle.lean`).
-/
namespace PyCraft.ExcFlow
open PyCraft

/-! ## The connection attributes and the lifecycle calls -/

/-- The attributes read and written by `disconnect`, `connect` and the cleanup. -/
structure Conn where
  /-- `networking_thread`: `None`, or its `interrupt` flag (this is `T` until `T`'s `finally`) -/
  nt : Option Bool
  /-- `new_networking_thread`: `None`, or its `interrupt` flag -/
  new : Option Bool
  /-- `socket`: `None`, or the socket made by the `n`-th `_connect()` -/
  sock : Option Nat
  connected : Bool
  /-- number of `_connect()` calls so far -/
  conns : Nat
  /-- sockets that have been shut down and closed, in order -/
  closed : List Nat
deriving Repr, DecidableEq

/-- `self.interrupt` as read by `T` in `_run` (`T` is in the slot). -/
def Conn.selfIntr (c : Conn) : Bool :=
  match c.nt with
  | some i => i
  | none => true

/-- The condition of `_check_connection` (l.424-428) and `_start_network_thread` (l.190-193):
`networking_thread is not None and not networking_thread.interrupt or
 new_networking_thread is not None`. -/
def Conn.busy (c : Conn) : Bool :=
  (match c.nt with
   | some i => !i
   | none => false) || c.new.isSome

/-- `disconnect(immediate)` (l.457-489; the queue flush, guarded since 584a461, is not modelled):
`connected = False`; `new.interrupt = True` or else `nt.interrupt = True`; shut down and close the
socket and set it to `None`. -/
def Conn.disconnect (c : Conn) : Conn :=
  let c1 : Conn := { c with connected := false }
  let c2 : Conn :=
    match c1.new with
    | some _ => { c1 with new := some true }
    | none =>
      match c1.nt with
      | some _ => { c1 with nt := some true }
      | none => c1
  match c2.sock with
  | some k => { c2 with sock := none, closed := c2.closed ++ [k] }
  | none => c2

/-- `connect()` (l.385-422): `_check_connection` (`none` = `InvalidState`), `_connect` (a NEW socket
object replaces `self.socket`; the old one is not closed here), `_start_network_thread` (same test,
then a thread directly in an empty slot, else `new_networking_thread`). -/
def Conn.connect (c : Conn) : Option Conn :=
  if c.busy then none
  else
    let c1 : Conn := { c with sock := some c.conns, connected := true, conns := c.conns + 1 }
    match c1.nt with
    | none => some { c1 with nt := some false }
    | some _ => some { c1 with new := some false }

/-- An API call made by a callback. -/
inductive Act
  | disconnect
  | connect
deriving Repr, DecidableEq

/-- A callback's API calls, in order; the first one that raises (`connect()` → `InvalidState`, the
instance `inv`) ends the callback with that exception. -/
def runActs (inv : Exc) : List Act → Conn → Conn × Option Exc
  | [], c => (c, none)
  | .disconnect :: rest, c => runActs inv rest c.disconnect
  | .connect :: rest, c =>
    match c.connect with
    | some c' => runActs inv rest c'
    | none => (c, some inv)

/-- What a callback with nominal behaviour `b` did, given the API error (if any). -/
def effBeh (err : Option Exc) (b : Beh) : Beh :=
  match err with
  | some x => .raises x
  | none => b

def effRBeh (err : Option Exc) (r : RBeh) : RBeh :=
  match err with
  | some x => .raises x
  | none => r

/-! ## Packet callbacks and `_react` -/

/-- What a packet callback (a listener's callback, `reactor.react`) does. -/
inductive LOut
  | ok
  | ignore                -- raises `IgnorePacket`
  | raises (e : Exc)      -- raises anything else
deriving Repr, DecidableEq

def LOut.raised : LOut → Option Exc
  | .raises e => some e
  | _ => none

def LOut.isOk : LOut → Bool
  | .ok => true
  | _ => false

/-- A registered listener; `disc` = the callback calls `connection.disconnect()` first. -/
structure XListener where
  id : Nat
  types : List Nat
  disc : Bool
  out : LOut
deriving Repr, DecidableEq

/-- `reactor.react(packet)` for one packet class (`PlayingReactor` on a disconnect packet:
`disc = true`, `out = ok`). -/
structure PCb where
  disc : Bool
  out : LOut
deriving Repr, DecidableEq

/-- The `for packet_type in self.packets_to_listen: if isinstance(packet, packet_type)` test of
`call_packet`: is the callback invoked? (the loop of `Model/Dispatch.lean`). -/
def XListener.invoked (hier : Hier) (l : XListener) (cls : Nat) : Bool :=
  (callPacketLoop hier false cls l.types).1

/-- One callback invocation during dispatch: who, whether it disconnected, what it did. -/
structure DEv where
  who : Ev
  disc : Bool
  out : LOut
deriving Repr, DecidableEq

/-- How a stretch of dispatch code was left. -/
inductive RRes
  | done                  -- fell through
  | ignored               -- an `IgnorePacket` is propagating (caught by `_react`)
  | escaped (e : Exc)     -- another exception is propagating (NOT caught by `_react`)
deriving Repr, DecidableEq

/-- `for listener in <list>: listener.call_packet(packet)`. -/
def runListenersX (hier : Hier) (tag : Nat → Ev) (cls : Nat) :
    List XListener → Conn → List DEv × Conn × RRes
  | [], c => ([], c, .done)
  | l :: ls, c =>
    if l.invoked hier cls then
      let c1 := if l.disc then c.disconnect else c
      match l.out with
      | .ok =>
        let r := runListenersX hier tag cls ls c1
        (⟨tag l.id, l.disc, .ok⟩ :: r.1, r.2.1, r.2.2)
      | .ignore => ([⟨tag l.id, l.disc, .ignore⟩], c1, .ignored)
      | .raises e => ([⟨tag l.id, l.disc, .raises e⟩], c1, .escaped e)
    else runListenersX hier tag cls ls c

/-- `Connection._react(packet)` (l.575-583): early listeners, the reaction, ordinary listeners in
ONE `try`; `except IgnorePacket: pass` — `.ignored` is swallowed by the caller of this function's
result, `.escaped e` leaves `_react`. -/
def reactX (hier : Hier) (early ordinary : List XListener) (rx : PCb) (cls : Nat) (c : Conn) :
    List DEv × Conn × RRes :=
  let r1 := runListenersX hier Ev.early cls early c
  match r1.2.2 with
  | .done =>
    let c2 := if rx.disc then r1.2.1.disconnect else r1.2.1
    match rx.out with
    | .ok =>
      let r3 := runListenersX hier Ev.ordinary cls ordinary c2
      (r1.1 ++ [⟨Ev.reaction, rx.disc, .ok⟩] ++ r3.1, r3.2.1, r3.2.2)
    | .ignore => (r1.1 ++ [⟨Ev.reaction, rx.disc, .ignore⟩], c2, .ignored)
    | .raises e => (r1.1 ++ [⟨Ev.reaction, rx.disc, .raises e⟩], c2, .escaped e)
  | res => (r1.1, r1.2.1, res)

/-! ## `_run` -/

/-- What one `read_packet` call does. -/
inductive RdRes
  | none                               -- timeout: returns `None`
  | packet (cls : Nat) (disc : Bool)   -- a packet; `disc` = `packet_name == "disconnect"`
  | raises (e : Exc)                   -- `EOFError`, a decoding error, …
deriving Repr, DecidableEq

/-- What the write phase of one iteration does (l.617-625). -/
inductive WRes
  | wrote (n : Nat)                    -- `n` packets written, `exc_info = None`
  | ioError (n : Nat) (e : Exc)        -- after `n` packets an `IOError`: `exc_info = sys.exc_info()`
  | raises (e : Exc)                   -- any other exception (an outgoing listener, …): leaves `_run`
deriving Repr, DecidableEq

/-- The log of the thread. -/
inductive TEv
  | write (w : WRes)
  | read (r : RdRes)
  | cb (ev : DEv)
  | forgiven (e : Exc)           -- l.648-649: the deferred write error is dropped
  | deferred (e : Exc)           -- l.651-653: the deferred write error is raised
  | exitCb (raised : Option Exc) -- `handle_exit()` was called
  | setIntr                      -- l.607
  | call (ev : CallEv) (info : Exc)  -- `_handle_exception` called something with `(exc, exc_info)`
  | cleanup (disconnected : Bool)    -- l.544-546, `true` = `disconnect(immediate=True)` executed
  | cleanupFailed                    -- l.545 on two empty slots: `AttributeError`
  | slotCleared                      -- l.610-611
deriving Repr, DecidableEq

/-- The exception an event let escape into the thread, if any. -/
def TEv.raisedExc : TEv → Option Exc
  | .write (.raises e) => some e
  | .read (.raises e) => some e
  | .cb ev => ev.out.raised
  | .deferred e => some e
  | .exitCb r => r
  | _ => none

/-- Events of `_run` / `_handle_exit` (as opposed to those of the exception path and `finally`). -/
def TEv.isActivity : TEv → Bool
  | .write _ | .read _ | .cb _ | .forgiven _ | .deferred _ | .exitCb _ => true
  | _ => false

/-- The three code fragments that the audit's "changes that pass every theorem" touch, as
parameters of the loop skeleton; `pyCode` below is the real code. -/
structure Code where
  /-- `self.connection._react(packet)` -/
  react : Nat → Conn → List DEv × Conn × RRes
  /-- what `_run` gets to see of the result of `read_packet` (l.637-638: the result itself) -/
  readSeen : RdRes → RdRes
  /-- the statement between `except Exception as e:` and the call of `_handle_exception` (l.607) -/
  excPrologue : Conn → Conn

/-- Result of the read loop. -/
structure RdOut where
  log : List TEv
  conn : Conn
  /-- the deferred `exc_info` of the write phase, if still pending -/
  pend : Option Exc
  rest : List RdRes
  /-- the exception that left the loop, if any -/
  exc : Option Exc
deriving Repr, DecidableEq

/-- l.648-649: `if exc_info is not None and packet.packet_name == "disconnect": exc_info = None`,
as a log entry. -/
def forgivenEv (pend : Option Exc) (d : Bool) : List TEv :=
  match pend with
  | some e => if d then [.forgiven e] else []
  | none => []

/-- `while num_packets < 50 and not self.interrupt:` (l.636-649).  An exhausted script is a silent
server: `read_packet` times out. -/
def readLoop (K : Code) : List RdRes → Nat → Option Exc → Conn → RdOut
  | rs, np, pend, c =>
    if np < 50 && !c.selfIntr then
      match rs with
      | [] => ⟨[.read .none], c, pend, [], none⟩
      | r :: rs =>
        match K.readSeen r with
        | .none => ⟨[.read r], c, pend, rs, none⟩                   -- `if not packet: break`
        | .raises e => ⟨[.read r], c, pend, rs, some e⟩
        | .packet cls d =>
          let x := K.react cls c
          match x.2.2 with
          | .escaped e => ⟨.read r :: x.1.map .cb, x.2.1, pend, rs, some e⟩
          | _ =>                                                     -- incl. `except IgnorePacket`
            let pend' := if d then none else pend
            let k := readLoop K rs (np + 1) pend' x.2.1
            ⟨.read r :: x.1.map .cb ++ forgivenEv pend d ++ k.log, k.conn, k.pend, k.rest, k.exc⟩
    else ⟨[], c, pend, rs, none⟩

/-- How `_run` ended (within the script). -/
inductive LoopRes
  | running               -- the script is exhausted, the thread is still looping
  | returned              -- `while not self.interrupt` was false
  | raised (e : Exc)
deriving Repr, DecidableEq

structure LoopOut where
  log : List TEv
  conn : Conn
  rest : List RdRes
  res : LoopRes
deriving Repr, DecidableEq

/-- `_run` (l.613-653); one element of `ws` per iteration of the outer loop. -/
def runLoop (K : Code) : List WRes → List RdRes → Conn → LoopOut
  | ws, rs, c =>
    if c.selfIntr then ⟨[], c, rs, .returned⟩
    else
      match ws with
      | [] => ⟨[], c, rs, .running⟩
      | w :: ws =>
        match w with
        | .raises e => ⟨[.write w], c, rs, .raised e⟩
        | .wrote n =>
          let k := readLoop K rs n none c
          match k.exc with
          | some e => ⟨.write w :: k.log, k.conn, k.rest, .raised e⟩
          | none =>
            let m := runLoop K ws k.rest k.conn
            ⟨.write w :: k.log ++ m.log, m.conn, m.rest, m.res⟩
        | .ioError n e0 =>
          let k := readLoop K rs n (some e0) c
          match k.exc with
          | some e => ⟨.write w :: k.log, k.conn, k.rest, .raised e⟩
          | none =>
            match k.pend with
            | some e => ⟨.write w :: k.log ++ [.deferred e], k.conn, k.rest, .raised e⟩
            | none =>
              let m := runLoop K ws k.rest k.conn
              ⟨.write w :: k.log ++ m.log, m.conn, m.rest, m.res⟩

/-! ## `_handle_exception` with state -/

/-- A registered exception handler that may call the API before returning / raising. -/
structure XHandler where
  id : Nat
  types : List Nat
  acts : List Act
  beh : Beh
deriving Repr, DecidableEq

/-- The handler without its API calls (the `Handler` of the C14 model). -/
def XHandler.erase (h : XHandler) : Handler := ⟨h.id, h.types, h.beh⟩

/-- `reactor.handle_exception` (`PlayingStatusReactor` on `EOFError`: `[disconnect, connect]`,
`retTrue`). -/
structure XReactorH where
  acts : List Act
  rbeh : RBeh
deriving Repr, DecidableEq

/-- The constructor argument `handle_exception`. -/
inductive XFinal
  | none
  | false
  | fn (acts : List Act) (beh : Beh)
deriving Repr, DecidableEq

/-- A callback without arguments (`handle_exit`). -/
structure Cb where
  acts : List Act
  beh : Beh
deriving Repr, DecidableEq

/-- State of the handler loop: that of the C14 model plus `exc_info[1]`, the `exc_info[1]` passed
with each call, the connection, and the handlers consulted so far AS THEY BEHAVED. -/
structure XLoopSt where
  st : LoopSt
  info : Exc
  infos : List Exc
  conn : Conn
  eff : List Handler
deriving Repr, DecidableEq

/-- One iteration of `for handler, exc_types in self._exception_handlers` (l.511-518). -/
def xloopStep (hier : Hier) (inv : Exc) (x : XLoopSt) (h : XHandler) : XLoopSt :=
  if x.st.broke then { x with eff := x.eff ++ [h.erase] }
  else if h.erase.handles hier x.st.exc then
    let r := runActs inv h.acts x.conn
    match effBeh r.2 h.beh with
    | .returns =>                                  -- handler(exc, exc_info); caught = True; break
      { st := { x.st with calls := x.st.calls ++ [.handler h.id x.st.exc none], broke := true },
        info := x.info, infos := x.infos ++ [x.info], conn := r.1,
        eff := x.eff ++ [⟨h.id, h.types, .returns⟩] }
    | .raises e' =>                                -- exc, exc_info = new_exc, sys.exc_info()
      { st := { exc := e', calls := x.st.calls ++ [.handler h.id x.st.exc (some e')],
                broke := false },
        info := e', infos := x.infos ++ [x.info], conn := r.1,
        eff := x.eff ++ [⟨h.id, h.types, .raises e'⟩] }
  else { x with eff := x.eff ++ [h.erase] }

/-- The final handler without its API calls. -/
def XFinal.erase : XFinal → Final
  | .none => .none
  | .false => .false
  | .fn _ b => .fn b

/-- `if final_handler not in (None, False): final_handler(exc, exc_info)` (l.523-525): the
connection afterwards and the final handler AS IT BEHAVED. -/
def XFinal.run (inv : Exc) (fin : XFinal) (c : Conn) : Conn × Final :=
  match fin with
  | .none => (c, .none)
  | .false => (c, .false)
  | .fn acts b =>
    let q := runActs inv acts c
    (q.1, .fn (effBeh q.2 b))

/-- Outcome of the final locked block. -/
inductive Cleanup
  | notReached            -- early `return` (the reactor's handler returned a true value)
  | disconnected          -- the flag was set: `disconnect(immediate=True)` executed
  | spared                -- the flag of `new_networking_thread or networking_thread` was clear
  | failed                -- both slots empty: `AttributeError`
deriving Repr, DecidableEq

/-- Everything `_handle_exception` did. -/
structure HxOut where
  /-- the observable of the C14 model (`reraised` here is `exc_info[1]`, as in l.550-551) -/
  out : Outcome
  /-- `exc_info[1]` passed with each call of `out.trace` -/
  infos : List Exc
  /-- `connection.exc_info[1]` as recorded -/
  recordedInfo : Option Exc
  cleanup : Cleanup
  /-- the connection just before the final locked block -/
  connAtCleanup : Conn
  conn : Conn
  /-- the reactor's handler, the handlers and the final handler as they behaved -/
  effR : RBeh
  effHandlers : List Handler
  effFin : Final
deriving Repr, DecidableEq

/-- The flag read by the final locked block: that of `new_networking_thread or
networking_thread` (`none`: both are `None`). -/
def Conn.cleanupFlag (c : Conn) : Option Bool :=
  match c.new with
  | some i => some i
  | none => c.nt

/-- What the reactor's handler raised, if anything. -/
def rbehRaised : RBeh → Option Exc
  | .raises e' => some e'
  | _ => none

/-- `_handle_exception` after the reactor's handler has returned a false value or raised
(l.510-551); `r` is what it did, `c` the connection afterwards. -/
def hxTail (hier : Hier) (inv : Exc) (hs : List XHandler) (fin : XFinal) (e info : Exc)
    (r : RBeh) (c : Conn) : HxOut :=
  -- except Exception as new_exc: exc, exc_info = new_exc, sys.exc_info()
  let exc0 : Exc := (rbehRaised r).getD e
  let info0 : Exc := (rbehRaised r).getD info
  -- for handler, exc_types in self._exception_handlers: … else: caught = False
  let x := hs.foldl (xloopStep hier inv)
    { st := { exc := exc0, calls := [], broke := false }, info := info0, infos := [],
      conn := c, eff := [] }
  let caught := x.st.broke
  -- if final_handler not in (None, False): try: final_handler(exc, exc_info)
  --   except Exception as new_exc: exc, exc_info = new_exc, sys.exc_info()
  let f := fin.run inv x.conn
  let finCalls : List CallEv := match f.2 with
    | .fn b => [.final x.st.exc b.raised]
    | _ => []
  let finInfos : List Exc := match f.2 with
    | .fn _ => [x.info]
    | _ => []
  let exc2 : Exc := match f.2 with
    | .fn (.raises e') => e'
    | _ => x.st.exc
  let info2 : Exc := match f.2 with
    | .fn (.raises e') => e'
    | _ => x.info
  -- self.exception, self.exc_info = exc, exc_info
  -- with self._write_lock:
  --     if (self.new_networking_thread or self.networking_thread).interrupt:
  --         self.disconnect(immediate=True)
  let cl : Cleanup × Conn := match f.1.cleanupFlag with
    | some true => (.disconnected, f.1.disconnect)
    | some false => (.spared, f.1)
    | none => (.failed, f.1)
  -- if final_handler is None and not caught: raise exc_info[1]
  { out := { trace := .reactor e (rbehRaised r) :: x.st.calls ++ finCalls,
             caught := caught,
             loopExc := some x.st.exc,
             recorded := some exc2,
             reraised := if f.2 = .none ∧ caught = false then some info2 else none,
             swallowedByReactor := false },
    infos := info :: x.infos ++ finInfos,
    recordedInfo := some info2,
    cleanup := cl.1, connAtCleanup := f.1, conn := cl.2,
    effR := r, effHandlers := x.eff, effFin := f.2 }

/-- `Connection._handle_exception(exc, exc_info)` (l.500-551); `info` is `exc_info[1]`. -/
def hx (hier : Hier) (inv : Exc) (rh : XReactorH) (hs : List XHandler) (fin : XFinal)
    (e info : Exc) (c : Conn) : HxOut :=
  -- try: if self.reactor.handle_exception(exc, exc_info): return
  let r0 := runActs inv rh.acts c
  match effRBeh r0.2 rh.rbeh with
  | .retTrue =>
    { out := { trace := [.reactor e none], caught := false, loopExc := none, recorded := none,
               reraised := none, swallowedByReactor := true },
      infos := [info], recordedInfo := none, cleanup := .notReached, connAtCleanup := r0.1,
      conn := r0.1, effR := .retTrue, effHandlers := hs.map XHandler.erase,
      effFin := fin.erase }
  | r => hxTail hier inv hs fin e info r r0.1

/-! ## `NetworkingThread.run` -/

/-- The configuration of the connection. -/
structure Setup where
  hier : Hier
  /-- the `InvalidState` instance raised by `_check_connection` -/
  inv : Exc
  early : List XListener
  ordinary : List XListener
  /-- `reactor.react`, per packet class -/
  rx : Nat → PCb
  /-- `reactor.handle_exception` of the reactor in place when the thread starts -/
  rh : XReactorH
  /-- `handle_exception` of the reactor that a `connect()` installs (l.415 / l.421:
  `LoginReactor` — the default, returns `False`; or `PlayingStatusReactor`) -/
  rhNew : XReactorH
  handlers : List XHandler
  fin : XFinal
  /-- `handle_exit` (`None` or a callable) -/
  exit : Option Cb

/-- The real code: `_react` is `reactX`, `_run` sees the result of `read_packet` itself, and the
`except` clause of `run` sets `self.interrupt = True` (`T` is in the slot). -/
def pyCode (S : Setup) : Code where
  react := fun cls c => reactX S.hier S.early S.ordinary (S.rx cls) cls c
  readSeen := id
  excPrologue := fun c => { c with nt := c.nt.map fun _ => true }

/-- Everything the thread did. -/
structure ThreadOut where
  log : List TEv
  conn : Conn
  /-- the part of the read script that was never consumed -/
  rest : List RdRes
  /-- `run` has returned or raised (as opposed to: the script ran out while it was looping) -/
  ended : Bool
  /-- the arguments with which `_handle_exception` was entered -/
  entered : Option (Exc × Exc)
  hx : Option HxOut
  /-- the exception that left `run` (reported by `threading`'s excepthook) -/
  reraised : Option Exc
deriving Repr, DecidableEq

/-- The log entries of `_handle_exception`: its calls, then the final locked block. -/
def HxOut.events (h : HxOut) : List TEv :=
  (h.out.trace.zip h.infos).map (fun p => TEv.call p.1 p.2) ++
    match h.cleanup with
    | .notReached => []
    | .disconnected => [.cleanup true]
    | .spared => [.cleanup false]
    | .failed => [.cleanupFailed]

/-- `except Exception as e: self.interrupt = True; self.connection._handle_exception(e,
sys.exc_info())` followed by `finally: networking_thread = None` (l.606-611).
`sys.exc_info()[1]` inside `except Exception as e` is `e`.  `self.reactor` is the reactor the thread
started with unless a callback has connected since (`n0` = number of `_connect()` calls at the
start of the thread). -/
def excPath (K : Code) (S : Setup) (n0 : Nat) (log : List TEv) (rest : List RdRes) (c : Conn)
    (e : Exc) : ThreadOut :=
  let c1 := K.excPrologue c
  let rh := if c.conns = n0 then S.rh else S.rhNew
  let h := hx S.hier S.inv rh S.handlers S.fin e e c1
  { log := log ++ [.setIntr] ++ h.events ++ [.slotCleared],
    conn := { h.conn with nt := none },
    rest := rest, ended := true, entered := some (e, e), hx := some h,
    reraised := h.out.reraised }

/-- `NetworkingThread.run` from `self._run()` on (l.604-611), with the code fragments `K`. -/
def runThreadWith (K : Code) (S : Setup) (ws : List WRes) (rs : List RdRes) (c : Conn) :
    ThreadOut :=
  let r := runLoop K ws rs c
  match r.res with
  | .running =>
    { log := r.log, conn := r.conn, rest := r.rest, ended := false, entered := none, hx := none,
      reraised := none }
  | .raised e => excPath K S c.conns r.log r.rest r.conn e
  | .returned =>
    -- _handle_exit: if not self.connected and self.handle_exit is not None: self.handle_exit()
    match (if r.conn.connected then none else S.exit) with
    | some cb =>
      let q := runActs S.inv cb.acts r.conn
      match effBeh q.2 cb.beh with
      | .raises e => excPath K S c.conns (r.log ++ [.exitCb (some e)]) r.rest q.1 e
      | .returns =>
        { log := r.log ++ [.exitCb none, .slotCleared], conn := { q.1 with nt := none },
          rest := r.rest, ended := true, entered := none, hx := none, reraised := none }
    | none =>
      { log := r.log ++ [.slotCleared], conn := { r.conn with nt := none }, rest := r.rest,
        ended := true, entered := none, hx := none, reraised := none }

/-- The real thread. -/
def runThread (S : Setup) (ws : List WRes) (rs : List RdRes) (c : Conn) : ThreadOut :=
  runThreadWith (pyCode S) S ws rs c

/-- A freshly connected connection whose thread `T` has just entered `_run`. -/
def Conn.fresh : Conn := ⟨some false, none, some 0, true, 1, []⟩

/-! ## The changed code of the audit (rank 4), for the refutations -/

/-- `except IgnorePacket` → `except Exception` in `_react` (l.582): every exception of a listener
or of the reaction is swallowed like an `IgnorePacket`. -/
def codeExceptException (S : Setup) : Code :=
  { pyCode S with
    react := fun cls c =>
      match (pyCode S).react cls c with
      | (log, c', .escaped _) => (log, c', .ignored)
      | r => r }

/-- `read_packet` wrapped in `try: … except Exception: packet = None` (l.637-638). -/
def codeReadSwallowed (S : Setup) : Code :=
  { pyCode S with
    readSeen := fun r =>
      match r with
      | .raises _ => .none
      | r => r }

/-- `self.interrupt = True` deleted from the `except` clause of `run` (l.607). -/
def codeNoInterrupt (S : Setup) : Code :=
  { pyCode S with excPrologue := id }

end PyCraft.ExcFlow

/-! ## The same change in the transition system of `Model/Lifecycle.lean` -/
namespace PyCraft.Life

/-- The decision of the final block of `_handle_exception`, as a function of the two flags: the
flag of `new_networking_thread` if there is one, else that of `networking_thread`. -/
def cleanupFlag (s : Sys) : Option Bool := (target s).map fun j => (s.net j).intr

/-- `stepNet` with `self.interrupt = True` deleted from the `except` clause of `run`: the action
at `exc` only moves on to the handlers. -/
def stepNetNoIntr (env : List Beh) (s : Sys) (i : Nat) : Option Sys :=
  match (s.net i).pc with
  | .exc =>
    some { s with net := updN s i { s.net i with pc := .hRun },
                  log := s.log ++ [(.net i, .exc)] }
  | _ => stepNet env s i

def stepNoIntr (env : List Beh) (s : Sys) : Tid → Option Sys
  | .user u => stepUser env s u
  | .net i => stepNetNoIntr env s i

def runNoIntr (env : List Beh) (s : Sys) : List Tid → Sys
  | [] => s
  | t :: ts =>
    match stepNoIntr env s t with
    | some s' => runNoIntr env s' ts
    | none => runNoIntr env s ts

end PyCraft.Life
