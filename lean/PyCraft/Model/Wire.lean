import PyCraft.Model.VarInt
/-!
Model of the primitive wire types of `minecraft/networking/types/basic.py` (`send` / `read` of every
type in `__all__`), at the level of bytes and *wire integers*:

* Python `int` → `Int`; `bytes` → `Bytes`; `str` → `String` (core Lean strings are valid UTF-8 byte
  arrays, `String.toByteArray` **is** the UTF-8 encoding; `String.fromUTF8?` is the strict decoder).
* IEEE floats are their bit patterns (`Value.int` of the pattern): the codec's job is big-endian
  placement of the pattern; value ↔ pattern is CPython's `struct` (trusted base).
* `Angle` / `FixedPoint` are modelled at the wire-integer level plus exact rational scaling
  (`Model/Scaled.lean`); float rounding is not modelled.
* `struct.pack` range errors and short reads are `Err.struct`.
-/
namespace PyCraft

/-- big-endian bytes of `n mod 256^w`, `w` bytes -/
def beBytes : Nat → Nat → Bytes
  | 0, _ => []
  | w + 1, n => UInt8.ofNat (n / 256 ^ w % 256) :: beBytes w n

/-- big-endian value of a byte string -/
def beValue : Bytes → Nat
  | [] => 0
  | b :: rest => b.toNat * 256 ^ rest.length + beValue rest

/-- `struct.pack('>' + unsigned code)`: error outside `[0, 256^w)` -/
def packU (w : Nat) (v : Int) : Except Err Bytes :=
  if 0 ≤ v ∧ v < (256 : Int) ^ w then .ok (beBytes w v.toNat) else .error .struct

/-- `struct.pack('>' + signed code)`: two's complement, error outside `[-256^w/2, 256^w/2)` -/
def packS (w : Nat) (v : Int) : Except Err Bytes :=
  if -((256 : Int) ^ w / 2) ≤ v ∧ v < (256 : Int) ^ w / 2
  then .ok (beBytes w (v % (256 : Int) ^ w).toNat) else .error .struct

/-- `file_object.read(w)` followed by `struct.unpack`: a short read is `struct.error` -/
def takeN (w : Nat) (bs : Bytes) : Except Err (Bytes × Bytes) :=
  if w ≤ bs.length then .ok (bs.take w, bs.drop w) else .error .struct

def unpackU (w : Nat) (bs : Bytes) : Except Err (Int × Bytes) := do
  let (h, r) ← takeN w bs
  pure ((beValue h : Int), r)

def unpackS (w : Nat) (bs : Bytes) : Except Err (Int × Bytes) := do
  let (h, r) ← takeN w bs
  let u : Int := beValue h
  pure (if u < (256 : Int) ^ w / 2 then u else u - (256 : Int) ^ w, r)

/-- fixed-width integer types (and, as bit patterns, the two float types) -/
inductive IntT | u8 | i8 | i16 | u16 | i32 | i64 | u64 | f32 | f64
deriving DecidableEq, Repr

def IntT.width : IntT → Nat
  | .u8 | .i8 => 1 | .i16 | .u16 => 2 | .i32 | .f32 => 4 | .i64 | .u64 | .f64 => 8

def IntT.signed : IntT → Bool
  | .i8 | .i16 | .i32 | .i64 => true | _ => false

def IntT.pack (t : IntT) (v : Int) : Except Err Bytes :=
  if t.signed then packS t.width v else packU t.width v

def IntT.unpack (t : IntT) (bs : Bytes) : Except Err (Int × Bytes) :=
  if t.signed then unpackS t.width bs else unpackU t.width bs

/-- the value domain of a fixed-width type -/
def IntT.inDom (t : IntT) (v : Int) : Prop :=
  if t.signed then -((256 : Int) ^ t.width / 2) ≤ v ∧ v < (256 : Int) ^ t.width / 2
  else 0 ≤ v ∧ v < (256 : Int) ^ t.width

instance (t : IntT) (v : Int) : Decidable (t.inDom v) := by unfold IntT.inDom; infer_instance

/-- custom `Type` subclasses defined in packet modules and `Position`; their codecs live in
`Model/Position.lean` (C04) and `Model/Custom.lean`, plugged in through `CustomCodec`. -/
inductive CustomT
  | position (newer : Bool) | secpos | record (v741 : Bool) | explRecord
  | effectPos | pitch (f32 : Bool) (scaled : Bool) | nbt
deriving DecidableEq, Repr

/-- length-prefix types used by `PrefixedArray` in the library -/
inductive LenT | varint | i32 | i16 | u8
deriving DecidableEq, Repr

inductive WType
  | bool
  | int (t : IntT)                -- UnsignedByte … UnsignedLong; Float/Double as patterns
  | varint | varlong
  | string | uuid
  | angle                         -- wire integer: the step 0..255
  | fixed (base : IntT) (bits : Nat)   -- wire integer of `base`; scaling by 2^bits is separate
  | bytesVarint | bytesShort | trailing
  | array (len : LenT) (elem : WType)
  | custom (c : CustomT)
deriving DecidableEq, Repr

inductive Value
  | bool (b : Bool)
  | int (i : Int)
  | bytes (b : Bytes)
  | str (s : String)
  | list (vs : List Value)
deriving Repr, Inhabited

/-- the UTF-8 bytes of a string (`str.encode('utf-8')`) -/
def utf8 (s : String) : Bytes := s.toByteArray.data.toList

/-- strict UTF-8 decoding (`bytes.decode('utf-8')`) -/
def utf8Decode (b : Bytes) : Option String := String.fromUTF8? b.toByteArray

def encLen : LenT → Nat → Except Err Bytes
  | .varint, n => .ok (encVarInt n)
  | .i32, n => IntT.i32.pack n
  | .i16, n => IntT.i16.pack n
  | .u8, n => IntT.u8.pack n

/-- length read by `PrefixedArray.__read`; `range(length)` of a negative length is empty -/
def decLen : LenT → Bytes → Except Err (Nat × Bytes)
  | .varint, bs => decVarInt 5 bs
  | .i32, bs => do let (v, r) ← IntT.i32.unpack bs; pure (v.toNat, r)
  | .i16, bs => do let (v, r) ← IntT.i16.unpack bs; pure (v.toNat, r)
  | .u8, bs => do let (v, r) ← IntT.u8.unpack bs; pure (v.toNat, r)

/-- `[element_read(f) for i in range(n)]` -/
def repeatDec (f : Bytes → Except Err (Value × Bytes)) : Nat → Bytes → Except Err (List Value × Bytes)
  | 0, bs => .ok ([], bs)
  | n + 1, bs => do
    let (v, r) ← f bs
    let (vs, r') ← repeatDec f n r
    pure (v :: vs, r')

/-- `for element in value: element_send(element, socket)` -/
def encEach (f : Value → Except Err Bytes) : List Value → Except Err Bytes
  | [] => .ok []
  | v :: vs => do
    let a ← f v
    let b ← encEach f vs
    pure (a ++ b)

/-- codec of a custom type: supplied by the modules that model them -/
structure CustomCodec where
  enc : CustomT → Value → Except Err Bytes
  dec : CustomT → Bytes → Except Err (Value × Bytes)

/-- `T.send(value, socket)` / `send_with_context`: the bytes handed to the socket -/
def encode (cc : CustomCodec) : WType → Value → Except Err Bytes
  | .bool, .bool b => .ok [if b then 1 else 0]
  | .int t, .int v => t.pack v
  | .varint, .int v => encVarIntZ v
  | .varlong, .int v => encVarIntZ v
  | .string, .str s => .ok (encVarInt (utf8 s).length ++ utf8 s)
  | .uuid, .bytes b => if b.length = 16 then .ok b else .error .value
  | .angle, .int v => IntT.u8.pack v
  | .fixed base _, .int v => base.pack v
  | .bytesVarint, .bytes b => .ok (encVarInt b.length ++ b)
  | .bytesShort, .bytes b => do let h ← IntT.i16.pack b.length; pure (h ++ b)
  | .trailing, .bytes b => .ok b
  | .array lt t, .list vs => do
    let h ← encLen lt vs.length
    let body ← encEach (encode cc t) vs
    pure (h ++ body)
  | .custom c, v => cc.enc c v
  | _, _ => .error .type

/-- `T.read(file_object)` / `read_with_context` on a buffer holding `bs`: value and unread rest -/
def decode (cc : CustomCodec) : WType → Bytes → Except Err (Value × Bytes)
  | .bool, bs => do let (h, r) ← takeN 1 bs; pure (.bool (h ≠ [0]), r)
  | .int t, bs => do let (v, r) ← t.unpack bs; pure (.int v, r)
  | .varint, bs => do let (n, r) ← decVarInt 5 bs; pure (.int n, r)
  | .varlong, bs => do let (n, r) ← decVarInt 10 bs; pure (.int n, r)
  | .string, bs => do
    let (n, r) ← decVarInt 5 bs
    if r.length < n then .error .eof else
    match utf8Decode (r.take n) with
    | some s => pure (.str s, r.drop n)
    | none => .error .decode
  | .uuid, bs => if 16 ≤ bs.length then .ok (.bytes (bs.take 16), bs.drop 16) else .error .value
  | .angle, bs => do let (v, r) ← IntT.u8.unpack bs; pure (.int v, r)
  | .fixed base _, bs => do let (v, r) ← base.unpack bs; pure (.int v, r)
  | .bytesVarint, bs => do
    let (n, r) ← decVarInt 5 bs
    let (h, r') ← takeN n r
    pure (.bytes h, r')
  | .bytesShort, bs => do
    let (n, r) ← IntT.i16.unpack bs
    if n < 0 then .error .struct else
    let (h, r') ← takeN n.toNat r
    pure (.bytes h, r')
  | .trailing, bs => .ok (.bytes bs, [])
  | .array lt t, bs => do
    let (n, r) ← decLen lt bs
    let (vs, r') ← repeatDec (decode cc t) n r
    pure (.list vs, r')
  | .custom c, bs => cc.dec c bs

/-- domain of each wire type (what "a value from the type's domain" means in C02) -/
def WellTyped (cw : CustomT → Value → Prop) : WType → Value → Prop
  | .bool, .bool _ => True
  | .int t, .int v => t.inDom v
  | .varint, .int v => 0 ≤ v ∧ v < 2 ^ 32
  | .varlong, .int v => 0 ≤ v ∧ v < 2 ^ 64
  | .string, .str s => (utf8 s).length < 2 ^ 31
  | .uuid, .bytes b => b.length = 16
  | .angle, .int v => 0 ≤ v ∧ v < 256
  | .fixed base _, .int v => base.inDom v
  | .bytesVarint, .bytes b => b.length < 2 ^ 31
  | .bytesShort, .bytes b => b.length < 2 ^ 15
  | .trailing, .bytes _ => True
  | .array lt t, .list vs =>
    (match lt with
      | .varint => vs.length < 2 ^ 31 | .i32 => vs.length < 2 ^ 31
      | .i16 => vs.length < 2 ^ 15 | .u8 => vs.length < 2 ^ 8) ∧
    ∀ v ∈ vs, WellTyped cw t v
  | .custom c, v => cw c v
  | _, _ => False

/-- a type whose decoder stops by itself (everything but `trailing`, recursively) -/
def WType.selfDelimiting : WType → Bool
  | .trailing => false
  | .array _ t => t.selfDelimiting
  | _ => true

end PyCraft
