import PyCraft.Basic
/-!
Model of `minecraft/networking/types/enum.py`: `Enum.name_from_value` and
`BitFieldEnum.name_from_value`.

A class is given by its `cls.__dict__.items()` restricted to the integer-valued attributes, in dict
(= definition) order.  Only the class's OWN dict is consulted by the Python (members inherited from
a base class are invisible to `name_from_value`).

Restrictions of the model: `BitFieldEnum` values are naturals (Python allows negative ints, for which
`|` is two's-complement); `str.isupper()` is modelled for ASCII letters only.
-/
namespace PyCraft.Enums

/-- `str.isupper()`: at least one cased character and no lower-case character (ASCII model). -/
def pyIsUpper (s : String) : Bool :=
  s.toList.any Char.isUpper && !s.toList.any Char.isLower

/-- `Enum.name_from_value`:
`for name, name_value in cls.__dict__.items(): if name.isupper() and name_value == value: return name`
(falls off the end → `None`). -/
def enumNameFromValue : List (String × Int) → Int → Option String
  | [], _ => none
  | (n, v) :: rest, value =>
    if pyIsUpper n && v == value then some n else enumNameFromValue rest value

/-- One insertion step of the stable descending sort: `p` (which precedes every element of the
list in the original order) goes before the first element whose key is `≤` its own. -/
def insDesc (p : String × Nat) : List (String × Nat) → List (String × Nat)
  | [] => [p]
  | q :: qs => if q.2 ≤ p.2 then p :: q :: qs else q :: insDesc p qs

/-- `sorted(l, reverse=True, key=lambda p: p[1])`: descending by value, and — as Python's `sorted`
keeps stability also under `reverse=True` — elements with equal values stay in original order. -/
def sortDesc : List (String × Nat) → List (String × Nat)
  | [] => []
  | p :: ps => insDesc p (sortDesc ps)

/-- The list comprehension
`[(n, v) for (n, v) in cls.__dict__.items() if isinstance(v, int) and n.isupper() and v | value == value]`. -/
def candidates (members : List (String × Nat)) (value : Nat) : List (String × Nat) :=
  members.filter fun p => pyIsUpper p.1 && (p.2 ||| value == value)

/-- The `for cls_name, cls_value in sorted(...)` loop; state = `(ret_names, ret_value)`;
`ret_names` is kept in append order. -/
def greedy (value : Nat) : List (String × Nat) → List String × Nat → List String × Nat
  | [], st => st
  | (n, v) :: rest, (names, ret) =>
    if ret ||| v != ret || v == value then greedy value rest (names ++ [n], ret ||| v)
    else greedy value rest (names, ret)

/-- The names selected by `BitFieldEnum.name_from_value`, already `reversed(...)`; `none` when the
final `ret_value` differs from `value` (Python falls off the end and returns `None`). -/
def chosenNames (members : List (String × Nat)) (value : Nat) : Option (List String) :=
  let st := greedy value (sortDesc (candidates members value)) ([], 0)
  if st.2 == value then some st.1.reverse else none

/-- `'|'.join(names)` on character lists. -/
def joinChars : List (List Char) → List Char
  | [] => []
  | [a] => a
  | a :: b :: rest => a ++ '|' :: joinChars (b :: rest)

/-- `'|'.join(names)`. -/
def joinBar (names : List String) : String := String.ofList (joinChars (names.map String.toList))

/-- `BitFieldEnum.name_from_value(value)` for an `int` value (for a non-int the Python returns `None`
at once): `'|'.join(reversed(ret_names)) if ret_names else '0'`. -/
def nameFromValue (members : List (String × Nat)) (value : Nat) : Option String :=
  match chosenNames members value with
  | none => none
  | some [] => some "0"
  | some (n :: ns) => some (joinBar (n :: ns))

/-! ### Parsing a printed name back (not in the Python: the inverse the property speaks about) -/

/-- Split a character list at every `'|'` (like `str.split('|')`: always at least one piece). -/
def splitBarAux : List Char → List Char → List (List Char)
  | cur, [] => [cur.reverse]
  | cur, c :: cs => if c = '|' then cur.reverse :: splitBarAux [] cs else splitBarAux (c :: cur) cs

def splitBar (s : String) : List String := (splitBarAux [] s.toList).map String.ofList

/-- The upper-case members, i.e. the names `name_from_value` can ever print. -/
def upperMembers (members : List (String × Nat)) : List (String × Nat) :=
  members.filter fun p => pyIsUpper p.1

def lookupName (n : String) : List (String × Nat) → Option Nat
  | [] => none
  | (m, v) :: rest => if m = n then some v else lookupName n rest

/-- Value of one `|`-separated piece: a member name, or the literal `0`. -/
def tokenValue (members : List (String × Nat)) (tok : String) : Option Nat :=
  match lookupName tok (upperMembers members) with
  | some v => some v
  | none => if tok = "0" then some 0 else none

def orAll (l : List Nat) : Nat := l.foldr (· ||| ·) 0

/-- OR of the values of a list of pieces; `none` if some piece is not a name. -/
def tokensValue (members : List (String × Nat)) : List String → Option Nat
  | [] => some 0
  | t :: ts =>
    match tokenValue members t, tokensValue members ts with
    | some a, some b => some (a ||| b)
    | _, _ => none

/-- Parse `NAME|NAME|…` (or `0`) back to the OR of the member values. -/
def parseName (members : List (String × Nat)) (s : String) : Option Nat :=
  tokensValue members (splitBar s)

/-- Instantiation scheme for a concrete (generated) enum: every byte value that prints parses back
to itself.  Dischargeable by `decide +kernel`. -/
def checkEnum (members : List (String × Nat)) : Bool :=
  (List.range 256).all fun v =>
    match nameFromValue members v with
    | some s => parseName members s == some v
    | none => true

end PyCraft.Enums
