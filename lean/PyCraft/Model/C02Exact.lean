import PyCraft.Model.Wire
import PyCraft.Model.Scaled
/-!
Python-level model of the four primitive wire types whose *value ↔ wire integer* step is NOT covered by
`Model/Wire.lean` (there the value of `.fixed`, `.uuid`, `.int .f32/.f64` is already the wire
integer / the 16 bytes / the bit pattern):

* `FixedPoint`   (`minecraft/networking/types/basic.py:114-129`): the object carries `integer_type`
  and `denominator = 2**fractional_bits`; `send`/`read` scale by *that* denominator; `read` is Python's
  `int / int`, i.e. the correctly rounded binary64 quotient (`intTrueDiv`, CPython `long_true_divide`).
* `UUID`         (`basic.py:303-310`): `uuid.UUID(text).bytes` / `str(uuid.UUID(bytes=…))`
  (CPython 3.12 `Lib/uuid.py`, `UUID.__init__` hex branch and `UUID.__str__`, and `int(hex, 16)` of
  `Objects/longobject.c:PyLong_FromString` restricted to ASCII input).
* `Float`/`Double` (`basic.py:230-247`): a Python `float` IS an IEEE-754 binary64, here its 64-bit
  pattern `x < 2^64`. `struct.pack('>d')` stores the pattern; `struct.pack('>f')` is
  `PyFloat_Pack4` (`Objects/floatobject.c`): the C cast `(float)x` (IEEE roundTiesToEven, modelled by
  `castF32`), the test `isinf(y) && !isinf(x)` → `OverflowError`, then the 4 bytes big-endian.
  `struct.unpack('>f')` is the exact C cast `(double)y` (`widenF32`).
* the class-name → wire-format map (which `struct` code each class of `basic.py` uses).

Everything is in `namespace PyCraft.C02X` (no clash with other models). Core Lean only.
-/
namespace PyCraft.C02X
open PyCraft

/-! ## FixedPoint (basic.py:114-129) -/

/-- a `FixedPoint` instance: its two slots (basic.py:115) -/
structure FixedPointT where
  integerType : IntT
  denominator : Nat
deriving DecidableEq, Repr

/-- `FixedPoint.__init__(self, integer_type, fractional_bits=5)` (basic.py:117-119):
`self.denominator = 2**fractional_bits`. -/
def FixedPointT.init (integerType : IntT) (fractionalBits : Nat := 5) : FixedPointT :=
  ⟨integerType, 2 ^ fractionalBits⟩

/-- `FixedPointInteger = FixedPoint(Integer)` (basic.py:129). -/
def fixedPointInteger : FixedPointT := FixedPointT.init .i32

/-- `FixedPoint.send` (basic.py:124-125): `self.integer_type.send(int(value * self.denominator))`
for a finite Python FLOAT `value = p / q` (`q > 0`). Multiplying a binary64 by a power of two is
exact unless the product reaches `2^1024`, where it becomes `inf` and `int(inf)` raises
`OverflowError` (`Err.other`); otherwise `int()` truncates the exact product toward zero and the
integer type's own range check (`struct.error`) is the only failure. (For a Python `int` value the
product is exact and the first branch does not exist.) -/
def FixedPointT.send (cc : CustomCodec) (fp : FixedPointT) (p q : Int) : Except Err Bytes :=
  let n := p * (fp.denominator : Int)
  if (2 : Int) ^ 1024 * q ≤ n ∨ (2 : Int) ^ 1024 * q ≤ -n then .error .other
  else encode cc (.int fp.integerType) (.int (Int.tdiv n q))

/-- every `(base, bits)` of a `.fixed` code occurring in a wire type (used to read the generated
packet layouts) -/
def fixedCodes : WType → List (IntT × Nat)
  | .fixed b n => [(b, n)]
  | .array _ t => fixedCodes t
  | _ => []

/-! ## UUID (basic.py:303-310, CPython `uuid.UUID`) -/

/-- `str.replace(pat, '')` for a non-empty `pat`: remove the non-overlapping occurrences, scanning
left to right (`skip` = characters of a matched occurrence still to drop). -/
def removeSubGo (pat : List Char) : Nat → List Char → List Char
  | _, [] => []
  | skip + 1, _ :: cs => removeSubGo pat skip cs
  | 0, c :: cs =>
    if pat.isPrefixOf (c :: cs) then removeSubGo pat (pat.length - 1) cs
    else c :: removeSubGo pat 0 cs

def strRemove (pat s : List Char) : List Char := removeSubGo pat 0 s

/-- `str.strip(chars)` -/
def stripChars (set : List Char) (s : List Char) : List Char :=
  ((s.dropWhile (fun c => set.contains c)).reverse.dropWhile (fun c => set.contains c)).reverse

/-- `Py_ISSPACE` on ASCII -/
def isPySpace (c : Char) : Bool :=
  c == ' ' || c == '\t' || c == '\n' || c == '\x0b' || c == '\x0c' || c == '\r'

/-- the digit scan of `long_from_string_base` for base 16: hex digits with single underscores between
them; returns the accumulated value, the number of digits and the unread rest; `none` on a doubled
or trailing underscore. -/
def scanHex : (prevUnderscore : Bool) → (acc nd : Nat) → List Char → Option (Nat × Nat × List Char)
  | pu, acc, nd, [] => if pu then none else some (acc, nd, [])
  | pu, acc, nd, c :: cs =>
    if c = '_' then (if pu then none else scanHex true acc nd cs)
    else match hexVal c with
      | some d => scanHex false (16 * acc + d) (nd + 1) cs
      | none => if pu then none else some (acc, nd, c :: cs)

/-- optional sign of `PyLong_FromString`: `(negative?, rest)` -/
def pySign : List Char → Bool × List Char
  | '+' :: r => (false, r)
  | '-' :: r => (true, r)
  | s => (false, s)

/-- optional `0x` / `0X` prefix for base 16, after which ONE underscore is allowed -/
def pyHexPrefix : List Char → List Char
  | '0' :: 'x' :: '_' :: r => r
  | '0' :: 'x' :: r => r
  | '0' :: 'X' :: '_' :: r => r
  | '0' :: 'X' :: r => r
  | s => s

/-- `long_from_string_base` and the tail of `PyLong_FromString`: no leading underscore, the digit
scan, at least one digit, then only white space -/
def pyHexBody : List Char → Option Nat
  | '_' :: _ => none
  | s =>
    match scanHex false 0 0 s with
    | none => none
    | some (v, nd, rest) => if nd = 0 then none else if rest.all isPySpace then some v else none

/-- `int(s, 16)` for an ASCII string (`PyLong_FromString`): leading white space, optional sign,
optional `0x`/`0X` (after which one underscore is allowed), digits with single inner underscores, at
least one digit, trailing white space, nothing else. `none` = `ValueError`. (Non-ASCII input —
Python also accepts Unicode decimal digits and white space — is outside this model: it yields
`none`.) -/
def pyIntHex (s : List Char) : Option Int :=
  let sg := pySign (s.dropWhile isPySpace)
  match pyHexBody (pyHexPrefix sg.2) with
  | none => none
  | some v => some (if sg.1 then -(v : Int) else (v : Int))

/-- `uuid.UUID(hex).bytes` (`UUID.__init__`, hex branch): strip `urn:`/`uuid:`, braces and dashes,
require 32 characters, `int(hex, 16)`, require `0 <= int < 1<<128`, 16 bytes big-endian. Every
failure is a `ValueError`. -/
def uuidParseChars (s : List Char) : Except Err Bytes :=
  let h := strRemove "uuid:".toList (strRemove "urn:".toList s)
  let h := (stripChars ['{', '}'] h).filter (fun c => c != '-')
  if h.length ≠ 32 then .error .value else
  match pyIntHex h with
  | none => .error .value
  | some n => if 0 ≤ n ∧ n < 2 ^ 128 then .ok (beBytes 16 n.toNat) else .error .value

def uuidParse (s : String) : Except Err Bytes := uuidParseChars s.toList

/-- `'%0<n>x' % v` for `v < 16^n`: `n` lower-case hex digits, most significant first -/
def hexDigitsN : Nat → Nat → List Char
  | 0, _ => []
  | n + 1, v => hexDigit (v / 16 ^ n % 16) :: hexDigitsN n (v % 16 ^ n)

/-- `'%s-%s-%s-%s-%s' % (hex[:8], hex[8:12], hex[12:16], hex[16:20], hex[20:])` -/
def dashed (h : List Char) : List Char :=
  h.take 8 ++ '-' :: (h.drop 8).take 4 ++ '-' :: (h.drop 12).take 4 ++ '-' ::
    (h.drop 16).take 4 ++ '-' :: h.drop 20

/-- `str(uuid.UUID(bytes=b))` (`UUID.__str__`) for 16 bytes `b`: `int.from_bytes(b)` big-endian,
`'%032x'`, dashes. -/
def uuidTextChars (b : Bytes) : List Char := dashed (hexDigitsN 32 (beValue b))

def uuidText (b : Bytes) : String := String.ofList (uuidTextChars b)

/-- `UUID.send(value, socket)` (basic.py:309-310): `socket.send(uuid.UUID(value).bytes)`; the last
step is the existing byte-level `.uuid` codec. -/
def uuidSend (cc : CustomCodec) (s : String) : Except Err Bytes := do
  let b ← uuidParse s
  encode cc .uuid (.bytes b)

/-- `UUID.read(file_object)` (basic.py:305-306): `str(uuid.UUID(bytes=file_object.read(16)))`;
a short read is `ValueError('bytes is not a 16-char string')`. -/
def uuidRead (cc : CustomCodec) (bs : Bytes) : Except Err (String × Bytes) := do
  let (v, r) ← decode cc .uuid bs
  match v with
  | .bytes b => pure (uuidText b, r)
  | _ => .error .type

/-- value of a string of hex digits (either case), most significant first; a non-digit counts 0.
Used only to STATE what the text denotes. -/
def hexValue : List Char → Nat
  | [] => 0
  | c :: r => (hexVal c).getD 0 * 16 ^ r.length + hexValue r

def lowerHexChars : List Char := "0123456789abcdef".toList

/-- the canonical text form: 32 lower-case hex digits with dashes after the 8th, 12th, 16th and
20th — the only form `UUID.read` ever returns. -/
def isCanonicalUuid (s : String) : Bool :=
  let h := s.toList.filter (fun c => c != '-')
  h.length == 32 && h.all (fun c => lowerHexChars.contains c) && s.toList == dashed h

/-! ## Float / Double (basic.py:230-247) -/

/-- magnitude, in units of `2^-1074`, of the finite binary64 whose pattern without the sign bit is
`m` (`m / 2^52 < 2047`): IEEE-754 §3.4 — subnormal `F·2^-1074`, normal `(2^52+F)·2^(E-1075)`. -/
def f64Mag (m : Nat) : Nat :=
  let E := m / 2 ^ 52
  let F := m % 2 ^ 52
  if E = 0 then F else (2 ^ 52 + F) * 2 ^ (E - 1)

/-- magnitude, in units of `2^-149`, of the finite binary32 whose pattern without the sign bit is
`r` (`r / 2^23 < 255`): subnormal `F·2^-149`, normal `(2^23+F)·2^(E-150)`. -/
def f32Mag (r : Nat) : Nat :=
  let E := r / 2 ^ 23
  let F := r % 2 ^ 23
  if E = 0 then F else (2 ^ 23 + F) * 2 ^ (E - 1)

/-- `|a - b|` on naturals (used to STATE nearness) -/
def absDiff (a b : Nat) : Nat := (a - b) + (b - a)

/-- the nearest integer to `M / G`, ties to the even one -/
def rneNat (M G : Nat) : Nat :=
  let q := M / G
  let r := M % G
  if 2 * r < G then q else if 2 * r > G then q + 1 else if q % 2 = 0 then q else q + 1

/-- exponent (in units of `2^-1074`) of the binary32 spacing at magnitude `M`: `ulp = 2^(⌊log2 M⌋-23)`
but never below the subnormal spacing `2^-149 = 2^925` units -/
def f32Quantum (M : Nat) : Nat := max (M.log2 - 23) 925

/-- IEEE-754 roundTiesToEven of the magnitude `M · 2^-1074` to binary32, as a sign-less pattern: round
to a multiple of the spacing and pack exponent and significand (a carry out of the significand
propagates into the exponent field by plain addition). The result may reach or exceed the pattern
`0x7F800000` of infinity: that is the overflow case. -/
def roundMagF32 (M : Nat) : Nat :=
  if M = 0 then 0 else
  let qe := f32Quantum M
  (qe - 925) * 2 ^ 23 + rneNat M (2 ^ qe)

def f32InfPat : Nat := 0x7F800000
def f64InfPat : Nat := 0x7FF0000000000000

/-- the C cast `(float)x` on patterns: NaN → quiet NaN keeping the sign and the top 22 payload bits,
∞ → ∞, finite → roundTiesToEven (overflowing to ∞). -/
def castF32 (x : Nat) : Nat :=
  let s := x / 2 ^ 63
  let m := x % 2 ^ 63
  let E := m / 2 ^ 52
  let F := m % 2 ^ 52
  if E = 2047 then
    if F = 0 then s * 2 ^ 31 + f32InfPat
    else s * 2 ^ 31 + 0x7FC00000 + F / 2 ^ 29 % 2 ^ 22
  else s * 2 ^ 31 + min (roundMagF32 (f64Mag m)) f32InfPat

/-- the C cast `(double)y` on patterns (always exact; a NaN is quieted, payload kept) -/
def widenF32 (r : Nat) : Nat :=
  let s := r / 2 ^ 31
  let m := r % 2 ^ 31
  let E := m / 2 ^ 23
  let F := m % 2 ^ 23
  if E = 255 then
    s * 2 ^ 63 + f64InfPat + (if F = 0 then 0 else 2 ^ 51 + F % 2 ^ 22 * 2 ^ 29)
  else if E = 0 then
    if F = 0 then s * 2 ^ 63
    else s * 2 ^ 63 + (F.log2 + 874) * 2 ^ 52 + (F * 2 ^ (52 - F.log2) - 2 ^ 52)
  else s * 2 ^ 63 + (E + 896) * 2 ^ 52 + F * 2 ^ 29

/-! ## Python `int / int` (CPython `Objects/longobject.c:long_true_divide`) and `FixedPoint.read` -/

/-- exponent (in units of `2^-1074`) of the binary64 spacing at a magnitude of `t` units (`t` the
integer part): `ulp = 2^(⌊log2 t⌋-52)`, never below the subnormal spacing of one unit -/
def f64Quantum (t : Nat) : Nat := t.log2 - 52

/-- IEEE-754 roundTiesToEven of the RATIONAL magnitude `(N / d) · 2^-1074` (`d > 0`) to binary64, as a
sign-less pattern: round `N / d` to a multiple of the spacing at that magnitude (ties to the even
multiple) and pack exponent and significand (a carry out of the significand propagates into the
exponent field by plain addition). The result reaches the pattern `0x7FF0000000000000` of infinity
exactly when the rounded value is `≥ 2^1024`: the overflow case. -/
def roundQuotF64 (N d : Nat) : Nat :=
  let qe := f64Quantum (N / d)
  qe * 2 ^ 52 + rneNat N (d * 2 ^ qe)

/-- Python `a / d` for `int`s, `d ≥ 0` (`long_true_divide`): `ZeroDivisionError` for `d = 0`;
otherwise the CORRECTLY ROUNDED binary64 quotient (round-half-to-even of the exact `a / d`; sign of
`a`, also on a zero result of a negative `a` that underflowed), as a binary64 pattern;
`OverflowError('integer division result too large for a float')` when that would be infinite. Both
errors are `Err.other`. -/
def intTrueDiv (a : Int) (d : Nat) : Except Err Nat :=
  if d = 0 then .error .other
  else
    let m := roundQuotF64 (a.natAbs * 2 ^ 1074) d
    if f64InfPat ≤ m then .error .other
    else .ok ((if a < 0 then 2 ^ 63 else 0) + m)

/-- `FixedPoint.read` (basic.py:121-122): `self.integer_type.read(file_object) / self.denominator` —
Python TRUE DIVISION of an `int` by an `int`: the result is a Python `float`, the correctly rounded
binary64 quotient (`intTrueDiv`), returned here as its binary64 pattern. It equals the exact fraction
`raw / denominator` whenever that is a binary64 (always for `|raw| < 2^53` and a denominator up to
`2^1074`, hence for every base type of at most 32 bits); for 64-bit bases beyond `2^53` it is the
nearest binary64, ties to even (`read` of `00 20 00 00 00 00 00 01` as `FixedPoint(Long, 0)` is
`9007199254740992.0`, not `9007199254740993`). -/
def FixedPointT.read (cc : CustomCodec) (fp : FixedPointT) (bs : Bytes) :
    Except Err (Nat × Bytes) := do
  let (v, r) ← decode cc (.int fp.integerType) bs
  match v with
  | .int w => do
    let x ← intTrueDiv w fp.denominator
    pure (x, r)
  | _ => .error .type

/-- the exact value of the finite binary64 with pattern `x`, as an unreduced fraction
`(numerator, denominator)` — what `fractions.Fraction(float)` denotes -/
def f64Frac (x : Nat) : Int × Nat :=
  (if x / 2 ^ 63 % 2 = 1 then -(f64Mag (x % 2 ^ 63) : Int) else (f64Mag (x % 2 ^ 63) : Int), 2 ^ 1074)

/-- the same fraction in lowest terms (for printing) -/
def f64FracReduced (x : Nat) : Int × Nat :=
  let f := f64Frac x
  let g := Nat.gcd f.1.natAbs f.2
  (f.1 / (g : Int), f.2 / g)

/-- `Double.send` (basic.py:246-247): `struct.pack('>d', value)`: the 64-bit pattern, big-endian. -/
def doubleSend (cc : CustomCodec) (x : Nat) : Except Err Bytes := encode cc (.int .f64) (.int x)

/-- `Double.read` (basic.py:242-243) -/
def doubleRead (cc : CustomCodec) (bs : Bytes) : Except Err (Nat × Bytes) := do
  let (v, r) ← decode cc (.int .f64) bs
  match v with
  | .int w => pure (w.toNat, r)
  | _ => .error .type

/-- `Float.send` (basic.py:236-237): `struct.pack('>f', value)` = `PyFloat_Pack4`: cast, then
`OverflowError('float too large to pack with f format')` (`Err.other`) when the cast produced an
infinity from a finite value, then the 32-bit pattern big-endian. -/
def floatSend (cc : CustomCodec) (x : Nat) : Except Err Bytes :=
  let y := castF32 x
  if y % 2 ^ 31 = f32InfPat ∧ x % 2 ^ 63 ≠ f64InfPat then .error .other
  else encode cc (.int .f32) (.int y)

/-- `Float.read` (basic.py:232-233): `struct.unpack('>f', …)`: the Python float (binary64 pattern)
with the value of the binary32 read. -/
def floatRead (cc : CustomCodec) (bs : Bytes) : Except Err (Nat × Bytes) := do
  let (v, r) ← decode cc (.int .f32) bs
  match v with
  | .int w => pure (widenF32 w.toNat, r)
  | _ => .error .type

/-! ## class name → wire format (the `struct` code / codec each class of `basic.py` uses) -/

/-- the model code of each class of `types/basic.py` whose Python value coincides with the model
value (`Float`/`Double` at pattern level, `UUID` at 16-byte level, `Angle` at step level are listed
for their byte layer; their value layers are `floatSend`, `uuidSend`, `angleStep`). `FixedPoint` and
`PrefixedArray` are instances, `Position`/`NBT` are custom codecs. -/
def classWType : String → Option WType
  | "Boolean" => some .bool
  | "UnsignedByte" => some (.int .u8)
  | "Byte" => some (.int .i8)
  | "Short" => some (.int .i16)
  | "UnsignedShort" => some (.int .u16)
  | "Integer" => some (.int .i32)
  | "Long" => some (.int .i64)
  | "UnsignedLong" => some (.int .u64)
  | "Float" => some (.int .f32)
  | "Double" => some (.int .f64)
  | "VarInt" => some .varint
  | "VarLong" => some .varlong
  | "String" => some .string
  | "UUID" => some .uuid
  | "Angle" => some .angle
  | "ShortPrefixedByteArray" => some .bytesShort
  | "VarIntPrefixedByteArray" => some .bytesVarint
  | "TrailingByteArray" => some .trailing
  | _ => none

/-- the fixed-width code of a class usable as `FixedPoint.integer_type` -/
def classIntT (name : String) : Option IntT :=
  match classWType name with
  | some (.int t) => some t
  | _ => none

/-- structural equality of model values (for comparing `read` results in probe tables) -/
def valueBeq : Value → Value → Bool
  | .bool a, .bool b => a == b
  | .int a, .int b => a == b
  | .bytes a, .bytes b => a == b
  | .str a, .str b => a == b
  | .list as, .list bs => listBeq as bs
  | _, _ => false
where
  listBeq : List Value → List Value → Bool
    | [], [] => true
    | a :: as, b :: bs => valueBeq a b && listBeq as bs
    | _, _ => false

/-! ## checks of one row of the live probe tables (`Generated/WireFormats.lean`)

Boolean, so that a whole table is checked by kernel evaluation; `cc` is the custom codec (none of
the probed classes uses it). -/

/-- (class, value sent, live bytes or error, live value read back from `bytes ++ [aa, bb]` — from
`bytes` alone for `TrailingByteArray`): the model code of the class produces the same bytes/error and
reads the same value back, leaving exactly the appended tail. -/
def scalarProbeOk (cc : CustomCodec) (row : String × Value × Except Err Bytes × Option Value) : Bool :=
  match classWType row.1 with
  | none => false
  | some t =>
    (encode cc t row.2.1 == row.2.2.1) &&
    match row.2.2.1, row.2.2.2 with
    | .ok bs, some back =>
      let tail : Bytes := if t == .trailing then [] else [0xaa, 0xbb]
      (match decode cc t (bs ++ tail) with
        | .ok (v, r) => valueBeq v back && r == tail
        | .error _ => false)
    | .ok _, none => false
    | .error _, back => back.isNone

/-- (binary64 pattern x, live `Double.send`, live pattern read back, for finite x the sign and
`|value|·2^1074` reported by `float.as_integer_ratio`) -/
def doubleProbeOk (cc : CustomCodec) (row : Nat × Except Err Bytes × Nat × Option (Bool × Nat)) : Bool :=
  (doubleSend cc row.1 == row.2.1) &&
  (match row.2.1 with
    | .ok bs => doubleRead cc bs == .ok (row.2.2.1, [])
    | .error _ => false) &&
  (row.2.2.1 == row.1) &&
  (if row.1 % 2 ^ 63 / 2 ^ 52 = 2047 then row.2.2.2.isNone
   else row.2.2.2 == some (decide (row.1 / 2 ^ 63 = 1), f64Mag (row.1 % 2 ^ 63)))

/-- (integer class, fractional_bits, live denominator, p, q, live `FixedPoint(cls, bits).send(p/q)`) -/
def fixedSendProbeOk (cc : CustomCodec)
    (row : String × Nat × Nat × Int × Int × Except Err Bytes) : Bool :=
  match classIntT row.1 with
  | none => false
  | some base =>
    ((FixedPointT.init base row.2.1).denominator == row.2.2.1) &&
    ((FixedPointT.init base row.2.1).send cc row.2.2.2.1 row.2.2.2.2.1 == row.2.2.2.2.2)

/-- (integer class, fractional_bits, bytes, reduced fraction num/den of the live
`FixedPoint(cls, bits).read(bytes ++ [9])`, i.e. the exact value of the float returned): the float the
model returns is finite and has exactly that value, `[9]` left unread -/
def fixedReadProbeOk (cc : CustomCodec) (row : String × Nat × Bytes × Int × Nat) : Bool :=
  match classIntT row.1 with
  | none => false
  | some base =>
    match (FixedPointT.init base row.2.1).read cc (row.2.2.1 ++ [9]) with
    | .ok (x, r) => (r == [9]) && (x % 2 ^ 63 / 2 ^ 52 != 2047) &&
        ((f64Frac x).1 * (row.2.2.2.2 : Int) == row.2.2.2.1 * ((f64Frac x).2 : Int))
    | .error _ => false

end PyCraft.C02X
