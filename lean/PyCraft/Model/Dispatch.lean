import PyCraft.Basic
/-!
Model of packet-listener dispatch:

* `minecraft/networking/packets/packet_listener.py` — `PacketListener.call_packet`;
* `minecraft/networking/connection.py` — `Connection.register_packet_listener`,
  `Connection._react`, `Connection._write_packet`.

Classes are natural numbers.  The class hierarchy is a list of `(child, parent)` edges; multiple
inheritance is allowed (several edges with the same child) and NO acyclicity / numbering assumption
is made: `isSub` searches with fuel `hier.length`, which is proved (in `Lemmas/Dispatch.lean`,
`isSub_iff_reach`) to be exactly the reflexive-transitive closure of the edge relation for EVERY
edge list.  `isSub hier c d` is Python's `issubclass(c, d)`, i.e. `isinstance(x, d)` for an `x`
of class `c`.

A listener's callback is abstracted to the one thing that matters for dispatch: whether it raises
`IgnorePacket` when invoked (`ignores`).  Listeners are stateless in the model.
-/
namespace PyCraft

/-- Class hierarchy: `(child, parent)` edges. -/
abbrev Hier := List (Nat × Nat)

/-- `issubclass(c, d)` searched to depth `fuel`. -/
def isSubFuel (hier : Hier) : Nat → Nat → Nat → Bool
  | 0, c, d => c == d
  | fuel + 1, c, d => c == d || hier.any (fun e => e.1 == c && isSubFuel hier fuel e.2 d)

/-- `issubclass(c, d)`. -/
def isSub (hier : Hier) (c d : Nat) : Bool := isSubFuel hier hier.length c d

/-- A registered `PacketListener`: `types` = `packets_to_listen` (in argument order), `ignores` =
the callback raises `IgnorePacket` when invoked.  `id` only names the listener in call logs. -/
structure Listener where
  id : Nat
  types : List Nat
  ignores : Bool
deriving Repr, DecidableEq

/-- The `for packet_type in self.packets_to_listen` loop of `call_packet`:
`(called, raisedIgnore)`.  On the first type the packet is an instance of, the callback is invoked
(once) and the method returns (`True`) or the callback's `IgnorePacket` propagates. -/
def callPacketLoop (hier : Hier) (ignores : Bool) (pktClass : Nat) : List Nat → Bool × Bool
  | [] => (false, false)
  | t :: ts =>
    if isSub hier pktClass t then (true, ignores) else callPacketLoop hier ignores pktClass ts

/-- `PacketListener.call_packet(packet)` → `(callback was invoked, IgnorePacket propagated)`. -/
def callPacket (hier : Hier) (l : Listener) (pktClass : Nat) : Bool × Bool :=
  callPacketLoop hier l.ignores pktClass l.types

/-- `for listener in <list>: listener.call_packet(packet)`; `tag` builds the log entry.  Returns
the log of callback invocations and whether an `IgnorePacket` escaped the loop. -/
def runListeners {ε : Type} (hier : Hier) (tag : Nat → ε) (pktClass : Nat) :
    List Listener → List ε × Bool
  | [] => ([], false)
  | l :: ls =>
    match callPacket hier l pktClass with
    | (true, true) => ([tag l.id], true)
    | (true, false) =>
      let r := runListeners hier tag pktClass ls
      (tag l.id :: r.1, r.2)
    | (false, _) => runListeners hier tag pktClass ls

/-- Entries of the incoming call log. -/
inductive Ev
  | early (id : Nat)
  | reaction
  | ordinary (id : Nat)
deriving Repr, DecidableEq

/-- `Connection._react(packet)`: early listeners, `self.reactor.react(packet)`, ordinary listeners,
all inside one `try … except IgnorePacket: pass`.  `reactionIgnores` = the built-in reaction raises
`IgnorePacket`.  Result: call log, and whether an `IgnorePacket` was swallowed. -/
def reactIncoming (hier : Hier) (early ordinary : List Listener) (reactionIgnores : Bool)
    (pktClass : Nat) : List Ev × Bool :=
  let r1 := runListeners hier Ev.early pktClass early
  if r1.2 then (r1.1, true)
  else if reactionIgnores then (r1.1 ++ [Ev.reaction], true)
  else
    let r2 := runListeners hier Ev.ordinary pktClass ordinary
    (r1.1 ++ [Ev.reaction] ++ r2.1, r2.2)

/-- Entries of the outgoing call log; `written` = `packet.write(self.socket, …)`. -/
inductive OutEv
  | earlyOut (id : Nat)
  | written
  | ordOut (id : Nat)
deriving Repr, DecidableEq

/-- `Connection._write_packet(packet)`: early outgoing listeners, the write, ordinary outgoing
listeners, inside one `try … except IgnorePacket: pass`.  (The write itself is assumed not to raise;
socket errors are the subject of other properties.) -/
def writeOutgoing (hier : Hier) (earlyOut ordOut : List Listener) (pktClass : Nat) : List OutEv :=
  let r1 := runListeners hier OutEv.earlyOut pktClass earlyOut
  if r1.2 then r1.1
  else
    let r2 := runListeners hier OutEv.ordOut pktClass ordOut
    r1.1 ++ [OutEv.written] ++ r2.1

/-- The four listener lists of a `Connection`. -/
structure Cfg where
  packetListeners : List Listener := []
  earlyPacketListeners : List Listener := []
  outgoingPacketListeners : List Listener := []
  earlyOutgoingPacketListeners : List Listener := []
deriving Repr, DecidableEq

/-- `register_packet_listener(method, *types, early=…, outgoing=…)`: the Python conditional
expression choosing `target`, then `target.append(PacketListener(…))`. -/
def register (cfg : Cfg) (l : Listener) (early outgoing : Bool) : Cfg :=
  if !early && !outgoing then { cfg with packetListeners := cfg.packetListeners ++ [l] }
  else if early && !outgoing then
    { cfg with earlyPacketListeners := cfg.earlyPacketListeners ++ [l] }
  else if !early then { cfg with outgoingPacketListeners := cfg.outgoingPacketListeners ++ [l] }
  else { cfg with earlyOutgoingPacketListeners := cfg.earlyOutgoingPacketListeners ++ [l] }

/-- One registration request. -/
structure Reg where
  l : Listener
  early : Bool
  outgoing : Bool
deriving Repr, DecidableEq

/-- A sequence of `register_packet_listener` calls. -/
def registerAll (cfg : Cfg) (rs : List Reg) : Cfg :=
  rs.foldl (fun c r => register c r.l r.early r.outgoing) cfg

/-- `_react` on a configured connection. -/
def Cfg.react (hier : Hier) (cfg : Cfg) (reactionIgnores : Bool) (pktClass : Nat) : List Ev × Bool :=
  reactIncoming hier cfg.earlyPacketListeners cfg.packetListeners reactionIgnores pktClass

/-- `_write_packet` on a configured connection. -/
def Cfg.write (hier : Hier) (cfg : Cfg) (pktClass : Nat) : List OutEv :=
  writeOutgoing hier cfg.earlyOutgoingPacketListeners cfg.outgoingPacketListeners pktClass

/-- A history of incoming packets (their classes), processed one `_react` call after the other.
`reactionIgnores` may depend on the packet class. -/
def runHistory (hier : Hier) (early ordinary : List Listener) (reactionIgnores : Nat → Bool) :
    List Nat → List (List Ev × Bool)
  | [] => []
  | c :: cs =>
    reactIncoming hier early ordinary (reactionIgnores c) c ::
      runHistory hier early ordinary reactionIgnores cs

/-- A history of outgoing packets. -/
def runOutHistory (hier : Hier) (earlyOut ordOut : List Listener) : List Nat → List (List OutEv)
  | [] => []
  | c :: cs => writeOutgoing hier earlyOut ordOut c :: runOutHistory hier earlyOut ordOut cs

end PyCraft
