import PyCraft.Model.McHash
import PyCraft.Model.Login
/-!
Model of the ENCODING step of `generate_verification_hash` (`minecraft/networking/encryption.py:35-42`)
and of the place the result goes to (`minecraft/networking/connection.py:732-736`).

```
def generate_verification_hash(server_id, shared_secret, public_key):      # encryption.py:35
    verification_hash = sha1()                                              # :36
    verification_hash.update(server_id.encode('utf-8'))                     # :38
    verification_hash.update(shared_secret)                                 # :39
    verification_hash.update(public_key)                                    # :40
    return minecraft_sha1_hash_digest(verification_hash)                    # :42
```

`Model/McHash.lean` starts from the three BYTE strings (`mcHash sid secret key`); the step
`server_id.encode('utf-8')` from a Python `str` to bytes is modelled here, twice:

* `pyUtf8Encode` — a Python `str` is a sequence of code points `0 … 0x10FFFF` (lone surrogates
  `0xD800 … 0xDFFF` included); the encoder mirrors CPython's `utf8_encoder`
  (`Objects/stringlib/codecs.h`), branch by branch, with the shifts and masks of the C source, and
  with its one failure point: a surrogate code point makes the strict error handler raise
  `UnicodeEncodeError` (a `ValueError`) — `Err.value`.  `generateVerificationHashCps` is
  `generate_verification_hash` on such a `str`.
* `generateVerificationHash` — the same function on a Lean `String` (a sequence of Unicode SCALAR
  values, which is exactly what the wire reader `String.read` = `bytes.decode('utf-8')` can produce,
  `minecraft/networking/types/basic.py`), using Lean's own `String.toUTF8`.  This is the function the
  login model's parameter `LoginParams.hash` stands for; `realHash` plugs it in.

`Lemmas/C17Utf8.lean` proves the two agree on every `String` and ties both to an independent
RFC 3629 reference (`utf8Ref`, `utf8DecodeRef`).
-/
namespace PyCraft.Utf8
open PyCraft

/-- `Py_UNICODE_IS_SURROGATE(ch)`: `0xD800 <= ch <= 0xDFFF`. -/
def isSurrogate (ch : Nat) : Bool := 0xD800 ≤ ch && ch ≤ 0xDFFF

/-- `(char) x` for the values that occur (all `< 256`). -/
def byte (x : Nat) : UInt8 := UInt8.ofNat x

/-- One iteration of the loop of CPython's `utf8_encoder` with `errors='strict'`:
```
if (ch < 0x80)            *p++ = ch;
else if (ch < 0x0800)     *p++ = 0xc0 | (ch >> 6);  *p++ = 0x80 | (ch & 0x3f);
else if (Py_UNICODE_IS_SURROGATE(ch))   raise UnicodeEncodeError      -- strict handler
else if (ch < 0x10000)    *p++ = 0xe0 | (ch >> 12); *p++ = 0x80 | ((ch >> 6) & 0x3f);
                          *p++ = 0x80 | (ch & 0x3f);
else  /* ch <= MAX_UNICODE */
                          *p++ = 0xf0 | (ch >> 18); *p++ = 0x80 | ((ch >> 12) & 0x3f);
                          *p++ = 0x80 | ((ch >> 6) & 0x3f); *p++ = 0x80 | (ch & 0x3f);
```
A Python `str` cannot hold a code point above `0x10FFFF` (`chr` raises `ValueError`); the model
answers `Err.value` for such a number as well, so that it is total on `Nat`. -/
def pyUtf8EncodeCp (ch : Nat) : Except Err Bytes :=
  if ch < 0x80 then .ok [byte ch]
  else if ch < 0x0800 then .ok [byte (0xc0 ||| (ch >>> 6)), byte (0x80 ||| (ch &&& 0x3f))]
  else if isSurrogate ch then .error .value
  else if ch < 0x10000 then
    .ok [byte (0xe0 ||| (ch >>> 12)), byte (0x80 ||| ((ch >>> 6) &&& 0x3f)),
         byte (0x80 ||| (ch &&& 0x3f))]
  else if ch ≤ 0x10FFFF then
    .ok [byte (0xf0 ||| (ch >>> 18)), byte (0x80 ||| ((ch >>> 12) &&& 0x3f)),
         byte (0x80 ||| ((ch >>> 6) &&& 0x3f)), byte (0x80 ||| (ch &&& 0x3f))]
  else .error .value

/-- `s.encode('utf-8')` for a `str` given by its code points: the loop, left to right; the first
surrogate aborts the whole call. -/
def pyUtf8Encode : List Nat → Except Err Bytes
  | [] => .ok []
  | ch :: rest => do
    let b ← pyUtf8EncodeCp ch
    let bs ← pyUtf8Encode rest
    pure (b ++ bs)

/-- `generate_verification_hash(server_id, shared_secret, public_key)` for a `str` given by its code
points (`encryption.py:35-42`): the encoding (`:38`) can raise, nothing else can. -/
def generateVerificationHashCps (serverId : List Nat) (secret key : Bytes) : Except Err String := do
  let sid ← pyUtf8Encode serverId        -- server_id.encode('utf-8')
  pure (mcHash sid secret key)           -- update ×3, minecraft_sha1_hash_digest

/-- The code points of a Lean string (all of them scalar values). -/
def codePoints (s : String) : List Nat := s.toList.map Char.toNat

/-- `generate_verification_hash` on a `str` without lone surrogates. -/
def generateVerificationHash (serverId : String) (secret key : Bytes) : String :=
  mcHash serverId.toUTF8.toList secret key

/-- The login model (`Model/Login.lean`) with its `hash` parameter instantiated by the real
function — `encryption.generate_verification_hash(packet.server_id, secret, packet.public_key)`,
`connection.py:733-734`. -/
def realHash (P : Login.LoginParams) : Login.LoginParams :=
  { P with hash := generateVerificationHash }

/-! ### A model of the CHANGED code `server_id.encode('utf-16-le')` (used only for the refutation in
`Props/C17Utf8.lean`: it satisfies every theorem of `Props/C17.lean`, which never mentions the
encoding, and violates `C17Utf8.hash_is_sha1_of_utf8`). -/

/-- CPython's UTF-16-LE encoder on scalar values: one 16-bit unit below `0x10000`, else the
surrogate pair `0xD800 | (ch-0x10000) >> 10`, `0xDC00 | (ch-0x10000) & 0x3FF`; each unit low byte
first. -/
def utf16leChar (c : Char) : Bytes :=
  let ch := c.toNat
  if ch < 0x10000 then [byte (ch &&& 0xff), byte (ch >>> 8)]
  else
    let v := ch - 0x10000
    let hi := 0xD800 ||| (v >>> 10)
    let lo := 0xDC00 ||| (v &&& 0x3FF)
    [byte (hi &&& 0xff), byte (hi >>> 8), byte (lo &&& 0xff), byte (lo >>> 8)]

/-- `generate_verification_hash` with line 38 changed to `.encode('utf-16-le')`. -/
def generateVerificationHashUtf16 (serverId : String) (secret key : Bytes) : String :=
  mcHash (serverId.toList.flatMap utf16leChar) secret key

/-- `generate_verification_hash` with lines 38 and 39 swapped (secret hashed before the id). -/
def generateVerificationHashSwapped (serverId : String) (secret key : Bytes) : String :=
  mcHash secret serverId.toUTF8.toList key

end PyCraft.Utf8
