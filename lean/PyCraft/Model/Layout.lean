import PyCraft.Model.Wire
/-!
Model of the generic packet body codec of `minecraft/networking/packets/packet.py`:

```
def read(self, file_object):
    for field in self.definition:
        for var_name, data_type in field.items():
            value = data_type.read_with_context(file_object, self.context)
            setattr(self, var_name, value)

def write_fields(self, packet_buffer):
    for field in self.definition:
        for var_name, data_type in field.items():
            data = getattr(self, var_name)
            data_type.send_with_context(data, packet_buffer, self.context)
```

A `definition` (list of dicts name → type, flattened in iteration order; the context has already
been applied, so the types are concrete) is a `Layout`.  Two levels:

* `encodeFields` / `decodeFields`: the values in field order;
* `writeFields` / `readFields`: the attribute dictionary of the packet instance (`getattr` of a
  missing attribute is `AttributeError` → `.error .other`, raised when that field is reached —
  after the earlier fields have been sent; `setattr` overwrites).
-/
namespace PyCraft

abbrev Layout := List (String × WType)

/-- `write_fields` on the values in field order: the bytes appended to the packet buffer; the
first failing `send` aborts.  A value list of the wrong length is `.error .type`. -/
def encodeFields (cc : CustomCodec) : Layout → List Value → Except Err Bytes
  | [], [] => .ok []
  | (_, t) :: L, v :: vs => do
    let a ← encode cc t v
    let b ← encodeFields cc L vs
    pure (a ++ b)
  | _, _ => .error .type

/-- `read`: the values in field order and the unread rest of the buffer -/
def decodeFields (cc : CustomCodec) : Layout → Bytes → Except Err (List Value × Bytes)
  | [], bs => .ok ([], bs)
  | (_, t) :: L, bs => do
    let (v, r) ← decode cc t bs
    let (vs, r') ← decodeFields cc L r
    pure (v :: vs, r')

/-- every value is in the domain of its field's type (and there are as many values as fields) -/
def WellTypedFields (cw : CustomT → Value → Prop) : Layout → List Value → Prop
  | [], [] => True
  | (_, t) :: L, v :: vs => WellTyped cw t v ∧ WellTypedFields cw L vs
  | _, _ => False

/-- a type that may stand LAST in a layout: its reader stops by itself, or it is the bare
`TrailingByteArray` (which reads to the end of the packet).  An ARRAY of trailing byte arrays is
not admissible even in last position: its first element swallows the others. -/
def WType.lastOk : WType → Bool
  | .trailing => true
  | t => t.selfDelimiting

/-- every field but the last is self-delimiting; the last is self-delimiting or `trailing` -/
def Layout.ok : Layout → Bool
  | [] => true
  | (_, t) :: L => (if L.isEmpty then t.lastOk else t.selfDelimiting) && Layout.ok L

/-- every field is self-delimiting (the packet body can be followed by other data) -/
def Layout.allSD (L : Layout) : Bool := L.all fun f => f.2.selfDelimiting

/-! ### the attribute level -/

abbrev Attrs := List (String × Value)

/-- `write_fields(packet_buffer)` of an instance whose `__dict__` is `attrs` -/
def writeFields (cc : CustomCodec) (attrs : Attrs) : Layout → Except Err Bytes
  | [] => .ok []
  | (n, t) :: L =>
    match attrs.lookup n with
    | none => .error .other
    | some v => do
      let a ← encode cc t v
      let b ← writeFields cc attrs L
      pure (a ++ b)

/-- `setattr(self, n, v)` -/
def setAttr (attrs : Attrs) (n : String) (v : Value) : Attrs :=
  (n, v) :: attrs.filter (fun kv => kv.1 != n)

/-- `read(file_object)` on an instance whose `__dict__` is `attrs`: the new `__dict__` and the
unread rest.  (When a field fails, the attributes already set stay set on the Python object; the
model returns only the error, the object is discarded by the caller.) -/
def readFields (cc : CustomCodec) : Layout → Attrs → Bytes → Except Err (Attrs × Bytes)
  | [], attrs, bs => .ok (attrs, bs)
  | (n, t) :: L, attrs, bs => do
    let (v, r) ← decode cc t bs
    readFields cc L (setAttr attrs n v) r

end PyCraft
