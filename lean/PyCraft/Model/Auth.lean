import PyCraft.Basic
/-!
Model of `minecraft/authentication.py` (`Profile`, `AuthenticationToken`, `_make_request`,
`_raise_from_response`) and of `minecraft.exceptions.YggdrasilError`.

The HTTP service is a *parameter*: every operation takes the reply `r` the service would give; the
reply is consulted only when a request is actually emitted.  `uuid.uuid4().hex` is the parameter
`fresh`.  Everything lives in `PyCraft.Auth` (the names `Token`, `Request`, `Outcome`, `join`, … are
too generic for the shared `PyCraft` namespace).

Modelling restrictions (stated once, here): token attributes and JSON member values are strings or
absent/`None` (no numbers, no JSON `null` *values* inside a reply object); the body of a reply is one
of the six shapes of `Body`.
-/
namespace PyCraft.Auth

/-- `AuthenticationToken`: `username`, `access_token`, `client_token` and the two attributes of
`self.profile` (`Profile.id_`, `Profile.name`); `none` is Python `None`. -/
structure Token where
  username : Option String
  accessToken : Option String
  clientToken : Option String
  profileId : Option String
  profileName : Option String
deriving DecidableEq, Repr

/-- The JSON object under `"selectedProfile"` of a success body; each of the two keys the code reads
(`["id"]`, `["name"]`) may be absent. -/
structure ProfileObj where
  id : Option String
  name : Option String
deriving DecidableEq, Repr

/-- Body of an HTTP reply, as far as the code can tell shapes apart.

* `result a c sp`: a JSON object without `"error"`/`"errorMessage"`; `a`, `c` are the values under
  `"accessToken"`, `"clientToken"` (`none` = key absent), `sp` the object under `"selectedProfile"`
  (`none` = key absent).
* `errorObj e m cause`: a JSON object with `"error": e`, `"errorMessage": m`, optionally `"cause"`, and
  none of the result keys.
* `partialErr`: a JSON object lacking `"error"` or `"errorMessage"` (and the result keys).
* `jsonNonObject`: valid JSON that is not an object (`5`, `null`, `[]`, `"x"` …).
* `nonJson`: text that is not JSON;  `empty`: the empty body (not JSON either). -/
inductive Body
  | result (accessToken clientToken : Option String) (selectedProfile : Option ProfileObj)
  | errorObj (error message : String) (cause : Option String)
  | partialErr
  | jsonNonObject
  | nonJson
  | empty
deriving DecidableEq, Repr

structure Reply where
  status : Nat
  body : Body
deriving DecidableEq, Repr

/-- What a call does, seen from the caller.

* `ret b`: returns the bool `b`;  `retNone`: falls off the end of the function (returns `None`).
* `yggdrasil status error message cause malformed`: `YggdrasilError` built by `_raise_from_response`:
  `status_code`, `yggdrasil_error`, `yggdrasil_message`, `yggdrasil_cause`; `malformed` says the text
  is `"[status] Malformed error message: '…'"` (then the three fields keep their class default `None`).
* `notAuthenticated`: `YggdrasilError("AuthenticationToken hasn't been authenticated yet!")` raised by
  `join` — no status code, no fields.
* `valueError`, `keyError`, `typeError`: the Python built-ins. -/
inductive Outcome
  | ret (b : Bool)
  | retNone
  | yggdrasil (status : Nat) (error message cause : Option String) (malformed : Bool)
  | notAuthenticated
  | valueError
  | keyError
  | typeError
deriving DecidableEq, Repr

/-- A JSON leaf of a request payload: string, `null` (a `None` attribute), or number. -/
inductive PayAtom
  | str (s : String)
  | null
  | num (n : Nat)
deriving DecidableEq, Repr

/-- A payload member: a leaf or a one-level object (`agent`, `selectedProfile`). -/
inductive PayVal
  | atom (a : PayAtom)
  | obj (fields : List (String × PayAtom))
deriving DecidableEq, Repr

/-- A token attribute as JSON: `None` → `null`. -/
def PayAtom.ofOpt : Option String → PayAtom
  | some s => .str s
  | none => .null

/-- `AUTH_SERVER` / `SESSION_SERVER`. -/
inductive Server
  | auth
  | session
deriving DecidableEq, Repr

def Server.url : Server → String
  | .auth => "https://authserver.mojang.com"
  | .session => "https://sessionserver.mojang.com/session/minecraft"

/-- One `_make_request(server, endpoint, data)`: a POST of `json.dumps(data)`; `payload` lists the
members of `data` in insertion order. -/
structure Request where
  server : Server
  endpoint : String
  payload : List (String × PayVal)
deriving DecidableEq, Repr

/-- `server + "/" + endpoint`. -/
def Request.url (q : Request) : String := q.server.url ++ "/" ++ q.endpoint

/-- Python truthiness of a `str`-or-`None` attribute: `None` and `""` are falsy. -/
def truthy : Option String → Bool
  | some s => s != ""
  | none => false

/-- `x or d`. -/
def orElse (x : Option String) (d : String) : String :=
  match x with
  | some s => if s != "" then s else d
  | none => d

/-- `AuthenticationToken.authenticated`; `not self.profile` is `Profile.__bool__`:
`id_ is not None and name is not None`. -/
def authenticated (t : Token) : Bool :=
  if !truthy t.username then false
  else if !truthy t.accessToken then false
  else if !truthy t.clientToken then false
  else if !(t.profileId.isSome && t.profileName.isSome) then false
  else true

/-- `_raise_from_response`: `none` = returns `None` (status 200 only); otherwise the exception raised.
`res.json()` failing (`nonJson`, `empty`) is a `ValueError`, caught like the explicit one. -/
def raiseFromResponse (r : Reply) : Option Outcome :=
  if r.status = 200 then none
  else
    match r.body with
    | .errorObj e m c => some (.yggdrasil r.status (some e) (some m) c false)
    | _ => some (.yggdrasil r.status none none none true)

/-- `res.json()` succeeds. -/
def Body.parses : Body → Bool
  | .nonJson => false
  | .empty => false
  | _ => true

/-- The four assignments shared by `authenticate` and `refresh`, in source order, each one evaluated
and stored before the next subscript is attempted:
`self.access_token = json_resp["accessToken"]`, `self.client_token = json_resp["clientToken"]`,
`self.profile.id_ = json_resp["selectedProfile"]["id"]`,
`self.profile.name = json_resp["selectedProfile"]["name"]`, then `return True`.
A missing key is a `KeyError`; subscripting a non-object with a string is a `TypeError`. -/
def storeReply (t : Token) : Body → Token × Outcome
  | .result a c sp =>
    match a with
    | none => (t, .keyError)
    | some a =>
      let t1 := { t with accessToken := some a }
      match c with
      | none => (t1, .keyError)
      | some c =>
        let t2 := { t1 with clientToken := some c }
        match sp with
        | none => (t2, .keyError)
        | some p =>
          match p.id with
          | none => (t2, .keyError)
          | some i =>
            let t3 := { t2 with profileId := some i }
            match p.name with
            | none => (t3, .keyError)
            | some n => ({ t3 with profileName := some n }, .ret true)
  | .errorObj _ _ _ => (t, .keyError)
  | .partialErr => (t, .keyError)
  | .jsonNonObject => (t, .typeError)
  | .nonJson => (t, .valueError)
  | .empty => (t, .valueError)

/-- `AuthenticationToken.authenticate(username, password, invalidate_previous)`. -/
def authenticate (fresh : String) (t : Token) (user pass : String) (invalidatePrev : Bool)
    (r : Reply) : Token × Outcome × Option Request :=
  let base : List (String × PayVal) :=
    [("agent", .obj [("name", .str "Minecraft"), ("version", .num 1)]),
     ("username", .atom (.str user)),
     ("password", .atom (.str pass))]
  let payload :=
    if !invalidatePrev then base ++ [("clientToken", .atom (.str (orElse t.clientToken fresh)))]
    else base
  let req : Request := ⟨.auth, "authenticate", payload⟩
  match raiseFromResponse r with
  | some e => (t, e, some req)
  | none =>
    if !r.body.parses then (t, .valueError, some req)      -- `json_resp = res.json()`
    else
      let s := storeReply { t with username := some user } r.body
      (s.1, s.2, some req)

/-- `AuthenticationToken.refresh()`. -/
def refresh (t : Token) (r : Reply) : Token × Outcome × Option Request :=
  match t.accessToken with
  | none => (t, .valueError, none)
  | some a =>
    match t.clientToken with
    | none => (t, .valueError, none)
    | some c =>
      let req : Request :=
        ⟨.auth, "refresh", [("accessToken", .atom (.str a)), ("clientToken", .atom (.str c))]⟩
      match raiseFromResponse r with
      | some e => (t, e, some req)
      | none =>
        if !r.body.parses then (t, .valueError, some req)
        else
          let s := storeReply t r.body
          (s.1, s.2, some req)

/-- `AuthenticationToken.validate()`: `if res.status_code == 204: return True`, else falls through. -/
def validate (t : Token) (r : Reply) : Token × Outcome × Option Request :=
  match t.accessToken with
  | none => (t, .valueError, none)
  | some a =>
    let req : Request := ⟨.auth, "validate", [("accessToken", .atom (.str a))]⟩
    if r.status = 204 then (t, .ret true, some req) else (t, .retNone, some req)

/-- `AuthenticationToken.invalidate()`: no precondition; `None` attributes are sent as `null`. -/
def invalidate (t : Token) (r : Reply) : Token × Outcome × Option Request :=
  let req : Request :=
    ⟨.auth, "invalidate", [("accessToken", .atom (.ofOpt t.accessToken)),
                           ("clientToken", .atom (.ofOpt t.clientToken))]⟩
  if r.status ≠ 204 then
    match raiseFromResponse r with
    | some e => (t, e, some req)
    | none => (t, .ret true, some req)
  else (t, .ret true, some req)

/-- `AuthenticationToken.sign_out(username, password)` — a `@staticmethod`: there is no token. -/
def signOut (user pass : String) (r : Reply) : Outcome × Request :=
  let req : Request :=
    ⟨.auth, "signout", [("username", .atom (.str user)), ("password", .atom (.str pass))]⟩
  match raiseFromResponse r with
  | some e => (e, req)
  | none => (.ret true, req)

/-- `AuthenticationToken.join(server_id)`; `self.profile.to_dict()` cannot raise once
`authenticated` holds. -/
def join (t : Token) (serverId : String) (r : Reply) : Token × Outcome × Option Request :=
  if !authenticated t then (t, .notAuthenticated, none)
  else
    let req : Request :=
      ⟨.session, "join",
        [("accessToken", .atom (.ofOpt t.accessToken)),
         ("selectedProfile", .obj [("id", .ofOpt t.profileId), ("name", .ofOpt t.profileName)]),
         ("serverId", .atom (.str serverId))]⟩
    if r.status ≠ 204 then
      match raiseFromResponse r with
      | some e => (t, e, some req)
      | none => (t, .ret true, some req)
    else (t, .ret true, some req)

/-- The six operations with their arguments. -/
inductive Op
  | authenticate (fresh user pass : String) (invalidatePrev : Bool)
  | refresh
  | validate
  | invalidate
  | signOut (user pass : String)
  | join (serverId : String)
deriving DecidableEq, Repr

/-- Run an operation on (or, for the static `sign_out`, next to) a token. -/
def run (op : Op) (t : Token) (r : Reply) : Token × Outcome × Option Request :=
  match op with
  | .authenticate fresh user pass inv => authenticate fresh t user pass inv r
  | .refresh => refresh t r
  | .validate => validate t r
  | .invalidate => invalidate t r
  | .signOut user pass => (t, (signOut user pass r).1, some (signOut user pass r).2)
  | .join sid => join t sid r

end PyCraft.Auth
