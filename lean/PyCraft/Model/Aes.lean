import PyCraft.Basic
/-!
Executable AES-128 block encryption (FIPS-197), the block function under
`Cipher(algorithms.AES(secret), modes.CFB8(secret))` in `minecraft/networking/encryption.py`.
Only the forward cipher is needed: CFB mode uses the block *encryption* in both directions.

Inside the cipher a byte is a `Nat` below 256 (the kernel evaluates `Nat.xor`, `%`, `/` on literals
natively, which makes `decide +kernel` on the FIPS-197 / SP 800-38A vectors in `Props/C18.lean`
cheap; compiled, small `Nat`s are unboxed).  The 16-byte state is the flat list `s0 … s15` in input
order, i.e. column-major (`s[r, c] = s(r + 4c)`, FIPS-197 §3.4); a round key is laid out the same
way (four words).  ONE definition serves both the compiled driver and kernel evaluation.
-/
namespace PyCraft

/-- FIPS-197 Figure 7, laid out as printed there: row = high nibble, column = low nibble. -/
def aesSboxTable : List (List Nat) := [
  [0x63, 0x7c, 0x77, 0x7b, 0xf2, 0x6b, 0x6f, 0xc5, 0x30, 0x01, 0x67, 0x2b, 0xfe, 0xd7, 0xab, 0x76],
  [0xca, 0x82, 0xc9, 0x7d, 0xfa, 0x59, 0x47, 0xf0, 0xad, 0xd4, 0xa2, 0xaf, 0x9c, 0xa4, 0x72, 0xc0],
  [0xb7, 0xfd, 0x93, 0x26, 0x36, 0x3f, 0xf7, 0xcc, 0x34, 0xa5, 0xe5, 0xf1, 0x71, 0xd8, 0x31, 0x15],
  [0x04, 0xc7, 0x23, 0xc3, 0x18, 0x96, 0x05, 0x9a, 0x07, 0x12, 0x80, 0xe2, 0xeb, 0x27, 0xb2, 0x75],
  [0x09, 0x83, 0x2c, 0x1a, 0x1b, 0x6e, 0x5a, 0xa0, 0x52, 0x3b, 0xd6, 0xb3, 0x29, 0xe3, 0x2f, 0x84],
  [0x53, 0xd1, 0x00, 0xed, 0x20, 0xfc, 0xb1, 0x5b, 0x6a, 0xcb, 0xbe, 0x39, 0x4a, 0x4c, 0x58, 0xcf],
  [0xd0, 0xef, 0xaa, 0xfb, 0x43, 0x4d, 0x33, 0x85, 0x45, 0xf9, 0x02, 0x7f, 0x50, 0x3c, 0x9f, 0xa8],
  [0x51, 0xa3, 0x40, 0x8f, 0x92, 0x9d, 0x38, 0xf5, 0xbc, 0xb6, 0xda, 0x21, 0x10, 0xff, 0xf3, 0xd2],
  [0xcd, 0x0c, 0x13, 0xec, 0x5f, 0x97, 0x44, 0x17, 0xc4, 0xa7, 0x7e, 0x3d, 0x64, 0x5d, 0x19, 0x73],
  [0x60, 0x81, 0x4f, 0xdc, 0x22, 0x2a, 0x90, 0x88, 0x46, 0xee, 0xb8, 0x14, 0xde, 0x5e, 0x0b, 0xdb],
  [0xe0, 0x32, 0x3a, 0x0a, 0x49, 0x06, 0x24, 0x5c, 0xc2, 0xd3, 0xac, 0x62, 0x91, 0x95, 0xe4, 0x79],
  [0xe7, 0xc8, 0x37, 0x6d, 0x8d, 0xd5, 0x4e, 0xa9, 0x6c, 0x56, 0xf4, 0xea, 0x65, 0x7a, 0xae, 0x08],
  [0xba, 0x78, 0x25, 0x2e, 0x1c, 0xa6, 0xb4, 0xc6, 0xe8, 0xdd, 0x74, 0x1f, 0x4b, 0xbd, 0x8b, 0x8a],
  [0x70, 0x3e, 0xb5, 0x66, 0x48, 0x03, 0xf6, 0x0e, 0x61, 0x35, 0x57, 0xb9, 0x86, 0xc1, 0x1d, 0x9e],
  [0xe1, 0xf8, 0x98, 0x11, 0x69, 0xd9, 0x8e, 0x94, 0x9b, 0x1e, 0x87, 0xe9, 0xce, 0x55, 0x28, 0xdf],
  [0x8c, 0xa1, 0x89, 0x0d, 0xbf, 0xe6, 0x42, 0x68, 0x41, 0x99, 0x2d, 0x0f, 0xb0, 0x54, 0xbb, 0x16]]

/-- `SubBytes` on one byte: table look-up (§5.1.1, Figure 7). -/
def aesSbox (b : Nat) : Nat := ((aesSboxTable.getD (b / 16) []).getD (b % 16) 0)

/-- Multiplication by `x` (`{02}`) in GF(2^8) modulo `x^8 + x^4 + x^3 + x + 1` (§4.2.1). -/
def xtime (b : Nat) : Nat := if b < 128 then 2 * b else ((2 * b) % 256) ^^^ 0x1b

/-- General GF(2^8) product (§4.2), by shift-and-add over the 8 bits of `b`.  Not used by the
cipher itself; it is what the S-box definition and the `MixColumns` coefficients refer to. -/
def gmulAux : Nat → Nat → Nat → Nat → Nat
  | 0, _, _, acc => acc
  | n + 1, a, b, acc => gmulAux n (xtime a) (b / 2) (if b % 2 = 0 then acc else acc ^^^ a)

def gmul (a b : Nat) : Nat := gmulAux 8 a b 0

/-- Multiplicative inverse in GF(2^8) (`0 ↦ 0`): `a^254`. -/
def ginv (a : Nat) : Nat :=
  let a2 := gmul a a
  let a4 := gmul a2 a2
  let a8 := gmul a4 a4
  let a16 := gmul a8 a8
  let a32 := gmul a16 a16
  let a64 := gmul a32 a32
  let a128 := gmul a64 a64
  gmul a128 (gmul a64 (gmul a32 (gmul a16 (gmul a8 (gmul a4 a2)))))

/-- Rotate a byte left by `n ≤ 8` bits. -/
def rotl8 (b n : Nat) : Nat := ((b <<< n) ||| (b >>> (8 - n))) % 256

/-- The S-box as FIPS-197 §5.1.1 *defines* it: inverse in GF(2^8), then the affine map
`b_i ⊕ b_{i+4} ⊕ b_{i+5} ⊕ b_{i+6} ⊕ b_{i+7} ⊕ c_i`, `c = {63}`. -/
def aesSboxSpec (b : Nat) : Nat :=
  let x := ginv b
  x ^^^ rotl8 x 1 ^^^ rotl8 x 2 ^^^ rotl8 x 3 ^^^ rotl8 x 4 ^^^ 0x63

/-- `SubBytes` (§5.1.1). -/
def subBytes (s : List Nat) : List Nat := s.map aesSbox

/-- `ShiftRows` (§5.1.2): row `r` is rotated left by `r`: `s'[r, c] = s[r, (c + r) mod 4]`. -/
def shiftRows : List Nat → List Nat
  | [s0, s1, s2, s3, s4, s5, s6, s7, s8, s9, s10, s11, s12, s13, s14, s15] =>
    [s0, s5, s10, s15, s4, s9, s14, s3, s8, s13, s2, s7, s12, s1, s6, s11]
  | s => s

/-- `{02}·a ⊕ {03}·b ⊕ c ⊕ d`. -/
def mix1 (a b c d : Nat) : Nat := xtime a ^^^ (xtime b ^^^ b) ^^^ c ^^^ d

/-- `MixColumns` (§5.1.3): every column is multiplied by the circulant matrix `02 03 01 01`. -/
def mixColumns : List Nat → List Nat
  | [s0, s1, s2, s3, s4, s5, s6, s7, s8, s9, s10, s11, s12, s13, s14, s15] =>
    [mix1 s0 s1 s2 s3, mix1 s1 s2 s3 s0, mix1 s2 s3 s0 s1, mix1 s3 s0 s1 s2,
     mix1 s4 s5 s6 s7, mix1 s5 s6 s7 s4, mix1 s6 s7 s4 s5, mix1 s7 s4 s5 s6,
     mix1 s8 s9 s10 s11, mix1 s9 s10 s11 s8, mix1 s10 s11 s8 s9, mix1 s11 s8 s9 s10,
     mix1 s12 s13 s14 s15, mix1 s13 s14 s15 s12, mix1 s14 s15 s12 s13, mix1 s15 s12 s13 s14]
  | s => s

/-- `AddRoundKey` (§5.1.4). -/
def addRoundKey : List Nat → List Nat → List Nat
  | k :: ks, s :: ss => (s ^^^ k) :: addRoundKey ks ss
  | _, _ => []

/-- One step of `KeyExpansion` (§5.2) for Nk = 4: the next four words from the previous four;
`rc` is the first byte of `Rcon[i/4]`. -/
def nextRoundKey (rc : Nat) : List Nat → List Nat
  | [k0, k1, k2, k3, k4, k5, k6, k7, k8, k9, k10, k11, k12, k13, k14, k15] =>
    -- w[i] = w[i-4] ⊕ SubWord(RotWord(w[i-1])) ⊕ Rcon[i/4]
    let a0 := k0 ^^^ aesSbox k13 ^^^ rc
    let a1 := k1 ^^^ aesSbox k14
    let a2 := k2 ^^^ aesSbox k15
    let a3 := k3 ^^^ aesSbox k12
    -- w[i+j] = w[i+j-4] ⊕ w[i+j-1]
    let b0 := k4 ^^^ a0
    let b1 := k5 ^^^ a1
    let b2 := k6 ^^^ a2
    let b3 := k7 ^^^ a3
    let c0 := k8 ^^^ b0
    let c1 := k9 ^^^ b1
    let c2 := k10 ^^^ b2
    let c3 := k11 ^^^ b3
    [a0, a1, a2, a3, b0, b1, b2, b3, c0, c1, c2, c3,
     k12 ^^^ c0, k13 ^^^ c1, k14 ^^^ c2, k15 ^^^ c3]
  | k => k

/-- `Rcon[1..10]`, first bytes (`x^(i-1)` in GF(2^8)). -/
def aesRcon : List Nat := [0x01, 0x02, 0x04, 0x08, 0x10, 0x20, 0x40, 0x80, 0x1b, 0x36]

def expandFrom : List Nat → List Nat → List (List Nat)
  | _, [] => []
  | k, rc :: rcs =>
    let k' := nextRoundKey rc k
    k' :: expandFrom k' rcs

/-- The eleven round keys of a 16-byte cipher key. -/
def keyExpand (key : List Nat) : List (List Nat) := key :: expandFrom key aesRcon

/-- Rounds `1 … Nr` of `Cipher` (§5.1, Figure 5), given the remaining round keys: every round but
the last has `MixColumns`. -/
def aesRounds : List (List Nat) → List Nat → List Nat
  | [], s => s
  | [k], s => addRoundKey k (shiftRows (subBytes s))
  | k :: ks, s => aesRounds ks (addRoundKey k (mixColumns (shiftRows (subBytes s))))

/-- `Cipher(in, w)` for an expanded key. -/
def aesEncryptBlock (rks : List (List Nat)) (block : List Nat) : List Nat :=
  match rks with
  | [] => block
  | k0 :: ks => aesRounds ks (addRoundKey k0 block)

/-- Totalisation for inputs that are not 16 bytes (never the case under `Chan.create`, which
rejects such secrets as `cryptography` does, nor for CFB8 registers started from a 16-byte IV):
zero-pad / truncate. -/
def fit16 (l : Bytes) : Bytes :=
  if l.length = 16 then l else (l ++ List.replicate 16 0).take 16

def bytesToNats (l : Bytes) : List Nat := l.map UInt8.toNat
def natsToBytes (l : List Nat) : Bytes := l.map UInt8.ofNat

/-- The eleven round keys of a cipher key given as bytes (done once per key by the driver). -/
def aesKeySchedule (key : Bytes) : List (List Nat) := keyExpand (bytesToNats (fit16 key))

/-- AES-128 encryption of one block with an already expanded key. -/
def aesBlockWith (rks : List (List Nat)) (block : Bytes) : Bytes :=
  natsToBytes (aesEncryptBlock rks (bytesToNats (fit16 block)))

/-- AES-128 encryption of one block under `key`. -/
def aes128 (key block : Bytes) : Bytes := aesBlockWith (aesKeySchedule key) block

end PyCraft
