import PyCraft.Model.Trackers
/-!
Map tracker, second layer (property C20, audit item 15).  `Model/Trackers.lean` models
`MapPacket.apply_to_map` / `apply_to_map_set` as `Except`-valued functions that forget what the
Python objects look like after an exception.  This file adds

* `patchLoopFx`, `applyToMapFx`, `applyToMapSetFx`, `replayMapsFx`: the SAME code
  (`clientbound/play/map_packet.py:120-137`) with all its effects, i.e. returning the mutated
  objects together with the exception (if any) that interrupted the mutation;
* `MapSet.WF`, `MapPacket.InRange`: the invariant of a map set built by the library and the
  packets whose pixel rectangle fits a 128×128 map;
* an independent *reference semantics* of a packet history: which packet prescribes which value
  for which cell (`MapPacket.cell`), the last such prescription of a history (`lastWrite`), the last
  packet addressed to a map id (`lastPacket`) and the dict key order (`refKeys`).  None of these
  mentions `patchLoop`, `pySetItem`, `dictSet` or flat indices.
-/
namespace PyCraft.Trackers

/-! ### The code with its partial effects -/

/-- `map_packet.py:124-127`, the loop
```
for i in range(len(self.pixels)):
    x = self.offset[0] + i % self.width
    z = self.offset[1] + i // self.width
    map.pixels[x + map.width * z] = self.pixels[i]
```
from index `i` on.  Result: the bytearray as the loop leaves it, and the exception that ended it
(`ZeroDivisionError` for `width == 0`, `IndexError` from `bytearray.__setitem__`), if any.  Same
branches as `patchLoop`; the only difference is that the bytearray survives a failure. -/
def patchLoopFx (mapWidth width : Nat) (off : Int × Int) : Nat → Bytes → Bytes → Bytes × Option Err
  | _, [], cur => (cur, none)
  | i, p :: ps, cur =>
    if width = 0 then (cur, some .other)
    else
      let x : Int := off.1 + ((i % width : Nat) : Int)
      let z : Int := off.2 + ((i / width : Nat) : Int)
      match pySetItem cur (x + (mapWidth : Int) * z) p with
      | .error e => (cur, some e)
      | .ok cur' => patchLoopFx mapWidth width off (i + 1) ps cur'

/-- `MapPacket.apply_to_map(map)`, `map_packet.py:120-130`, on the object: `id`, `scale`, `icons`
are assigned first (lines 121-123); then the pixel loop (124-128) if `self.pixels is not None`;
`is_tracking_position` and `is_locked` (129-130) only when the loop has not raised. -/
def applyToMapFx (pkt : MapPacket) (m : MapState) : MapState × Option Err :=
  let m1 : MapState :=
    { m with id := some pkt.mapId, scale := some pkt.scale, icons := pkt.icons }
  match pkt.pixels with
  | none =>
    ({ m1 with isTrackingPosition := pkt.isTrackingPosition, isLocked := pkt.isLocked }, none)
  | some px =>
    match patchLoopFx m.width pkt.width pkt.offset 0 px m.pixels with
    | (cur, some e) => ({ m1 with pixels := cur }, some e)
    | (cur, none) =>
      ({ m1 with pixels := cur, isTrackingPosition := pkt.isTrackingPosition,
                 isLocked := pkt.isLocked }, none)

/-- `MapPacket.apply_to_map_set(map_set)`, `map_packet.py:132-137`: `maps_by_id.get(self.map_id)`;
when missing, a fresh `Map(self.map_id)` is created AND STORED (line 136) before `apply_to_map`
runs, so it stays in the dict when `apply_to_map` raises.  The map object is mutated in place:
the dict entry keeps its position. -/
def applyToMapSetFx (pkt : MapPacket) (s : MapSet) : MapSet × Option Err :=
  let ms : MapState × MapSet :=
    match dictGet pkt.mapId s with
    | some m => (m, s)
    | none => (MapState.new (some pkt.mapId), dictSet pkt.mapId (MapState.new (some pkt.mapId)) s)
  let r := applyToMapFx pkt ms.1
  (dictSet pkt.mapId r.1 ms.2, r.2)

/-- `for p in hist: p.apply_to_map_set(map_set)` with no `try`: the first exception ends the loop;
the map set is returned as it then is. -/
def replayMapsFx : List MapPacket → MapSet → MapSet × Option Err
  | [], s => (s, none)
  | p :: ps, s =>
    match applyToMapSetFx p s with
    | (s', some e) => (s', some e)
    | (s', none) => replayMapsFx ps s'

/-! ### Invariant and admissible packets -/

/-- One entry of a library-built map set: stored under its own id, 128 wide, 128 high, with
`128*128` pixels (what `Map(id)` creates and `apply_to_map` preserves). -/
def MapEntryOK (km : Int × MapState) : Prop :=
  km.2.id = some km.1 ∧ km.2.width = 128 ∧ km.2.height = 128 ∧ km.2.pixels.length = 16384

instance (km : Int × MapState) : Decidable (MapEntryOK km) := by
  unfold MapEntryOK; infer_instance

/-- The invariant of `MapSet.maps_by_id`: distinct keys (it is a dict), every entry `MapEntryOK`. -/
def MapSet.WF (s : MapSet) : Prop :=
  (s.map Prod.fst).Nodup ∧ ∀ km ∈ s, MapEntryOK km

instance (s : MapSet) : Decidable (MapSet.WF s) := by
  unfold MapSet.WF; infer_instance

/-- The packet's pixels fit a 128×128 map: either it carries no pixels (`pixels is None`, i.e.
`width == 0` on the wire), or its offset is non-negative, its columns `offX .. offX+width-1` are
inside the map, and its pixel rows (`len(pixels)` cells, `width` per row, starting at row `offZ`)
end at or before row 127.  `height` is not mentioned (the Python never reads it); the usual
`offZ + height ≤ 128 ∧ len(pixels) = width*height` implies this (`InRange.of_rect`). -/
def MapPacket.InRange (p : MapPacket) : Prop :=
  match p.pixels with
  | none => True
  | some px =>
    0 ≤ p.offset.1 ∧ 0 ≤ p.offset.2 ∧ p.offset.1 + (p.width : Int) ≤ 128 ∧
      px.length ≤ p.width * (128 - p.offset.2.toNat)

instance (p : MapPacket) : Decidable p.InRange := by
  unfold MapPacket.InRange; cases p.pixels <;> infer_instance

/-! ### Reference semantics of a history (no loops, no flat indices) -/

/-- The value packet `p` prescribes for the cell in column `x`, row `z` of its map: the cell lies
`dx = x - offX` columns and `dz = z - offZ` rows into the packet's rectangle (`0 ≤ dx < width`,
`0 ≤ dz`), whose pixels are listed row by row, so it is pixel number `dx + width*dz`, if the packet
has that many. -/
def MapPacket.cell (p : MapPacket) (x z : Nat) : Option UInt8 :=
  match p.pixels with
  | none => none
  | some px =>
    let dx : Int := (x : Int) - p.offset.1
    let dz : Int := (z : Int) - p.offset.2
    if 0 ≤ dx ∧ dx < (p.width : Int) ∧ 0 ≤ dz then px[dx.toNat + p.width * dz.toNat]? else none

/-- The last value a history prescribes for cell `(x, z)` of map `k`: a later packet wins; a packet
for another map, or one that does not cover the cell, prescribes nothing. -/
def lastWrite : List MapPacket → Int → Nat → Nat → Option UInt8
  | [], _, _, _ => none
  | p :: ps, k, x, z =>
    match lastWrite ps k x z with
    | some v => some v
    | none => if p.mapId = k then p.cell x z else none

/-- The last packet of the history addressed to map `k`. -/
def lastPacket : List MapPacket → Int → Option MapPacket
  | [], _ => none
  | p :: ps, k =>
    match lastPacket ps k with
    | some q => some q
    | none => if p.mapId = k then some p else none

/-- Key order of the dict after the history: known ids keep their place, each new id goes to the
end when it first occurs. -/
def refKeys (hist : List MapPacket) (ks : List Int) : List Int :=
  hist.foldl (fun ks p => if p.mapId ∈ ks then ks else ks ++ [p.mapId]) ks

/-- Cell `(x, z)` (column, row) of map `k` in a map set, `None` when there is no such map or the
bytearray is too short. -/
def MapSet.pixel (s : MapSet) (k : Int) (x z : Nat) : Option UInt8 :=
  (dictGet k s).bind fun m => m.pixels[x + 128 * z]?

/-- The fields of map `k` after a history that led from `s` to `s'`: untouched (or still absent) if
no packet is addressed to `k`; otherwise present, under its own id, with the scale, icons and flags
of the LAST packet addressed to it. -/
def FieldsSpec (hist : List MapPacket) (s s' : MapSet) (k : Int) : Prop :=
  match lastPacket hist k with
  | none => dictGet k s' = dictGet k s
  | some q => ∃ m, dictGet k s' = some m ∧ m.id = some k ∧ m.scale = some q.scale ∧
      m.icons = q.icons ∧ m.isTrackingPosition = q.isTrackingPosition ∧ m.isLocked = q.isLocked

/-- Totality, invariant and the pixel clause, as a predicate on an arbitrary replay function (so that
it can be stated of the model and of models of changed code alike). -/
def PixelLaw (replay : List MapPacket → MapSet → Except Err MapSet) : Prop :=
  ∀ hist s, MapSet.WF s → (∀ p ∈ hist, p.InRange) →
    ∃ s', replay hist s = .ok s' ∧ MapSet.WF s' ∧
      ∀ k ∈ s'.map Prod.fst, ∀ x z, x < 128 → z < 128 →
        s'.pixel k x z = some ((lastWrite hist k x z).getD ((s.pixel k x z).getD 0))

/-- After an exception the packet's map is in the set with id, scale and icons from the packet; as a
predicate on an arbitrary effectful `apply_to_map_set`. -/
def ErrorLaw (applyFx : MapPacket → MapSet → MapSet × Option Err) : Prop :=
  ∀ p s s' e, applyFx p s = (s', some e) →
    ∃ m', dictGet p.mapId s' = some m' ∧ m'.id = some p.mapId ∧ m'.scale = some p.scale ∧
      m'.icons = p.icons

/-! ### Observations (what the generator and the driver print) -/

/-- The non-zero pixels as maximal runs `(start index, count, value)` of equal consecutive values
(so that a uniformly filled bytearray has a one-entry description). -/
def nonzeroRuns : Nat → Bytes → List (Nat × Nat × Nat)
  | _, [] => []
  | i, b :: bs =>
    if b = 0 then nonzeroRuns (i + 1) bs
    else
      match nonzeroRuns (i + 1) bs with
      | (j, n, v) :: rest =>
        if j = i + 1 ∧ v = b.toNat then (i, n + 1, v) :: rest
        else (i, 1, b.toNat) :: (j, n, v) :: rest
      | [] => [(i, 1, b.toNat)]

/-- One `maps_by_id` item as observed from outside. -/
structure MapObs where
  key : Int
  id : Option Int
  scale : Option Int
  icons : List MapIcon
  width : Nat
  height : Nat
  len : Nat
  nonzero : List (Nat × Nat × Nat)
  tracking : Bool
  locked : Bool
deriving DecidableEq, Repr

def MapState.obs (k : Int) (m : MapState) : MapObs :=
  { key := k, id := m.id, scale := m.scale, icons := m.icons, width := m.width, height := m.height,
    len := m.pixels.length, nonzero := nonzeroRuns 0 m.pixels,
    tracking := m.isTrackingPosition, locked := m.isLocked }

/-- `maps_by_id.items()` as observed. -/
def MapSet.obs (s : MapSet) : List MapObs := s.map fun km => km.2.obs km.1

/-- `MapPacket.Map(id, width=w, height=h)` (`map_packet.py:51-60`); `MapState.new (some id)` is the
case `w = h = 128` (the defaults). -/
def MapState.ofSize (id : Int) (w h : Nat) : MapState :=
  { id := some id, scale := none, icons := [], pixels := List.replicate (w * h) 0,
    width := w, height := h, isTrackingPosition := true, isLocked := false }

/-- `MapSet(*[Map(id, width=w, height=h) for (id, w, h) in ms])`, `map_packet.py:65-66`:
`{map.id: map for map in maps}`. -/
def MapSet.ofSizes (ms : List (Int × Nat × Nat)) : MapSet :=
  ms.foldl (fun s r => dictSet r.1 (MapState.ofSize r.1 r.2.1 r.2.2) s) []

/-! Conversions from the plain tuples of `Generated/C20Maps.lean`. -/

def iconOfRaw (r : Int × Int × Int × Int × Option String) : MapIcon :=
  { type := r.1, direction := r.2.1, x := r.2.2.1, z := r.2.2.2.1, displayName := r.2.2.2.2 }

def packetOfRaw
    (r : Int × Int × List (Int × Int × Int × Int × Option String) × Nat × Nat × Int × Int ×
      Option (List Nat) × Bool × Bool) : MapPacket :=
  { mapId := r.1, scale := r.2.1, icons := r.2.2.1.map iconOfRaw, width := r.2.2.2.1,
    height := r.2.2.2.2.1, offset := (r.2.2.2.2.2.1, r.2.2.2.2.2.2.1),
    pixels := r.2.2.2.2.2.2.2.1.map (·.map UInt8.ofNat),
    isTrackingPosition := r.2.2.2.2.2.2.2.2.1, isLocked := r.2.2.2.2.2.2.2.2.2 }

def obsOfRaw
    (r : Int × Option Int × Option Int × List (Int × Int × Int × Int × Option String) × Nat × Nat ×
      Nat × List (Nat × Nat × Nat) × Bool × Bool) : MapObs :=
  { key := r.1, id := r.2.1, scale := r.2.2.1, icons := r.2.2.2.1.map iconOfRaw,
    width := r.2.2.2.2.1, height := r.2.2.2.2.2.1, len := r.2.2.2.2.2.2.1,
    nonzero := r.2.2.2.2.2.2.2.1, tracking := r.2.2.2.2.2.2.2.2.1, locked := r.2.2.2.2.2.2.2.2.2 }

/-- Both exceptions the pixel loop can raise are `Err.other` in the model. -/
def errOfName : Option String → Option (Option Err)
  | none => some none
  | some "IndexError" => some (some .other)
  | some "ZeroDivisionError" => some (some .other)
  | some _ => none

/-- One generated scenario `(title, initial maps, history, exception name, observed maps)`: the
effectful model, run on the history from `MapSet(Map(id, width=w, height=h), …)`, ends with the same
(absence of) exception and the same observable map set as the live code did. -/
def scenarioOK
    (sc : String × List (Int × Nat × Nat) ×
      List (Int × Int × List (Int × Int × Int × Int × Option String) × Nat × Nat × Int × Int ×
        Option (List Nat) × Bool × Bool) ×
      Option String ×
      List (Int × Option Int × Option Int × List (Int × Int × Int × Int × Option String) × Nat ×
        Nat × Nat × List (Nat × Nat × Nat) × Bool × Bool)) : Bool :=
  decide (errOfName sc.2.2.2.1 =
    some (replayMapsFx (sc.2.2.1.map packetOfRaw) (MapSet.ofSizes sc.2.1)).2) &&
  decide ((replayMapsFx (sc.2.2.1.map packetOfRaw) (MapSet.ofSizes sc.2.1)).1.obs =
    sc.2.2.2.2.map obsOfRaw)

/-! ### Models of CHANGED code (used only to show that the property theorems notice the change) -/

/-- Seeded change 1: `self.pixels = bytearray(0xFF for i in range(width*height))` in `Map.__init__`. -/
def MapState.newFF (id : Option Int) : MapState :=
  { MapState.new id with pixels := List.replicate (128 * 128) 0xFF }

/-- Seeded change 2: `map = MapPacket.Map(self.map_id, width=self.width)` in `apply_to_map_set`. -/
def MapState.newW (id : Option Int) (w : Nat) : MapState :=
  { MapState.new id with width := w, pixels := List.replicate (w * 128) 0 }

/-- `apply_to_map_set` / replay with the fresh map built by `mk` instead of `MapState.new`. -/
def applyToMapSetWith (mk : MapPacket → MapState) (pkt : MapPacket) (s : MapSet) :
    Except Err MapSet :=
  let m := match dictGet pkt.mapId s with
    | some m => m
    | none => mk pkt
  match applyToMap pkt m with
  | .error e => .error e
  | .ok m' => .ok (dictSet pkt.mapId m' s)

def replayMapsWith (mk : MapPacket → MapState) : List MapPacket → MapSet → Except Err MapSet
  | [], s => .ok s
  | p :: ps, s =>
    match applyToMapSetWith mk p s with
    | .error e => .error e
    | .ok s' => replayMapsWith mk ps s'

/-- Seeded change 3: `map_set.maps_by_id[self.map_id] = map` moved AFTER `self.apply_to_map(map)`
(so a fresh map is not stored when `apply_to_map` raises). -/
def applyToMapSetFxLate (pkt : MapPacket) (s : MapSet) : MapSet × Option Err :=
  match dictGet pkt.mapId s with
  | some m =>
    let r := applyToMapFx pkt m
    (dictSet pkt.mapId r.1 s, r.2)
  | none =>
    match applyToMapFx pkt (MapState.new (some pkt.mapId)) with
    | (_, some e) => (s, some e)
    | (m', none) => (dictSet pkt.mapId m' s, none)

end PyCraft.Trackers
