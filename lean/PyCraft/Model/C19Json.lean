import PyCraft.Basic
/-!
JSON values as the Python code of `minecraft/authentication.py` sees them, and a literal model of
`json.dumps(obj)` with its default arguments (CPython `Lib/json/encoder.py`:
`py_encode_basestring_ascii`, `_make_iterencode` with `ensure_ascii=True`, item separator `", "`,
key separator `": "`, no indent, no key sorting).

`JVal` is at the same time

* what `res.json()` returns (so what `authenticate` / `refresh` store into the token and what
  `_raise_from_response` copies into the exception), and
* what the token attributes hold (`JVal.null` is Python `None`), and
* what `json.dumps` is applied to (the request payload).

Modelling restrictions (stated once, here): JSON numbers are integers (no floats, no `NaN`);
strings are sequences of Unicode scalar values (Lean `String`; no lone surrogates); a JSON object
is the Python `dict` after loading: a list of (key, value) in insertion order, looked up by
`List.lookup` (first match — for a `dict` the keys are distinct and the choice is immaterial).
-/
namespace PyCraft.Json

inductive JVal
  | null
  | bool (b : Bool)
  | num (n : Int)
  | str (s : String)
  | arr (xs : List JVal)
  | obj (kvs : List (String × JVal))
deriving Repr, Inhabited

mutual
def JVal.beq : JVal → JVal → Bool
  | .null, .null => true
  | .bool a, .bool b => a == b
  | .num a, .num b => a == b
  | .str a, .str b => a == b
  | .arr a, .arr b => beqList a b
  | .obj a, .obj b => beqMembers a b
  | _, _ => false
def beqList : List JVal → List JVal → Bool
  | [], [] => true
  | x :: xs, y :: ys => x.beq y && beqList xs ys
  | _, _ => false
def beqMembers : List (String × JVal) → List (String × JVal) → Bool
  | [], [] => true
  | (k, x) :: xs, (l, y) :: ys => k == l && x.beq y && beqMembers xs ys
  | _, _ => false
end

mutual
theorem JVal.beq_iff : ∀ (a b : JVal), a.beq b = true ↔ a = b
  | .null, b => by cases b <;> simp [JVal.beq]
  | .bool a, b => by cases b <;> simp [JVal.beq]
  | .num a, b => by cases b <;> simp [JVal.beq]
  | .str a, b => by cases b <;> simp [JVal.beq]
  | .arr a, b => by cases b <;> simp [JVal.beq, beqList_iff a]
  | .obj a, b => by cases b <;> simp [JVal.beq, beqMembers_iff a]
theorem beqList_iff : ∀ (a b : List JVal), beqList a b = true ↔ a = b
  | [], b => by cases b <;> simp [beqList]
  | x :: xs, b => by cases b <;> simp [beqList, JVal.beq_iff x, beqList_iff xs]
theorem beqMembers_iff : ∀ (a b : List (String × JVal)), beqMembers a b = true ↔ a = b
  | [], b => by cases b <;> simp [beqMembers]
  | (k, x) :: xs, b => by
    cases b with
    | nil => simp [beqMembers]
    | cons h t =>
      obtain ⟨l, y⟩ := h
      simp [beqMembers, JVal.beq_iff x, beqMembers_iff xs, and_assoc]
end

instance : DecidableEq JVal := fun a b => decidable_of_iff _ (JVal.beq_iff a b)

/-- `x is None`. -/
def JVal.isNone : JVal → Bool
  | .null => true
  | _ => false

/-- Python truthiness (`bool(x)`, `not x`, `x or y`): `None`, `False`, `0`, `""`, `[]`, `{}` are
falsy, everything else is truthy. -/
def JVal.truthy : JVal → Bool
  | .null => false
  | .bool b => b
  | .num n => n != 0
  | .str s => s != ""
  | .arr xs => !xs.isEmpty
  | .obj kvs => !kvs.isEmpty

/-! ## `json.dumps` -/

/-- `'{0:04x}'.format(n)` for `n < 0x10000`: four lower-case hex digits. -/
def hex4 (n : Nat) : List Char :=
  [hexDigit (n / 4096 % 16), hexDigit (n / 256 % 16), hexDigit (n / 16 % 16), hexDigit (n % 16)]

/-- The `replace` callback of `py_encode_basestring_ascii` applied to every character (characters
not matched by `ESCAPE_ASCII = ([\\"]|[^\ -~])` are copied): the seven short escapes of
`ESCAPE_DCT`, `\uXXXX` for every other character outside `' '..'~'` below `0x10000`, and a UTF-16
surrogate pair `\uD8xx\uDCxx` from `0x10000` on (`s1 = 0xd800 | ((n >> 10) & 0x3ff)`,
`s2 = 0xdc00 | (n & 0x3ff)` with `n = ord(c) - 0x10000`). -/
def escChar (c : Char) : List Char :=
  if c = '"' then ['\\', '"']
  else if c = '\\' then ['\\', '\\']
  else if c = '\n' then ['\\', 'n']
  else if c = '\r' then ['\\', 'r']
  else if c = '\t' then ['\\', 't']
  else if c = Char.ofNat 8 then ['\\', 'b']
  else if c = Char.ofNat 12 then ['\\', 'f']
  else if 0x20 ≤ c.toNat ∧ c.toNat ≤ 0x7e then [c]
  else if c.toNat < 0x10000 then '\\' :: 'u' :: hex4 c.toNat
  else
    let n := c.toNat - 0x10000
    '\\' :: 'u' :: hex4 (0xd800 ||| ((n >>> 10) &&& 0x3ff)) ++
      '\\' :: 'u' :: hex4 (0xdc00 ||| (n &&& 0x3ff))

/-- `py_encode_basestring_ascii(s)`: `'"' + ESCAPE_ASCII.sub(replace, s) + '"'`. -/
def dumpsStr (s : String) : List Char := '"' :: s.toList.flatMap escChar ++ ['"']

/-- `int.__repr__`: decimal digits, `-` in front of a negative number. -/
def intRepr (n : Int) : List Char :=
  if n < 0 then '-' :: Nat.toDigits 10 n.natAbs else Nat.toDigits 10 n.natAbs

mutual
/-- `_iterencode(o)`, chunks concatenated: `None → null`, `True → true`, `False → false`,
`int → int.__repr__`, `str → encoder`, list → `[` items separated by `", "` `]` (`[]` when empty),
dict → `{` `key: value` separated by `", "` `}` (`{}` when empty). -/
def dumps : JVal → List Char
  | .null => ['n', 'u', 'l', 'l']
  | .bool true => ['t', 'r', 'u', 'e']
  | .bool false => ['f', 'a', 'l', 's', 'e']
  | .num n => intRepr n
  | .str s => dumpsStr s
  | .arr [] => ['[', ']']
  | .arr (x :: xs) => '[' :: dumps x ++ dumpsTail xs ++ [']']
  | .obj [] => ['{', '}']
  | .obj ((k, v) :: kvs) => '{' :: dumpsStr k ++ [':', ' '] ++ dumps v ++ dumpsMembersTail kvs ++ ['}']
/-- the items after the first one, each preceded by the item separator `", "` -/
def dumpsTail : List JVal → List Char
  | [] => []
  | x :: xs => ',' :: ' ' :: dumps x ++ dumpsTail xs
def dumpsMembersTail : List (String × JVal) → List Char
  | [] => []
  | (k, v) :: kvs => ',' :: ' ' :: dumpsStr k ++ [':', ' '] ++ dumps v ++ dumpsMembersTail kvs
end

/-- `json.dumps(v)`. -/
def jsonDumps (v : JVal) : String := String.ofList (dumps v)

end PyCraft.Json
