import PyCraft.Model.VarInt
/-!
Model of the packed block-position types:

* `minecraft/networking/types/basic.py`: `UnsignedLong` (`struct '>Q'`), `UnsignedByte`
  (`struct '>B'`), `Position.read_with_context` / `Position.send_with_context`;
* `minecraft/networking/packets/clientbound/play/block_change_packet.py`:
  `MultiBlockChangePacket.ChunkSectionPos.read/send` and
  `MultiBlockChangePacket.Record.read_with_context/send_with_context`.

Python `int`s that may be negative are `Int`; values that the code has just masked or read from the
wire are `Nat`, and on those `&`, `|`, `<<`, `>>` are Lean's `&&&`, `|||`, `<<<`, `>>>`.

Python's `&` with a non-negative mask on a possibly negative int is two's complement, i.e.
`v & (2^k - 1) = v mod 2^k` (floor modulus, always in `[0, 2^k)`): `maskBits`.
The protocol-dependent layout flags are parameters: `newer` = `context.protocol_later_eq(443)`,
`v741` = `context.protocol_later_eq(741)`.

Only the codec entry points (`beU64`, `packU64`, `readU64`, `encPos`, `decPos`, `encSecPos`,
`decSecPos`, `encRecord`, `decRecord`) are at `PyCraft.` top level; every helper is in `PyCraft.Pos`
(other models, e.g. `Model/Wire.lean`, have their own `PyCraft.beValue`).
-/
namespace PyCraft

namespace Pos
/-- Big-endian value of a byte string (`int.from_bytes(bs, 'big')`). -/
def beValue (bs : Bytes) : Nat := bs.foldl (fun acc b => acc * 256 + b.toNat) 0
end Pos

/-- The 8 big-endian bytes of `n mod 2^64`. -/
def beU64 (n : Nat) : Bytes :=
  [UInt8.ofNat (n / 2 ^ 56 % 256), UInt8.ofNat (n / 2 ^ 48 % 256), UInt8.ofNat (n / 2 ^ 40 % 256),
   UInt8.ofNat (n / 2 ^ 32 % 256), UInt8.ofNat (n / 2 ^ 24 % 256), UInt8.ofNat (n / 2 ^ 16 % 256),
   UInt8.ofNat (n / 2 ^ 8 % 256), UInt8.ofNat (n % 256)]

/-- `struct.pack('>Q', v)`: `struct.error` unless `0 ≤ v < 2^64`. -/
def packU64 (v : Int) : Except Err Bytes :=
  if 0 ≤ v ∧ v < 2 ^ 64 then .ok (beU64 v.toNat) else .error .struct

/-- `struct.unpack('>Q', file_object.read(8))[0]`: `read(8)` returns what is left when fewer than 8
bytes remain and `unpack` then raises `struct.error`. -/
def readU64 (bs : Bytes) : Except Err (Nat × Bytes) :=
  let chunk := bs.take 8
  if chunk.length = 8 then .ok (Pos.beValue chunk, bs.drop 8) else .error .struct

namespace Pos
/-- `struct.pack('>B', v)`: `struct.error` unless `0 ≤ v < 256`. -/
def packU8 (v : Int) : Except Err Bytes :=
  if 0 ≤ v ∧ v < 256 then .ok [UInt8.ofNat v.toNat] else .error .struct

/-- `struct.unpack('>B', file_object.read(1))[0]`. -/
def readU8 : Bytes → Except Err (Nat × Bytes)
  | [] => .error .struct
  | b :: rest => .ok (b.toNat, rest)

/-- Python `v & (2^k - 1)` for an arbitrary int `v` (two's complement = floor modulus). -/
def maskBits (v : Int) (k : Nat) : Nat := (v % 2 ^ k).toNat

/-- Python `v | ~(2^k - 1)` for a NON-NEGATIVE int `v`: the low `k` bits of `v`, every higher bit
set, i.e. the negative number `(v mod 2^k) - 2^k`. -/
def orNotMask (v : Nat) (k : Nat) : Int := ((v % 2 ^ k : Nat) : Int) - 2 ^ k

/-- Python `v << k | low` for an arbitrary int `v` and `0 ≤ low < 2^k`: the low `k` bits of
`v << k = v·2^k` are zero (also for negative `v`, two's complement), so the `|` is an addition. -/
def shlOrLow (v : Int) (k : Nat) (low : Nat) : Int := v * 2 ^ k + low
end Pos

/-! ### `Position` (26/12/26 bits) -/

/-- `Position.send_with_context`:
`value = (x & 0x3FFFFFF) << 38 | (z & 0x3FFFFFF) << 12 | (y & 0xFFF)` if `newer` else
`(x & 0x3FFFFFF) << 38 | (y & 0xFFF) << 26 | (z & 0x3FFFFFF)`; `UnsignedLong.send(value)`. -/
def encPos (newer : Bool) (x y z : Int) : Except Err Bytes :=
  let value : Nat :=
    if newer then (Pos.maskBits x 26 <<< 38) ||| (Pos.maskBits z 26 <<< 12) ||| Pos.maskBits y 12
    else (Pos.maskBits x 26 <<< 38) ||| (Pos.maskBits y 12 <<< 26) ||| Pos.maskBits z 26
  packU64 value

namespace Pos
/-- `if v >= pow(2, k-1): v -= pow(2, k)`. -/
def signFix (v : Nat) (half full : Nat) : Int := if v ≥ half then (v : Int) - full else v
end Pos

/-- `Position.read_with_context`. -/
def decPos (newer : Bool) (bs : Bytes) : Except Err ((Int × Int × Int) × Bytes) :=
  match readU64 bs with
  | .error e => .error e
  | .ok (location, rest) =>
    let x := location >>> 38
    let y := if newer then location &&& 0xFFF else (location >>> 26) &&& 0xFFF
    let z := if newer then (location >>> 12) &&& 0x3FFFFFF else location &&& 0x3FFFFFF
    .ok ((Pos.signFix x (2 ^ 25) (2 ^ 26), Pos.signFix y (2 ^ 11) (2 ^ 12), Pos.signFix z (2 ^ 25) (2 ^ 26)), rest)

/-! ### `MultiBlockChangePacket.ChunkSectionPos` (22/22/20 bits) -/

/-- `ChunkSectionPos.send`:
`value = (x & 0x3FFFFF) << 42 | (z & 0x3FFFFF) << 20 | y & 0xFFFFF`. -/
def encSecPos (x y z : Int) : Except Err Bytes :=
  let value : Nat := (Pos.maskBits x 22 <<< 42) ||| (Pos.maskBits z 22 <<< 20) ||| Pos.maskBits y 20
  packU64 value

/-- `ChunkSectionPos.read`:
```
y = value | ~0xFFFFF if value & 0x80000 else value & 0xFFFFF
value >>= 20
z = value | ~0x3FFFFF if value & 0x200000 else value & 0x3FFFFF
value >>= 22
x = value | ~0x3FFFFF if value & 0x200000 else value
```
-/
def decSecPos (bs : Bytes) : Except Err ((Int × Int × Int) × Bytes) :=
  match readU64 bs with
  | .error e => .error e
  | .ok (value, rest) =>
    let y : Int := if value &&& 0x80000 ≠ 0 then Pos.orNotMask value 20 else ((value &&& 0xFFFFF : Nat) : Int)
    let value := value >>> 20
    let z : Int := if value &&& 0x200000 ≠ 0 then Pos.orNotMask value 22 else ((value &&& 0x3FFFFF : Nat) : Int)
    let value := value >>> 22
    let x : Int := if value &&& 0x200000 ≠ 0 then Pos.orNotMask value 22 else (value : Int)
    .ok ((x, y, z), rest)

/-! ### `MultiBlockChangePacket.Record` -/

/-- `Record.send_with_context`.  `v741`:
`value = block_state_id << 12 | (x & 0xF) << 8 | (z & 0xF) << 4 | y & 0xF; VarLong.send(value)`
(`VarLong.send` = `VarInt.send`: `ValueError` when `value < 0`, no upper bound).
Otherwise `UnsignedByte.send(x << 4 | z & 0xF); UnsignedByte.send(y); VarInt.send(block_state_id)`
(`x` is NOT masked, `y` is a whole byte); the first failing `send` aborts. -/
def encRecord (v741 : Bool) (x y z bsid : Int) : Except Err Bytes :=
  if v741 then
    encVarIntZ (Pos.shlOrLow bsid 12 ((Pos.maskBits x 4 <<< 8) ||| (Pos.maskBits z 4 <<< 4) ||| Pos.maskBits y 4))
  else
    match Pos.packU8 (Pos.shlOrLow x 4 (Pos.maskBits z 4)) with
    | .error e => .error e
    | .ok b0 =>
      match Pos.packU8 y with
      | .error e => .error e
      | .ok b1 =>
        match encVarIntZ bsid with
        | .error e => .error e
        | .ok b2 => .ok (b0 ++ b1 ++ b2)

/-- `Record.read_with_context`; result is `(x, y, z, block_state_id)`. -/
def decRecord (v741 : Bool) (bs : Bytes) : Except Err ((Int × Int × Int × Int) × Bytes) :=
  if v741 then
    match decVarInt 10 bs with
    | .error e => .error e
    | .ok (value, rest) =>
      let bsid := value >>> 12
      let x := (value >>> 8) &&& 0xF
      let z := (value >>> 4) &&& 0xF
      let y := value &&& 0xF
      .ok (((x : Int), (y : Int), (z : Int), (bsid : Int)), rest)
  else
    match Pos.readU8 bs with
    | .error e => .error e
    | .ok (h, rest) =>
      let x := h >>> 4
      let z := h &&& 0xF
      match Pos.readU8 rest with
      | .error e => .error e
      | .ok (y, rest) =>
        match decVarInt 5 rest with
        | .error e => .error e
        | .ok (bsid, rest) => .ok (((x : Int), (y : Int), (z : Int), (bsid : Int)), rest)

end PyCraft
