import PyCraft.Model.C19Json
/-!
Second, finer model of `minecraft/authentication.py` for the gaps of audit item 23 (property C19).
Compared with `Model/Auth.lean` it adds

* **values**: token attributes and reply members are arbitrary JSON values (`Json.JVal`, `null` is
  Python `None`), so `"accessToken": null` or `"selectedProfile": null` in a reply are expressible;
* **the HTTP request as `requests.post` receives it**: method, URL, the `headers=` argument, the
  `data=` argument (the text `json.dumps(data)`, `Json.jsonDumps`) and `timeout=`;
* **the reply as the code inspects it**: `res.status_code`, `res.text` (raw) and `res.json()`
  (`none` = raises `ValueError`), and transport failure (`requests.post` raising);
* **the exception as raised**: `args` (which template, with which arguments), `status_code`,
  `yggdrasil_error`, `yggdrasil_message`, `yggdrasil_cause`;
* **object identity**: an `AuthenticationToken` holds a *reference* to a `Profile` object
  (`World`: a heap of profiles and a list of tokens), `__init__` allocates a new one
  (`World.newToken`);
* **operation sequences**: `runSeq` (replies given per step) and `runSvc` (replies computed by a
  stateful stand-in service from the requests it receives).

The network is a parameter `net : Request → Resp`, called exactly where `_make_request` calls
`requests.post`; `uuid.uuid4().hex` is the parameter `fresh`.  Everything lives in `PyCraft.AuthSeq`.
-/
namespace PyCraft.AuthSeq
open PyCraft.Json

/-! ## constants (authentication.py:7-11, 48-49, 281) -/

def AUTH_SERVER : String := "https://authserver.mojang.com"
def SESSION_SERVER : String := "https://sessionserver.mojang.com/session/minecraft"
def CONTENT_TYPE : String := "application/json"
def HEADERS : List (String × String) := [("content-type", CONTENT_TYPE)]
def AGENT_NAME : String := "Minecraft"
def AGENT_VERSION : Int := 1
def TIMEOUT : Nat := 15

/-! ## objects -/

/-- A `Profile` object (l.14-39): `id_`, `name`. -/
structure Profile where
  id_ : JVal
  name : JVal
deriving DecidableEq, Repr

/-- `Profile.__bool__` (l.33-35): `self.id_ is not None and self.name is not None`. -/
def Profile.truthy (p : Profile) : Bool := !p.id_.isNone && !p.name.isNone

/-- What a method of `AuthenticationToken` can see and change through `self`: the three attributes
and the CONTENTS of the `Profile` object `self.profile` refers to (no method rebinds
`self.profile`). -/
structure Token where
  username : JVal
  accessToken : JVal
  clientToken : JVal
  profile : Profile
deriving DecidableEq, Repr

/-- The call `requests.post(url, data=…, headers=…, timeout=…)` (l.280-281). -/
structure Request where
  method : String
  url : String
  headers : List (String × String)
  body : String
  timeout : Nat
deriving DecidableEq, Repr

/-- A `requests.Response` as far as the code looks at it. -/
structure Reply where
  status : Nat               -- `res.status_code`
  text : String              -- `res.text`
  json : Option JVal         -- `res.json()`; `none`: raises `ValueError`
deriving DecidableEq, Repr

/-- What `requests.post` does: return a response, or raise (`requests.ConnectionError`, `Timeout`, …). -/
inductive Resp
  | reply (r : Reply)
  | fail
deriving DecidableEq, Repr

/-- `exception.args[0]`: which of the three message templates was formatted, with which arguments.

* `malformed status text`: `"[{status_code}] Malformed error message: '{response_text}'"` with
  `status_code=str(res.status_code), response_text=res.text` (l.302-305);
* `error status error message`: `"[{status_code}] {error}: '{error_message}'"` with
  `error=json_resp["error"], error_message=json_resp["errorMessage"]` (l.307-311);
* `notAuthenticated`: the literal of `join` (l.255). -/
inductive Msg
  | malformed (status : Nat) (text : String)
  | error (status : Nat) (error message : JVal)
  | notAuthenticated
deriving DecidableEq, Repr

/-- `str.format` of a value: a `str` is inserted as is, an `int` in decimal, `None`/`True`/`False`
by name; for a list or dict Python inserts its `repr`, which is the parameter `R`. -/
def pyStr (R : JVal → String) : JVal → String
  | .str s => s
  | .num n => String.ofList (intRepr n)
  | .null => "None"
  | .bool true => "True"
  | .bool false => "False"
  | v => R v

/-- The text of the message. -/
def Msg.text (R : JVal → String) : Msg → String
  | .malformed st t => "[" ++ toString st ++ "] Malformed error message: '" ++ t ++ "'"
  | .error st e m => "[" ++ toString st ++ "] " ++ pyStr R e ++ ": '" ++ pyStr R m ++ "'"
  | .notAuthenticated => "AuthenticationToken hasn't been authenticated yet!"

/-- Which `ValueError`. -/
inductive ValueWhy
  | accessTokenNotSet    -- "'access_token' not set!'" (refresh, l.152) / "'access_token' not set!" (validate, l.187)
  | clientTokenNotSet    -- "'client_token' is not set!" (l.155)
  | notJson              -- from `res.json()`
deriving DecidableEq, Repr

/-- What a call does, seen from the caller.

* `ret b` / `retNone`: returns `b` / falls off the end (`None`).
* `yggdrasil args status error message cause`: a `YggdrasilError` with `args == (args,)` —
  `args = none` is the `(None,)` that `YggdrasilError()` starts with —, `status_code`,
  `yggdrasil_error`, `yggdrasil_message`, `yggdrasil_cause` (`JVal.null`/`none` = `None`).
* `valueError why`: the two `ValueError`s of `refresh`, the one of `validate`, or the one raised by
  `res.json()`.
* `keyError k`, `typeError`: a failed subscript `json_resp[k]`.
* `attributeError`: `Profile.to_dict` on an unpopulated profile.
* `transport`: whatever `requests.post` raised, propagated unchanged. -/
inductive Outcome
  | ret (b : Bool)
  | retNone
  | yggdrasil (args : Option Msg) (status : Option Nat) (error message cause : JVal)
  | valueError (why : ValueWhy)
  | keyError (key : String)
  | typeError
  | attributeError
  | transport
deriving DecidableEq, Repr

/-! ## the module-level functions -/

/-- `_make_request(server, endpoint, data)` (l.268-282), up to the call of `requests.post`:
`requests.post(server + "/" + endpoint, data=json.dumps(data), headers=HEADERS, timeout=15)`. -/
def makeRequest (server endpoint : String) (data : JVal) : Request :=
  { method := "POST"
    url := server ++ "/" ++ endpoint
    headers := HEADERS
    body := jsonDumps data
    timeout := TIMEOUT }

/-- `json_resp[k]` for a string `k`: a `dict` without the key raises `KeyError(k)`; a list or string
("indices must be integers") and `None`, a number, a bool ("not subscriptable") raise `TypeError`. -/
def subscript (j : JVal) (k : String) : Except Outcome JVal :=
  match j with
  | .obj kvs =>
    match kvs.lookup k with
    | some v => .ok v
    | none => .error (.keyError k)
  | _ => .error .typeError

/-- `_raise_from_response(res)` (l.285-316): `none` = returns `None` (status `200` only — `requests.
codes['ok']`); otherwise the exception raised.  `res.json()` raising and the explicit `raise
ValueError` (body not a dict, or lacking `"error"` / `"errorMessage"`) take the same `except` branch;
`json_resp.get("cause")` is `None` when the key is absent. -/
def raiseFromResponse (r : Reply) : Option Outcome :=
  if r.status = 200 then none
  else
    let malformed : Outcome :=
      .yggdrasil (some (.malformed r.status r.text)) (some r.status) .null .null .null
    match r.json with
    | some (.obj kvs) =>
      match kvs.lookup "error", kvs.lookup "errorMessage" with
      | some e, some m =>
        some (.yggdrasil (some (.error r.status e m)) (some r.status) e m
          ((kvs.lookup "cause").getD .null))
      | _, _ => some malformed
    | _ => some malformed

/-- The four assignments shared by `authenticate` (l.129-132) and `refresh` (l.165-168), in source
order, each right-hand side evaluated and stored before the next one is attempted, then
`return True`. -/
def storeReply (t : Token) (j : JVal) : Token × Outcome :=
  match subscript j "accessToken" with
  | .error e => (t, e)
  | .ok a =>
    let t1 := { t with accessToken := a }
    match subscript j "clientToken" with
    | .error e => (t1, e)
    | .ok c =>
      let t2 := { t1 with clientToken := c }
      match subscript j "selectedProfile" with
      | .error e => (t2, e)
      | .ok sp =>
        match subscript sp "id" with
        | .error e => (t2, e)
        | .ok i =>
          let t3 := { t2 with profile := { t2.profile with id_ := i } }
          -- `json_resp["selectedProfile"]` is evaluated again: same object, same result
          match subscript sp "name" with
          | .error e => (t3, e)
          | .ok n => ({ t3 with profile := { t3.profile with name := n } }, .ret true)

/-- The part common to `authenticate` and `refresh` after `_make_request`:
`_raise_from_response(res)`, `json_resp = res.json()`, the assignments. `t0` is the token as it is
when `_make_request` is called, `t1` what the assignments start from. -/
def finishStore (t0 t1 : Token) (rsp : Resp) : Token × Outcome :=
  match rsp with
  | .fail => (t0, .transport)
  | .reply r =>
    match raiseFromResponse r with
    | some e => (t0, e)
    | none =>
      match r.json with
      | none => (t0, .valueError .notJson)
      | some j => storeReply t1 j

/-! ## the methods -/

/-- `AuthenticationToken.authenticated` (l.68-86). -/
def authenticated (t : Token) : Bool :=
  if !t.username.truthy then false
  else if !t.accessToken.truthy then false
  else if !t.clientToken.truthy then false
  else if !t.profile.truthy then false
  else true

/-- `AuthenticationToken.authenticate(username, password, invalidate_previous)` (l.88-134).
`self.username = username` (l.128) comes after `res.json()` succeeded and before the subscripts. -/
def authenticate (net : Request → Resp) (fresh : String) (t : Token) (user pass : String)
    (invalidatePrev : Bool) : Token × Outcome × Option Request :=
  let base : List (String × JVal) :=
    [("agent", .obj [("name", .str AGENT_NAME), ("version", .num AGENT_VERSION)]),
     ("username", .str user),
     ("password", .str pass)]
  let payload :=
    if !invalidatePrev then
      -- `self.client_token or uuid.uuid4().hex`
      base ++ [("clientToken", if t.clientToken.truthy then t.clientToken else .str fresh)]
    else base
  let req := makeRequest AUTH_SERVER "authenticate" (.obj payload)
  let s := finishStore t { t with username := .str user } (net req)
  (s.1, s.2, some req)

/-- `AuthenticationToken.refresh()` (l.136-170). -/
def refresh (net : Request → Resp) (t : Token) : Token × Outcome × Option Request :=
  if t.accessToken.isNone then (t, .valueError .accessTokenNotSet, none)
  else if t.clientToken.isNone then (t, .valueError .clientTokenNotSet, none)
  else
    let req := makeRequest AUTH_SERVER "refresh"
      (.obj [("accessToken", t.accessToken), ("clientToken", t.clientToken)])
    let s := finishStore t t (net req)
    (s.1, s.2, some req)

/-- `AuthenticationToken.validate()` (l.172-195): `if res.status_code == 204: return True`, else
falls through. -/
def validate (net : Request → Resp) (t : Token) : Token × Outcome × Option Request :=
  if t.accessToken.isNone then (t, .valueError .accessTokenNotSet, none)
  else
    let req := makeRequest AUTH_SERVER "validate" (.obj [("accessToken", t.accessToken)])
    match net req with
    | .fail => (t, .transport, some req)
    | .reply r => if r.status = 204 then (t, .ret true, some req) else (t, .retNone, some req)

/-- `AuthenticationToken.sign_out(username, password)` (l.197-218) — a `@staticmethod`:
`if _raise_from_response(res) is None: return True`. -/
def signOut (net : Request → Resp) (user pass : String) : Outcome × Request :=
  let req := makeRequest AUTH_SERVER "signout"
    (.obj [("username", .str user), ("password", .str pass)])
  match net req with
  | .fail => (.transport, req)
  | .reply r =>
    match raiseFromResponse r with
    | some e => (e, req)
    | none => (.ret true, req)

/-- `AuthenticationToken.invalidate()` (l.220-237): no precondition. -/
def invalidate (net : Request → Resp) (t : Token) : Token × Outcome × Option Request :=
  let req := makeRequest AUTH_SERVER "invalidate"
    (.obj [("accessToken", t.accessToken), ("clientToken", t.clientToken)])
  match net req with
  | .fail => (t, .transport, some req)
  | .reply r =>
    if r.status ≠ 204 then
      match raiseFromResponse r with
      | some e => (t, e, some req)
      | none => (t, .ret true, some req)
    else (t, .ret true, some req)

/-- `Profile.to_dict()` (l.23-31). -/
def Profile.toDict (p : Profile) : Except Outcome JVal :=
  if p.truthy then .ok (.obj [("id", p.id_), ("name", p.name)]) else .error .attributeError

/-- `AuthenticationToken.join(server_id)` (l.239-265). -/
def join (net : Request → Resp) (t : Token) (serverId : String) : Token × Outcome × Option Request :=
  if !authenticated t then
    (t, .yggdrasil (some .notAuthenticated) none .null .null .null, none)
  else
    match t.profile.toDict with
    | .error e => (t, e, none)
    | .ok pd =>
      let req := makeRequest SESSION_SERVER "join"
        (.obj [("accessToken", t.accessToken), ("selectedProfile", pd), ("serverId", .str serverId)])
      match net req with
      | .fail => (t, .transport, some req)
      | .reply r =>
        if r.status ≠ 204 then
          match raiseFromResponse r with
          | some e => (t, e, some req)
          | none => (t, .ret true, some req)
        else (t, .ret true, some req)

/-- The five instance methods with their arguments. -/
inductive Op
  | authenticate (fresh user pass : String) (invalidatePrev : Bool)
  | refresh
  | validate
  | invalidate
  | join (serverId : String)
deriving DecidableEq, Repr

/-- Call a method on a token: `(token afterwards, outcome, request passed to requests.post)`. -/
def run (op : Op) (net : Request → Resp) (t : Token) : Token × Outcome × Option Request :=
  match op with
  | .authenticate fresh user pass inv => authenticate net fresh t user pass inv
  | .refresh => refresh net t
  | .validate => validate net t
  | .invalidate => invalidate net t
  | .join sid => join net t sid

/-! ## objects with identity, sequences of calls -/

/-- An `AuthenticationToken` object: three attributes and a REFERENCE (`self.profile`, an index into
`World.profiles`). -/
structure TokenObj where
  username : JVal
  accessToken : JVal
  clientToken : JVal
  profileRef : Nat
deriving DecidableEq, Repr

/-- All `Profile` objects and all `AuthenticationToken` objects of a program. -/
structure World where
  profiles : List Profile
  tokens : List TokenObj
deriving DecidableEq, Repr

def World.empty : World := ⟨[], []⟩

/-- `AuthenticationToken(username, access_token, client_token)` (`__init__`, l.51-66): the three
arguments are stored and `self.profile = Profile()` creates a NEW profile object. -/
def World.newToken (w : World) (username accessToken clientToken : JVal) : World :=
  { profiles := w.profiles ++ [⟨.null, .null⟩]
    tokens := w.tokens ++ [⟨username, accessToken, clientToken, w.profiles.length⟩] }

/-- A program's tokens: created one after the other by the constructor `mk` (`World.newToken` for
the real `__init__`) from `(username, access_token, client_token)`. -/
def build (mk : World → JVal → JVal → JVal → World) (inits : List (JVal × JVal × JVal)) : World :=
  inits.foldl (fun w x => mk w x.1 x.2.1 x.2.2) World.empty

/-- What the methods of token `i` see. -/
def World.view (w : World) (i : Nat) : Option Token :=
  match w.tokens[i]? with
  | none => none
  | some o =>
    match w.profiles[o.profileRef]? with
    | none => none
    | some p => some ⟨o.username, o.accessToken, o.clientToken, p⟩

/-- Write back what a method of token `i` assigned: `self.username`, `self.access_token`,
`self.client_token` into the token object, `self.profile.id_`, `self.profile.name` into the profile
object it REFERS TO. -/
def World.store (w : World) (i : Nat) (t : Token) : World :=
  match w.tokens[i]? with
  | none => w
  | some o =>
    { profiles := w.profiles.set o.profileRef t.profile
      tokens := w.tokens.set i { o with username := t.username, accessToken := t.accessToken,
                                          clientToken := t.clientToken } }

/-- One call of a program: a method of token number `tok`, or the static `sign_out`. -/
inductive Call
  | method (tok : Nat) (op : Op)
  | signOut (user pass : String)
deriving DecidableEq, Repr

/-- What the caller and the network observe of one call; `none`: there is no such token (the call
is skipped). -/
abbrev Obs := Option (Outcome × Option Request)

def World.call (w : World) (c : Call) (net : Request → Resp) : World × Obs :=
  match c with
  | .method i op =>
    match w.view i with
    | none => (w, none)
    | some t =>
      let res := run op net t
      (w.store i res.1, some (res.2.1, res.2.2))
  | .signOut user pass =>
    let res := signOut net user pass
    (w, some (res.1, some res.2))

/-- A sequence of calls, the `k`-th one answered by the `k`-th given response (consulted only if the
call sends a request). -/
def runSeq (w : World) : List (Call × Resp) → World × List Obs
  | [] => (w, [])
  | (c, rsp) :: rest =>
    let s := w.call c (fun _ => rsp)
    let r := runSeq s.1 rest
    (r.1, s.2 :: r.2)

/-- A stand-in for the service: a state machine fed with the requests. -/
structure Service (σ : Type) where
  handle : σ → Request → σ × Resp

/-- The request of an observation. -/
def Obs.request : Obs → Option Request
  | some (_, q) => q
  | none => none

/-- The state of the service after a call: it advances only when a request was actually sent. -/
def Service.advance {σ : Type} (svc : Service σ) (s : σ) : Option Request → σ
  | some q => (svc.handle s q).1
  | none => s

/-- A sequence of calls against a service: each request is handed to the service. -/
def runSvc {σ : Type} (svc : Service σ) : σ → World → List Call → σ × World × List Obs
  | s, w, [] => (s, w, [])
  | s, w, c :: rest =>
    let st := w.call c (fun q => (svc.handle s q).2)
    let s' := svc.advance s (Obs.request st.2)
    let r := runSvc svc s' st.1 rest
    (r.1, r.2.1, st.2 :: r.2.2)

/-- The same for ONE token (no aliasing question): the calls of its history. -/
def runTok (t : Token) : List (Op × Resp) → Token × List (Outcome × Option Request)
  | [] => (t, [])
  | (op, rsp) :: rest =>
    let s := run op (fun _ => rsp) t
    let r := runTok s.1 rest
    (r.1, (s.2.1, s.2.2) :: r.2)

/-! ## comparison with observations of the real code (`harness/gen/c19seq.py`) -/

/-- An outcome as the harness can observe it: the `YggdrasilError` without its message structure … -/
def Outcome.eraseMsg : Outcome → Outcome
  | .yggdrasil _ st e m c => .yggdrasil none st e m c
  | o => o

/-- … and the text `exception.args[0]` (`none`: `args[0] is None`, or not a `YggdrasilError`). -/
def Outcome.argsText (R : JVal → String) : Outcome → Option String
  | .yggdrasil (some msg) _ _ _ _ => some (msg.text R)
  | _ => none

/-- One observed program run: the constructor arguments of the tokens, the calls with the responses
served, and what was seen — per call `(outcome, args text, request as prepared by requests)` or
`none` for a skipped call — and the five attributes of every token at the end. -/
structure LiveRun where
  inits : List (JVal × JVal × JVal)
  steps : List (Call × Resp)
  seen : List (Option (Outcome × Option String × Option Request))
  final : List Token
deriving Repr

/-- The model's prediction for a run, in the same form.  (No row of the table has a list or an
object as `error` / `errorMessage`, so the `repr` parameter of `Msg.text` is immaterial.) -/
def LiveRun.predicted (r : LiveRun) :
    List (Option (Outcome × Option String × Option Request)) × List (Option Token) :=
  let res := runSeq (build World.newToken r.inits) r.steps
  (res.2.map (fun o => o.map (fun p => (p.1.eraseMsg, p.1.argsText (fun _ => ""), p.2))),
   (List.range r.inits.length).map res.1.view)

def LiveRun.check (r : LiveRun) : Bool :=
  decide (r.predicted = (r.seen, r.final.map some))

end PyCraft.AuthSeq
