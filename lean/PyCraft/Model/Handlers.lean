import PyCraft.Model.Dispatch
/-!
Model of networking-thread exception routing, `minecraft/networking/connection.py`:
`Connection._handle_exception` and `Connection.register_exception_handler`.

Exception classes are natural numbers with the same `(child, parent)` edge-list hierarchy as packet
classes (`Hier`, `isSub` from `Model/Dispatch.lean`; `isSub hier c d` = `issubclass(c, d)`).
An exception VALUE is a class plus a tag that distinguishes instances.

Handlers, the reactor's handler and the final handler are abstracted to their observable behaviour:
return normally, or raise a given exception (`except Exception` in the Python catches it; things
that are not `Exception`s — `KeyboardInterrupt`, `SystemExit` — are outside the model).
-/
namespace PyCraft

/-- An exception instance. -/
structure Exc where
  cls : Nat
  tag : Nat
deriving Repr, DecidableEq

/-- What a handler does when called. -/
inductive Beh
  | returns
  | raises (e : Exc)
deriving Repr, DecidableEq

/-- Exception raised by a call with behaviour `b`, if any. -/
def Beh.raised : Beh → Option Exc
  | .returns => none
  | .raises e => some e

/-- A registered `(handler_func, exc_types)` pair; empty `types` catches everything. -/
structure Handler where
  id : Nat
  types : List Nat
  beh : Beh
deriving Repr, DecidableEq

/-- `self.reactor.handle_exception(exc, exc_info)`: truthy result, falsy result, or raises. -/
inductive RBeh
  | retTrue
  | retFalse
  | raises (e : Exc)
deriving Repr, DecidableEq

/-- `self.handle_exception` (constructor argument): `None`, `False`, or a callable. -/
inductive Final
  | none
  | false
  | fn (beh : Beh)
deriving Repr, DecidableEq

/-- One callback invocation: who was called, with which exception, and what it raised. -/
inductive CallEv
  | reactor (arg : Exc) (raised : Option Exc)
  | handler (id : Nat) (arg : Exc) (raised : Option Exc)
  | final (arg : Exc) (raised : Option Exc)
deriving Repr, DecidableEq

def CallEv.arg : CallEv → Exc
  | .reactor a _ => a
  | .handler _ a _ => a
  | .final a _ => a

def CallEv.raised : CallEv → Option Exc
  | .reactor _ r => r
  | .handler _ _ r => r
  | .final _ r => r

/-- `not exc_types or isinstance(exc, exc_types)`. -/
def Handler.handles (hier : Hier) (h : Handler) (e : Exc) : Bool :=
  h.types.isEmpty || h.types.any (fun t => isSub hier e.cls t)

/-- State of the `for handler, exc_types in self._exception_handlers` loop: the exception currently
in play (`exc`), the calls made so far, and whether the loop was left through `break`
(`caught = True`; the `else:` clause gives `caught = False` exactly when it was not). -/
structure LoopSt where
  exc : Exc
  calls : List CallEv
  broke : Bool
deriving Repr, DecidableEq

/-- One iteration of the loop body (nothing happens any more once the loop has been broken). -/
def loopStep (hier : Hier) (st : LoopSt) (h : Handler) : LoopSt :=
  if st.broke then st
  else if h.handles hier st.exc then
    match h.beh with
    | .returns =>                               -- handler(exc, exc_info); caught = True; break
      { st with calls := st.calls ++ [.handler h.id st.exc none], broke := true }
    | .raises e' =>                             -- except Exception as new_exc: exc = new_exc
      { exc := e', calls := st.calls ++ [.handler h.id st.exc (some e')], broke := false }
  else st

/-- The whole `for … else` loop, started with exception `e`. -/
def handlerLoop (hier : Hier) (hs : List Handler) (e : Exc) : LoopSt :=
  hs.foldl (loopStep hier) { exc := e, calls := [], broke := false }

/-- Observable result of `_handle_exception`. -/
structure Outcome where
  /-- every callback invocation, in order (reactor handler, user handlers, final handler) -/
  trace : List CallEv
  /-- the local `caught` (meaningless, and `false`, when the reactor swallowed the exception) -/
  caught : Bool
  /-- the exception in play when the handler loop was left (`none` if it was never entered) -/
  loopExc : Option Exc
  /-- `connection.exception` as set by this call; `none` = not set (early `return`) -/
  recorded : Option Exc
  /-- exception re-raised out of `_handle_exception` (hence out of the thread's `run`) -/
  reraised : Option Exc
  /-- `self.reactor.handle_exception(...)` returned a true value: immediate `return` -/
  swallowedByReactor : Bool
deriving Repr, DecidableEq

def CallEv.isHandler : CallEv → Bool
  | .handler _ _ _ => true
  | .reactor _ _ => false
  | .final _ _ => false

def CallEv.isFinal : CallEv → Bool
  | .final _ _ => true
  | .reactor _ _ => false
  | .handler _ _ _ => false

def CallEv.handlerId? : CallEv → Option Nat
  | .handler i _ _ => some i
  | .reactor _ _ => none
  | .final _ _ => none

/-- ids of the user handlers called, in order. -/
def Outcome.calls (o : Outcome) : List Nat := o.trace.filterMap CallEv.handlerId?

/-- the final handler was called. -/
def Outcome.finalCalled (o : Outcome) : Bool := o.trace.any CallEv.isFinal

/-- `Connection._handle_exception(exc, exc_info)`. -/
def handleException (hier : Hier) (r : RBeh) (hs : List Handler) (fin : Final) (e : Exc) :
    Outcome :=
  -- try: if self.reactor.handle_exception(exc, exc_info): return
  -- except Exception as new_exc: exc = new_exc
  match r with
  | .retTrue =>
    { trace := [.reactor e none], caught := false, loopExc := none, recorded := none,
      reraised := none, swallowedByReactor := true }
  | r =>
    let rRaised : Option Exc := match r with | .raises e' => some e' | _ => none
    let exc0 : Exc := rRaised.getD e
    -- for handler, exc_types in self._exception_handlers: … else: caught = False
    let st := handlerLoop hier hs exc0
    let caught := st.broke
    -- if final_handler not in (None, False): try: final_handler(exc, exc_info) except …
    let finCalls : List CallEv := match fin with
      | .fn b => [.final st.exc b.raised]
      | _ => []
    let exc2 : Exc := match fin with
      | .fn (.raises e') => e'
      | _ => st.exc
    -- self.exception, self.exc_info = exc, exc_info
    -- if final_handler is None and not caught: raise …
    { trace := .reactor e rRaised :: st.calls ++ finCalls,
      caught := caught,
      loopExc := some st.exc,
      recorded := some exc2,
      reraised := if fin = .none ∧ caught = false then some exc2 else none,
      swallowedByReactor := false }

/-- `register_exception_handler(handler_func, *exc_types, early=…)`:
`self._exception_handlers.insert(0, …)` or `.append(…)`. -/
def registerHandler (hs : List Handler) (h : Handler) (early : Bool) : List Handler :=
  if early then hs.insertIdx 0 h else hs ++ [h]

/-- A sequence of `register_exception_handler` calls. -/
def registerHandlers (hs : List Handler) (rs : List (Handler × Bool)) : List Handler :=
  rs.foldl (fun acc r => registerHandler acc r.1 r.2) hs

/-! ### Reference semantics: a chain of `except` clauses, as nested `try`

```
try:
    try:
        try: raise e
        except T1 as x: h1(x)
    except T2 as x: h2(x)
except T3 as x: h3(x)
```
The first clause whose types match runs its handler; if the handler raises, the new exception
propagates to the ENCLOSING `try`, i.e. is offered to the REST of the chain only. -/

inductive ChainResult
  | caughtBy (id : Nat) (e : Exc)
  | uncaught (e : Exc)
deriving Repr, DecidableEq

/-- Final exception of a chain result. -/
def ChainResult.exc : ChainResult → Exc
  | .caughtBy _ e => e
  | .uncaught e => e

def ChainResult.isCaught : ChainResult → Bool
  | .caughtBy _ _ => true
  | .uncaught _ => false

/-- `(handlers run, result)` of raising `e` inside the nested `try` built from `hs`
(innermost clause first). -/
def tryExceptChain (hier : Hier) : List Handler → Exc → List CallEv × ChainResult
  | [], e => ([], .uncaught e)
  | h :: hs, e =>
    if h.handles hier e then
      match h.beh with
      | .returns => ([.handler h.id e none], .caughtBy h.id e)
      | .raises e' =>
        let r := tryExceptChain hier hs e'
        (.handler h.id e (some e') :: r.1, r.2)
    else tryExceptChain hier hs e

end PyCraft
