import PyCraft.Model.Sha1
/-!
Model of `minecraft/networking/encryption.py`: `generate_verification_hash`,
`minecraft_sha1_hash_digest`, `_number_from_bytes` (Python-3 branch).

```
verification_hash.update(server_id.encode('utf-8'))
verification_hash.update(shared_secret)
verification_hash.update(public_key)
number_representation = int.from_bytes(digest, byteorder='big', signed=True)
return format(number_representation, 'x')
```
-/
namespace PyCraft

/-- The three `update` calls: hashing happens over the concatenation, in this order.  `sid` is
`server_id.encode('utf-8')`. -/
def hashInput (sid secret key : Bytes) : Bytes := sid ++ secret ++ key

/-- Unsigned accumulation, most significant byte first (`acc = acc * 256 + byte`). -/
def bytesToNatBE (b : Bytes) : Nat := b.foldl (fun acc x => acc * 256 + x.toNat) 0

/-- `int.from_bytes(b, byteorder='big', signed=True)`: the unsigned value, minus `2^(8·len)` when
the sign bit (top bit of the first byte) is set; `b''` gives `0`. -/
def fromBytesSigned (b : Bytes) : Int :=
  match b with
  | [] => 0
  | b0 :: _ =>
    if b0.toNat &&& 0x80 ≠ 0 then (bytesToNatBE b : Int) - (2 ^ (8 * b.length) : Nat)
    else (bytesToNatBE b : Int)

/-- Hex digits of `n`, most significant first, pushed in front of `acc`; `fuel` bounds the number
of digits. -/
def toDigits16Aux : Nat → Nat → List Char → List Char
  | 0, _, acc => acc
  | fuel + 1, n, acc =>
    if n < 16 then hexDigit n :: acc
    else toDigits16Aux fuel (n / 16) (hexDigit (n % 16) :: acc)

/-- Lower-case hex digits of a natural number, no leading zeros, `"0"` for zero.
(`n < 2^(log2 n + 1) ≤ 16^(log2 n / 4 + 1)`, so the fuel always suffices.) -/
def toDigits16 (n : Nat) : List Char := toDigits16Aux (n.log2 / 4 + 1) n []

/-- The characters of Python's `format(z, 'x')`: `'-'` then the digits of `|z|` for negatives. -/
def formatHexChars (z : Int) : List Char :=
  if z < 0 then '-' :: toDigits16 z.natAbs else toDigits16 z.natAbs

/-- `format(z, 'x')`. -/
def formatHex (z : Int) : String := String.ofList (formatHexChars z)

/-- `minecraft_sha1_hash_digest` applied to a finished digest. -/
def signedHex (digest : Bytes) : String := formatHex (fromBytesSigned digest)

/-- `generate_verification_hash(server_id, shared_secret, public_key)`. -/
def mcHash (sid secret key : Bytes) : String := signedHex (sha1 (hashInput sid secret key))

end PyCraft
