import PyCraft.Model.Frame
import PyCraft.Model.Handlers
import PyCraft.Model.Negotiate
import PyCraft.Generated.C15Thread
/-!
Model of ONE WHOLE NETWORKING THREAD on a server stream that may end anywhere, and of the
`connect()` session built from such threads (`minecraft/networking/connection.py`).

What is new with respect to `Model/Frame.lean` (`readAllK`: one compression flag and one cipher from
byte 0, no reactor) and `Model/Handlers.lean` (`handleException`: the reactor's answer is a free
parameter):

* `threadLoop` — the read loop of `NetworkingThread._run` (l.613-653: `while not self.interrupt: …
  packet = self.connection.reactor.read_packet(…); self.connection._react(packet)`) with the state
  the READING side depends on, which the reactions change BETWEEN two `read_packet` calls:
  `connection.reactor` (`RMode.kind`), `options.compression_enabled` (`RMode.comp`, consulted by
  `read_packet` l.690) and `connection.file_object` (the decryptor contexts wrapped around the raw
  socket file: `Sock.st`; `LoginReactor.react` l.761-768 wraps the CURRENT file object, so a second
  encryption request nests a second decryptor: `stackDec`).
* `reactorHandle` — `PacketReactor.handle_exception` (l.727-732: `return False`, inherited by
  `StatusReactor`, `LoginReactor`, `PlayingReactor`) and `PlayingStatusReactor.handle_exception`
  (l.899-905: `if isinstance(exc, EOFError): disconnect(immediate=True); handle_failure(); return
  True`, else falls off the end = `None`).  `handle_failure()` (l.896-897) is
  `handle_proto_version(default_proto_version)` = `allowed_proto_versions = {v}; connect()`
  (l.892-894), and `connect()` can raise (`socket.connect`): then `handle_exception` itself raises
  and `_handle_exception` (l.504-508) replaces the exception.
* `threadsFuel`/`connectRun` — `connect()` (l.385-422), the thread(s) it starts, `run`'s
  `except Exception as e: self.interrupt = True; self.connection._handle_exception(e, …)`
  (l.606-608), and the reconnects issued from inside the networking thread.

What a delivered frame DOES is a parameter (`React`): `packet.read(packet_data)` inside `read_packet`
(l.707-710; may raise: `Effect.badPacket`), then `_react` (l.575-583: early listeners,
`reactor.react`, listeners; may raise: `Effect.raise`), classified by what it changes for the reader.
The theorems hold for EVERY such function; `Props/C15Thread.lean` instantiates it.

NOT modelled (as in `Model/Frame.lean`): the write phase of `_run` and its deferred `IOError`
(l.617-625, 651-653), `select` timing out (`read_packet` returning `None`: a stream that stalls
without ending cannot be expressed by `Segs`), exception handlers that reconnect (`Beh` is
returns/raises), and the `disconnect(immediate=True)` at the end of `_handle_exception` (C16).
-/
namespace PyCraft.C15Thread
open PyCraft

/-! ## the reactors -/

/-- The class of `connection.reactor`: `StatusReactor` (set by `status()` l.370),
`PlayingStatusReactor` (`connect()` l.421), `LoginReactor` (`connect()` l.415), `PlayingReactor`
(`LoginReactor.react` l.788). -/
inductive ReactorKind
  | status
  | playingStatus
  | login
  | playing
deriving DecidableEq, Repr

/-- What `packet.read` + `_react` of one delivered frame mean for the thread.
* `pass` — nothing the reader depends on changes (keep-alive, plugin request, unknown id, …);
* `setCompression t` — l.790-792 / l.804-806: `options.compression_threshold = t;
  options.compression_enabled = True`;
* `encrypt key` — l.761-768: `file_object = EncryptedFileObjectWrapper(file_object, decryptor)`;
* `loginSuccess` — l.787-788: `connection.reactor = PlayingReactor(connection)`;
* `interrupt` — `connection.disconnect()` was called (l.829-835, l.855, l.861): `interrupt = True`,
  both loops of `_run` end, `_run` returns;
* `negotiated v` — `PlayingStatusReactor.handle_status` reached `handle_proto_version(v)`
  (l.875-894) after the `disconnect()` of l.855: `allowed_proto_versions = {v}; connect()`;
* `badPacket e` — `packet.read(packet_data)` raised inside `read_packet`: the packet never reaches
  `_react`;
* `raise e` — a listener or the reaction raised inside `_react` (`LoginDisconnect`,
  `VersionMismatch`, `IOError('Invalid server status.')`, a listener's exception, …). -/
inductive Effect (κ : Type) where
  | pass
  | setCompression (t : Int)
  | encrypt (key : κ)
  | loginSuccess
  | interrupt
  | negotiated (v : Nat)
  | badPacket (e : Err)
  | raise (e : Err)
deriving DecidableEq, Repr

/-- `packet.read` + `_react` as a function of the current reactor and the frame `(id, bytes)`. -/
abbrev React (κ : Type) := ReactorKind → Nat × Bytes → Effect κ

/-- How the read loop was left. -/
inductive End
  /-- an exception propagated out of `_run` -/
  | raised (e : Err)
  /-- `interrupt` was set: `_run` returned normally (`run` then calls `_handle_exit()`) -/
  | interrupted
  /-- … by `handle_proto_version(v)`, which goes on to call `connect()` from inside `_react` -/
  | negotiated (v : Nat)
deriving DecidableEq, Repr

/-- Does the effect end the loop?  `some (d, e)`: it ends with `e`; `d` = `_react(packet)` was
entered, i.e. the packet was handed to the listeners. -/
def Effect.stop {κ : Type} : Effect κ → Option (Bool × End)
  | .badPacket e => some (false, .raised e)
  | .raise e => some (true, .raised e)
  | .interrupt => some (true, .interrupted)
  | .negotiated v => some (true, .negotiated v)
  | _ => none

/-- The reader-relevant attributes of the connection that are not in the socket. -/
structure RMode where
  /-- `connection.reactor` -/
  kind : ReactorKind
  /-- `connection.options.compression_enabled` -/
  comp : Bool
deriving DecidableEq, Repr

/-- `connection.reactor` after a non-stopping reaction (l.788). -/
def kindAfter {κ : Type} (kind : ReactorKind) : Effect κ → ReactorKind
  | .loginSuccess => .playing
  | _ => kind

/-- The decryptor context(s) after a non-stopping reaction (l.761-768). -/
def stAfter {τ κ : Type} (install : τ → κ → τ) (st : τ) : Effect κ → τ
  | .encrypt key => install st key
  | _ => st

/-- The attributes after a non-stopping reaction. -/
def RMode.after {κ : Type} (m : RMode) (eff : Effect κ) : RMode :=
  { kind := kindAfter m.kind eff
    comp := match eff with
      | .setCompression _ => true
      | _ => m.comp }

/-- `connection.file_object` after a non-stopping reaction: `encrypt key` wraps the current file
object — same unread bytes (`makefile("rb", 0)` is unbuffered), decryptor context(s) extended by
`install`; everything else leaves it alone. -/
def sockAfter {τ κ : Type} (install : τ → κ → τ) (k : Sock τ) (eff : Effect κ) : Sock τ :=
  { k with st := stAfter install k.st eff }

/-- The fixed parts of a client: the decryptor stack as a stream transformer, its state on a fresh
connection (`_connect()` l.452: the raw socket file), what wrapping does to that state, zlib, and the
reactions. -/
structure Client (τ κ : Type) where
  dec : StreamXform τ
  st0 : τ
  install : τ → κ → τ
  z : ZlibOps
  react : React κ

/-- What the loop leaves behind. -/
structure LoopRes (τ : Type) where
  /-- the packets handed to `_react` (early listeners, reaction, listeners), in order -/
  delivered : List (Nat × Bytes)
  ending : End
  /-- reactor and compression flag when the loop was left -/
  mode : RMode
  /-- the socket when the loop was left (read counters, unread bytes) -/
  sock : Sock τ

def LoopRes.cons {τ : Type} (p : Nat × Bytes) (r : LoopRes τ) : LoopRes τ :=
  { r with delivered := p :: r.delivered }

/-- The read loop of `_run`: `read_packet` (with the compression flag of the moment, through the
file object of the moment); an exception ends the thread; else `packet.read`/`_react`; a stopping
effect ends the loop, any other one updates reactor / flag / file object for the NEXT `read_packet`.
`fuel` bounds the number of `read_packet` calls; `runThread` supplies (bytes + 1), which is never
exhausted (`C15Thread.thread_bounded`). -/
def threadLoop {τ κ : Type} (C : Client τ κ) : Nat → RMode → Sock τ → LoopRes τ
  | 0, m, k => ⟨[], .raised .other, m, k⟩
  | fuel + 1, m, k =>
    match readPacketK C.dec C.z m.comp k with
    | (.error e, k') => ⟨[], .raised e, m, k'⟩
    | (.ok p, k') =>
      match (C.react m.kind p).stop with
      | some (d, e) => ⟨if d then [p] else [], e, m, k'⟩
      | none =>
        (threadLoop C fuel (m.after (C.react m.kind p))
          (sockAfter C.install k' (C.react m.kind p))).cons p

/-- One networking thread on a fresh connection (`_connect()`: raw file object,
`compression_enabled = False`) whose reactor is `kind` and whose server delivers `segs`, then ends
the stream. -/
def runThread {τ κ : Type} (C : Client τ κ) (kind : ReactorKind) (segs : Segs) : LoopRes τ :=
  threadLoop C (segs.flatten.length + 1) ⟨kind, false⟩ (Sock.enc C.st0 segs)

/-! ## nested decryptors -/

/-- `EncryptedFileObjectWrapper.read` through a stack of wrappers, innermost (oldest) first:
`read(n) = decryptor_j.update(… decryptor_1.update(raw.read(n)))`. -/
def stackDecUpdate {σ : Type} (x : StreamXform σ) : List σ → Bytes → List σ × Bytes
  | [], b => ([], b)
  | s :: ss, b =>
    let r := x.update s b
    let q := stackDecUpdate x ss r.2
    (r.1 :: q.1, q.2)

theorem stackDecUpdate_len {σ : Type} (x : StreamXform σ) :
    ∀ (ss : List σ) (b : Bytes), (stackDecUpdate x ss b).2.length = b.length := by
  intro ss
  induction ss with
  | nil => intro b; rfl
  | cons s ss ih => intro b; simp only [stackDecUpdate]; rw [ih, x.len]

theorem stackDecUpdate_chunk {σ : Type} (x : StreamXform σ) :
    ∀ (ss : List σ) (a b : Bytes), stackDecUpdate x ss (a ++ b) =
      ((stackDecUpdate x (stackDecUpdate x ss a).1 b).1,
       (stackDecUpdate x ss a).2 ++ (stackDecUpdate x (stackDecUpdate x ss a).1 b).2) := by
  intro ss
  induction ss with
  | nil => intro a b; rfl
  | cons s ss ih =>
    intro a b
    simp only [stackDecUpdate]
    rw [x.chunk]
    simp only []
    rw [ih]

/-- The file object of the moment as ONE stream transformer on the list of decryptor contexts
(`[]` = the raw socket file). -/
def stackDec {σ : Type} (x : StreamXform σ) : StreamXform (List σ) where
  update := stackDecUpdate x
  len := stackDecUpdate_len x
  chunk := stackDecUpdate_chunk x

/-- The peer of `stackDec` (NOT pyCraft code — what a server has to do so that the nested
decryptors recover the plain text): the newest context is applied first, the oldest last. -/
def stackEncUpdate {σ : Type} (x : StreamXform σ) : List σ → Bytes → List σ × Bytes
  | [], b => ([], b)
  | s :: ss, b =>
    let q := stackEncUpdate x ss b
    let r := x.update s q.2
    (r.1 :: q.1, r.2)

theorem stackEncUpdate_len {σ : Type} (x : StreamXform σ) :
    ∀ (ss : List σ) (b : Bytes), (stackEncUpdate x ss b).2.length = b.length := by
  intro ss
  induction ss with
  | nil => intro b; rfl
  | cons s ss ih => intro b; simp only [stackEncUpdate]; rw [x.len, ih]

theorem stackEncUpdate_chunk {σ : Type} (x : StreamXform σ) :
    ∀ (ss : List σ) (a b : Bytes), stackEncUpdate x ss (a ++ b) =
      ((stackEncUpdate x (stackEncUpdate x ss a).1 b).1,
       (stackEncUpdate x ss a).2 ++ (stackEncUpdate x (stackEncUpdate x ss a).1 b).2) := by
  intro ss
  induction ss with
  | nil => intro a b; rfl
  | cons s ss ih =>
    intro a b
    simp only [stackEncUpdate]
    rw [ih]
    simp only []
    rw [x.chunk]

def stackEnc {σ : Type} (x : StreamXform σ) : StreamXform (List σ) where
  update := stackEncUpdate x
  len := stackEncUpdate_len x
  chunk := stackEncUpdate_chunk x

theorem stack_inv {σ : Type} (cp : CipherPair σ) : ∀ (ss : List σ) (b : Bytes),
    (stackDecUpdate cp.dec ss (stackEncUpdate cp.enc ss b).2).2 = b ∧
    (stackDecUpdate cp.dec ss (stackEncUpdate cp.enc ss b).2).1 = (stackEncUpdate cp.enc ss b).1 := by
  intro ss
  induction ss with
  | nil => intro b; exact ⟨rfl, rfl⟩
  | cons s ss ih =>
    intro b
    simp only [stackEncUpdate, stackDecUpdate]
    rw [(cp.inv s _).1, (cp.inv s _).2, (ih b).1, (ih b).2]
    exact ⟨rfl, rfl⟩

/-- Nested encryptors / decryptors started in pairs stay in step and invert. -/
def stackPair {σ : Type} (cp : CipherPair σ) : CipherPair (List σ) where
  enc := stackEnc cp.enc
  dec := stackDec cp.dec
  inv := stack_inv cp

/-- `EncryptedFileObjectWrapper(file_object, decryptor)`: one more context, outermost. -/
def stackInstall {σ κ : Type} (init : κ → σ) (st : List σ) (key : κ) : List σ := st ++ [init key]

/-- pyCraft's client for a cipher pair whose fresh context for `key` is `init key`
(`create_AES_cipher(secret)`: key = IV = secret, i.e. `init = id` for `cfb8Pair`). -/
def stackClient {σ κ : Type} (cp : CipherPair σ) (init : κ → σ) (z : ZlibOps) (react : React κ) :
    Client (List σ) κ :=
  ⟨stackDec cp.dec, [], stackInstall init, z, react⟩

/-! ## the reference server and the reference outcome (NOT pyCraft code) -/

/-- The server's view of the conversation: the client's reactor, the threshold it has announced
(`none`: none yet) and its encryptor context(s). -/
structure SMode (τ : Type) where
  kind : ReactorKind
  thr : Option Int
  st : τ

/-- The threshold the server frames with after a packet whose effect is `eff`. -/
def thrAfter {κ : Type} (thr : Option Int) : Effect κ → Option Int
  | .setCompression t => some t
  | _ => thr

/-- The mode for the packet AFTER one whose effect on the client is `eff` (a stopping effect: the
client reads no further; the server is taken to carry on unchanged). -/
def SMode.after {τ κ : Type} (install : τ → κ → τ) (m : SMode τ) (eff : Effect κ) : SMode τ :=
  { kind := kindAfter m.kind eff, thr := thrAfter m.thr eff, st := stAfter install m.st eff }

/-- The server → client byte stream of the conversation `ps`: every packet framed under the
threshold in force, encrypted with the context(s) in force, each switch taking effect right BEHIND
the packet that announces it. -/
def srvWire {τ κ : Type} (enc : StreamXform τ) (install : τ → κ → τ) (z : ZlibOps)
    (react : React κ) : SMode τ → List (Nat × Bytes) → Bytes
  | _, [] => []
  | m, p :: ps =>
    let c := enc.update m.st (packetFrame z m.thr p)
    c.2 ++ srvWire enc install z react (SMode.after install { m with st := c.1 } (react m.kind p)) ps

/-- Every packet of the conversation is framed decodably under the threshold in force for it. -/
def WireOK {κ : Type} (z : ZlibOps) (react : React κ) :
    ReactorKind → Option Int → List (Nat × Bytes) → Prop
  | _, _, [] => True
  | kind, thr, p :: ps =>
    FrameOK z thr p ∧ WireOK z react (kindAfter kind (react kind p)) (thrAfter thr (react kind p)) ps

instance instDecidableWireOK {κ : Type} (z : ZlibOps) (react : React κ) :
    ∀ (kind : ReactorKind) (thr : Option Int) (ps : List (Nat × Bytes)),
      Decidable (WireOK z react kind thr ps)
  | _, _, [] => isTrue trivial
  | kind, thr, p :: ps =>
    have := instDecidableWireOK z react (kindAfter kind (react kind p))
      (thrAfter thr (react kind p)) ps
    inferInstanceAs (Decidable (_ ∧ _))

/-- What the thread should make of the COMPLETE packets `ps` followed by end of stream: hand them
to `_react` one by one until a reaction stops the loop; if none does, `EOFError`. -/
def refRun {κ : Type} (react : React κ) :
    RMode → List (Nat × Bytes) → List (Nat × Bytes) × End × RMode
  | m, [] => ([], .raised .eof, m)
  | m, p :: ps =>
    match (react m.kind p).stop with
    | some (d, e) => (if d then [p] else [], e, m)
    | none =>
      let r := refRun react (m.after (react m.kind p)) ps
      (p :: r.1, r.2)

/-! ## the reactor's exception handler, and the session -/

/-- `self.reactor.handle_exception(exc, exc_info)` as `_handle_exception` sees it.
`fallback` = what `handle_failure()` → `connect()` does if it is reached: `.ok _` returns,
`.error e'` raises `e'` out of `handle_exception`. -/
def reactorHandle {α : Type} (hier : Hier) (eofCls : Nat) (kind : ReactorKind)
    (fallback : Except Exc α) (e : Exc) : RBeh :=
  match kind with
  | .playingStatus =>
    if isSub hier e.cls eofCls then          -- if isinstance(exc, EOFError):
      match fallback with                    --   disconnect(immediate=True); handle_failure()
      | .ok _ => .retTrue                    --   return True
      | .error e' => .raises e'
    else .retFalse                           -- (falls off the end: None)
  | _ => .retFalse                           -- PacketReactor.handle_exception: return False

/-- The version `handle_failure()` calls `connect()` with, if `handle_exception` gets that far
(`none`: `connect()` is not called at all). -/
def fallbackVersion (hier : Hier) (eofCls : Nat) (kind : ReactorKind) (dflt : Nat) (e : Exc) :
    Option Nat :=
  match kind with
  | .playingStatus => if isSub hier e.cls eofCls then some dflt else none
  | _ => none

/-- How exceptions are handled on this connection object. -/
structure Handling where
  /-- the exception class hierarchy -/
  hier : Hier
  /-- the class `EOFError` -/
  eofCls : Nat
  /-- the exception object behind each error enum value -/
  excOf : Err → Exc
  /-- `connection._exception_handlers` -/
  hs : List Handler
  /-- `connection.handle_exception` -/
  fin : Final

/-- `connect()` called from the networking thread with `allowed_proto_versions = {v}`:
`max(…)` and `len(…) == 1` (`Neg.connectPlan`), then `_connect()` = the dial attempt `d`. -/
def reconnect (H : Handling) (env : Neg.VEnv) (v : Nat) (d : Except Exc Segs) :
    Except Exc (Neg.Plan × Segs) :=
  match Neg.connectPlan env [v] with
  | .error e => .error (H.excOf e)
  | .ok plan =>
    match d with
    | .error e => .error e
    | .ok srv => .ok (plan, srv)

/-- The reactor `connect()` installs for a plan (l.415 / l.421). -/
def kindOfPlan : Neg.Plan → ReactorKind
  | .direct _ => .login
  | .query _ => .playingStatus

/-- The record of one networking thread. -/
structure ThreadLog where
  /-- what `connect()` queued on this thread's connection -/
  plan : Neg.Plan
  /-- bytes the server sent on it before ending the stream -/
  streamLen : Nat
  delivered : List (Nat × Bytes)
  ending : End
  kindAtEnd : ReactorKind
  /-- `read` calls issued / `read` calls that returned `b''` -/
  reads : Nat
  empties : Nat
  /-- the result of `_handle_exception` if the thread ended by an exception (`none`: `_run`
  returned and `_handle_exit()` ran) -/
  outcome : Option Outcome
deriving DecidableEq, Repr

def mkLog {τ : Type} (plan : Neg.Plan) (srv : Segs) (t : LoopRes τ) (o : Option Outcome) :
    ThreadLog :=
  ⟨plan, srv.flatten.length, t.delivered, t.ending, t.mode.kind, t.sock.reads, t.sock.empties, o⟩

/-- How `run` (l.596-611) leaves `_run`: normally (possibly with a new thread already started by
`handle_proto_version`), or through `except Exception as e`. -/
inductive Stop
  | clean (next : Option (Neg.Plan × Segs))
  | exc (e : Exc)

/-- The threads of one `connect()`, oldest first.  `dial i` is the outcome of the `i`-th further
`socket.connect` (`.error e` = it raises `e`, `.ok segs` = the stream that connection's server
sends); `dflt` = `default_proto_version`; `fuel` bounds the number of threads and is never the
reason to stop (`C15Thread.connect_bounded`). -/
def threadsFuel {τ κ : Type} (C : Client τ κ) (H : Handling) (env : Neg.VEnv) (dflt : Nat)
    (dial : Nat → Except Exc Segs) : Nat → Nat → Neg.Plan → Segs → List ThreadLog
  | 0, _, _, _ => []
  | fuel + 1, i, plan, srv =>
    let t := runThread C (kindOfPlan plan) srv
    -- leaving `_run`
    let s : Stop × Nat :=
      match t.ending with
      | .interrupted => (.clean none, i)
      | .negotiated v =>                       -- handle_proto_version(v): connect() inside _react
        match reconnect H env v (dial i) with
        | .ok nx => (.clean (some nx), i + 1)
        | .error e => (.exc e, i + 1)
      | .raised e => (.exc (H.excOf e), i)
    match s.1 with
    | .clean none => [mkLog plan srv t none]
    | .clean (some nx) => mkLog plan srv t none :: threadsFuel C H env dflt dial fuel s.2 nx.1 nx.2
    | .exc e =>
      -- self.interrupt = True; self.connection._handle_exception(e, sys.exc_info())
      let fb := reconnect H env dflt (dial s.2)
      let r := reactorHandle H.hier H.eofCls t.mode.kind fb e
      mkLog plan srv t (some (handleException H.hier r H.hs H.fin e)) ::
        (match r, fb with
         | .retTrue, .ok nx => threadsFuel C H env dflt dial fuel (s.2 + 1) nx.1 nx.2
         | _, _ => [])

/-- `Connection.connect()` against a server that sends `srv` on the first connection:
`connectPlan` raising is `connect()` raising in the caller (no thread is started). -/
def connectRun {τ κ : Type} (C : Client τ κ) (H : Handling) (env : Neg.VEnv) (allowed : List Nat)
    (dflt : Nat) (srv : Segs) (dial : Nat → Except Exc Segs) (fuel : Nat) :
    Except Err (List ThreadLog) :=
  match Neg.connectPlan env allowed with
  | .error e => .error e
  | .ok plan => .ok (threadsFuel C H env dflt dial fuel 0 plan srv)

/-! ## seeded variants of the reactor handler (for the negative witnesses) -/

/-- The EOF fallback moved from `PlayingStatusReactor` up into `StatusReactor` (so that the plain
`status()` query has it too). -/
def reactorHandleMovedToStatus {α : Type} (hier : Hier) (eofCls : Nat) (kind : ReactorKind)
    (fallback : Except Exc α) (e : Exc) : RBeh :=
  match kind with
  | .playingStatus | .status =>
    if isSub hier e.cls eofCls then
      match fallback with
      | .ok _ => .retTrue
      | .error e' => .raises e'
    else .retFalse
  | _ => .retFalse

/-- The EOF fallback moved into `LoginReactor`. -/
def reactorHandleMovedToLogin {α : Type} (hier : Hier) (eofCls : Nat) (kind : ReactorKind)
    (fallback : Except Exc α) (e : Exc) : RBeh :=
  match kind with
  | .login =>
    if isSub hier e.cls eofCls then
      match fallback with
      | .ok _ => .retTrue
      | .error e' => .raises e'
    else .retFalse
  | _ => .retFalse

/-- `isinstance(exc, Exception)` instead of `isinstance(exc, EOFError)` (`excCls` = `Exception`). -/
def reactorHandleAnyException {α : Type} (hier : Hier) (excCls : Nat) (kind : ReactorKind)
    (fallback : Except Exc α) (e : Exc) : RBeh :=
  reactorHandle hier excCls kind fallback e

/-- A reader that enables decompression one frame late (the flag consulted by `read_packet` is the
one in force BEFORE the previous reaction). -/
def threadLoopLateComp {τ κ : Type} (C : Client τ κ) : Nat → Bool → RMode → Sock τ → LoopRes τ
  | 0, _, m, k => ⟨[], .raised .other, m, k⟩
  | fuel + 1, stale, m, k =>
    match readPacketK C.dec C.z stale k with
    | (.error e, k') => ⟨[], .raised e, m, k'⟩
    | (.ok p, k') =>
      match (C.react m.kind p).stop with
      | some (d, e) => ⟨if d then [p] else [], e, m, k'⟩
      | none =>
        (threadLoopLateComp C fuel m.comp (m.after (C.react m.kind p))
          (sockAfter C.install k' (C.react m.kind p))).cons p

/-- A reader whose `encrypt` reaction does not wrap the file object used by `read_packet` (only
`connection.socket` is wrapped). -/
def threadLoopNoDecrypt {τ κ : Type} (C : Client τ κ) : Nat → RMode → Sock τ → LoopRes τ
  | 0, m, k => ⟨[], .raised .other, m, k⟩
  | fuel + 1, m, k =>
    match readPacketK C.dec C.z m.comp k with
    | (.error e, k') => ⟨[], .raised e, m, k'⟩
    | (.ok p, k') =>
      match (C.react m.kind p).stop with
      | some (d, e) => ⟨if d then [p] else [], e, m, k'⟩
      | none => (threadLoopNoDecrypt C fuel (m.after (C.react m.kind p)) k').cons p

/-! ## vocabulary for the live tables (`Generated/C15Thread.lean`) -/

/-- the reactor classes as numbered in the generated tables -/
def kindOfCode : Nat → Option ReactorKind
  | 0 => some .status
  | 1 => some .playingStatus
  | 2 => some .login
  | 3 => some .playing
  | _ => none

/-- class of the exception the final handler was called with (0: it was not called) -/
def finalArgCls (o : Outcome) : Nat :=
  ((o.trace.filterMap fun ev =>
    match ev with
    | .final a _ => some a.cls
    | _ => none).head?).getD 0

/-- What a model `rh` of the reactor's handler predicts for one probe of the generator: the real
`_handle_exception` on a connection without user handlers and with a recording final handler, the
exception being a fresh instance of class `cls`, the fallback `connect()` succeeding (`fails = 0`)
or raising `ConnectionRefusedError`: (swallowed, version `connect()` was called with or 0, class
the final handler received or 0, class of `connection.exception` or 0). -/
def modelRow (rh : Hier → Nat → ReactorKind → Except Exc Unit → Exc → RBeh) (kind : ReactorKind)
    (cls fails : Nat) : Nat × Nat × Nat × Nat :=
  let fb : Except Exc Unit := if fails = 1 then .error ⟨Gen.c15Refused, 1⟩ else .ok ()
  let e : Exc := ⟨cls, 0⟩
  let o := handleException Gen.c15Hier (rh Gen.c15Hier Gen.c15Eof kind fb e) [] (.fn .returns) e
  (if o.swallowedByReactor then 1 else 0,
   (fallbackVersion Gen.c15Hier Gen.c15Eof kind Gen.c15Default e).getD 0,
   finalArgCls o,
   (o.recorded.map (·.cls)).getD 0)

/-- does the model `rh` predict the live row? -/
def rowOK (rh : Hier → Nat → ReactorKind → Except Exc Unit → Exc → RBeh)
    (row : Nat × Nat × Nat × Nat × Nat × Nat × Nat) : Bool :=
  match kindOfCode row.1 with
  | none => false
  | some kind =>
    modelRow rh kind row.2.1 row.2.2.1 ==
      (row.2.2.2.1, row.2.2.2.2.1, row.2.2.2.2.2.1, row.2.2.2.2.2.2)

/-- the class `read_packet` raised in probe `code` of the generator (0 if the probe is missing) -/
def readerCls (code : Nat) : Nat := ((Gen.c15ReaderExc.find? (·.1 = code)).map (·.2)).getD 0

end PyCraft.C15Thread
