import PyCraft.Model.LoginWire
import PyCraft.Model.HandshakeWire
/-!
The INBOUND (server → client) byte path of the login phase — the half of property C10 ("switches
BOTH directions to encrypted immediately after that reply, applies the announced compression
threshold to EVERYTHING that follows") that `Model/Login.lean` (pre-parsed `LoginEv`s, one
`encrypted` Bool) and `Model/LoginWire.lean` (client → server bytes only) leave out.

Client side (mirrors `minecraft/networking/connection.py` and `encryption.py` literally)

* `FileObj` — `connection.file_object`: the unbuffered `socket.makefile("rb", 0)` (`Sock.segs`, the
  arrival segments; end of the list = the peer closed) under a STACK of
  `EncryptedFileObjectWrapper`s (`Sock.st : List Bytes`, one CFB8 decryptor register per wrapper,
  the first-installed — innermost — first).  `encryption.py:70-71`
  `read(n) = self.decryptor.update(self.actual_file_object.read(n))` is `layersDec`: the raw chunk
  goes through the decryptors from the innermost to the outermost.  With no wrapper it is the
  identity.  `layersX E` packages it as the `StreamXform` the framing reader of C01
  (`readPacketK` = `PacketReactor.read_packet`, `connection.py:672-715`) is generic in.
* `wrapFile` — `connection.py:761-768`: `cipher = create_AES_cipher(secret)` (key = IV = secret,
  `encryption.py:13-16`), `decryptor = cipher.decryptor()`, `connection.file_object =
  EncryptedFileObjectWrapper(connection.file_object, decryptor)`: a NEW wrapper around the CURRENT
  file object, register initially the secret.  A second encryption request nests a second wrapper
  (nothing in the code prevents it) — the stack models exactly that.
* `clientDecode` — the tail of `read_packet` (`connection.py:703-715`): `packet_id in
  self.clientbound_packets` ? the class's `read` : a bare `Packet` (then `LoginReactor.react`
  matches no branch).  The `read`s are `Packet.read` over the definitions in
  `packets/clientbound/login/__init__.py`: `DisconnectPacket` (`String`),
  `EncryptionRequestPacket` (`String`, `VarIntPrefixedByteArray` ×2), `LoginSuccessPacket`
  (`UUID` from protocol 707 on, else `String`; then `String`), `SetCompressionPacket` (`VarInt`),
  `PluginRequestPacket` (`VarInt`, `String`, `TrailingByteArray`; registered from 385 on).  No
  check that the payload is consumed.  The version-dependent facts are the parameter `CbProfile`
  (ids of `get_id(context)`, presence of the plugin request, the UUID layout);
  `Generated/C10Inbound.lean` tabulates them from the live code for every known protocol version
  and `Props/C10Inbound.lean` checks the table.  The dict lookup of Python is an if-chain here; the
  two agree when the registered ids are pairwise distinct (`CbProfile.distinct`).
* `readTick` — one iteration of the read loop of `NetworkingThread._run` (`connection.py:636-643`):
  `self.connection.reactor.read_packet(self.connection.file_object, …)` — the file object AND the
  reactor are looked up afresh for EVERY packet — with
  `self.connection.options.compression_enabled` consulted inside `read_packet`
  (`connection.py:690`), then `self.connection._react(packet)` = `Login.react` (the existing model of
  `LoginReactor.react`, `connection.py:738-797`) plus, for an encryption request, the file-object
  half of that branch (`wrapFile`; `Login.react` records the socket half as `encrypted := true`).
  An exception of `read_packet` (`EOFError`, `ValueError`, `zlib.error`, `AssertionError`,
  `struct.error`, `UnicodeDecodeError`) ends the networking thread: it is recorded in `ioErr` and
  nothing is read or written afterwards (`run()` → `_handle_exception` →
  `disconnect(immediate=True)`).
* `tick`/`run` — the loop as a list of `Tick`s: `flush` = the write phase of one `_run` iteration
  (`Login.step … .flush`), `read` = one `read_packet` + `_react`.  Which reads happen in which
  iteration depends on `select` timing; every interleaving the real loop can produce is such a
  list, and the theorems quantify over ALL of them.

What is abstracted: as in `Model/Login.lean` — `os.urandom(16)` is the ONE parameter `P.secret`
(nested wrappers all start from it), RSA / hash / JSON text are parameters; after `login success`
the reactor is the `PlayingReactor` whose tables are not login tables, so `readTick` stops
interpreting (`Model/PlayWire.lean` takes over; the theorems say exactly which bytes are left for
it and through which wrappers); `select` returning "not ready" is the absence of a `read` tick.

Server side (`srvFields`, `srvStream`, `srvWire`): NOT pyCraft code — an independent reference
peer.  It frames each packet with the threshold it has announced so far (`frame`, the C01 writer
format) and, each time it has sent an encryption request, passes EVERYTHING it sends afterwards
through a fresh CFB8 encryptor (block function `E`, register = the shared secret).  For the one
encryption request a real server sends this is "plaintext frames up to and including the
encryption request, then ONE CFB8 stream" (`C10Inbound.server_stream_shape`).
-/
namespace PyCraft.LoginIn
open PyCraft PyCraft.Login PyCraft.LoginWire

/-! ### the wrapped file object -/

/-- `EncryptedFileObjectWrapper.read` through a stack of wrappers: `regs` are the decryptor
registers, innermost wrapper first; returns the new registers and the plaintext. -/
def layersDec (E : Bytes → Bytes) : List Bytes → Bytes → List Bytes × Bytes
  | [], b => ([], b)
  | r :: rs, b =>
    let d := cfb8Dec E r b
    let q := layersDec E rs d.2
    (d.1 :: q.1, q.2)

theorem layersDec_length (E : Bytes → Bytes) (regs : List Bytes) (b : Bytes) :
    (layersDec E regs b).2.length = b.length := by
  induction regs generalizing b with
  | nil => rfl
  | cons r rs ih => simp only [layersDec, ih, cfb8Dec_length]

theorem layersDec_append (E : Bytes → Bytes) (regs : List Bytes) (a b : Bytes) :
    layersDec E regs (a ++ b) =
      ((layersDec E (layersDec E regs a).1 b).1,
        (layersDec E regs a).2 ++ (layersDec E (layersDec E regs a).1 b).2) := by
  induction regs generalizing a b with
  | nil => rfl
  | cons r rs ih => simp only [layersDec, cfb8Dec_append, ih]

/-- The stack of decryptors as one stream transformer. -/
def layersX (E : Bytes → Bytes) : StreamXform (List Bytes) where
  update := layersDec E
  len := layersDec_length E
  chunk := layersDec_append E

/-- `connection.file_object`. -/
abbrev FileObj := Sock (List Bytes)

/-- `self.file_object = self.socket.makefile("rb", 0)` (`_connect`): no wrapper. -/
def FileObj.raw (segs : Segs) : FileObj := Sock.enc [] segs

/-- `connection.file_object = EncryptedFileObjectWrapper(connection.file_object, decryptor)` with a
fresh decryptor of `create_AES_cipher(secret)`: one more (outermost) wrapper, register = secret. -/
def wrapFile (k : FileObj) (secret : Bytes) : FileObj := { k with st := k.st ++ [secret] }

/-! ### version-dependent facts -/

/-- `get_id(context)` of the clientbound login packets, whether `PluginRequestPacket` is registered
(`protocol_later_eq(385)`), and the layout of the first field of `LoginSuccessPacket`
(`UUID` iff `protocol_later_eq(707)`). -/
structure CbProfile where
  disconnect : Nat
  encRequest : Nat
  success : Nat
  setCompression : Nat
  pluginRequest : Option Nat
  uuidBin : Bool
deriving Repr, DecidableEq

/-- The registered ids, in the order of the if-chain of `clientDecode`. -/
def CbProfile.ids (C : CbProfile) : List Nat :=
  [C.disconnect, C.encRequest, C.success, C.setCompression] ++ C.pluginRequest.toList

/-- The registered ids are pairwise distinct (so that the dict of `PacketReactor.__init__` has one
entry per class and the if-chain below IS the dict lookup). -/
def CbProfile.distinct (C : CbProfile) : Bool := C.ids.Nodup

/-! ### what the server writes -/

/-- The first field of `LoginSuccessPacket` as it is on the wire. -/
inductive UuidField
  | str (s : String)   -- protocol < 707: `String`
  | bin (b : Bytes)    -- protocol ≥ 707: `UUID`, 16 raw bytes
deriving Repr, DecidableEq

/-- A clientbound login-state packet with everything that is on the wire. -/
inductive SrvPkt
  | encRequest (serverId : String) (pubKey token : Bytes)
  | setCompression (thr : Nat)
  | pluginRequest (msgId : Nat) (channel : String) (data : Bytes)
  | success (uuid : UuidField) (name : String)
  | disconnect (json : String)
  | unknown (pid : Nat) (data : Bytes)
deriving Repr, DecidableEq

/-- The event of `Model/Login.lean` the packet is (`none`: an id without a registered class — the
reactor does not react).  `VarInt.read` returns a non-negative `int`: the threshold is a `Nat`. -/
def SrvPkt.ev : SrvPkt → Option LoginEv
  | .encRequest sid pk tok => some (.encRequest sid pk tok)
  | .setCompression t => some (.setCompression (t : Int))
  | .pluginRequest i ch d => some (.pluginRequest i ch d)
  | .success _ _ => some .success
  | .disconnect j => some (.disconnect j)
  | .unknown _ _ => none

def SrvPkt.isEncRequest : SrvPkt → Bool
  | .encRequest .. => true
  | _ => false

def SrvPkt.isTerminal : SrvPkt → Bool
  | .success .. => true
  | .disconnect _ => true
  | _ => false

def UuidField.bytes : UuidField → Bytes
  | .str s => HsWire.encString s
  | .bin b => b

/-- Well-formedness (decidable): lengths and numbers fit the reader's VarInt (`< 2^42`; every
32-bit value passes), the UUID field has the layout of the profile, a plugin request is only sent
when the profile knows it, an `unknown` id is not a registered one. -/
def SrvPkt.wf (C : CbProfile) : SrvPkt → Bool
  | .encRequest sid pk tok =>
    decide ((utf8 sid).length < 2 ^ 42) && decide (pk.length < 2 ^ 42) &&
      decide (tok.length < 2 ^ 42)
  | .setCompression t => decide (t < 2 ^ 42)
  | .pluginRequest i ch _ =>
    C.pluginRequest.isSome && decide (i < 2 ^ 42) && decide ((utf8 ch).length < 2 ^ 42)
  | .success u name =>
    (match u with
      | .str s => !C.uuidBin && decide ((utf8 s).length < 2 ^ 42)
      | .bin b => C.uuidBin && decide (b.length = 16)) &&
      decide ((utf8 name).length < 2 ^ 42)
  | .disconnect j => decide ((utf8 j).length < 2 ^ 42)
  | .unknown pid _ => !C.ids.contains pid

/-- (packet id, field bytes) the server writes. -/
def srvFields (C : CbProfile) : SrvPkt → Nat × Bytes
  | .encRequest sid pk tok =>
    (C.encRequest, HsWire.encString sid ++ (prefixedArray pk ++ prefixedArray tok))
  | .setCompression t => (C.setCompression, encVarInt t)
  | .pluginRequest i ch d => (C.pluginRequest.getD 0, encVarInt i ++ (HsWire.encString ch ++ d))
  | .success u name => (C.success, u.bytes ++ HsWire.encString name)
  | .disconnect j => (C.disconnect, HsWire.encString j)
  | .unknown pid d => (pid, d)

/-- The threshold in force behind a packet. -/
def thrAfter (thr : Option Int) : SrvPkt → Option Int
  | .setCompression t => some (t : Int)
  | _ => thr

/-- The server → client bytes of `script` when `thr` has been announced so far: each frame under
the threshold in force, and everything behind an encryption request through a fresh CFB8
encryptor (register = `secret`) — nested inside the encryptors installed earlier. -/
def srvStream (z : ZlibOps) (E : Bytes → Bytes) (secret : Bytes) (C : CbProfile) :
    Option Int → List SrvPkt → Bytes
  | _, [] => []
  | thr, p :: rest =>
    let tail := srvStream z E secret C (thrAfter thr p) rest
    packetFrame z thr (srvFields C p) ++
      (if p.isEncRequest then (cfb8Enc E secret tail).2 else tail)

/-- The whole server → client byte stream of the login phase (a fresh connection: no threshold). -/
def srvWire (z : ZlibOps) (E : Bytes → Bytes) (secret : Bytes) (C : CbProfile)
    (script : List SrvPkt) : Bytes :=
  srvStream z E secret C none script

/-- The frames of `script` in PLAINTEXT, each under the threshold in force (specification
vocabulary for `server_stream_shape`). -/
def plainFrames (z : ZlibOps) (C : CbProfile) : Option Int → List SrvPkt → Bytes
  | _, [] => []
  | thr, p :: rest => packetFrame z thr (srvFields C p) ++ plainFrames z C (thrAfter thr p) rest

/-- The threshold in force behind a whole script. -/
def thrAfterAll (thr : Option Int) (script : List SrvPkt) : Option Int :=
  script.foldl thrAfter thr

/-! ### the client's reading side -/

/-- `UUID.read`: `uuid.UUID(bytes=file_object.read(16))` — `ValueError` unless 16 bytes came. -/
def readUuid (bs : Bytes) : Except Err (Bytes × Bytes) :=
  if bs.length < 16 then .error .value else .ok (bs.take 16, bs.drop 16)

/-- `DisconnectPacket.read`. -/
def readDisconnect (bs : Bytes) : Except Err LoginEv :=
  match HsWire.readString bs with
  | .error e => .error e
  | .ok (j, _) => .ok (.disconnect j)

/-- `EncryptionRequestPacket.read`. -/
def readEncRequest (bs : Bytes) : Except Err LoginEv :=
  match HsWire.readString bs with
  | .error e => .error e
  | .ok (sid, r1) =>
    match readPrefixedArray r1 with
    | .error e => .error e
    | .ok (pk, r2) =>
      match readPrefixedArray r2 with
      | .error e => .error e
      | .ok (tok, _) => .ok (.encRequest sid pk tok)

/-- `LoginSuccessPacket.read`: the reactor uses neither field, but their `read`s can raise. -/
def readSuccess (uuidBin : Bool) (bs : Bytes) : Except Err LoginEv :=
  let r1 : Except Err Bytes :=
    if uuidBin then
      match readUuid bs with
      | .error e => .error e
      | .ok (_, r) => .ok r
    else
      match HsWire.readString bs with
      | .error e => .error e
      | .ok (_, r) => .ok r
  match r1 with
  | .error e => .error e
  | .ok r =>
    match HsWire.readString r with
    | .error e => .error e
    | .ok _ => .ok .success

/-- `SetCompressionPacket.read`. -/
def readSetCompression (bs : Bytes) : Except Err LoginEv :=
  match decVarInt 5 bs with
  | .error e => .error e
  | .ok (t, _) => .ok (.setCompression (t : Int))

/-- `PluginRequestPacket.read`: `TrailingByteArray.read` = `file_object.read()` = all the rest. -/
def readPluginRequest (bs : Bytes) : Except Err LoginEv :=
  match decVarInt 5 bs with
  | .error e => .error e
  | .ok (i, r1) =>
    match HsWire.readString r1 with
    | .error e => .error e
    | .ok (ch, d) => .ok (.pluginRequest i ch d)

/-- What `read_packet` returns for a delivered `(id, bytes behind the id)`: the decoded packet of
the class registered under the id, or — `packet_id not in self.clientbound_packets` — a bare
`Packet` (`none`).  An exception of a field's `read` propagates. -/
def clientDecode (C : CbProfile) (raw : Nat × Bytes) : Except Err (Option LoginEv) :=
  if raw.1 = C.disconnect then (readDisconnect raw.2).map some
  else if raw.1 = C.encRequest then (readEncRequest raw.2).map some
  else if raw.1 = C.success then (readSuccess C.uuidBin raw.2).map some
  else if raw.1 = C.setCompression then (readSetCompression raw.2).map some
  else if C.pluginRequest = some raw.1 then (readPluginRequest raw.2).map some
  else .ok none

/-- The client while it logs in: the state of `Model/Login.lean` (reactor, options, socket flag,
queue, outbox, …), `connection.file_object`, the packets handed to `_react` so far, and the
exception `read_packet` raised (it ends the networking thread). -/
structure InState where
  cs : ClientState
  file : FileObj
  seen : List LoginEv
  ioErr : Option Err

def InState.init (segs : Segs) : InState :=
  { cs := .init, file := FileObj.raw segs, seen := [], ioErr := none }

/-- The login reactor still reads: no exception of either kind and not yet in play. -/
def InState.reading (s : InState) : Bool :=
  s.ioErr.isNone && s.cs.err.isNone && s.cs.reactor == .login

/-- `_react(packet)` for what `read_packet` returned, the stream being at `k` behind the frame:
a bare `Packet` changes nothing; otherwise `LoginReactor.react` — and for an encryption request
also the wrapping of the file object (`connection.py:766-768`). -/
def deliver (P : LoginParams) (s : InState) (k : FileObj) : Option LoginEv → InState
  | none => { s with file := k }
  | some ev =>
    { s with cs := react P s.cs ev,
             file := if ev.isEncRequest then wrapFile k P.secret else k,
             seen := s.seen ++ [ev] }

/-- One iteration of the read loop: `read_packet(connection.file_object)` with the compression flag
of NOW through the wrappers of NOW, then `_react`. -/
def readTick (P : LoginParams) (z : ZlibOps) (E : Bytes → Bytes) (C : CbProfile) (s : InState) :
    InState :=
  if s.reading then
    match readPacketK (layersX E) z s.cs.threshold.isSome s.file with
    | (.error e, k) => { s with file := k, ioErr := some e }
    | (.ok raw, k) =>
      match clientDecode C raw with
      | .error e => { s with file := k, ioErr := some e }
      | .ok d => deliver P s k d
  else s

inductive Tick
  | flush   -- the write phase of one `_run` iteration
  | read    -- one `read_packet` + `_react`
deriving Repr, DecidableEq

def tick (P : LoginParams) (z : ZlibOps) (E : Bytes → Bytes) (C : CbProfile) (s : InState) :
    Tick → InState
  | .flush => if s.ioErr.isSome then s else { s with cs := step P s.cs .flush }
  | .read => readTick P z E C s

def run (P : LoginParams) (z : ZlibOps) (E : Bytes → Bytes) (C : CbProfile) (ticks : List Tick)
    (s : InState) : InState :=
  ticks.foldl (tick P z E C) s

/-- The client on the arrival segments `segs` of a fresh connection. -/
def clientRun (P : LoginParams) (z : ZlibOps) (E : Bytes → Bytes) (C : CbProfile)
    (ticks : List Tick) (segs : Segs) : InState :=
  run P z E C ticks (.init segs)

/-! ### vocabulary of the property statements -/

def reads : List Tick → Nat
  | [] => 0
  | .flush :: r => reads r
  | .read :: r => reads r + 1

/-- The packets the login reactor gets to: up to and including the first success/disconnect. -/
def cutScript : List SrvPkt → List SrvPkt
  | [] => []
  | p :: rest => if p.isTerminal then [p] else p :: cutScript rest

/-- The steps of `Model/Login.lean` a tick list amounts to when the reads deliver `pkts` in order
(an unregistered id is no step; reads beyond `pkts` deliver nothing). -/
def fill : List Tick → List SrvPkt → List Step
  | [], _ => []
  | .flush :: ts, ps => .flush :: fill ts ps
  | .read :: ts, [] => fill ts []
  | .read :: ts, p :: ps =>
    match p.ev with
    | some e => .recv e :: fill ts ps
    | none => fill ts ps

/-- The tick list of a step list. -/
def ticksOf : List Step → List Tick
  | [] => []
  | .flush :: r => .flush :: ticksOf r
  | .recv _ :: r => .read :: ticksOf r

/-- The guard of the round trip: every packet well-formed and its frame within the reader's VarInt
range, under the threshold in force for it. -/
def ScriptOK (z : ZlibOps) (C : CbProfile) : Option Int → List SrvPkt → Prop
  | _, [] => True
  | thr, p :: rest =>
    p.wf C = true ∧ FrameOK z thr (srvFields C p) ∧ ScriptOK z C (thrAfter thr p) rest

instance (z : ZlibOps) (C : CbProfile) : (thr : Option Int) → (l : List SrvPkt) →
    Decidable (ScriptOK z C thr l)
  | _, [] => isTrue trivial
  | thr, p :: rest =>
    have := instDecidableScriptOK z C (thrAfter thr p) rest
    by unfold ScriptOK; exact inferInstance

end PyCraft.LoginIn
