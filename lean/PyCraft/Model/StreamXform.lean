import PyCraft.Basic
/-!
A stateful, length-preserving byte-stream transformer (`cipher.encryptor().update` /
`decryptor().update` of the `cryptography` package as pyCraft uses them).  The two laws are what a
*stream* cipher context provides: output length = input length, and feeding `a ++ b` in one call is
the same as feeding `a` then `b`.  `Model/Cfb8.lean` proves that CFB8 over ANY block function
satisfies them; `Model/Frame.lean` is generic in them.
-/
namespace PyCraft

structure StreamXform (σ : Type) where
  update : σ → Bytes → σ × Bytes
  len : ∀ s b, (update s b).2.length = b.length
  chunk : ∀ s a b, update s (a ++ b) =
    ((update (update s a).1 b).1, (update s a).2 ++ (update (update s a).1 b).2)

/-- An encryptor/decryptor pair started from the same state `s0`: decrypting, with a decryptor
context that has consumed exactly the ciphertext the encryptor has produced so far, inverts. -/
structure CipherPair (σ : Type) where
  enc : StreamXform σ
  dec : StreamXform σ
  /-- running both over corresponding streams keeps them in step and inverts -/
  inv : ∀ s x, (dec.update s (enc.update s x).2).2 = x ∧ (dec.update s (enc.update s x).2).1 = (enc.update s x).1

end PyCraft
