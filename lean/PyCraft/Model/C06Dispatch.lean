import PyCraft.Model.Ids
/-!
# C06Dispatch — from the id tables to the decoder a reactor actually picks

Closes audit rank 20 (docs/audit_report.md): `C06.dispatch_unique` was about an abstract list under a
global `Nodup` and was never instantiated on the real tables; the K1 exclusion was keyed by id only;
nothing pinned the domain of `idTables`; the reactor ↔ table binding was unmodelled.

Python mirrored here (`/repo/minecraft/networking/connection.py`):

```
664  def __init__(self, connection):
665      self.connection = connection
666      context = self.connection.context
667      self.clientbound_packets = {
668          packet.get_id(context): packet
669          for packet in self.__class__.get_clientbound_packets(context)}
...
706  if packet_id in self.clientbound_packets:
707      packet = self.clientbound_packets[packet_id]()
...
710  else:
711      packet = packets.Packet()
```

* the comprehension l.667-669 over the classes in iteration order `perm` is `buildDict perm`
  (`Model/Ids.lean`, last writer wins); the *keys* are obtained by `resolveRow` below: every
  `packet.get_id(context)` is evaluated, and one that raises aborts the whole constructor;
* l.706-707/710-711 is `dictGet d packet_id` (`some c` = class `c` is instantiated, `none` = the base
  `Packet`).
-/
namespace PyCraft

/-- Keys of the comprehension (l.668): a row of the tabulated `get_packets`/`get_id` carries
`some i` when `get_id(context)` returned the plain int `i` and `none` when it raised or returned
something that is not a plain int.  `none` = the constructor is not modelled further (it raises, or
builds a dict with a key no VarInt-decoded packet id is meant to hit). -/
def resolveRow : List IdEnt → Option (List (String × Int))
  | [] => some []
  | (c, some i) :: rest => (resolveRow rest).map fun l => (c, i) :: l
  | (_, none) :: _ => none

/-- the registered classes whose id is `i`, in list order -/
def classesAt (ents : List (String × Int)) (i : Int) : List String :=
  (ents.filter fun e => e.2 == i).map (·.1)

/-- the same on an unresolved table row -/
def classesAtRow (row : List IdEnt) (i : Int) : List String :=
  (row.filter fun e => e.2 == some i).map (·.1)

/-- Known finding K1 with the colliding CLASS SETS (in the table's order = sorted by class name):
(table, protocol version, id, classes sharing it).  All other (table, supported version, id) have at
most one class (`C06Dispatch.collisions_exact`). -/
def knownCollisionSets : List (String × Nat × Int × List String) :=
  [("cbPlay", 317, 0x10, ["ChatMessagePacket", "MultiBlockChangePacket"]),
   ("cbPlay", 336, 0x49, ["PlayerListHeaderAndFooterPacket", "SoundEffectPacket"]),
   ("cbPlay", 337, 0x49, ["PlayerListHeaderAndFooterPacket", "SoundEffectPacket"]),
   ("cbPlay", 343, 0x4A, ["PlayerListHeaderAndFooterPacket", "SoundEffectPacket"]),
   ("cbPlay", 344, 0x4A, ["PlayerListHeaderAndFooterPacket", "SoundEffectPacket"]),
   ("cbPlay", 389, 0x4A, ["PlayerListHeaderAndFooterPacket", "TimeUpdatePacket"]),
   ("cbPlay", 390, 0x4A, ["PlayerListHeaderAndFooterPacket", "TimeUpdatePacket"]),
   ("cbPlay", 391, 0x4A, ["PlayerListHeaderAndFooterPacket", "TimeUpdatePacket"]),
   ("cbPlay", 392, 0x4A, ["PlayerListHeaderAndFooterPacket", "TimeUpdatePacket"])]

/-- One row is fine: every class resolves to a non-negative integer id, and every id of the row is
carried by at most one class unless the row's (table, version, id) is a listed collision with
EXACTLY the listed class set. -/
def rowOk (t : String) (v : Nat) (row : List IdEnt) : Bool :=
  row.all fun e =>
    match e.2 with
    | none => false
    | some i =>
      decide (0 ≤ i) &&
        (decide ((classesAtRow row i).length ≤ 1) ||
          knownCollisionSets.contains (t, v, i, classesAtRow row i))

/-- `d` is a dict over exactly the ids of `ents`, each key mapped to one of the classes carrying it:
what any evaluation of the comprehension l.667-669 must produce (ids are compared first so that the
kernel compares class names only where the ids agree). -/
def dictOk (d : List (Int × String)) (ents : List (String × Int)) : Bool :=
  (d.all fun kv => ents.any fun e => e.2 == kv.1 && e.1 == kv.2) &&
    (ents.all fun e => d.any fun kv => kv.1 == e.2)

/-- `d` agrees, as a map id → class, with the comprehension l.667-669 evaluated over the registered
classes `ents` in SOME iteration order `perm` of the set. -/
def IsComprehensionOf (d : List (Int × String)) (ents : List (String × Int)) : Prop :=
  ∃ perm : List (String × Int), perm.Perm ents ∧ ∀ i, dictGet (buildDict perm) i = dictGet d i

/-- position-wise conjunction over two lists of the same length -/
def zipAll {α β : Type} (p : α → β → Bool) : List α → List β → Bool
  | [], [] => true
  | a :: as, b :: bs => p a b && zipAll p as bs
  | _, _ => false

/-- run-length grouped table → one entry per version -/
def expandGroups {α : Type} (g : List (List Nat × α)) : List (Nat × α) :=
  g.flatMap fun p => p.1.map fun v => (v, p.2)

/-- lookup in a two-level association list (table name, then version) -/
def lookup2 {α : Type} (tabs : List (String × List (Nat × α))) (n : String) (v : Nat) : Option α :=
  match tabs.find? (fun t => t.1 == n) with
  | none => none
  | some t => (t.2.find? fun r => r.1 == v).map (·.2)

end PyCraft
