import PyCraft.Basic
/-!
Model of `minecraft/networking/types/basic.py`: `VarInt.read`, `VarInt.send`, `VarInt.size`,
`VarLong` (= `VarInt` with `max_bytes = 10`).
-/
namespace PyCraft

/-- `VarInt.send` for a non-negative Python int: little-endian base 128, continuation bit 0x80 on
every group but the last.  The Python loop `byte = value & 0x7F; value >>= 7; …; if value == 0: break`
is the recursion on `n / 128`. -/
def encVarInt (n : Nat) : Bytes :=
  if _h : n < 128 then [UInt8.ofNat n]
  else UInt8.ofNat (n % 128 + 128) :: encVarInt (n / 128)
decreasing_by omega

/-- `VarInt.send(value, …)` for any Python int: negatives are rejected (`ValueError`). -/
def encVarIntZ (v : Int) : Except Err Bytes :=
  if v < 0 then .error .value else .ok (encVarInt v.toNat)

/-- `VarInt.read` with `max_bytes = mx`; `be` = `bytes_encountered`, `acc` = `number`. -/
def decVarIntAux (mx : Nat) : Nat → Nat → Bytes → Except Err (Nat × Bytes)
  | _, _, [] => .error .eof
  | be, acc, b :: rest =>
    let acc' := acc ||| ((b.toNat &&& 0x7F) <<< (7 * be))
    if b.toNat &&& 0x80 = 0 then .ok (acc', rest)
    else if be + 1 > mx then .error .tooLong
    else decVarIntAux mx (be + 1) acc' rest

def decVarInt (mx : Nat) (bs : Bytes) : Except Err (Nat × Bytes) := decVarIntAux mx 0 0 bs

/-- `VARINT_SIZE_TABLE`: `(2^(7k), k)` for `k = 1..12`, in insertion order. -/
def varintSizeTable : List (Nat × Nat) :=
  [(2^7,1),(2^14,2),(2^21,3),(2^28,4),(2^35,5),(2^42,6),(2^49,7),(2^56,8),(2^63,9),(2^70,10),
   (2^77,11),(2^84,12)]

/-- `for max_value, size in TABLE.items(): if value < max_value: return size` then `raise`. -/
def sizeLookup (v : Int) : List (Nat × Nat) → Except Err Nat
  | [] => .error .value
  | (bound, size) :: rest => if v < (bound : Int) then .ok size else sizeLookup v rest

/-- `VarInt.size(value)`. -/
def varintSize (v : Int) : Except Err Nat := sizeLookup v varintSizeTable

/-- Instrumented reader: number of `read(1)` calls issued by `VarInt.read` (the call that hits end
of stream included). -/
def decVarIntReads (mx : Nat) : Nat → Bytes → Nat
  | _, [] => 1
  | be, b :: rest =>
    if b.toNat &&& 0x80 = 0 then 1
    else if be + 1 > mx then 1
    else 1 + decVarIntReads mx (be + 1) rest

end PyCraft
