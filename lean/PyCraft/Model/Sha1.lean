import PyCraft.Basic
/-!
Executable SHA-1 (FIPS 180-4 §5.1.1, §6.1) — the function behind `hashlib.sha1` that
`minecraft/networking/encryption.py` feeds the server id, shared secret and public key to.

32-bit words are natural numbers `< 2^32` (`Nat` bit operations are accelerated both in compiled code
and in the kernel, so the same definition serves the compiled driver and `decide +kernel`).  All
recursion is structural (fuel = number of words / blocks known in advance).
-/
namespace PyCraft
namespace Sha1

/-- 2^32. -/
def M : Nat := 4294967296

/-- `ROTL^n(x)` on 32-bit words (FIPS 180-4 §3.2). -/
def rotl (x n : Nat) : Nat := ((x <<< n) ||| (x >>> (32 - n))) % M

/-- The 64-bit big-endian length field: `k` bytes of `n`, most significant first. -/
def lenBytes : Nat → Nat → List Nat
  | 0, _ => []
  | k + 1, n => (n >>> (8 * k)) % 256 :: lenBytes k n

/-- §5.1.1: append bit `1`, then zero bits up to 448 mod 512, then the bit length as 64 bits.
(`(119 - l % 64) % 64` zero bytes make the total a multiple of 64.) -/
def pad (msg : List Nat) : List Nat :=
  let l := msg.length
  msg ++ 0x80 :: (List.replicate ((119 - l % 64) % 64) 0 ++ lenBytes 8 (l * 8))

/-- Big-endian 32-bit words of a byte list (`k` words). -/
def wordsOf : Nat → List Nat → List Nat
  | 0, _ => []
  | k + 1, b0 :: b1 :: b2 :: b3 :: rest =>
    ((b0 <<< 24) ||| (b1 <<< 16) ||| (b2 <<< 8) ||| b3) :: wordsOf k rest
  | _ + 1, _ => []

/-- §6.1.2 step 1: message schedule.  `win` is the sliding window `W[t-16] … W[t-1]`;
emits `W[t-16], W[t-15], …` for `n` steps, i.e. started on `W[0..15]` with `n = 80` it lists
`W[0] … W[79]`. -/
def schedule : Nat → List Nat → List Nat
  | 0, _ => []
  | n + 1, win =>
    match win with
    | w0 :: w1 :: w2 :: w3 :: w4 :: w5 :: w6 :: w7 :: w8 :: w9 :: w10 :: w11 :: w12 :: w13 ::
        w14 :: w15 :: _ =>
      let w16 := rotl (w13 ^^^ w8 ^^^ w2 ^^^ w0) 1
      w0 :: schedule n [w1, w2, w3, w4, w5, w6, w7, w8, w9, w10, w11, w12, w13, w14, w15, w16]
    | _ => []

/-- The five working variables / chaining values. -/
structure St where
  a : Nat
  b : Nat
  c : Nat
  d : Nat
  e : Nat
deriving DecidableEq, Repr

/-- §4.1.1 `f_t` and §4.2.1 `K_t`. -/
def fk (t b c d : Nat) : Nat × Nat :=
  if t < 20 then ((b &&& c) ||| ((b ^^^ 0xFFFFFFFF) &&& d), 0x5A827999)
  else if t < 40 then (b ^^^ c ^^^ d, 0x6ED9EBA1)
  else if t < 60 then ((b &&& c) ||| (b &&& d) ||| (c &&& d), 0x8F1BBCDC)
  else (b ^^^ c ^^^ d, 0xCA62C1D6)

/-- §6.1.2 step 3, one iteration. -/
def round (t : Nat) (w : Nat) (s : St) : St :=
  let p := fk t s.b s.c s.d
  ⟨(rotl s.a 5 + p.1 + s.e + p.2 + w) % M, s.a, rotl s.b 30, s.c, s.d⟩

/-- §6.1.2 step 3: all iterations, `t` counting up along the schedule. -/
def rounds : Nat → List Nat → St → St
  | _, [], s => s
  | t, w :: ws, s => rounds (t + 1) ws (round t w s)

/-- §6.1.2 for one 64-byte block `b`. -/
def block (h : St) (b : List Nat) : St :=
  let s := rounds 0 (schedule 80 (wordsOf 16 b)) h
  ⟨(h.a + s.a) % M, (h.b + s.b) % M, (h.c + s.c) % M, (h.d + s.d) % M, (h.e + s.e) % M⟩

/-- Process `n` consecutive 64-byte blocks. -/
def blocks : Nat → List Nat → St → St
  | 0, _, h => h
  | n + 1, l, h => blocks n (l.drop 64) (block h (l.take 64))

/-- §5.3.1 initial hash value. -/
def init : St := ⟨0x67452301, 0xEFCDAB89, 0x98BADCFE, 0x10325476, 0xC3D2E1F0⟩

/-- A 32-bit word as four big-endian bytes. -/
def wordBytes (w : Nat) : Bytes :=
  [UInt8.ofNat (w >>> 24), UInt8.ofNat (w >>> 16), UInt8.ofNat (w >>> 8), UInt8.ofNat w]

end Sha1

/-- `hashlib.sha1(msg).digest()`. -/
def sha1 (msg : Bytes) : Bytes :=
  let p := Sha1.pad (msg.map UInt8.toNat)
  let h := Sha1.blocks (p.length / 64) p Sha1.init
  Sha1.wordBytes h.a ++ Sha1.wordBytes h.b ++ Sha1.wordBytes h.c ++ Sha1.wordBytes h.d
    ++ Sha1.wordBytes h.e

end PyCraft
