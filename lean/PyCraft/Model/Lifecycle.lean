import PyCraft.Basic
/-!
# Connection lifecycle (property C16)

Model of the lifecycle code of `minecraft/networking/connection.py` under an arbitrary scheduler:

* `Connection.connect`, `Connection.status`, `_check_connection`, `_connect`,
  `_start_network_thread`, `Connection.disconnect`            — `doConnect`, `doDisconnect`
* `NetworkingThread.run` / `_run`                             — `stepNet`
* `Connection._handle_exception`, `_handle_exit`              — `stepNet` (`exc … hChk`, `exit`)
* `PlayingReactor.react` (disconnect branch), a packet listener that reconnects, an exception
  handler that reconnects                                      — `Site`

The system is a *deterministic* transition system driven by a schedule: `step env s t` performs
the NEXT ATOMIC ACTION of thread `t` (`none` = `t` is not enabled: unborn, dead, finished, blocked
on the lock, or blocked on a live predecessor).  Every successful step appends exactly one event to
`s.log`.

Atomicity.  `connect`, `status` and `disconnect` execute completely inside `with self._write_lock`;
so do the take-over in the prologue of `run`, the write phase of `_run`, the final
"check the flag and disconnect" block of `_handle_exception` and the `finally` block of `run`.  Each such block is TWO actions: "acquire the lock and run the block" (enabled iff the
re-entrant lock can be acquired) and "release the lock".  Everything else a networking thread does
(checking `self.interrupt`, `read_packet`, the handlers called by `_handle_exception`) runs WITHOUT
the lock, one action per shared-memory access, and interleaves freely with the other threads.

Abstractions.  No packet queue: the write phase of an uninterrupted thread is one send event;
a `connect()` is the TCP connect only (the handshake packets are queued, not sent, by the Python).
`status()` and `connect()` differ only in which packets they queue, hence have the same body here.
The server is a list of behaviours, one per TCP connection attempt, and is stateless per
connection (`disconnects`: every read yields a disconnect packet, `fails`: every read raises).
-/
namespace PyCraft.Life

/-- Behaviour of the server for one TCP connection attempt (indexed by `Sys.conns`). -/
inductive Beh
  | accept        -- accepts, then stays silent
  | refuse        -- `socket.connect` raises `ConnectionRefusedError`
  | disconnects   -- accepts; a read yields a disconnect packet → `PlayingReactor` calls `disconnect()`
  | fails         -- accepts; a read raises (EOF / IOError) → exception path
deriving DecidableEq, Repr

/-- The public API calls. -/
inductive Op
  | connect
  | status
  | disconnect (imm : Bool)
deriving DecidableEq, Repr

/-- What the caller of an API call sees: normal return, `InvalidState`, `ConnectionRefusedError`. -/
inductive Outcome
  | ok | invalidState | refused
deriving DecidableEq, Repr

/-- `Connection.socket`: `None`, a socket object whose `connect` has not succeeded, or a connected
socket of connection attempt `c`. -/
inductive Sock
  | none | unconnected | open (c : Nat)
deriving DecidableEq, Repr

/-- `Connection.file_object`: `None`, a closed file object, or the stream of connection `c`. -/
inductive FileSt
  | none | closed | open (c : Nat)
deriving DecidableEq, Repr

/-- `file_object.close()` when it is not `None`. -/
def FileSt.close : FileSt → FileSt
  | .none => .none
  | _ => .closed

inductive Tid
  | user (u : Nat)   -- the `u`-th user thread
  | net (i : Nat)    -- the `i`-th `NetworkingThread` object, in creation order
deriving DecidableEq, Repr

/-- The places where a networking thread itself calls the public API. -/
inductive Site
  | react     -- `PlayingReactor.react`, disconnect packet: `self.connection.disconnect()`
  | listen    -- a packet listener (runs after the reaction) calls `connect()`
  | handler   -- an exception handler (inside `_handle_exception`) calls `connect()`
deriving DecidableEq, Repr

def Site.op : Site → Op
  | .react => .disconnect false
  | .listen => .connect
  | .handler => .connect

/-- Program counter of a networking thread.  The constructor names the NEXT action. -/
inductive NPc
  | unborn                    -- the thread object does not exist yet
  | waitPrev                  -- `if previous_thread.is_alive(): previous_thread.join()`
  | takeOver                  -- `with lock: networking_thread = self; new_networking_thread = None`
  | tkRel                     -- end of that `with`
  | loopChk                   -- `while not self.interrupt:`
  | wBody                     -- `with lock:` write phase
  | wRel                      -- end of that `with`
  | wFailRel                  -- leaving that `with` by an exception (write on a missing socket)
  | rChk                      -- `while num_packets < 50 and not self.interrupt:`
  | rRead                     -- `read_packet(self.connection.file_object, …)`
  | call (site : Site)        -- `with lock:` + the body of the API call made at `site`
  | callRel (site : Site) (out : Outcome)   -- end of that `with`
  | exit                      -- `self.connection._handle_exit()`
  | exc                       -- `except Exception: self.interrupt = True`
  | hRun                      -- `_handle_exception`: run the handlers
  | hChk                      -- `with lock: if (new_networking_thread or networking_thread).interrupt:
                              --               self.disconnect(immediate=True)`
  | hRel                      -- end of that `with`
  | epilogue                  -- `finally: with lock: networking_thread = None`
  | epRel                     -- end of that `with`
  | fin                       -- `run` has returned; the thread is about to stop being alive
  | dead
deriving DecidableEq, Repr

/-- One `NetworkingThread` object. -/
structure NetThr where
  intr : Bool                 -- `self.interrupt`
  prev : Option Nat           -- `self.previous_thread`
  pc   : NPc
deriving DecidableEq, Repr

inductive UPc
  | idle                      -- between calls: next `with lock:` + body of the next call
  | rel (out : Outcome)       -- end of that `with`; the call then returns / raises `out`
deriving DecidableEq, Repr

structure UsrThr where
  pc   : UPc
  todo : List Op              -- remaining program
  outs : List Outcome         -- outcomes of the completed calls, oldest first
deriving DecidableEq, Repr

/-- What `read_packet` did. -/
inductive Rd
  | silent | packet | error
deriving DecidableEq, Repr

/-- The atomic actions (log events). -/
inductive Ev
  | call (op : Op) (out : Outcome)   -- lock acquired, body of an API call executed
  | rel                              -- lock released
  | joined                           -- the predecessor is dead
  | take                             -- took over the `networking_thread` slot
  | chk (b : Bool)                   -- read own `interrupt`
  | wr (c : Option Nat)              -- write phase (`some c`: sent on connection `c`)
  | wrFail                           -- write phase found no connected socket
  | rd (c : Option Nat) (r : Rd)     -- `read_packet` on the stream of `c` (`none`: no open stream)
  | exit
  | exc
  | hrun (reconnect : Bool)
  | hchk (b : Option Bool)           -- the flag that was read under the lock (`none`: both slots
                                     -- empty); `some true`: `disconnect(immediate=True)` executed
  | epi                              -- `networking_thread = None`
  | fin                              -- `finally` block left: no more I/O
  | die
deriving DecidableEq, Repr

/-- Events that touch the network (or may: an API call connects / shuts down a socket). -/
def Ev.isIO : Ev → Bool
  | .call _ _ | .wr _ | .wrFail | .rd _ _ | .hchk _ => true
  | _ => false

structure Sys where
  nt        : Option Nat      -- `networking_thread`
  newNt     : Option Nat      -- `new_networking_thread`
  socket    : Sock
  file      : FileSt
  connected : Bool
  conns     : Nat             -- TCP connection attempts so far (index into the server behaviours)
  nthreads  : Nat             -- `NetworkingThread` objects created so far
  rl        : Nat             -- how many more times the listener reconnects
  rh        : Nat             -- how many more times the exception handler reconnects
  owner     : Option Tid      -- `_write_lock` (an RLock): owner …
  depth     : Nat             -- … and recursion depth
  net       : Nat → NetThr
  usr       : Nat → UsrThr
  log       : List (Tid × Ev)

/-- Replace networking thread `i`. -/
def updN (s : Sys) (i : Nat) (x : NetThr) : Nat → NetThr :=
  fun j => if j = i then x else s.net j

/-- Replace user thread `u`. -/
def updU (s : Sys) (u : Nat) (x : UsrThr) : Nat → UsrThr :=
  fun v => if v = u then x else s.usr v

/-- `RLock.acquire` succeeds iff the lock is free or already owned by the caller. -/
def canAcq (s : Sys) (t : Tid) : Bool := s.owner == none || s.owner == some t

/-- Owner after `RLock.release` by the owner. -/
def ownerAfterRel (s : Sys) : Option Tid := if s.depth - 1 = 0 then none else s.owner

/-- The condition of `_check_connection` and of `_start_network_thread`:
`networking_thread is not None and not networking_thread.interrupt or
 new_networking_thread is not None`. -/
def busy (s : Sys) : Bool :=
  (match s.nt with
   | some t => !(s.net t).intr
   | none => false) || s.newNt.isSome

/-- `_start_network_thread` (the nested `with lock` is a re-entrant acquisition by the holder). -/
def startThread (s : Sys) : Sys × Outcome :=
  if busy s then (s, .invalidState)
  else
    match s.nt with
    | none =>      -- `networking_thread = NetworkingThread(self)`; no prologue to run
      ({ s with nt := some s.nthreads, nthreads := s.nthreads + 1,
                net := updN s s.nthreads ⟨false, none, .loopChk⟩ }, .ok)
    | some p =>    -- `new_networking_thread = NetworkingThread(self, previous=networking_thread)`
      ({ s with newNt := some s.nthreads, nthreads := s.nthreads + 1,
                net := updN s s.nthreads ⟨false, some p, .waitPrev⟩ }, .ok)

/-- The body of `connect()` / `status()`: `_check_connection`, `_connect`, (queue packets),
`_start_network_thread`.  In `_connect` the new socket object is stored in `self.socket` BEFORE
`socket.connect` is attempted. -/
def doConnect (env : List Beh) (s : Sys) : Sys × Outcome :=
  if busy s then (s, .invalidState)
  else
    match env.getD s.conns .accept with
    | .refuse => ({ s with socket := .unconnected, conns := s.conns + 1 }, .refused)
    | _ =>
      startThread { s with socket := .open s.conns, file := .open s.conns, connected := true,
                           conns := s.conns + 1 }

/-- `interrupt = True` on thread `j`. -/
def setIntr (s : Sys) (j : Nat) : Nat → NetThr :=
  fun k => if k = j then { s.net k with intr := true } else s.net k

/-- The thread object selected by `new_networking_thread or networking_thread` (in
`_handle_exception`) and by the `if new_networking_thread is not None: … elif networking_thread is
not None: …` of `disconnect`. -/
def target (s : Sys) : Option Nat :=
  match s.newNt with
  | some j => some j
  | none => s.nt

/-- The body of `disconnect(immediate)`.  (The flush of the packet queue is not modelled, so
`immediate` has no influence on the lifecycle.) -/
def doDisconnect (s : Sys) : Sys :=
  let s1 := { s with connected := false,
                     net := match target s with
                            | some j => setIntr s j
                            | none => s.net }
  match s.socket with
  | .none => s1
  | _ => { s1 with socket := .none, file := s.file.close }

/-- The body of an API call. -/
def body (env : List Beh) (s : Sys) : Op → Sys × Outcome
  | .connect => doConnect env s
  | .status => doConnect env s
  | .disconnect _ => (doDisconnect s, .ok)

/-- Next atomic action of user thread `u`. -/
def stepUser (env : List Beh) (s : Sys) (u : Nat) : Option Sys :=
  match (s.usr u).pc with
  | .idle =>
    match (s.usr u).todo with
    | [] => none
    | op :: rest =>
      if canAcq s (.user u) then
        match body env s op with
        | (s1, out) =>
          some { s1 with owner := some (.user u), depth := s.depth + 1,
                         usr := updU s u ⟨.rel out, rest, (s.usr u).outs⟩,
                         log := s.log ++ [(.user u, .call op out)] }
      else none
  | .rel out =>
    some { s with owner := ownerAfterRel s, depth := s.depth - 1,
                  usr := updU s u ⟨.idle, (s.usr u).todo, (s.usr u).outs ++ [out]⟩,
                  log := s.log ++ [(.user u, .rel)] }

/-- Where a networking thread continues after an API call it made at `site` returned `out`. -/
def afterCall (s : Sys) (site : Site) (out : Outcome) : NPc :=
  match site with
  | .react => if s.rl = 0 then .rChk else .call .listen      -- the listeners run after the reaction
  | .listen => if out = .ok then .rChk else .exc             -- an exception leaves `_react`, `_run`
  | .handler => .hChk                                        -- handler exceptions are swallowed

/-- Next atomic action of networking thread `i`. -/
def stepNet (env : List Beh) (s : Sys) (i : Nat) : Option Sys :=
  let me := s.net i
  let t := Tid.net i
  match me.pc with
  | .unborn => none
  | .dead => none
  | .waitPrev =>
    match me.prev with
    | none => some { s with net := updN s i { me with pc := .takeOver },
                            log := s.log ++ [(t, .joined)] }
    | some p =>
      if (s.net p).pc = .dead then
        some { s with net := updN s i { me with pc := .takeOver }, log := s.log ++ [(t, .joined)] }
      else none
  | .takeOver =>
    if canAcq s t then
      some { s with owner := some t, depth := s.depth + 1, nt := some i, newNt := none,
                    net := updN s i { me with pc := .tkRel }, log := s.log ++ [(t, .take)] }
    else none
  | .tkRel =>
    some { s with owner := ownerAfterRel s, depth := s.depth - 1,
                  net := updN s i { me with pc := .loopChk }, log := s.log ++ [(t, .rel)] }
  | .loopChk =>
    some { s with net := updN s i { me with pc := if me.intr then .exit else .wBody },
                  log := s.log ++ [(t, .chk me.intr)] }
  | .wBody =>
    if canAcq s t then
      if me.intr then    -- `while not self.interrupt and …`: nothing is written
        some { s with owner := some t, depth := s.depth + 1,
                      net := updN s i { me with pc := .wRel }, log := s.log ++ [(t, .wr none)] }
      else
        match s.socket with
        | .open c =>
          some { s with owner := some t, depth := s.depth + 1,
                        net := updN s i { me with pc := .wRel },
                        log := s.log ++ [(t, .wr (some c))] }
        | _ =>           -- AttributeError / OSError: not an IOError, leaves `_run`
          some { s with owner := some t, depth := s.depth + 1,
                        net := updN s i { me with pc := .wFailRel }, log := s.log ++ [(t, .wrFail)] }
    else none
  | .wRel =>
    some { s with owner := ownerAfterRel s, depth := s.depth - 1,
                  net := updN s i { me with pc := .rChk }, log := s.log ++ [(t, .rel)] }
  | .wFailRel =>
    some { s with owner := ownerAfterRel s, depth := s.depth - 1,
                  net := updN s i { me with pc := .exc }, log := s.log ++ [(t, .rel)] }
  | .rChk =>
    some { s with net := updN s i { me with pc := if me.intr then .loopChk else .rRead },
                  log := s.log ++ [(t, .chk me.intr)] }
  | .rRead =>            -- `self.connection.file_object` is evaluated NOW
    match s.file with
    | .open c =>
      match env.getD c .accept with
      | .disconnects =>
        some { s with net := updN s i { me with pc := .call .react },
                      log := s.log ++ [(t, .rd (some c) .packet)] }
      | .fails =>
        some { s with net := updN s i { me with pc := .exc },
                      log := s.log ++ [(t, .rd (some c) .error)] }
      | _ =>             -- `if not packet: break`
        some { s with net := updN s i { me with pc := .loopChk },
                      log := s.log ++ [(t, .rd (some c) .silent)] }
    | _ =>               -- `select` on `None` / a closed file raises
      some { s with net := updN s i { me with pc := .exc }, log := s.log ++ [(t, .rd none .error)] }
  | .call site =>
    if canAcq s t then
      match body env s site.op with
      | (s1, out) =>
        some { s1 with owner := some t, depth := s.depth + 1,
                       net := updN s1 i { s1.net i with pc := .callRel site out },
                       log := s.log ++ [(t, .call site.op out)] }
    else none
  | .callRel site out =>
    some { s with owner := ownerAfterRel s, depth := s.depth - 1,
                  rl := if site = .react then s.rl - 1 else s.rl,
                  net := updN s i { me with pc := afterCall s site out },
                  log := s.log ++ [(t, .rel)] }
  | .exit =>
    some { s with net := updN s i { me with pc := .epilogue }, log := s.log ++ [(t, .exit)] }
  | .exc =>
    some { s with net := updN s i { me with intr := true, pc := .hRun },
                  log := s.log ++ [(t, .exc)] }
  | .hRun =>
    if s.rh = 0 then
      some { s with net := updN s i { me with pc := .hChk }, log := s.log ++ [(t, .hrun false)] }
    else
      some { s with rh := s.rh - 1, net := updN s i { me with pc := .call .handler },
                    log := s.log ++ [(t, .hrun true)] }
  | .hChk =>               -- check and cleanup are ONE locked block (atomic w.r.t. `connect()`)
    if canAcq s t then
      match target s with
      | some j =>
        if (s.net j).intr then       -- `self.disconnect(immediate=True)`, a re-entrant acquisition
          some { doDisconnect s with
                   owner := some t, depth := s.depth + 1,
                   net := updN (doDisconnect s) i { (doDisconnect s).net i with pc := .hRel },
                   log := s.log ++ [(t, .hchk (some true))] }
        else
          some { s with owner := some t, depth := s.depth + 1,
                        net := updN s i { me with pc := .hRel },
                        log := s.log ++ [(t, .hchk (some false))] }
      | none =>            -- `None.interrupt`: AttributeError inside the `with`, inside the `except`
        some { s with owner := some t, depth := s.depth + 1,
                      net := updN s i { me with pc := .hRel }, log := s.log ++ [(t, .hchk none)] }
    else none
  | .hRel =>
    some { s with owner := ownerAfterRel s, depth := s.depth - 1,
                  net := updN s i { me with pc := .epilogue }, log := s.log ++ [(t, .rel)] }
  | .epilogue =>
    if canAcq s t then
      some { s with owner := some t, depth := s.depth + 1, nt := none,
                    net := updN s i { me with pc := .epRel }, log := s.log ++ [(t, .epi)] }
    else none
  | .epRel =>
    some { s with owner := ownerAfterRel s, depth := s.depth - 1,
                  net := updN s i { me with pc := .fin }, log := s.log ++ [(t, .fin)] }
  | .fin =>
    some { s with net := updN s i { me with pc := .dead }, log := s.log ++ [(t, .die)] }

/-- One atomic step of thread `t`; `none` = not enabled. -/
def step (env : List Beh) (s : Sys) : Tid → Option Sys
  | .user u => stepUser env s u
  | .net i => stepNet env s i

/-- Run a schedule; choices that are not enabled are skipped. -/
def run (env : List Beh) (s : Sys) : List Tid → Sys
  | [] => s
  | t :: ts =>
    match step env s t with
    | some s' => run env s' ts
    | none => run env s ts

/-- Number of schedule entries that were not enabled. -/
def skipped (env : List Beh) (s : Sys) : List Tid → Nat
  | [] => 0
  | t :: ts =>
    match step env s t with
    | some s' => skipped env s' ts
    | none => skipped env s ts + 1

/-- A fresh `Connection` object; user thread `u` runs `progs[u]`; the listener / the exception
handler reconnect at most `rl` / `rh` times. -/
def init (progs : List (List Op)) (rl rh : Nat) : Sys where
  nt := none
  newNt := none
  socket := .none
  file := .none
  connected := false
  conns := 0
  nthreads := 0
  rl := rl
  rh := rh
  owner := none
  depth := 0
  net := fun _ => ⟨false, none, .unborn⟩
  usr := fun u => ⟨.idle, progs.getD u [], []⟩
  log := []

/-! ### Phases -/

inductive Phase
  | unborn | waitingPrev | takeOver | io | handling | epilogue | done | dead
deriving DecidableEq, Repr

def NPc.phase : NPc → Phase
  | .unborn => .unborn
  | .waitPrev => .waitingPrev
  | .takeOver | .tkRel => .takeOver
  | .loopChk | .wBody | .wRel | .wFailRel | .rChk | .rRead | .exit => .io
  | .call .react | .call .listen | .callRel .react _ | .callRel .listen _ => .io
  | .exc | .hRun | .hChk | .hRel => .handling
  | .call .handler | .callRel .handler _ => .handling
  | .epilogue | .epRel => .epilogue
  | .fin => .done
  | .dead => .dead

/-- The phases in which a thread may perform I/O. -/
def NPc.ioPhase (pc : NPc) : Bool :=
  pc.phase == .io || pc.phase == .handling || pc.phase == .epilogue

/-- Alive in the sense of `Thread.is_alive()` (started and not yet terminated). -/
def NPc.alive : NPc → Bool
  | .unborn | .dead => false
  | _ => true

end PyCraft.Life
