import PyCraft.Model.VarInt
/-!
Model of the parts of `minecraft/networking/types/basic.py` that `Model/VarInt.lean` leaves
anonymous: the two classes `VarInt` / `VarLong`, their class attribute `max_bytes`, and ONE
instrumented reader whose two projections are the decoder and the `read(1)` counter.

Python lines mirrored (file `minecraft/networking/types/basic.py`):
* l.144-145  `class VarInt(Type): max_bytes = 5`
* l.189-190  `class VarLong(VarInt): max_bytes = 10` (inherits `read`; `cls.max_bytes` resolves to 10)
* l.147-166  `VarInt.read(cls, file_object)`
-/
namespace PyCraft

/-- The two classes that own the reader: `VarInt` (l.144) and its subclass `VarLong` (l.189). -/
inductive VarKind
  | varInt
  | varLong
deriving DecidableEq, Repr, Inhabited

/-- `cls.max_bytes`: l.145 `max_bytes = 5` for `VarInt`, l.190 `max_bytes = 10` for `VarLong`. -/
def VarKind.maxBytes : VarKind → Nat
  | .varInt => 5
  | .varLong => 10

/-- Class name as spelled in the Python source (used to key the generated live table). -/
def VarKind.ofName : String → Option VarKind
  | "VarInt" => some .varInt
  | "VarLong" => some .varLong
  | _ => none

/-- ONE instrumented `VarInt.read` (l.147-166) with `cls.max_bytes = mx`, started in the loop state
`bytes_encountered = be`, `number = acc`, on a stream whose unread bytes are the list.  Returns the
outcome (value and unread rest, or the exception) AND the number of `file_object.read(1)` calls issued
(the call that hits end of stream included).

* `[]`            : l.154 `byte = file_object.read(1)` returns `b''`; l.155-156 `raise EOFError`.
* `b :: rest`     : l.154 one read; l.158-159 `number |= (byte & 0x7F) << 7 * bytes_encountered`;
  * l.160-161 `if not byte & 0x80: break` then l.166 `return number`;
  * l.163 `bytes_encountered += 1`; l.164-165 `if bytes_encountered > cls.max_bytes: raise ValueError`;
  * otherwise next loop iteration (l.153). -/
def readInstr (mx : Nat) : Nat → Nat → Bytes → Except Err (Nat × Bytes) × Nat
  | _, _, [] => (.error .eof, 1)
  | be, acc, b :: rest =>
    let acc' := acc ||| ((b.toNat &&& 0x7F) <<< (7 * be))
    if b.toNat &&& 0x80 = 0 then (.ok (acc', rest), 1)
    else if be + 1 > mx then (.error .tooLong, 1)
    else
      let r := readInstr mx (be + 1) acc' rest
      (r.1, r.2 + 1)

/-- `cls.read(file_object)` for `cls = VarInt` / `VarLong`: l.149 `number = 0`, l.152
`bytes_encountered = 0`, and `cls.max_bytes` looked up on the class. -/
def VarKind.read (k : VarKind) (bs : Bytes) : Except Err (Nat × Bytes) × Nat :=
  readInstr k.maxBytes 0 0 bs

/-- outcome projection of `cls.read` expressed with the existing decoder -/
def VarKind.dec (k : VarKind) (bs : Bytes) : Except Err (Nat × Bytes) := decVarInt k.maxBytes bs

/-- read-count projection of `cls.read` expressed with the existing counter -/
def VarKind.reads (k : VarKind) (bs : Bytes) : Nat := decVarIntReads k.maxBytes 0 bs

/-- `VarInt.read` -/
def readVarInt (bs : Bytes) : Except Err (Nat × Bytes) := VarKind.varInt.dec bs
/-- `VarLong.read` -/
def readVarLong (bs : Bytes) : Except Err (Nat × Bytes) := VarKind.varLong.dec bs

/-- What an observer holding a counting `BytesIO` sees of `cls.read`: outcome tag, value (0 on
failure), `stream.tell()` afterwards, number of `read(1)` calls.  On success `tell` is the number of
bytes not handed back as `rest`; on failure every call consumed one byte except the one that found the
stream empty. -/
def VarKind.observe (k : VarKind) (bs : Bytes) : String × Nat × Nat × Nat :=
  match k.read bs with
  | (.ok (v, rest), n) => ("ok", v, bs.length - rest.length, n)
  | (.error .eof, n) => ("eof", 0, min n bs.length, n)
  | (.error .tooLong, n) => ("tooLong", 0, min n bs.length, n)
  | (.error _, n) => ("other", 0, min n bs.length, n)

/-! ### Models of CHANGED code (used only to show that the new theorems would catch the change) -/

/-- CHANGED CODE (a): `class VarInt: max_bytes = 7` — everything else untouched. -/
def VarKind.maxBytesChanged : VarKind → Nat
  | .varInt => 7
  | .varLong => 10

/-- CHANGED CODE (b): a reader that additionally rejects non-canonical (zero-padded) encodings such as
`80 00`, i.e. after l.161 `break`: `if bytes_encountered > 0 and byte == 0: raise ValueError`. -/
def decStrictAux (mx : Nat) : Nat → Nat → Bytes → Except Err (Nat × Bytes)
  | _, _, [] => .error .eof
  | be, acc, b :: rest =>
    let acc' := acc ||| ((b.toNat &&& 0x7F) <<< (7 * be))
    if b.toNat &&& 0x80 = 0 then
      if be > 0 ∧ b.toNat = 0 then .error .value else .ok (acc', rest)
    else if be + 1 > mx then .error .tooLong
    else decStrictAux mx (be + 1) acc' rest

def decStrict (mx : Nat) (bs : Bytes) : Except Err (Nat × Bytes) := decStrictAux mx 0 0 bs

end PyCraft
