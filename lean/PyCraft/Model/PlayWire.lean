import PyCraft.Model.Play
import PyCraft.Model.Frame
import PyCraft.Model.Wire
/-!
Byte-level refinement of the play model (`Model/Play.lean`): what the packets the playing reactor
reacts to look like ON THE WIRE, what `read_packet` + the packet classes' `read` make of them, what
bytes the replies recorded in `Result.wire` are, and a reference server that reads them back.

The version-dependent facts are PARAMETERS (`Profile`): the six packet ids
(`KeepAlivePacket.get_id` clientbound/serverbound, `PlayerPositionAndLookPacket.get_id`,
`TeleportConfirmPacket.id`, serverbound `PositionAndLookPacket.get_id`, clientbound
`DisconnectPacket.get_id`) and the three layout switches
* `kaLong`   — `AbstractKeepAlivePacket.get_definition`: `Long` from protocol 339 on, else `VarInt`;
* `newer107` — `teleport_id` present in clientbound position-and-look AND the reactor answers with a
  `TeleportConfirmPacket` (both test `protocol_later_eq(107)`), else the position echo;
* `dismount` — the trailing `dismount_vehicle` Boolean (protocol ≥ 755);
plus `others`, the ids/names of the remaining known clientbound packets (no default reaction).

Client side (mirrors the Python literally)
* `clientDecode` = the tail of `PacketReactor.read_packet` behind the id VarInt: look the id up, run
  the class's `read` (`Packet.read`: the fields of the definition in order, NO check that the payload
  is consumed) — or, for an id that is not in the table, return a bare `Packet` carrying only the id.
  `readKeepAlive`/`readPosLook`/`readDisconnect` are those `read`s.
* `replyFields` = `write_fields` of the three serverbound packets the reactor builds, the values
  being the ones copied from the request (`replyFieldsPy` is the same with `struct.pack`'s range
  checks; they cannot fire on values that came out of a successful `read`,
  `replyFieldsPy_ok` in `Lemmas/PlayWire.lean`).
* `clientWire` = the chunks handed to the (possibly encrypting) socket for `Result.wire`:
  `Packet.write` → `_write_buffer` (`frameSends`, two `send`s per packet), through
  `EncryptedSocketWrapper.send` (`encSends`) when a cipher is installed (`idXform` when not).

Values.  Doubles/floats are their BIT PATTERNS (x, y, z: 64 bits; yaw, pitch: 32 bits): the reactor
only copies them, and `struct.unpack('>d')`/`pack('>d')` is a bijection on patterns; for `'>f'`
Python widens to a double and narrows back, which preserves every non-NaN pattern — the
normalisation of NaN payloads by that float32→double→float32 trip (a signalling NaN is quieted:
yaw pattern `7fa00000` is echoed as `7fe00000`) is OUTSIDE the model.  `flags` is
the octet.  A keep-alive id is carried in `PlayEv.keepAlive`/`Reply.keepAlive` as a `Nat`: for the
VarInt layout it is the number `VarInt.read` returns (this library's `VarInt.read` does NOT
sign-extend: a Java server's negative id arrives as its unsigned 32-bit pattern, and `VarInt.send`
writes that pattern back); for the Long layout it is the unsigned 64-bit pattern `u64 v` of the
signed Python int `v = s64 pattern` that `struct.unpack('>q')` returns and `pack('>q')` is given.

Server side: NOT pyCraft code.  `serverFields` is what a server writes (`SrvPkt` carries everything
that is on the wire, `SrvPkt.ev` forgets what `PlayEv` does not record); `serverDecode` /
`serverDecodeReplies` is an independent STRICT reference reader built on C01's reader: each payload
must be consumed exactly.

Not modelled: the play-state "set compression" packet of protocol 47 (one threshold for the whole
stream, as in `Model/Play.lean`).
-/
namespace PyCraft.PlayWire
open PyCraft PyCraft.Play

/-- The version-dependent wire facts of the play packets the reactor deals with. -/
structure Profile where
  kaCb : Nat
  kaSb : Nat
  posLookCb : Nat
  teleportConfirmSb : Nat
  posLookSb : Nat
  disconnectCb : Nat
  kaLong : Bool
  newer107 : Bool
  dismount : Bool
  others : List (Nat × String) := []
deriving Repr, DecidableEq

/-- The three clientbound ids the reactor reacts to are pairwise distinct. -/
def Profile.cbDistinct (P : Profile) : Bool :=
  P.kaCb != P.posLookCb && P.kaCb != P.disconnectCb && P.posLookCb != P.disconnectCb

/-- The id of the acknowledgement the reactor writes for a position-and-look. -/
def Profile.ackSb (P : Profile) : Nat :=
  if P.newer107 then P.teleportConfirmSb else P.posLookSb

/-- The two serverbound ids in use are distinct (the unused third one is unconstrained: protocol 47
has keep-alive = 0x00 = the later teleport-confirm id). -/
def Profile.sbDistinct (P : Profile) : Bool := P.kaSb != P.ackSb

/-- `struct.unpack('>q')`: the signed reading of an unsigned 64-bit pattern. -/
def s64 (n : Nat) : Int := if n < 2 ^ 63 then (n : Int) else (n : Int) - 2 ^ 64

/-- The unsigned 64-bit pattern of a Python int. -/
def u64 (v : Int) : Nat := (v % 2 ^ 64).toNat

/-! ### what the server writes -/

/-- A clientbound play packet with everything that is on the wire. -/
inductive SrvPkt
  | keepAlive (id : Nat)
  | posLook (x y z yaw pitch flags teleportId : Nat) (dismountVehicle : Bool)
  | disconnect (json : String)
  | other (pid : Nat) (name : String) (fields : Bytes)
  | unknown (pid : Nat) (data : Bytes)
deriving Repr, DecidableEq

/-- The event of `Model/Play.lean` the packet is. -/
def SrvPkt.ev : SrvPkt → PlayEv
  | .keepAlive id => .keepAlive id
  | .posLook x y z yaw pitch flags tid _ => .posLook x y z yaw pitch flags tid
  | .disconnect _ => .disconnect
  | .other _ name _ => .other name
  | .unknown pid data => .unknown pid data

def SrvPkt.isDisconnect : SrvPkt → Bool
  | .disconnect _ => true
  | _ => false

def SrvPkt.isKeepAlive : SrvPkt → Bool
  | .keepAlive _ => true
  | _ => false

/-- Well-formedness (decidable): the values fit their wire types — bit patterns of the right width,
ids/lengths within the reader's VarInt bound `2^42` (every 32-bit value passes) — a teleport id
that is not on the wire is 0, and `other`/`unknown` ids are what they claim to be. -/
def SrvPkt.wf (P : Profile) : SrvPkt → Bool
  | .keepAlive id => if P.kaLong then decide (id < 2 ^ 64) else decide (id < 2 ^ 42)
  | .posLook x y z yaw pitch flags tid _ =>
    decide (x < 2 ^ 64) && decide (y < 2 ^ 64) && decide (z < 2 ^ 64) && decide (yaw < 2 ^ 32) &&
      decide (pitch < 2 ^ 32) && decide (flags < 256) &&
      (if P.newer107 then decide (tid < 2 ^ 42) else decide (tid = 0))
  | .disconnect json => decide ((utf8 json).length < 2 ^ 42)
  | .other pid name _ =>
    pid != P.kaCb && pid != P.posLookCb && pid != P.disconnectCb &&
      P.others.lookup pid == some name
  | .unknown pid _ =>
    pid != P.kaCb && pid != P.posLookCb && pid != P.disconnectCb &&
      (P.others.lookup pid).isNone

/-- The keep-alive id field for an id given as its unsigned pattern. -/
def kaField (P : Profile) (id : Nat) : Bytes :=
  if P.kaLong then beBytes 8 id else encVarInt id

/-- (packet id, field bytes) the server writes. -/
def serverFields (P : Profile) : SrvPkt → Nat × Bytes
  | .keepAlive id => (P.kaCb, kaField P id)
  | .posLook x y z yaw pitch flags tid dv =>
    (P.posLookCb,
      beBytes 8 x ++ (beBytes 8 y ++ (beBytes 8 z ++ (beBytes 4 yaw ++ (beBytes 4 pitch ++
        (beBytes 1 flags ++ ((if P.newer107 then encVarInt tid else []) ++
          (if P.dismount then [if dv then 1 else 0] else []))))))))
  | .disconnect json => (P.disconnectCb, encVarInt (utf8 json).length ++ utf8 json)
  | .other pid _ fields => (pid, fields)
  | .unknown pid data => (pid, data)

/-- The plaintext server → client byte stream: one frame per packet. -/
def serverBytes (z : ZlibOps) (thr : Option Int) (P : Profile) (pkts : List SrvPkt) : Bytes :=
  (pkts.map fun p => packetFrame z thr (serverFields P p)).flatten

/-- What the listeners see of the stream (`PlayEv.asSeen`: an unknown packet without its data). -/
def inboxOf (pkts : List SrvPkt) : List PlayEv := pkts.map fun p => p.ev.asSeen

/-- The packets before the first disconnect packet. -/
def beforeDiscP (pkts : List SrvPkt) : List SrvPkt := pkts.takeWhile fun p => !p.isDisconnect

def hasDiscP (pkts : List SrvPkt) : Bool := pkts.any (·.isDisconnect)

/-- The replies that are due: those to the packets before the first disconnect, in order. -/
def due (P : Profile) (pkts : List SrvPkt) : List Reply :=
  (beforeDiscP pkts).flatMap fun p => replyTo P.newer107 p.ev

/-- Specification vocabulary: the acknowledgement `(id, field bytes)` a position-and-look must
receive, in terms of what the server itself wrote: from 107 on the teleport id as a VarInt; before,
the FIRST 32 BYTES of the server's own fields (x, y, z, yaw, pitch) followed by `on_ground = 1`. -/
def ackOf (P : Profile) (p : SrvPkt) : Option (Nat × Bytes) :=
  match p with
  | .posLook _ _ _ _ _ _ tid _ =>
    some (if P.newer107 then (P.teleportConfirmSb, encVarInt tid)
      else (P.posLookSb, (serverFields P p).2.take 32 ++ [1]))
  | _ => none

/-- … and of every packet: a keep-alive is answered with the server's own field bytes. -/
def echoOf (P : Profile) (p : SrvPkt) : List (Nat × Bytes) :=
  match p with
  | .keepAlive _ => [(P.kaSb, (serverFields P p).2)]
  | _ => (ackOf P p).toList

/-! ### the client's reading side -/

/-- `struct.unpack` of `w` bytes read as a big-endian bit pattern (`struct.error` on a short read). -/
def readBE (w : Nat) (bs : Bytes) : Except Err (Nat × Bytes) :=
  match takeN w bs with
  | .error e => .error e
  | .ok (h, r) => .ok (beValue h, r)

/-- `String.read`. -/
def readString (bs : Bytes) : Except Err (String × Bytes) :=
  match decVarInt 5 bs with
  | .error e => .error e
  | .ok (n, r) =>
    if r.length < n then .error .eof
    else
      match utf8Decode (r.take n) with
      | some s => .ok (s, r.drop n)
      | none => .error .decode

/-- `KeepAlivePacket.read`: `Long.read` (signed, kept as its pattern) or `VarInt.read`. -/
def readKeepAlive (P : Profile) (bs : Bytes) : Except Err PlayEv :=
  if P.kaLong then
    match unpackS 8 bs with
    | .error e => .error e
    | .ok (v, _) => .ok (.keepAlive (u64 v))
  else
    match decVarInt 5 bs with
    | .error e => .error e
    | .ok (n, _) => .ok (.keepAlive n)

/-- `PlayerPositionAndLookPacket.read`: Double ×3, Float ×2, Byte, then `VarInt teleport_id` from
107 on and `Boolean dismount_vehicle` from 755 on.  Before 107 the packet has no `teleport_id`
attribute (the reactor does not read it in that branch); the event carries 0. -/
def readPosLook (P : Profile) (bs : Bytes) : Except Err PlayEv := do
  let (x, r) ← readBE 8 bs
  let (y, r) ← readBE 8 r
  let (z, r) ← readBE 8 r
  let (yaw, r) ← readBE 4 r
  let (pitch, r) ← readBE 4 r
  let (flags, r) ← readBE 1 r
  let (tid, r) ← if P.newer107 then decVarInt 5 r else pure (0, r)
  let _ ← if P.dismount then takeN 1 r else pure ([], r)
  pure (.posLook x y z yaw pitch flags tid)

/-- `DisconnectPacket.read`: one `String`. -/
def readDisconnect (bs : Bytes) : Except Err PlayEv :=
  match readString bs with
  | .error e => .error e
  | .ok _ => .ok .disconnect

/-- What `read_packet` returns for a delivered `(id, bytes behind the id)`: the decoded packet of the
class registered under the id, or — `packet_id not in self.clientbound_packets` — a bare `Packet`
with only the id (`unknown pid []`).  An exception of a field's `read` propagates. -/
def clientDecode (P : Profile) (raw : Nat × Bytes) : Except Err PlayEv :=
  if raw.1 = P.kaCb then readKeepAlive P raw.2
  else if raw.1 = P.posLookCb then readPosLook P raw.2
  else if raw.1 = P.disconnectCb then readDisconnect raw.2
  else
    match P.others.lookup raw.1 with
    | some name => .ok (.other name)
    | none => .ok (.unknown raw.1 [])

/-- The networking loop's view: decode the delivered packets one by one; the first exception — of a
`read`, or the one that ended the frame loop — ends it. -/
def decodeEach {α : Type} (dec : Nat × Bytes → Except Err α) :
    List (Nat × Bytes) → Err → List α × Err
  | [], e => ([], e)
  | raw :: rest, e =>
    match dec raw with
    | .error e' => ([], e')
    | .ok a => (a :: (decodeEach dec rest e).1, (decodeEach dec rest e).2)

/-- `read_packet` in a loop on the arrival segments `segs`, through the decryptor `dec` from context
`s0` (`idXform`/`()` for a plaintext connection): the packets handed to `_react`, in order, and the
exception that ended the loop. -/
def clientRead {σ : Type} (P : Profile) (dec : StreamXform σ) (s0 : σ) (z : ZlibOps)
    (compressed : Bool) (segs : Segs) : List PlayEv × Err :=
  decodeEach (clientDecode P) (readAllEnc dec s0 z compressed segs).1
    (readAllEnc dec s0 z compressed segs).2

/-! ### the client's writing side -/

/-- Well-formed replies (decidable): what `write_fields` accepts without `struct.error`, and of the
kind this profile's reactor builds. -/
def replyWf (P : Profile) : Reply → Bool
  | .keepAlive id => if P.kaLong then decide (id < 2 ^ 64) else decide (id < 2 ^ 42)
  | .teleportConfirm tid => P.newer107 && decide (tid < 2 ^ 42)
  | .positionEcho x y z yaw pitch _ =>
    !P.newer107 && decide (0 ≤ x ∧ x < 2 ^ 64) && decide (0 ≤ y ∧ y < 2 ^ 64) &&
      decide (0 ≤ z ∧ z < 2 ^ 64) && decide (0 ≤ yaw ∧ yaw < 2 ^ 32) &&
      decide (0 ≤ pitch ∧ pitch < 2 ^ 32)

/-- `write_fields` of the reply: (packet id, field bytes).  Keep-alive, Long layout: the attribute
is the signed int `s64 id`, `Long.send` writes its 64-bit pattern. -/
def replyFields (P : Profile) : Reply → Nat × Bytes
  | .keepAlive id => (P.kaSb, if P.kaLong then beBytes 8 (u64 (s64 id)) else encVarInt id)
  | .teleportConfirm tid => (P.teleportConfirmSb, encVarInt tid)
  | .positionEcho x y z yaw pitch og =>
    (P.posLookSb,
      beBytes 8 x.toNat ++ (beBytes 8 y.toNat ++ (beBytes 8 z.toNat ++ (beBytes 4 yaw.toNat ++
        (beBytes 4 pitch.toNat ++ [if og then 1 else 0])))))

/-- The same with the range checks of `struct.pack` / `VarInt.send` (where Python would raise). -/
def replyFieldsPy (P : Profile) : Reply → Except Err (Nat × Bytes)
  | .keepAlive id => do
    let b ← if P.kaLong then packS 8 (s64 id) else encVarIntZ id
    pure (P.kaSb, b)
  | .teleportConfirm tid => do
    let b ← encVarIntZ tid
    pure (P.teleportConfirmSb, b)
  | .positionEcho x y z yaw pitch og => do
    let bx ← packU 8 x
    let b2 ← packU 8 y
    let bz ← packU 8 z
    let b4 ← packU 4 yaw
    let b5 ← packU 4 pitch
    pure (P.posLookSb, bx ++ (b2 ++ (bz ++ (b4 ++ (b5 ++ [if og then 1 else 0])))))

/-- The frame of one reply (plaintext view), `fields` being the field writer. -/
def frameWith (z : ZlibOps) (thr : Option Int) (fields : Reply → Nat × Bytes) (q : Reply) : Bytes :=
  packetFrame z thr (fields q)

/-- The two `send` calls of `_write_buffer` for one reply. -/
def sendsWith (z : ZlibOps) (thr : Option Int) (fields : Reply → Nat × Bytes) (q : Reply) :
    List Bytes :=
  frameSends z thr (packetPayload (fields q).1 (fields q).2)

/-- The chunks handed to the real socket for a list of replies written in order through the
encryptor `enc` from context `t0`. -/
def wireWith {τ : Type} (z : ZlibOps) (thr : Option Int) (enc : StreamXform τ) (t0 : τ)
    (fields : Reply → Nat × Bytes) (replies : List Reply) : List Bytes :=
  (encSends enc t0 (replies.flatMap (sendsWith z thr fields))).2

/-- … with the real field writer: the client → server chunks of the play phase. -/
def clientWire {τ : Type} (z : ZlibOps) (thr : Option Int) (P : Profile) (enc : StreamXform τ)
    (t0 : τ) (replies : List Reply) : List Bytes :=
  wireWith z thr enc t0 (replyFields P) replies

/-- The frame of one reply. -/
def replyFrame (z : ZlibOps) (thr : Option Int) (P : Profile) (q : Reply) : Bytes :=
  frameWith z thr (replyFields P) q

/-- The plaintext pair: no cipher installed (offline-mode server). -/
def plainPair : CipherPair Unit where
  enc := idXform
  dec := idXform
  inv := fun _ _ => ⟨rfl, rfl⟩

/-! ### the reference server's reading side -/

/-- Strictness: the payload must be consumed exactly. -/
def whole {α : Type} : Except Err (α × Bytes) → Except Err α
  | .error e => .error e
  | .ok (a, []) => .ok a
  | .ok (_, _ :: _) => .error .value

/-- The fields of a serverbound position-and-look. -/
def readPosEcho (bs : Bytes) : Except Err (Reply × Bytes) := do
  let (x, r) ← readBE 8 bs
  let (y, r) ← readBE 8 r
  let (z, r) ← readBE 8 r
  let (yaw, r) ← readBE 4 r
  let (pitch, r) ← readBE 4 r
  let (og, r) ← takeN 1 r
  pure (.positionEcho x y z yaw pitch (og != [0]), r)

/-- The reference server's decoder of one delivered `(id, field bytes)`: keep-alive (pattern or
VarInt), the acknowledgement this profile expects, anything else is a protocol violation. -/
def serverDecode (P : Profile) (raw : Nat × Bytes) : Except Err Reply :=
  if raw.1 = P.kaSb then
    if P.kaLong then
      whole (match readBE 8 raw.2 with
        | .error e => .error e
        | .ok (n, r) => .ok (Reply.keepAlive n, r))
    else
      whole (match decVarInt 5 raw.2 with
        | .error e => .error e
        | .ok (n, r) => .ok (Reply.keepAlive n, r))
  else if raw.1 = P.ackSb then
    if P.newer107 then
      whole (match decVarInt 5 raw.2 with
        | .error e => .error e
        | .ok (n, r) => .ok (Reply.teleportConfirm n, r))
    else whole (readPosEcho raw.2)
  else .error .value

/-- The reference server on the arrival segments of the client's stream, through the decryptor `dec`
from context `t0`. -/
def serverDecodeReplies {τ : Type} (P : Profile) (dec : StreamXform τ) (t0 : τ) (z : ZlibOps)
    (compressed : Bool) (segs : Segs) : List Reply × Err :=
  decodeEach (serverDecode P) (readAllEnc dec t0 z compressed segs).1
    (readAllEnc dec t0 z compressed segs).2

/-! ### seeded client faults for the negative witness -/

/-- The keep-alive id echoed in the OTHER width (Long where VarInt is due and vice versa). -/
def wrongWidthFields (P : Profile) : Reply → Nat × Bytes
  | .keepAlive id => (P.kaSb, if P.kaLong then encVarInt id else beBytes 8 (u64 (s64 id)))
  | q => replyFields P q

/-- Yaw and pitch swapped in the position echo. -/
def swapLookFields (P : Profile) : Reply → Nat × Bytes
  | .positionEcho x y z yaw pitch og => replyFields P (.positionEcho x y z pitch yaw og)
  | q => replyFields P q

/-- The teleport confirm carrying the id plus one. -/
def offByOneFields (P : Profile) : Reply → Nat × Bytes
  | .teleportConfirm tid => replyFields P (.teleportConfirm (tid + 1))
  | q => replyFields P q

end PyCraft.PlayWire
