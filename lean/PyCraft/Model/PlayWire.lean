import PyCraft.Model.Play
import PyCraft.Model.Frame
import PyCraft.Model.Wire
/-!
Byte-level refinement of the play model (`Model/Play.lean`): what the packets the playing reactor
reacts to look like ON THE WIRE, what `read_packet` + the packet classes' `read` make of them, what
bytes the replies recorded in `Result.wire` are, and a reference server that reads them back.

The version-dependent facts are PARAMETERS (`Profile`): the six packet ids
(`KeepAlivePacket.get_id` clientbound/serverbound, `PlayerPositionAndLookPacket.get_id`,
`TeleportConfirmPacket.id`, serverbound `PositionAndLookPacket.get_id`, clientbound
`DisconnectPacket.get_id`) and the three layout switches
* `kaLong`   — `AbstractKeepAlivePacket.get_definition`: `Long` from protocol 339 on, else `VarInt`;
* `newer107` — `teleport_id` present in clientbound position-and-look AND the reactor answers with a
  `TeleportConfirmPacket` (both test `protocol_later_eq(107)`), else the position echo;
* `dismount` — the trailing `dismount_vehicle` Boolean (protocol ≥ 755);
plus `others`, the ids/names of the remaining known clientbound packets (no default reaction), and
`setCompressionCb`, the id of the play-state "set compression" packet where the clientbound PLAY
table has one (`clientbound.play.get_packets`: protocols ≤ 47 only; `none` otherwise).

Set compression (`PlayingReactor.react`, first branch: `options.compression_threshold =
packet.threshold; options.compression_enabled = True`).  The options are read by `read_packet` (the
flag, at every call) and by `_write_packet` (flag and threshold, at every call), so the packet
switches BOTH directions at its position in the stream:
* the server frames everything it sends AFTER the packet with the new threshold (`serverBytes`,
  `SrvPkt.thrAfter`), and the client reads everything after it with `compression_enabled`
  (`clientRead`: the flag is re-evaluated packet by packet);
* every reply the client WRITES after it has processed the packet is framed with the new threshold —
  whichever packet the reply answers: replies are queued by `react` and written by the next write
  phase (or by the flush of `disconnect()`), so a reply to an EARLIER packet of the same read batch
  already uses it.  `runT` is `Play.runLoop` instrumented to say, for every reply on the wire, how
  many server packets had been processed when it was written (`Play.runLoop` is recovered by
  forgetting the tags, `Lemmas/PlayWire.lean`); `thrAt` turns that number into the threshold in
  force, `clientWireT` frames each reply with it.
`packet.threshold` is what this library's `VarInt.read` returns: never negative (a Java `-1`
arrives as `2^32 - 1`), so after the packet compression is always enabled.
At the level of `Model/Play.lean` (queue, wire, listeners) the packet is a known packet without a
reply: `SrvPkt.ev` maps it to `PlayEv.other "set compression"`.

Client side (mirrors the Python literally)
* `clientDecode` = the tail of `PacketReactor.read_packet` behind the id VarInt: look the id up, run
  the class's `read` (`Packet.read`: the fields of the definition in order, NO check that the payload
  is consumed) — or, for an id that is not in the table, return a bare `Packet` carrying only the id.
  `readKeepAlive`/`readPosLook`/`readDisconnect` are those `read`s.
* `replyFields` = `write_fields` of the three serverbound packets the reactor builds, the values
  being the ones copied from the request (`replyFieldsPy` is the same with `struct.pack`'s range
  checks; they cannot fire on values that came out of a successful `read`,
  `replyFieldsPy_ok` in `Lemmas/PlayWire.lean`).
* `clientWire` = the chunks handed to the (possibly encrypting) socket for `Result.wire`:
  `Packet.write` → `_write_buffer` (`frameSends`, two `send`s per packet), through
  `EncryptedSocketWrapper.send` (`encSends`) when a cipher is installed (`idXform` when not).

Values.  Doubles/floats are their BIT PATTERNS (x, y, z: 64 bits; yaw, pitch: 32 bits): the reactor
only copies them, and `struct.unpack('>d')`/`pack('>d')` is a bijection on patterns; for `'>f'`
Python widens to a double and narrows back, which preserves every non-NaN pattern — the
normalisation of NaN payloads by that float32→double→float32 trip (a signalling NaN is quieted:
yaw pattern `7fa00000` is echoed as `7fe00000`) is OUTSIDE the model.  `flags` is
the octet.  A keep-alive id is carried in `PlayEv.keepAlive`/`Reply.keepAlive` as a `Nat`: for the
VarInt layout it is the number `VarInt.read` returns (this library's `VarInt.read` does NOT
sign-extend: a Java server's negative id arrives as its unsigned 32-bit pattern, and `VarInt.send`
writes that pattern back); for the Long layout it is the unsigned 64-bit pattern `u64 v` of the
signed Python int `v = s64 pattern` that `struct.unpack('>q')` returns and `pack('>q')` is given.

Server side: NOT pyCraft code.  `serverFields` is what a server writes (`SrvPkt` carries everything
that is on the wire, `SrvPkt.ev` forgets what `PlayEv` does not record); `serverDecode` /
`serverDecodeReplies` is an independent STRICT reference reader built on C01's reader: each payload
must be consumed exactly.

The one-threshold functions `clientWire` / `replyFrame` / `serverDecodeReplies` are the special case
of a stream without set compression (`thrAt` constant); `Model/SessionWire.lean` uses them.
-/
namespace PyCraft.PlayWire
open PyCraft PyCraft.Play

/-- The version-dependent wire facts of the play packets the reactor deals with. -/
structure Profile where
  kaCb : Nat
  kaSb : Nat
  posLookCb : Nat
  teleportConfirmSb : Nat
  posLookSb : Nat
  disconnectCb : Nat
  kaLong : Bool
  newer107 : Bool
  dismount : Bool
  others : List (Nat × String) := []
  /-- `SetCompressionPacket.get_id` where the clientbound play table has the packet (≤ 47). -/
  setCompressionCb : Option Nat := none
deriving Repr, DecidableEq

/-- The three clientbound ids the reactor reacts to are pairwise distinct. -/
def Profile.cbDistinct (P : Profile) : Bool :=
  P.kaCb != P.posLookCb && P.kaCb != P.disconnectCb && P.posLookCb != P.disconnectCb

/-- The id of the acknowledgement the reactor writes for a position-and-look. -/
def Profile.ackSb (P : Profile) : Nat :=
  if P.newer107 then P.teleportConfirmSb else P.posLookSb

/-- The two serverbound ids in use are distinct (the unused third one is unconstrained: protocol 47
has keep-alive = 0x00 = the later teleport-confirm id). -/
def Profile.sbDistinct (P : Profile) : Bool := P.kaSb != P.ackSb

/-- `struct.unpack('>q')`: the signed reading of an unsigned 64-bit pattern. -/
def s64 (n : Nat) : Int := if n < 2 ^ 63 then (n : Int) else (n : Int) - 2 ^ 64

/-- The unsigned 64-bit pattern of a Python int. -/
def u64 (v : Int) : Nat := (v % 2 ^ 64).toNat

/-! ### what the server writes -/

/-- A clientbound play packet with everything that is on the wire. -/
inductive SrvPkt
  | keepAlive (id : Nat)
  | posLook (x y z yaw pitch flags teleportId : Nat) (dismountVehicle : Bool)
  | disconnect (json : String)
  | other (pid : Nat) (name : String) (fields : Bytes)
  | unknown (pid : Nat) (data : Bytes)
  | setCompression (threshold : Nat)
deriving Repr, DecidableEq

/-- The event of `Model/Play.lean` the packet is. -/
def SrvPkt.ev : SrvPkt → PlayEv
  | .keepAlive id => .keepAlive id
  | .posLook x y z yaw pitch flags tid _ => .posLook x y z yaw pitch flags tid
  | .disconnect _ => .disconnect
  | .other _ name _ => .other name
  | .unknown pid data => .unknown pid data
  | .setCompression _ => .other "set compression"

/-- The compression threshold in force (`none` = `compression_enabled` is false) after the client has
processed the packet / after the server has sent it. -/
def SrvPkt.thrAfter (thr : Option Int) : SrvPkt → Option Int
  | .setCompression t => some (t : Int)
  | _ => thr

/-- The threshold in force once the first `n` packets of the stream have been processed, starting
from `thr0`. -/
def thrAt (thr0 : Option Int) (pkts : List SrvPkt) (n : Nat) : Option Int :=
  (pkts.take n).foldl SrvPkt.thrAfter thr0

def SrvPkt.isSetCompression : SrvPkt → Bool
  | .setCompression _ => true
  | _ => false

def SrvPkt.isDisconnect : SrvPkt → Bool
  | .disconnect _ => true
  | _ => false

def SrvPkt.isKeepAlive : SrvPkt → Bool
  | .keepAlive _ => true
  | _ => false

/-- Well-formedness (decidable): the values fit their wire types — bit patterns of the right width,
ids/lengths within the reader's VarInt bound `2^42` (every 32-bit value passes) — a teleport id
that is not on the wire is 0, `other`/`unknown` ids are what they claim to be, and a set-compression
packet exists in the profile under an id of its own. -/
def SrvPkt.wf (P : Profile) : SrvPkt → Bool
  | .keepAlive id => if P.kaLong then decide (id < 2 ^ 64) else decide (id < 2 ^ 42)
  | .posLook x y z yaw pitch flags tid _ =>
    decide (x < 2 ^ 64) && decide (y < 2 ^ 64) && decide (z < 2 ^ 64) && decide (yaw < 2 ^ 32) &&
      decide (pitch < 2 ^ 32) && decide (flags < 256) &&
      (if P.newer107 then decide (tid < 2 ^ 42) else decide (tid = 0))
  | .disconnect json => decide ((utf8 json).length < 2 ^ 42)
  | .other pid name _ =>
    pid != P.kaCb && pid != P.posLookCb && pid != P.disconnectCb &&
      P.setCompressionCb != some pid && P.others.lookup pid == some name
  | .unknown pid _ =>
    pid != P.kaCb && pid != P.posLookCb && pid != P.disconnectCb &&
      P.setCompressionCb != some pid && (P.others.lookup pid).isNone
  | .setCompression t =>
    match P.setCompressionCb with
    | some pid =>
      pid != P.kaCb && pid != P.posLookCb && pid != P.disconnectCb && decide (t < 2 ^ 42)
    | none => false

/-- The keep-alive id field for an id given as its unsigned pattern. -/
def kaField (P : Profile) (id : Nat) : Bytes :=
  if P.kaLong then beBytes 8 id else encVarInt id

/-- (packet id, field bytes) the server writes. -/
def serverFields (P : Profile) : SrvPkt → Nat × Bytes
  | .keepAlive id => (P.kaCb, kaField P id)
  | .posLook x y z yaw pitch flags tid dv =>
    (P.posLookCb,
      beBytes 8 x ++ (beBytes 8 y ++ (beBytes 8 z ++ (beBytes 4 yaw ++ (beBytes 4 pitch ++
        (beBytes 1 flags ++ ((if P.newer107 then encVarInt tid else []) ++
          (if P.dismount then [if dv then 1 else 0] else []))))))))
  | .disconnect json => (P.disconnectCb, encVarInt (utf8 json).length ++ utf8 json)
  | .other pid _ fields => (pid, fields)
  | .unknown pid data => (pid, data)
  | .setCompression t => (P.setCompressionCb.getD 0, encVarInt t)

/-- The server's frames, one per packet, `thr` being the threshold in force at the head of the list:
a set-compression packet is itself still framed with the old threshold, everything behind it with
the new one. -/
def serverFrames (z : ZlibOps) (P : Profile) : Option Int → List SrvPkt → List Bytes
  | _, [] => []
  | thr, p :: ps => packetFrame z thr (serverFields P p) :: serverFrames z P (p.thrAfter thr) ps

/-- The plaintext server → client byte stream from the initial threshold `thr` (the one login left
in force). -/
def serverBytes (z : ZlibOps) (thr : Option Int) (P : Profile) (pkts : List SrvPkt) : Bytes :=
  (serverFrames z P thr pkts).flatten

/-- C01's VarInt guard for every frame of `serverBytes`, each under the threshold it is framed with. -/
def ServerOK (z : ZlibOps) (P : Profile) : Option Int → List SrvPkt → Prop
  | _, [] => True
  | thr, p :: ps => FrameOK z thr (serverFields P p) ∧ ServerOK z P (p.thrAfter thr) ps

instance instDecidableServerOK (z : ZlibOps) (P : Profile) :
    (thr : Option Int) → (pkts : List SrvPkt) → Decidable (ServerOK z P thr pkts)
  | _, [] => isTrue trivial
  | thr, p :: ps =>
    match (inferInstance : Decidable (FrameOK z thr (serverFields P p))),
        instDecidableServerOK z P (p.thrAfter thr) ps with
    | isTrue a, isTrue b => isTrue ⟨a, b⟩
    | isFalse a, _ => isFalse fun h => a h.1
    | _, isFalse b => isFalse fun h => b h.2

/-- What the listeners see of the stream (`PlayEv.asSeen`: an unknown packet without its data). -/
def inboxOf (pkts : List SrvPkt) : List PlayEv := pkts.map fun p => p.ev.asSeen

/-- The packets before the first disconnect packet. -/
def beforeDiscP (pkts : List SrvPkt) : List SrvPkt := pkts.takeWhile fun p => !p.isDisconnect

def hasDiscP (pkts : List SrvPkt) : Bool := pkts.any (·.isDisconnect)

/-- The replies that are due: those to the packets before the first disconnect, in order. -/
def due (P : Profile) (pkts : List SrvPkt) : List Reply :=
  (beforeDiscP pkts).flatMap fun p => replyTo P.newer107 p.ev

/-- Specification vocabulary: the acknowledgement `(id, field bytes)` a position-and-look must
receive, in terms of what the server itself wrote: from 107 on the teleport id as a VarInt; before,
the FIRST 32 BYTES of the server's own fields (x, y, z, yaw, pitch) followed by `on_ground = 1`. -/
def ackOf (P : Profile) (p : SrvPkt) : Option (Nat × Bytes) :=
  match p with
  | .posLook _ _ _ _ _ _ tid _ =>
    some (if P.newer107 then (P.teleportConfirmSb, encVarInt tid)
      else (P.posLookSb, (serverFields P p).2.take 32 ++ [1]))
  | _ => none

/-- … and of every packet: a keep-alive is answered with the server's own field bytes. -/
def echoOf (P : Profile) (p : SrvPkt) : List (Nat × Bytes) :=
  match p with
  | .keepAlive _ => [(P.kaSb, (serverFields P p).2)]
  | _ => (ackOf P p).toList

/-! ### the client's reading side -/

/-- `struct.unpack` of `w` bytes read as a big-endian bit pattern (`struct.error` on a short read). -/
def readBE (w : Nat) (bs : Bytes) : Except Err (Nat × Bytes) :=
  match takeN w bs with
  | .error e => .error e
  | .ok (h, r) => .ok (beValue h, r)

/-- `String.read`. -/
def readString (bs : Bytes) : Except Err (String × Bytes) :=
  match decVarInt 5 bs with
  | .error e => .error e
  | .ok (n, r) =>
    if r.length < n then .error .eof
    else
      match utf8Decode (r.take n) with
      | some s => .ok (s, r.drop n)
      | none => .error .decode

/-- `KeepAlivePacket.read`: `Long.read` (signed, kept as its pattern) or `VarInt.read`. -/
def readKeepAlive (P : Profile) (bs : Bytes) : Except Err PlayEv :=
  if P.kaLong then
    match unpackS 8 bs with
    | .error e => .error e
    | .ok (v, _) => .ok (.keepAlive (u64 v))
  else
    match decVarInt 5 bs with
    | .error e => .error e
    | .ok (n, _) => .ok (.keepAlive n)

/-- `PlayerPositionAndLookPacket.read`: Double ×3, Float ×2, Byte, then `VarInt teleport_id` from
107 on and `Boolean dismount_vehicle` from 755 on.  Before 107 the packet has no `teleport_id`
attribute (the reactor does not read it in that branch); the event carries 0. -/
def readPosLook (P : Profile) (bs : Bytes) : Except Err PlayEv := do
  let (x, r) ← readBE 8 bs
  let (y, r) ← readBE 8 r
  let (z, r) ← readBE 8 r
  let (yaw, r) ← readBE 4 r
  let (pitch, r) ← readBE 4 r
  let (flags, r) ← readBE 1 r
  let (tid, r) ← if P.newer107 then decVarInt 5 r else pure (0, r)
  let _ ← if P.dismount then takeN 1 r else pure ([], r)
  pure (.posLook x y z yaw pitch flags tid)

/-- `DisconnectPacket.read`: one `String`. -/
def readDisconnect (bs : Bytes) : Except Err PlayEv :=
  match readString bs with
  | .error e => .error e
  | .ok _ => .ok .disconnect

/-- `SetCompressionPacket.read`: one `VarInt`, the threshold. -/
def readSetCompression (bs : Bytes) : Except Err Nat :=
  match decVarInt 5 bs with
  | .error e => .error e
  | .ok (n, _) => .ok n

/-- What `read_packet` returns for a delivered `(id, bytes behind the id)`: the decoded packet of the
class registered under the id, or — `packet_id not in self.clientbound_packets` — a bare `Packet`
with only the id (`unknown pid []`).  An exception of a field's `read` propagates (also of the set
compression packet's: its `VarInt` is read). -/
def clientDecode (P : Profile) (raw : Nat × Bytes) : Except Err PlayEv :=
  if raw.1 = P.kaCb then readKeepAlive P raw.2
  else if raw.1 = P.posLookCb then readPosLook P raw.2
  else if raw.1 = P.disconnectCb then readDisconnect raw.2
  else if P.setCompressionCb = some raw.1 then
    match readSetCompression raw.2 with
    | .error e => .error e
    | .ok _ => .ok (.other "set compression")
  else
    match P.others.lookup raw.1 with
    | some name => .ok (.other name)
    | none => .ok (.unknown raw.1 [])

/-- `packet.threshold` when the delivered packet is the one named "set compression" (the class
`clientDecode` picks for it), `none` for every other packet: what the first branch of
`PlayingReactor.react` installs. -/
def switchOf (P : Profile) (raw : Nat × Bytes) : Option Nat :=
  if raw.1 = P.kaCb ∨ raw.1 = P.posLookCb ∨ raw.1 = P.disconnectCb then none
  else if P.setCompressionCb = some raw.1 then
    match readSetCompression raw.2 with
    | .error _ => none
    | .ok t => some t
  else none

/-- The networking loop's view: decode the delivered packets one by one; the first exception — of a
`read`, or the one that ended the frame loop — ends it. -/
def decodeEach {α : Type} (dec : Nat × Bytes → Except Err α) :
    List (Nat × Bytes) → Err → List α × Err
  | [], e => ([], e)
  | raw :: rest, e =>
    match dec raw with
    | .error e' => ([], e')
    | .ok a => (a :: (decodeEach dec rest e).1, (decodeEach dec rest e).2)

/-- The networking loop's reading side, one `read_packet` per unit of fuel: C01's reader with the
CURRENT `options.compression_enabled`, the class's `read`, and — the packet being handed to `_react`
before the next `read_packet` — the flag switched on behind a set-compression packet. -/
def clientReadFuel {σ : Type} (P : Profile) (dec : StreamXform σ) (z : ZlibOps) :
    Nat → Bool → Sock σ → List PlayEv × Err
  | 0, _, _ => ([], .other)
  | fuel + 1, compressed, k =>
    match readPacketK dec z compressed k with
    | (.error e, _) => ([], e)
    | (.ok raw, k') =>
      match clientDecode P raw with
      | .error e => ([], e)
      | .ok ev =>
        let r := clientReadFuel P dec z fuel (compressed || (switchOf P raw).isSome) k'
        (ev :: r.1, r.2)

/-- `read_packet` in a loop on the arrival segments `segs`, through the decryptor `dec` from context
`s0` (`idXform`/`()` for a plaintext connection), `compressed` being `options.compression_enabled`
when play starts: the packets handed to `_react`, in order, and the exception that ended the loop.
(Fuel: every `read_packet` that returns consumes at least one byte.) -/
def clientRead {σ : Type} (P : Profile) (dec : StreamXform σ) (s0 : σ) (z : ZlibOps)
    (compressed : Bool) (segs : Segs) : List PlayEv × Err :=
  clientReadFuel P dec z (segs.flatten.length + 1) compressed (Sock.enc s0 segs)

/-! ### the client's writing side -/

/-- Well-formed replies (decidable): what `write_fields` accepts without `struct.error`, and of the
kind this profile's reactor builds. -/
def replyWf (P : Profile) : Reply → Bool
  | .keepAlive id => if P.kaLong then decide (id < 2 ^ 64) else decide (id < 2 ^ 42)
  | .teleportConfirm tid => P.newer107 && decide (tid < 2 ^ 42)
  | .positionEcho x y z yaw pitch _ =>
    !P.newer107 && decide (0 ≤ x ∧ x < 2 ^ 64) && decide (0 ≤ y ∧ y < 2 ^ 64) &&
      decide (0 ≤ z ∧ z < 2 ^ 64) && decide (0 ≤ yaw ∧ yaw < 2 ^ 32) &&
      decide (0 ≤ pitch ∧ pitch < 2 ^ 32)

/-- `write_fields` of the reply: (packet id, field bytes).  Keep-alive, Long layout: the attribute
is the signed int `s64 id`, `Long.send` writes its 64-bit pattern. -/
def replyFields (P : Profile) : Reply → Nat × Bytes
  | .keepAlive id => (P.kaSb, if P.kaLong then beBytes 8 (u64 (s64 id)) else encVarInt id)
  | .teleportConfirm tid => (P.teleportConfirmSb, encVarInt tid)
  | .positionEcho x y z yaw pitch og =>
    (P.posLookSb,
      beBytes 8 x.toNat ++ (beBytes 8 y.toNat ++ (beBytes 8 z.toNat ++ (beBytes 4 yaw.toNat ++
        (beBytes 4 pitch.toNat ++ [if og then 1 else 0])))))

/-- The same with the range checks of `struct.pack` / `VarInt.send` (where Python would raise). -/
def replyFieldsPy (P : Profile) : Reply → Except Err (Nat × Bytes)
  | .keepAlive id => do
    let b ← if P.kaLong then packS 8 (s64 id) else encVarIntZ id
    pure (P.kaSb, b)
  | .teleportConfirm tid => do
    let b ← encVarIntZ tid
    pure (P.teleportConfirmSb, b)
  | .positionEcho x y z yaw pitch og => do
    let bx ← packU 8 x
    let b2 ← packU 8 y
    let bz ← packU 8 z
    let b4 ← packU 4 yaw
    let b5 ← packU 4 pitch
    pure (P.posLookSb, bx ++ (b2 ++ (bz ++ (b4 ++ (b5 ++ [if og then 1 else 0])))))

/-- The frame of one reply (plaintext view), `fields` being the field writer. -/
def frameWith (z : ZlibOps) (thr : Option Int) (fields : Reply → Nat × Bytes) (q : Reply) : Bytes :=
  packetFrame z thr (fields q)

/-- The two `send` calls of `_write_buffer` for one reply. -/
def sendsWith (z : ZlibOps) (thr : Option Int) (fields : Reply → Nat × Bytes) (q : Reply) :
    List Bytes :=
  frameSends z thr (packetPayload (fields q).1 (fields q).2)

/-- The chunks handed to the real socket for a list of replies written in order through the
encryptor `enc` from context `t0`. -/
def wireWith {τ : Type} (z : ZlibOps) (thr : Option Int) (enc : StreamXform τ) (t0 : τ)
    (fields : Reply → Nat × Bytes) (replies : List Reply) : List Bytes :=
  (encSends enc t0 (replies.flatMap (sendsWith z thr fields))).2

/-- … with the real field writer: the client → server chunks of the play phase. -/
def clientWire {τ : Type} (z : ZlibOps) (thr : Option Int) (P : Profile) (enc : StreamXform τ)
    (t0 : τ) (replies : List Reply) : List Bytes :=
  wireWith z thr enc t0 (replyFields P) replies

/-- The frame of one reply. -/
def replyFrame (z : ZlibOps) (thr : Option Int) (P : Profile) (q : Reply) : Bytes :=
  frameWith z thr (replyFields P) q

/-! ### the writing side with a threshold per reply -/

/-- A reply together with the number of server packets the client had processed when the reply was
WRITTEN to the socket (`_write_packet`). -/
abbrev Tagged := Reply × Nat

/-- Tag the wire entries `new` has beyond `old` with `n`. -/
def tagNew (old new : List Reply) (n : Nat) (tw : List Tagged) : List Tagged :=
  tw ++ (new.drop old.length).map fun q => (q, n)

/-- `Play.readLoop` instrumented: `d` counts the packets processed; the only writes of the read
phase — the flush of `disconnect()` inside `react` — happen while packet `d + 1`, the disconnect, is
being processed. -/
def readLoopT (newer107 peerOpen : Bool) (capR : Nat) :
    Nat → Conn → Nat → List Tagged → List PlayEv → (Conn × Nat × List Tagged) × List PlayEv
  | _, c, d, tw, [] => ((c, d, tw), [])
  | num, c, d, tw, e :: rest =>
    if num < capR ∧ c.interrupt = false then
      readLoopT newer107 peerOpen capR (num + 1) (reactAll newer107 peerOpen c e) (d + 1)
        (tagNew c.wire (reactAll newer107 peerOpen c e).wire (d + 1) tw) rest
    else ((c, d, tw), e :: rest)

/-- `Play.loop` instrumented: the write phase of an iteration runs with `d` packets processed. -/
def loopT (newer107 peerOpen : Bool) (capW capR : Nat) :
    Nat → Conn → Nat → List Tagged → List PlayEv → Option (Conn × List Tagged)
  | 0, _, _, _, _ => none
  | fuel + 1, c, d, tw, inbox =>
    if c.interrupt then some (c, tw)
    else if inbox = [] ∧ c.queue = [] then some (c, tw)
    else
      let w := writeLoop capW 0 c.queue c.wire
      let c1 := { c with queue := w.2.1, wire := w.2.2 }
      let r := readLoopT newer107 peerOpen capR w.1 c1 d (tagNew c.wire w.2.2 d tw) inbox
      loopT newer107 peerOpen capW capR fuel r.1.1 r.1.2.1 r.1.2.2 r.2

/-- `Play.runLoop` instrumented: the replies that reached the socket, in order, each with the number
of server packets processed when it was written. -/
def runT (newer107 peerOpen : Bool) (capW capR : Nat) (inbox : List PlayEv) : Option (List Tagged) :=
  (loopT newer107 peerOpen capW capR (2 * inbox.length + 1) Conn.init 0 [] inbox).map (·.2)

/-- Each reply with the threshold `_write_packet` found in the options when it wrote it. -/
def thrTags (thr0 : Option Int) (pkts : List SrvPkt) (tw : List Tagged) :
    List (Reply × Option Int) :=
  tw.map fun qn => (qn.1, thrAt thr0 pkts qn.2)

/-- The chunks handed to the real socket for replies written in order, each framed with its own
threshold, through the encryptor `enc` from context `t0`. -/
def wireWithT {τ : Type} (z : ZlibOps) (enc : StreamXform τ) (t0 : τ)
    (fields : Reply → Nat × Bytes) (l : List (Reply × Option Int)) : List Bytes :=
  (encSends enc t0 (l.flatMap fun qt => sendsWith z qt.2 fields qt.1)).2

/-- … with the real field writer: the client → server chunks of the play phase. -/
def clientWireT {τ : Type} (z : ZlibOps) (P : Profile) (enc : StreamXform τ) (t0 : τ)
    (l : List (Reply × Option Int)) : List Bytes :=
  wireWithT z enc t0 (replyFields P) l

/-- The frame of one reply under its own threshold. -/
def replyFrameT (z : ZlibOps) (P : Profile) (qt : Reply × Option Int) : Bytes :=
  replyFrame z qt.2 P qt.1

/-- The plaintext pair: no cipher installed (offline-mode server). -/
def plainPair : CipherPair Unit where
  enc := idXform
  dec := idXform
  inv := fun _ _ => ⟨rfl, rfl⟩

/-! ### the reference server's reading side -/

/-- Strictness: the payload must be consumed exactly. -/
def whole {α : Type} : Except Err (α × Bytes) → Except Err α
  | .error e => .error e
  | .ok (a, []) => .ok a
  | .ok (_, _ :: _) => .error .value

/-- The fields of a serverbound position-and-look. -/
def readPosEcho (bs : Bytes) : Except Err (Reply × Bytes) := do
  let (x, r) ← readBE 8 bs
  let (y, r) ← readBE 8 r
  let (z, r) ← readBE 8 r
  let (yaw, r) ← readBE 4 r
  let (pitch, r) ← readBE 4 r
  let (og, r) ← takeN 1 r
  pure (.positionEcho x y z yaw pitch (og != [0]), r)

/-- The reference server's decoder of one delivered `(id, field bytes)`: keep-alive (pattern or
VarInt), the acknowledgement this profile expects, anything else is a protocol violation. -/
def serverDecode (P : Profile) (raw : Nat × Bytes) : Except Err Reply :=
  if raw.1 = P.kaSb then
    if P.kaLong then
      whole (match readBE 8 raw.2 with
        | .error e => .error e
        | .ok (n, r) => .ok (Reply.keepAlive n, r))
    else
      whole (match decVarInt 5 raw.2 with
        | .error e => .error e
        | .ok (n, r) => .ok (Reply.keepAlive n, r))
  else if raw.1 = P.ackSb then
    if P.newer107 then
      whole (match decVarInt 5 raw.2 with
        | .error e => .error e
        | .ok (n, r) => .ok (Reply.teleportConfirm n, r))
    else whole (readPosEcho raw.2)
  else .error .value

/-- The reference server on the arrival segments of the client's stream, through the decryptor `dec`
from context `t0`. -/
def serverDecodeReplies {τ : Type} (P : Profile) (dec : StreamXform τ) (t0 : τ) (z : ZlibOps)
    (compressed : Bool) (segs : Segs) : List Reply × Err :=
  decodeEach (serverDecode P) (readAllEnc dec t0 z compressed segs).1
    (readAllEnc dec t0 z compressed segs).2

/-- C01's reader with a compression flag PER FRAME (`modes`: what the server itself had announced when
the client wrote that frame); whatever follows the listed frames is read with the last flag. -/
def readFramesM {τ : Type} (dec : StreamXform τ) (z : ZlibOps) :
    List Bool → Bool → Sock τ → List (Nat × Bytes) × Err
  | [], last, k => (readAllK dec z last k).1
  | c :: cs, _, k =>
    match readPacketK dec z c k with
    | (.error e, _) => ([], e)
    | (.ok p, k') => (p :: (readFramesM dec z cs c k').1, (readFramesM dec z cs c k').2)

/-- The reference server on a client stream whose frames were written under changing thresholds.
`serverDecodeReplies … compressed` is the case `modes = []`, `last = compressed`. -/
def serverDecodeRepliesM {τ : Type} (P : Profile) (dec : StreamXform τ) (t0 : τ) (z : ZlibOps)
    (modes : List Bool) (last : Bool) (segs : Segs) : List Reply × Err :=
  decodeEach (serverDecode P) (readFramesM dec z modes last (Sock.enc t0 segs)).1
    (readFramesM dec z modes last (Sock.enc t0 segs)).2

/-! ### seeded client faults for the negative witness -/

/-- The keep-alive id echoed in the OTHER width (Long where VarInt is due and vice versa). -/
def wrongWidthFields (P : Profile) : Reply → Nat × Bytes
  | .keepAlive id => (P.kaSb, if P.kaLong then encVarInt id else beBytes 8 (u64 (s64 id)))
  | q => replyFields P q

/-- Yaw and pitch swapped in the position echo. -/
def swapLookFields (P : Profile) : Reply → Nat × Bytes
  | .positionEcho x y z yaw pitch og => replyFields P (.positionEcho x y z pitch yaw og)
  | q => replyFields P q

/-- The teleport confirm carrying the id plus one. -/
def offByOneFields (P : Profile) : Reply → Nat × Bytes
  | .teleportConfirm tid => replyFields P (.teleportConfirm (tid + 1))
  | q => replyFields P q

end PyCraft.PlayWire
