import PyCraft.Basic
/-!
Model of the three "state tracker" `apply` methods:

* `PlayerListItemPacket.apply` / the five `Action.apply` methods on a `PlayerList`
  (`clientbound/play/player_list_item_packet.py`);
* `MapPacket.apply_to_map` / `apply_to_map_set` on `Map` / `MapSet` (`clientbound/play/map_packet.py`);
* `PlayerPositionAndLookPacket.apply` on a `PositionAndLook`
  (`clientbound/play/player_position_and_look_packet.py`).

Python dicts are insertion ordered: they are modelled as association lists with distinct keys in
`items()` order (`d[k] = v` on an existing key keeps its position, `del d[k]` removes it, a new key
goes to the end).
-/
namespace PyCraft.Trackers

/-! ### Ordered dicts -/

/-- `d.get(k)`. -/
def dictGet {β : Type} (k : Int) : List (Int × β) → Option β
  | [] => none
  | (k', v) :: rest => if k' = k then some v else dictGet k rest

/-- `d[k] = v`. -/
def dictSet {β : Type} (k : Int) (v : β) : List (Int × β) → List (Int × β)
  | [] => [(k, v)]
  | (k', v') :: rest => if k' = k then (k', v) :: rest else (k', v') :: dictSet k v rest

/-- `x = d.get(k); if x is present: mutate x in place` (the dict itself is not touched). -/
def dictModify {β : Type} (k : Int) (f : β → β) : List (Int × β) → List (Int × β)
  | [] => []
  | (k', v) :: rest => if k' = k then (k', f v) :: rest else (k', v) :: dictModify k f rest

/-- `if k in d: del d[k]`. -/
def dictDel {β : Type} (k : Int) : List (Int × β) → List (Int × β)
  | [] => []
  | (k', v) :: rest => if k' = k then rest else (k', v) :: dictDel k rest

/-! ### Player list -/

/-- `PlayerListItem`; `uuid` is the UUID as a number, `properties` an opaque id of the property
list object (it is only ever copied by reference). -/
structure Player where
  uuid : Int
  name : String
  properties : Nat
  gamemode : Int
  ping : Int
  displayName : Option String
deriving DecidableEq, Repr

/-- `PlayerList.players_by_uuid.items()`. -/
abbrev PlayerList := List (Int × Player)

/-- `PlayerList(*items)`: `{item.uuid: item for item in items}`. -/
def PlayerList.ofItems (items : List Player) : PlayerList :=
  items.foldl (fun d p => dictSet p.uuid p d) []

inductive Action
  | add (p : Player)                                -- AddPlayerAction (uuid = p.uuid)
  | gamemode (uuid : Int) (g : Int)                 -- UpdateGameModeAction
  | latency (uuid : Int) (l : Int)                  -- UpdateLatencyAction
  | displayName (uuid : Int) (d : Option String)    -- UpdateDisplayNameAction
  | remove (uuid : Int)                             -- RemovePlayerAction
deriving DecidableEq, Repr

/-- `action.apply(player_list)`.  In the update actions `if player:` is always true for a record
found in the dict (`MutableRecord` defines neither `__bool__` nor `__len__`), so the update happens
iff the uuid is present. -/
def applyAction (l : PlayerList) : Action → PlayerList
  | .add p => dictSet p.uuid p l
  | .gamemode u g => dictModify u (fun p => { p with gamemode := g }) l
  | .latency u x => dictModify u (fun p => { p with ping := x }) l
  | .displayName u d => dictModify u (fun p => { p with displayName := d }) l
  | .remove u => dictDel u l

/-- `PlayerListItemPacket.apply`: `for action in self.actions: action.apply(player_list)`. -/
def applyPacket (l : PlayerList) (actions : List Action) : PlayerList := actions.foldl applyAction l

/-- Apply a history of packets in order. -/
def replay (hist : List (List Action)) (l : PlayerList) : PlayerList := hist.foldl applyPacket l

/-! ### Reference (specification) semantics of the player list

Independent of the association-list implementation above: the state is a finite map given as a
function `uuid → Option Player` together with the list of present keys in insertion order. -/

structure RefState where
  get : Int → Option Player
  order : List Int

/-- What each action is supposed to do: an add binds the uuid (a new uuid goes to the end of the
order, a known one keeps its place), an update rewrites one field of a bound uuid and does nothing
to an unbound one, a removal unbinds the uuid and drops it from the order. -/
def refAction (s : RefState) : Action → RefState
  | .add p =>
    { get := fun k => if k = p.uuid then some p else s.get k
      order := if p.uuid ∈ s.order then s.order else s.order ++ [p.uuid] }
  | .gamemode u g =>
    { get := fun k => if k = u then (s.get u).map (fun p => { p with gamemode := g }) else s.get k
      order := s.order }
  | .latency u x =>
    { get := fun k => if k = u then (s.get u).map (fun p => { p with ping := x }) else s.get k
      order := s.order }
  | .displayName u d =>
    { get := fun k => if k = u then (s.get u).map (fun p => { p with displayName := d }) else s.get k
      order := s.order }
  | .remove u =>
    { get := fun k => if k = u then none else s.get k
      order := s.order.filter (· ≠ u) }

def refReplay (hist : List (List Action)) (s : RefState) : RefState :=
  hist.foldl (fun s pkt => pkt.foldl refAction s) s

/-- The abstract state of a concrete dict. -/
def RefState.ofList (l : PlayerList) : RefState :=
  { get := fun k => dictGet k l, order := l.map Prod.fst }

/-- `items()` of an abstract state: present keys in order with their binding. -/
def RefState.items (s : RefState) : PlayerList :=
  s.order.filterMap fun k => (s.get k).map fun p => (k, p)

/-! ### Maps -/

structure MapIcon where
  type : Int
  direction : Int
  x : Int
  z : Int
  displayName : Option String
deriving DecidableEq, Repr

/-- `MapPacket.Map`.  `pixels` is the `bytearray`; nothing ties its length to `width*height` except
the constructor. -/
structure MapState where
  id : Option Int
  scale : Option Int
  icons : List MapIcon
  pixels : Bytes
  width : Nat
  height : Nat
  isTrackingPosition : Bool
  isLocked : Bool
deriving DecidableEq, Repr

/-- `MapPacket.Map(id)` with the default `scale=None, width=128, height=128`. -/
def MapState.new (id : Option Int) : MapState :=
  { id := id, scale := none, icons := [], pixels := List.replicate (128 * 128) 0,
    width := 128, height := 128, isTrackingPosition := true, isLocked := false }

/-- The fields of a `MapPacket` that `apply_to_map` reads.  `read` sets `pixels = None`,
`offset = None`, `height = 0` when `width == 0`; `offset` components are signed bytes on read. -/
structure MapPacket where
  mapId : Int
  scale : Int
  icons : List MapIcon
  width : Nat
  height : Nat
  offset : Int × Int
  pixels : Option Bytes
  isTrackingPosition : Bool
  isLocked : Bool
deriving DecidableEq, Repr

/-- `bytearray.__setitem__(idx, v)` with Python index rules: a negative index counts from the end;
outside `[-len, len)` raises `IndexError` (mapped to `Err.other`). -/
def pySetItem (bs : Bytes) (idx : Int) (v : UInt8) : Except Err Bytes :=
  let j := if idx < 0 then idx + bs.length else idx
  if 0 ≤ j ∧ j < bs.length then .ok (bs.set j.toNat v) else .error .other

/-- The loop `for i in range(len(self.pixels))` of `apply_to_map`, from index `i` on, `px` being the
remaining packet pixels and `cur` the map's bytearray.  `i % width` / `i // width` with
`width == 0` raise `ZeroDivisionError` (mapped to `Err.other`).  Note that `height` plays no role. -/
def patchLoop (mapWidth width : Nat) (off : Int × Int) : Nat → Bytes → Bytes → Except Err Bytes
  | _, [], cur => .ok cur
  | i, p :: ps, cur =>
    if width = 0 then .error .other
    else
      let x : Int := off.1 + ((i % width : Nat) : Int)
      let z : Int := off.2 + ((i / width : Nat) : Int)
      match pySetItem cur (x + (mapWidth : Int) * z) p with
      | .error e => .error e
      | .ok cur' => patchLoop mapWidth width off (i + 1) ps cur'

/-- The pixel part of `apply_to_map`: nothing when `self.pixels is None`. -/
def applyPatch (m : MapState) (width : Nat) (off : Int × Int) (px : Option Bytes) :
    Except Err Bytes :=
  match px with
  | none => .ok m.pixels
  | some px => patchLoop m.width width off 0 px m.pixels

/-- `MapPacket.apply_to_map(map)`.  (When the pixel loop raises, the Python has already overwritten
`id`, `scale`, `icons` and the pixels before the failing index; the model only reports the error.) -/
def applyToMap (pkt : MapPacket) (m : MapState) : Except Err MapState :=
  match applyPatch m pkt.width pkt.offset pkt.pixels with
  | .error e => .error e
  | .ok px =>
    .ok { m with id := some pkt.mapId, scale := some pkt.scale, icons := pkt.icons, pixels := px,
                 isTrackingPosition := pkt.isTrackingPosition, isLocked := pkt.isLocked }

/-- `MapSet.maps_by_id.items()`. -/
abbrev MapSet := List (Int × MapState)

/-- `MapPacket.apply_to_map_set`: look the map up by id, create a fresh 128×128 one (appended to
the dict) when missing, then `apply_to_map`. -/
def applyToMapSet (pkt : MapPacket) (s : MapSet) : Except Err MapSet :=
  let m := match dictGet pkt.mapId s with
    | some m => m
    | none => MapState.new (some pkt.mapId)
  match applyToMap pkt m with
  | .error e => .error e
  | .ok m' => .ok (dictSet pkt.mapId m' s)

/-- Replay a history of map packets on a map set (stops at the first packet that raises). -/
def replayMaps : List MapPacket → MapSet → Except Err MapSet
  | [], s => .ok s
  | p :: ps, s =>
    match applyToMapSet p s with
    | .error e => .error e
    | .ok s' => replayMaps ps s'

/-! ### Position and look -/

/-- `PositionAndLook` with exact rational coordinates (the Python uses floats). -/
structure Pos where
  x : Rat
  y : Rat
  z : Rat
  yaw : Rat
  pitch : Rat
deriving DecidableEq

def FLAG_REL_X : Nat := 0x01
def FLAG_REL_Y : Nat := 0x02
def FLAG_REL_Z : Nat := 0x04
def FLAG_REL_YAW : Nat := 0x08
def FLAG_REL_PITCH : Nat := 0x10

/-- The packet's `flags` field is a signed `Byte`; `flags & FLAG` for the five flags (all below
`0x100`) only depends on the two's-complement low byte. -/
def flagsOfByte (b : Int) : Nat := (b % 256).toNat

/-- `if self.flags & FLAG: target.a += self.a  else: target.a = self.a`. -/
def relOrAbs (flags flag : Nat) (cur pkt : Rat) : Rat :=
  if flags &&& flag ≠ 0 then cur + pkt else pkt

/-- Python `a % 360` on exact numbers: `a - 360 * floor(a / 360)`. -/
def mod360 (a : Rat) : Rat := a - 360 * ((a / 360).floor : Rat)

/-- `PlayerPositionAndLookPacket.apply(target)`; `pkt` holds the packet's `x y z yaw pitch`. -/
def applyPosLook (flags : Nat) (pkt cur : Pos) : Pos :=
  { x := relOrAbs flags FLAG_REL_X cur.x pkt.x
    y := relOrAbs flags FLAG_REL_Y cur.y pkt.y
    z := relOrAbs flags FLAG_REL_Z cur.z pkt.z
    yaw := mod360 (relOrAbs flags FLAG_REL_YAW cur.yaw pkt.yaw)
    pitch := mod360 (relOrAbs flags FLAG_REL_PITCH cur.pitch pkt.pitch) }

/-- Replay a history of position packets. -/
def replayPos (hist : List (Nat × Pos)) (cur : Pos) : Pos :=
  hist.foldl (fun c fp => applyPosLook fp.1 fp.2 c) cur

end PyCraft.Trackers
