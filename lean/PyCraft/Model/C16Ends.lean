import PyCraft.Model.Lifecycle
/-!
# How a connection ends: `disconnect()` with a flush that can fail (property C16, audit ranks 3, 7)

`Model/Lifecycle.lean` defines `body env s (.disconnect _) = (doDisconnect s, .ok)`: the flush of the
outgoing packet queue is not modelled, `Outcome` has no constructor for an `IOError`, so
"`disconnect()` never raises" holds there by stipulation.  This file adds what is missing, WITHOUT
changing that model: an extended system `ESys` = the lifecycle state `sys : Life.Sys` plus

* `queue` — `Connection._outgoing_packet_queue` (`none`: the attribute does not exist yet, it is
  created by `_connect`, connection.py:437; packets are numbers),
* `wire`  — ghost: the packets delivered so far, `(connection attempt, packet)`,
* `tick`  — ghost: the number of packet writes attempted so far,
* `calls` — ghost: the API calls whose body has been executed, with their TRUE outcome
  (`OutcomeE` has `ioError` and `otherExc`).

Every packet write may FAIL: the failure oracle `F : Nat → Bool` says whether the `k`-th write
attempt (counted over the whole run, `tick`) on a connected socket raises `IOError` (peer has closed:
`BrokenPipeError`, `ConnectionResetError`).  All theorems quantify over all `F`.

`disconnectE guard imm F` mirrors `Connection.disconnect` (connection.py:457-489) branch by branch.
`guard = true` is the CURRENT code (commit 584a461: the flush loop is inside
`try: … except IOError: pass`, l.466-473); `guard = false` is the code before that commit (bare
`while self._pop_packet(): pass`), kept so that the theorems can be refuted for it.

All actions of a thread that are not API calls are those of `Life.step` (delegated, not copied).  The
networking thread's own write phase stays the abstract send event of the lifecycle model and does
not consume `queue`; instead the scheduler has two extra actions, `enq p` (some thread calls
`write_packet(p)`, connection.py:222: a lock-free `deque.append`) and `deq` (the head of the queue
is consumed, by whoever), so that every queue content is possible at every `disconnect()`.

Abstractions: a packet write is all-or-nothing (Python: two `socket.send` calls per packet,
packet.py:92-93; a packet whose length prefix went out but whose payload failed counts as not
delivered); packet listeners called by `_write_packet` do not raise; serialisation of a queued
packet does not fail.  The flush is one atomic action (it runs under `_write_lock`; a concurrent
lock-free `write_packet` linearises before or after it).
-/
namespace PyCraft.Ends
open PyCraft PyCraft.Life

/-- What one `_write_packet` did: returned, raised `IOError`, raised something else
(`AttributeError`). -/
inductive WRes
  | ok | ioError | other
deriving DecidableEq, Repr

/-- What the caller of an API call sees: the three outcomes of the lifecycle model, an `IOError`
(subclass) escaping from a packet write, or another exception (`AttributeError`). -/
inductive OutcomeE
  | ok | invalidState | refused | ioError | otherExc
deriving DecidableEq, Repr

def lift : Outcome → OutcomeE
  | .ok => .ok
  | .invalidState => .invalidState
  | .refused => .refused

/-- The outcome recorded INSIDE `sys` (program counters, `outs`, log), whose type has no exception
constructors: an escaping exception is recorded there as `.ok`.  The authoritative outcome is the one
in `ESys.calls`; for the current code the two agree (`Props/C16Ends.lean`, `no_call_ever_raises`). -/
def outL : OutcomeE → Outcome
  | .ok => .ok
  | .invalidState => .invalidState
  | .refused => .refused
  | .ioError => .ok
  | .otherExc => .ok

/-- Scheduler choices: a step of a thread, `write_packet(p)` by some thread, consumption of the
head of the queue. -/
inductive Act
  | thr (t : Tid)
  | enq (p : Nat)
  | deq
deriving DecidableEq, Repr

structure ESys where
  sys   : Sys
  queue : Option (List Nat)
  wire  : List (Nat × Nat)
  tick  : Nat
  calls : List (Tid × Op × OutcomeE)

/-- `Connection._write_packet(p)` (connection.py:333-347) → `packet.write(self.socket)` →
`socket.send` (packet.py:92-93).  `socket is None`: `AttributeError` (not an `IOError`).  A socket
object whose `connect` failed: `BrokenPipeError` (measured).  A connected socket: the oracle. -/
def writeOne (F : Nat → Bool) (x : ESys) (p : Nat) : ESys × WRes :=
  match x.sys.socket with
  | .none => (x, .other)
  | .unconnected => ({ x with tick := x.tick + 1 }, .ioError)
  | .open c =>
    if F x.tick then ({ x with tick := x.tick + 1 }, .ioError)
    else ({ x with tick := x.tick + 1, wire := x.wire ++ [(c, p)] }, .ok)

/-- `while self._pop_packet(): pass` on the queue content `q` (connection.py:467-468 with
`_pop_packet`, l.318-331): `popleft()` FIRST, then `_write_packet`; so a packet whose write raises
is no longer in the queue, the rest stays queued. -/
def flushFrom (F : Nat → Bool) : List Nat → ESys → ESys × WRes
  | [], x => ({ x with queue := some [] }, .ok)          -- `len(queue) == 0`: `return False`
  | p :: q, x =>
    match writeOne F x p with
    | (x1, .ok) => flushFrom F q x1
    | (x1, e) => ({ x1 with queue := some q }, e)

/-- The flush loop.  Without the attribute `_outgoing_packet_queue` (no `_connect` has run yet)
`len(self._outgoing_packet_queue)` raises `AttributeError`. -/
def flush (F : Nat → Bool) (x : ESys) : ESys × WRes :=
  match x.queue with
  | none => (x, .other)
  | some q => flushFrom F q x

/-- connection.py:475-489: interrupt the thread `new_networking_thread or networking_thread`;
then, if there is a socket: `shutdown` (its `socket.error` is swallowed), close the stream, close
the socket, `self.socket = None`. -/
def discTail (s : Sys) : Sys :=
  let s1 := { s with net := match target s with
                            | some j => setIntr s j
                            | none => s.net }
  match s.socket with
  | .none => s1
  | _ => { s1 with socket := .none, file := s.file.close }

/-- connection.py:462 `self.connected = False`. -/
def markDisc (x : ESys) : ESys := { x with sys := { x.sys with connected := false } }

/-- `Connection.disconnect(immediate)`, connection.py:457-489 (the body of `with self._write_lock`).
* l.462 `self.connected = False`;
* l.464 `if not immediate and self.socket is not None:` the flush, l.466-473.  `guard = true`
  (current code): `except IOError: pass` — an `IOError` ends the flush and execution CONTINUES at
  l.475; any other exception propagates.  `guard = false` (before commit 584a461): every exception
  of the flush propagates;
* an exception that propagates leaves `disconnect` at once: l.475-489 are NOT executed — the
  thread is not interrupted, the socket stays open — and the caller sees it;
* otherwise l.475-489 (`discTail`) and a normal return. -/
def disconnectE (guard imm : Bool) (F : Nat → Bool) (x : ESys) : ESys × OutcomeE :=
  let x0 : ESys := markDisc x
  if !imm && x0.sys.socket != Sock.none then
    match flush F x0 with
    | (y, .ok) => ({ y with sys := discTail y.sys }, .ok)
    | (y, .ioError) => if guard then ({ y with sys := discTail y.sys }, .ok) else (y, .ioError)
    | (y, .other) => (y, .otherExc)
  else ({ x0 with sys := discTail x0.sys }, .ok)

/-- `connect()` / `status()`: the lifecycle part is `Life.doConnect`.  Queue: `_check_connection`
raises before anything is touched; `_connect` replaces the queue by an empty one BEFORE the socket
object is created and connected (connection.py:437), so also when the TCP connect is refused; after
a successful `_connect` two packets are queued (handshake `0`; login start / status request `1`). -/
def connectE (env : List Beh) (x : ESys) : ESys × OutcomeE :=
  if busy x.sys then (x, .invalidState)
  else
    match doConnect env x.sys with
    | (s1, .refused) => ({ x with sys := s1, queue := some [] }, .refused)
    | (s1, out) => ({ x with sys := s1, queue := some [0, 1] }, lift out)

/-- The body of an API call made by a user thread. -/
def bodyE (guard : Bool) (F : Nat → Bool) (env : List Beh) (x : ESys) : Op → ESys × OutcomeE
  | .connect => connectE env x
  | .status => connectE env x
  | .disconnect imm => disconnectE guard imm F x

/-- The API call a networking thread makes at `site`, with the `try/except` the site itself has.
`react` is connection.py:829-835:
`try: self.connection.disconnect()  except IOError: self.connection.disconnect(immediate=True)`.
(The fallback runs here in the same atomic action; in reality the lock is released and re-acquired
between the two calls.  For the current code the fallback is dead: `Lemmas/C16Ends.lean`,
`siteBodyE_guarded`.) -/
def siteBodyE (guard : Bool) (F : Nat → Bool) (env : List Beh) (x : ESys) :
    Site → ESys × OutcomeE
  | .react =>
    match disconnectE guard false F x with
    | (x1, .ioError) => disconnectE guard true F x1
    | r => r
  | .listen => connectE env x
  | .handler => connectE env x

/-- Next atomic action of user thread `u`: `Life.stepUser` with `bodyE` for `body`; the true
outcome goes to `calls`. -/
def stepUserE (guard : Bool) (F : Nat → Bool) (env : List Beh) (x : ESys) (u : Nat) :
    Option ESys :=
  match (x.sys.usr u).pc with
  | .idle =>
    match (x.sys.usr u).todo with
    | [] => none
    | op :: rest =>
      if canAcq x.sys (.user u) then
        match bodyE guard F env x op with
        | (x1, out) =>
          some { x1 with
            sys := { x1.sys with owner := some (.user u), depth := x.sys.depth + 1,
                                 usr := updU x.sys u ⟨.rel (outL out), rest, (x.sys.usr u).outs⟩,
                                 log := x.sys.log ++ [(.user u, .call op (outL out))] },
            calls := x.calls ++ [(.user u, op, out)] }
      else none
  | .rel _ => (stepUser env x.sys u).map fun s' => { x with sys := s' }

/-- Next atomic action of networking thread `i`: the `call site` action of `Life.stepNet` with
`siteBodyE` for `body`; every other action is `Life.stepNet` itself.  (That includes `hChk`, whose
`self.disconnect(immediate=True)` has no flush: `Lemmas/C16Ends.lean`, `disconnectE_immediate`.) -/
def stepNetE (guard : Bool) (F : Nat → Bool) (env : List Beh) (x : ESys) (i : Nat) :
    Option ESys :=
  match (x.sys.net i).pc with
  | .call site =>
    if canAcq x.sys (.net i) then
      match siteBodyE guard F env x site with
      | (x1, out) =>
        some { x1 with
          sys := { x1.sys with owner := some (.net i), depth := x.sys.depth + 1,
                               net := updN x1.sys i { x1.sys.net i with pc := .callRel site (outL out) },
                               log := x.sys.log ++ [(.net i, .call site.op (outL out))] },
          calls := x.calls ++ [(.net i, site.op, out)] }
    else none
  | _ => (stepNet env x.sys i).map fun s' => { x with sys := s' }

/-- One scheduler choice; `none` = not enabled.  `enq` needs the queue attribute to exist
(otherwise `write_packet` raises `AttributeError` to ITS caller; it is not a lifecycle call). -/
def stepE (guard : Bool) (F : Nat → Bool) (env : List Beh) (x : ESys) : Act → Option ESys
  | .thr (.user u) => stepUserE guard F env x u
  | .thr (.net i) => stepNetE guard F env x i
  | .enq p =>
    match x.queue with
    | some q => some { x with queue := some (q ++ [p]) }
    | none => none
  | .deq =>
    match x.queue with
    | some (_ :: q) => some { x with queue := some q }
    | _ => none

/-- Run a list of scheduler choices; choices that are not enabled are skipped. -/
def runE (guard : Bool) (F : Nat → Bool) (env : List Beh) (x : ESys) : List Act → ESys
  | [] => x
  | a :: as =>
    match stepE guard F env x a with
    | some x' => runE guard F env x' as
    | none => runE guard F env x as

/-- A fresh `Connection` object: no queue attribute yet. -/
def initE (progs : List (List Op)) (rl rh : Nat) : ESys where
  sys := init progs rl rh
  queue := none
  wire := []
  tick := 0
  calls := []

/-- The thread steps among the scheduler choices. -/
def thrs : List Act → List Tid
  | [] => []
  | .thr t :: as => t :: thrs as
  | _ :: as => thrs as

/-- Index, relative to `t`, of the first failing write among the next `n`; `n` if none fails. -/
def firstFail (F : Nat → Bool) (t : Nat) : Nat → Nat
  | 0 => 0
  | n + 1 => if F t then 0 else firstFail F (t + 1) n + 1

/-! ### The changed code of audit rank 7

`NetworkingThread.run`, connection.py:606-608:
`except Exception as e: self.interrupt = True; self.connection._handle_exception(e, …)`.
`stepNoIntr` is `Life.step` for the code WITHOUT `self.interrupt = True`: the action `exc` moves on
to the handlers and leaves the flag as it is. -/

def stepNoIntr (env : List Beh) (s : Sys) : Tid → Option Sys
  | .user u => stepUser env s u
  | .net i =>
    match (s.net i).pc with
    | .exc => some { s with net := updN s i { s.net i with pc := .hRun },
                            log := s.log ++ [(.net i, .exc)] }
    | _ => stepNet env s i

def runNoIntr (env : List Beh) (s : Sys) : List Tid → Sys
  | [] => s
  | t :: ts =>
    match stepNoIntr env s t with
    | some s' => runNoIntr env s' ts
    | none => runNoIntr env s ts

end PyCraft.Ends
