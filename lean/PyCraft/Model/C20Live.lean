import PyCraft.Model.Trackers
import PyCraft.Model.Enums
/-!
Model additions for property C20 (audit gap 16): the parts of the trackers / flag enums whose Python
behaviour was not observed by any theorem.

* Python's `int & int`, `int | int` on arbitrary (also negative) ints — core Lean has no bitwise
  operations on `Int`;
* `BitFieldEnum.name_from_value` (`minecraft/networking/types/enum.py:28-45`) over `int` members and
  `int` values (the model in `Model/Enums.lean` covers naturals only);
* `PlayerPositionAndLookPacket.apply` (`clientbound/play/player_position_and_look_packet.py:66-94`)
  with the packet's signed `flags` byte and the five `FLAG_REL_*` class attributes as a parameter
  (`Model/Trackers.lean` hard-codes them as `Nat` constants);
* the player-list actions with the slots of `AddPlayerAction` and the keyword mapping of
  `AddPlayerAction.apply` (`clientbound/play/player_list_item_packet.py:126-134`) spelled out, and
  real property lists (`Model/Trackers.lean`'s `Action.add` carries a finished `Player` whose
  `properties` is an opaque number).
-/
namespace PyCraft.TrackLive
open PyCraft PyCraft.Trackers PyCraft.Enums

/-! ### Python `&` and `|` on ints (infinite two's complement)

`Int.negSucc n` is `-(n+1) = ~n`.  With `x & ~y = x ^ (x & y)` on naturals:
`a & ~b`, `~a & ~b = ~(a | b)`, `a | ~b = ~(b & ~a)`, `~a | ~b = ~(a & b)`. -/

/-- Python `a & b`. -/
def pyAnd : Int → Int → Int
  | .ofNat a, .ofNat b => .ofNat (a &&& b)
  | .ofNat a, .negSucc b => .ofNat (a ^^^ (a &&& b))
  | .negSucc a, .ofNat b => .ofNat (b ^^^ (b &&& a))
  | .negSucc a, .negSucc b => .negSucc (a ||| b)

/-- Python `a | b`. -/
def pyOr : Int → Int → Int
  | .ofNat a, .ofNat b => .ofNat (a ||| b)
  | .ofNat a, .negSucc b => .negSucc (b ^^^ (b &&& a))
  | .negSucc a, .ofNat b => .negSucc (a ^^^ (a &&& b))
  | .negSucc a, .negSucc b => .negSucc (a &&& b)

/-- Binary digit `k` of `v` in infinite two's complement: `(v >> k) & 1`, i.e. `v // 2**k` is odd
(`/` on `Int` is floor division for a positive divisor, like Python's `//`). -/
def pyBit (v : Int) (k : Nat) : Bool := decide (v / (2 : Int) ^ k % 2 = 1)

/-! ### `BitFieldEnum.name_from_value` over ints (`enum.py:28-45`)

Same structure as `Enums.nameFromValue`; `members` = the int-valued entries of `cls.__dict__` in dict
order (the `isinstance(v, int)` filter of line 37 is applied by whoever builds the list). -/

/-- One insertion step of the stable descending sort (see `Enums.insDesc`). -/
def insDescZ (p : String × Int) : List (String × Int) → List (String × Int)
  | [] => [p]
  | q :: qs => if q.2 ≤ p.2 then p :: q :: qs else q :: insDescZ p qs

/-- `sorted(l, reverse=True, key=lambda p: p[1])` (line 35-39): descending, stable. -/
def sortDescZ : List (String × Int) → List (String × Int)
  | [] => []
  | p :: ps => insDescZ p (sortDescZ ps)

/-- Line 36-37: `[(n, v) for (n, v) in cls.__dict__.items()
                  if isinstance(v, int) and n.isupper() and v | value == value]`. -/
def candidatesZ (members : List (String × Int)) (value : Int) : List (String × Int) :=
  members.filter fun p => pyIsUpper p.1 && (pyOr p.2 value == value)

/-- Line 35-42, the loop body `if ret_value | cls_value != ret_value or cls_value == value:
ret_names.append(cls_name); ret_value |= cls_value`. -/
def greedyZ (value : Int) : List (String × Int) → List String × Int → List String × Int
  | [], st => st
  | (n, v) :: rest, (names, ret) =>
    if pyOr ret v != ret || v == value then greedyZ value rest (names ++ [n], pyOr ret v)
    else greedyZ value rest (names, ret)

/-- Line 43: `if ret_value == value:` … else fall off the end (`None`); the names already
`reversed(...)`. -/
def chosenNamesZ (members : List (String × Int)) (value : Int) : Option (List String) :=
  let st := greedyZ value (sortDescZ (candidatesZ members value)) ([], 0)
  if st.2 == value then some st.1.reverse else none

/-- `cls.name_from_value(value)` for an `int` value (line 44):
`'|'.join(reversed(ret_names)) if ret_names else '0'`. -/
def nameFromValueZ (members : List (String × Int)) (value : Int) : Option String :=
  match chosenNamesZ members value with
  | none => none
  | some [] => some "0"
  | some (n :: ns) => some (joinBar (n :: ns))

/-- The printed names for `lo, lo+1, …, lo+count-1`. -/
def namesFrom (members : List (String × Int)) (lo : Int) (count : Nat) : List (Option String) :=
  (List.range count).map fun (i : Nat) => nameFromValueZ members (lo + (i : Int))

/-- Members with a natural value, as naturals (`Model/Enums.lean`'s representation). -/
def natMembers (members : List (String × Int)) : List (String × Nat) :=
  members.filterMap fun p => if 0 ≤ p.2 then some (p.1, p.2.toNat) else none

/-- Members as ints. -/
def intMembers (members : List (String × Nat)) : List (String × Int) :=
  members.map fun p => (p.1, (p.2 : Int))

/-- Row lookup in a generated table `(class name, members, printed names from lo on)`: the live
printed name of `v` for class `cls` (`none` = not tabulated). -/
def liveName (tbl : List (String × List (String × Int) × List (Option String))) (lo : Int)
    (cls : String) (v : Int) : Option (Option String) :=
  match tbl.find? (fun e => e.1 == cls) with
  | none => none
  | some e => if v < lo then none else e.2.2[(v - lo).toNat]?

/-! ### Models of CHANGED code (used only by the refutation examples of `Props/C20Live.lean`)

`name_from_value` with three switches, each of which is a one-token edit of `enum.py:40-44`:
the separator of `'|'.join`, the `reversed(...)`, and the `or cls_value == value` clause. -/

structure NameVariant where
  sep : Char
  reversed : Bool
  eqClause : Bool
deriving DecidableEq, Repr

/-- The code as it is. -/
def NameVariant.faithful : NameVariant := ⟨'|', true, true⟩

def greedyV (V : NameVariant) (value : Int) :
    List (String × Int) → List String × Int → List String × Int
  | [], st => st
  | (n, v) :: rest, (names, ret) =>
    if pyOr ret v != ret || (V.eqClause && v == value) then
      greedyV V value rest (names ++ [n], pyOr ret v)
    else greedyV V value rest (names, ret)

def joinCharsV (sep : Char) : List (List Char) → List Char
  | [] => []
  | [a] => a
  | a :: b :: rest => a ++ sep :: joinCharsV sep (b :: rest)

def nameFromValueV (V : NameVariant) (members : List (String × Int)) (value : Int) : Option String :=
  let st := greedyV V value (sortDescZ (candidatesZ members value)) ([], 0)
  if st.2 == value then
    let ns := if V.reversed then st.1.reverse else st.1
    if ns.isEmpty then some "0" else some (String.ofList (joinCharsV V.sep (ns.map String.toList)))
  else none

/-- The table the generator would emit if the library's `name_from_value` were variant `V`. -/
def variantTable (V : NameVariant) (tbl : List (String × List (String × Int) × List (Option String)))
    (lo : Int) (count : Nat) : List (String × List (String × Int) × List (Option String)) :=
  tbl.map fun e => (e.1, e.2.1, (List.range count).map fun (i : Nat) =>
    nameFromValueV V e.2.1 (lo + (i : Int)))

/-! ### `PlayerPositionAndLookPacket.apply` with signed flags and the class's flag attributes -/

/-- The five class attributes `FLAG_REL_X … FLAG_REL_PITCH` that `apply` reads via `self.`. -/
structure PosFlagTable where
  relX : Int
  relY : Int
  relZ : Int
  relYaw : Int
  relPitch : Int
deriving DecidableEq, Repr

/-- Attribute lookup by name in a list of `(name, value)`. -/
def attr (n : String) : List (String × Int) → Option Int
  | [] => none
  | (m, v) :: rest => if m = n then some v else attr n rest

/-- The flag table of a class given its int-valued attributes (`none` = `AttributeError`). -/
def posFlagTable (attrs : List (String × Int)) : Option PosFlagTable :=
  match attr "FLAG_REL_X" attrs, attr "FLAG_REL_Y" attrs, attr "FLAG_REL_Z" attrs,
        attr "FLAG_REL_YAW" attrs, attr "FLAG_REL_PITCH" attrs with
  | some x, some y, some z, some yaw, some pitch => some ⟨x, y, z, yaw, pitch⟩
  | _, _, _, _, _ => none

/-- What `Model/Trackers.lean` hard-codes. -/
def modelPosFlags : PosFlagTable :=
  ⟨FLAG_REL_X, FLAG_REL_Y, FLAG_REL_Z, FLAG_REL_YAW, FLAG_REL_PITCH⟩

/-- `if self.flags & self.FLAG: target.a += self.a  else: target.a = self.a` (lines 68-91) with
Python's `&` on the signed byte (an `int` is truthy iff non-zero). -/
def relOrAbsZ (flags flag : Int) (cur pkt : Rat) : Rat :=
  if pyAnd flags flag ≠ 0 then cur + pkt else pkt

/-- `PlayerPositionAndLookPacket.apply(target)` (lines 66-94), `flags` the packet's signed byte. -/
def applyPosLookWith (F : PosFlagTable) (flags : Int) (pkt cur : Pos) : Pos :=
  { x := relOrAbsZ flags F.relX cur.x pkt.x
    y := relOrAbsZ flags F.relY cur.y pkt.y
    z := relOrAbsZ flags F.relZ cur.z pkt.z
    yaw := mod360 (relOrAbsZ flags F.relYaw cur.yaw pkt.yaw)
    pitch := mod360 (relOrAbsZ flags F.relPitch cur.pitch pkt.pitch) }

/-- A position from five integers `[x, y, z, yaw, pitch]` (probe rows of the generated table). -/
def posOfInts : List Int → Option Pos
  | [x, y, z, yaw, pitch] => some ⟨x, y, z, yaw, pitch⟩
  | _ => none

/-! ### Player list with the action slots spelled out -/

/-- `PlayerListItemPacket.PlayerProperty` (slots `name, value, signature`). -/
structure PlayerProperty where
  name : String
  value : String
  signature : Option String
deriving DecidableEq, Repr

/-- `PlayerListItemPacket.PlayerListItem` (slots `uuid, name, properties, gamemode, ping,
display_name`). -/
structure PlayerItem where
  uuid : Int
  name : String
  properties : List PlayerProperty
  gamemode : Int
  ping : Int
  displayName : Option String
deriving DecidableEq, Repr

/-- `AddPlayerAction`: slot `uuid` of `Action` plus `name, properties, gamemode, ping,
display_name`. -/
structure AddPlayer where
  uuid : Int
  name : String
  properties : List PlayerProperty
  gamemode : Int
  ping : Int
  displayName : Option String
deriving DecidableEq, Repr

inductive ActionF
  | add (a : AddPlayer)                             -- AddPlayerAction           action_id 0
  | gamemode (uuid : Int) (g : Int)                 -- UpdateGameModeAction      action_id 1
  | latency (uuid : Int) (l : Int)                  -- UpdateLatencyAction       action_id 2
  | displayName (uuid : Int) (d : Option String)    -- UpdateDisplayNameAction   action_id 3
  | remove (uuid : Int)                             -- RemovePlayerAction        action_id 4
deriving DecidableEq, Repr

abbrev PlayerListF := List (Int × PlayerItem)

/-- Lines 126-132: `PlayerListItem(uuid=self.uuid, name=self.name, properties=self.properties,
gamemode=self.gamemode, ping=self.ping, display_name=self.display_name)`. -/
def AddPlayer.item (a : AddPlayer) : PlayerItem :=
  { uuid := a.uuid, name := a.name, properties := a.properties, gamemode := a.gamemode,
    ping := a.ping, displayName := a.displayName }

/-- `action.apply(player_list)` (lines 125-199); line 133 `players_by_uuid[self.uuid] = player`. -/
def applyActionF (l : PlayerListF) : ActionF → PlayerListF
  | .add a => dictSet a.uuid a.item l
  | .gamemode u g => dictModify u (fun p => { p with gamemode := g }) l
  | .latency u x => dictModify u (fun p => { p with ping := x }) l
  | .displayName u d => dictModify u (fun p => { p with displayName := d }) l
  | .remove u => dictDel u l

/-- `PlayerListItemPacket.apply` (line 215-217). -/
def applyPacketF (l : PlayerListF) (actions : List ActionF) : PlayerListF :=
  actions.foldl applyActionF l

def replayF (hist : List (List ActionF)) (l : PlayerListF) : PlayerListF := hist.foldl applyPacketF l

/-- Forgetting the property list (replaced by an opaque number) gives `Model/Trackers.lean`'s
record. -/
def PlayerItem.abs (enc : List PlayerProperty → Nat) (p : PlayerItem) : Player :=
  { uuid := p.uuid, name := p.name, properties := enc p.properties, gamemode := p.gamemode,
    ping := p.ping, displayName := p.displayName }

def ActionF.abs (enc : List PlayerProperty → Nat) : ActionF → Action
  | .add a => .add (a.item.abs enc)
  | .gamemode u g => .gamemode u g
  | .latency u x => .latency u x
  | .displayName u d => .displayName u d
  | .remove u => .remove u

def absList (enc : List PlayerProperty → Nat) (l : PlayerListF) : PlayerList :=
  l.map fun kv => (kv.1, kv.2.abs enc)

/-- Reference for the two slots no update action can touch: the `(name, properties)` a player
`k` ends up with is that of the LAST add for `k` not followed by a removal of `k`. -/
def lastAdd (k : Int) (init : Option AddPlayer) (acts : List ActionF) : Option AddPlayer :=
  acts.foldl (fun cur a =>
    match a with
    | .add a => if a.uuid = k then some a else cur
    | .remove u => if u = k then none else cur
    | _ => cur) init

/-! ### Rows of the generated probe tables -/

abbrev PropRow := String × String × Option String
abbrev ActionRow := Nat × Int × String × List PropRow × Int × Int × Option String
abbrev ItemRow := Int × String × List PropRow × Int × Int × Option String

def propOfRow (r : PropRow) : PlayerProperty := ⟨r.1, r.2.1, r.2.2⟩

/-- `(action_id, uuid, name, properties, gamemode, ping, display_name)`; the action class is chosen
by `Action.type_from_id` (line 84-89: unknown id → `ValueError`). -/
def actionOfRow : ActionRow → Except Err ActionF
  | (0, u, n, ps, g, p, d) => .ok (.add ⟨u, n, ps.map propOfRow, g, p, d⟩)
  | (1, u, _, _, g, _, _) => .ok (.gamemode u g)
  | (2, u, _, _, _, p, _) => .ok (.latency u p)
  | (3, u, _, _, _, _, d) => .ok (.displayName u d)
  | (4, u, _, _, _, _, _) => .ok (.remove u)
  | _ => .error .value

def histOfRows (rows : List (List ActionRow)) : Except Err (List (List ActionF)) :=
  rows.mapM fun pkt => pkt.mapM actionOfRow

def itemOfRow (r : ItemRow) : PlayerItem :=
  ⟨r.1, r.2.1, r.2.2.1.map propOfRow, r.2.2.2.1, r.2.2.2.2.1, r.2.2.2.2.2⟩

/-! ### Predicates used in the statements of `Props/C20Live.lean` (all decidable) -/

/-- A list of class attributes gives the five flag constants the model hard-codes. -/
def PosFlagsTied (attrs : List (String × Int)) : Prop := posFlagTable attrs = some modelPosFlags

instance (attrs : List (String × Int)) : Decidable (PosFlagsTied attrs) := by
  unfold PosFlagsTied; infer_instance

/-- The model with flag table `F` reproduces what `apply` did to the probe target `curI` with
packet `pktI` for one row `(flags, resulting [x, y, z, yaw, pitch])` of an observation table. -/
def PosRowAgrees (F : PosFlagTable) (pktI curI : List Int) (r : Int × List Int) : Prop :=
  ∃ pkt cur, posOfInts pktI = some pkt ∧ posOfInts curI = some cur ∧
    posOfInts r.2 = some (applyPosLookWith F r.1 pkt cur)

instance (F : PosFlagTable) (pktI curI : List Int) (r : Int × List Int) :
    Decidable (PosRowAgrees F pktI curI r) :=
  decidable_of_iff
    ((posOfInts pktI).bind (fun pkt => (posOfInts curI).map fun cur =>
      decide (posOfInts r.2 = some (applyPosLookWith F r.1 pkt cur))) = some true) (by
    unfold PosRowAgrees
    cases posOfInts pktI <;> cases posOfInts curI <;> simp)

/-- Every row `(class, members, printed names)` of a table carries exactly the names the int model
prints for `lo, …, lo+count-1`. -/
def NamesAgree (tbl : List (String × List (String × Int) × List (Option String))) (lo : Int)
    (count : Nat) : Prop :=
  ∀ e ∈ tbl, e.2.2 = namesFrom e.2.1 lo count

instance (tbl : List (String × List (String × Int) × List (Option String))) (lo : Int) (count : Nat) :
    Decidable (NamesAgree tbl lo count) := by unfold NamesAgree; infer_instance

/-- Model of CHANGED code (refutation examples only): a history as `AddPlayerAction.apply` would see it
if the constructor call of lines 126-132 passed `f`-altered slots. -/
def mutateAdds (f : AddPlayer → AddPlayer) (hist : List (List ActionF)) : List (List ActionF) :=
  hist.map fun pkt => pkt.map fun a => match a with
    | .add a => .add (f a)
    | other => other

end PyCraft.TrackLive
