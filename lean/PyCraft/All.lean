import PyCraft.Props.C03
