import PyCraft.Props.C03
import PyCraft.Props.C06
import PyCraft.Props.C17
import PyCraft.Props.C04
import PyCraft.Props.C19
