import PyCraft.Lemmas.McHash
/-!
# C17 — Session server hash equals Java's signed-hex SHA-1 for all inputs

`mcHash sid secret key = signedHex (sha1 (sid ++ secret ++ key))`, and for EVERY byte string `d`
(in particular every 20-byte digest) `signedHex d` is the canonical signed lower-case base-16
numeral of the two's-complement value of `d` — which is what Java's
`new BigInteger(d).toString(16)` prints.  The Lean SHA-1 is anchored to the outside world by
kernel-checked published vectors.

Only property theorems and examples live here; definitions used in the statements
(`beValue`, `parseSignedHex`, `stripMinus`, `isLowerHex`, `CanonSigned`) and all helper lemmas are in
`Lemmas/McHash.lean` (namespace `PyCraft.McHash`).  Strings are talked about through `String.toList`.
-/
namespace PyCraft.C17
open PyCraft PyCraft.McHash

/-! ## Value: the numeral denotes the two's-complement value of the digest -/

/-- Reading `signedHex d` back as a signed base-16 numeral (independent parser: optional `-`, then
one or more digits from `0-9a-f`) gives exactly the signed big-endian value of `d`. -/
theorem hex_parses_back (d : Bytes) : parseSignedHex (signedHex d) = some (fromBytesSigned d) :=
  parseSignedHex_formatHex _

/-- The signed value is the two's-complement reading: the unsigned big-endian value
(Σ byte·256^position, defined independently of the model) minus `2^(8·len)` exactly when the top bit
of the first byte is set. -/
theorem fromBytesSigned_spec (d : Bytes) :
    fromBytesSigned d =
      (beValue d : Int) - (if 128 ≤ (d.headD 0).toNat then (2 : Int) ^ (8 * d.length) else 0) := by
  cases d with
  | nil => simp [fromBytesSigned, beValue]
  | cons b rest =>
    rw [fromBytesSigned_cons]
    simp only [List.headD_cons, List.length_cons, Int.natCast_pow]
    rfl

/-- … and it lies in the two's-complement range `[-2^(8·len-1), 2^(8·len-1))`; together with
`fromBytesSigned_spec` (congruent to the unsigned value modulo `2^(8·len)`) this determines it. -/
theorem fromBytesSigned_range (d : Bytes) (h : d ≠ []) :
    -((2 : Int) ^ (8 * d.length - 1)) ≤ fromBytesSigned d ∧
      fromBytesSigned d < (2 : Int) ^ (8 * d.length - 1) := by
  cases d with
  | nil => exact absurd rfl h
  | cons b rest =>
    have := fromBytesSigned_range_cons b rest
    simp only [Int.natCast_pow] at this
    exact this

/-! ## Shape: sign, digits, no leading zeros -/

/-- The string starts with `-` exactly when the first byte of the digest is `≥ 0x80`. -/
theorem minus_iff_top_bit (d : Bytes) (h : d ≠ []) :
    (signedHex d).toList.head? = some '-' ↔ 128 ≤ (d.head h).toNat := by
  cases d with
  | nil => exact absurd rfl h
  | cons b rest =>
    rw [signedHex, formatHex_toList, formatHexChars_head_minus_iff, fromBytesSigned_neg_iff]
    rfl

/-- After removing the optional `-`, the digit string is `"0"` or does not start with `0`. -/
theorem no_leading_zero (d : Bytes) :
    stripMinus (signedHex d).toList = ['0'] ∨
      ∃ c cs, stripMinus (signedHex d).toList = c :: cs ∧ c ≠ '0' := by
  rw [signedHex, formatHex_toList, stripMinus_formatHexChars]
  exact toDigits16_no_leading_zero _

/-- There is no `"-0"`: a minus sign is never followed by the single digit `0`. -/
theorem no_negative_zero (d : Bytes) : (signedHex d).toList ≠ ['-', '0'] := by
  intro h
  have hc := (formatHexChars_canon (fromBytesSigned d)).2
  rw [signedHex, formatHex_toList] at h
  rw [h] at hc
  exact hc rfl rfl

/-- After the optional `-` there is at least one character and every character is in `0-9a-f`
(lower case only). -/
theorem lowercase_hex_only (d : Bytes) :
    stripMinus (signedHex d).toList ≠ [] ∧
      ∀ c ∈ stripMinus (signedHex d).toList, ('0' ≤ c ∧ c ≤ '9') ∨ ('a' ≤ c ∧ c ≤ 'f') := by
  rw [signedHex, formatHex_toList, stripMinus_formatHexChars]
  refine ⟨toDigits16_ne_nil _, fun c hc => ?_⟩
  have := toDigits16_all_hex _ c hc
  simpa [isLowerHex] using this

/-- The output is a canonical signed numeral, and it is the ONLY canonical signed numeral
(optional `-`, ≥ 1 lower-case hex digits, no leading zero, no `-0`) that denotes the
two's-complement value of `d`: any such string equals `signedHex d`.  Hence the string is exactly
`new BigInteger(d).toString(16)`. -/
theorem canonical_unique (d : Bytes) :
    CanonSigned (signedHex d).toList ∧
      ∀ s : String, CanonSigned s.toList → parseSignedHex s = some (fromBytesSigned d) →
        signedHex d = s := by
  refine ⟨?_, fun s hc hp => ?_⟩
  · rw [signedHex, formatHex_toList]; exact formatHexChars_canon _
  · rw [← String.ofList_toList (s := s)] at hp
    have := formatHexChars_unique s.toList _ hc hp
    rw [signedHex, formatHex, this, String.ofList_toList]

/-! ## What is hashed -/

/-- The hashed message is server id, then secret, then key: the three pieces sit at offsets `0`,
`|sid|`, `|sid|+|secret|` of the SHA-1 input, and `mcHash` is `signedHex` of the SHA-1 of that. -/
theorem input_order (sid secret key : Bytes) :
    hashInput sid secret key = sid ++ secret ++ key ∧
    (hashInput sid secret key).take sid.length = sid ∧
    ((hashInput sid secret key).drop sid.length).take secret.length = secret ∧
    (hashInput sid secret key).drop (sid.length + secret.length) = key ∧
    mcHash sid secret key = signedHex (sha1 (sid ++ secret ++ key)) :=
  ⟨rfl, (hashInput_layout sid secret key).1, (hashInput_layout sid secret key).2.1,
    (hashInput_layout sid secret key).2.2, rfl⟩

/-- All of the above applied to the real thing: for every server id, secret and key the digest has
20 bytes, the server hash parses back to its two's-complement value, which lies in
`[-2^159, 2^159)`, and the hash is the canonical numeral of that value. -/
theorem mcHash_spec (sid secret key : Bytes) :
    (sha1 (sid ++ secret ++ key)).length = 20 ∧
    parseSignedHex (mcHash sid secret key) = some (fromBytesSigned (sha1 (sid ++ secret ++ key))) ∧
    -((2 : Int) ^ 159) ≤ fromBytesSigned (sha1 (sid ++ secret ++ key)) ∧
    fromBytesSigned (sha1 (sid ++ secret ++ key)) < (2 : Int) ^ 159 ∧
    CanonSigned (mcHash sid secret key).toList := by
  have hl := sha1_length (sid ++ secret ++ key)
  have hne : sha1 (sid ++ secret ++ key) ≠ [] := by
    intro h; rw [h] at hl; simp at hl
  have hr := fromBytesSigned_range _ hne
  rw [hl] at hr
  exact ⟨hl, hex_parses_back _, hr.1, hr.2, (canonical_unique _).1⟩

/-! ## Published vectors (checked by the kernel) -/

/-- FIPS 180 / RFC 3174 vectors for SHA-1 itself. -/
theorem sha1_empty : hexOfBytes (sha1 []) = "da39a3ee5e6b4b0d3255bfef95601890afd80709" := by
  decide +kernel

theorem sha1_abc :
    hexOfBytes (sha1 "abc".toUTF8.toList) = "a9993e364706816aba3e25717850c26c9cd0d89d" := by
  decide +kernel

/-- Two-block message (448 bits → padding spills into a second block). -/
theorem sha1_two_blocks :
    hexOfBytes (sha1 "abcdbcdecdefdefgefghfghighijhijkijkljklmklmnlmnomnopnopq".toUTF8.toList)
      = "84983e441c3bd26ebaae4aa1f95129e5e54670f1" := by
  decide +kernel

/-- The three server-hash examples published with the protocol documentation
(wiki.vg "Protocol Encryption"): positive, negative, and positive with a dropped leading zero. -/
theorem vector_Notch :
    mcHash "Notch".toUTF8.toList [] [] = "4ed1f46bbe04bc756bcb17c0c7ce3e4632f06a48" := by
  decide +kernel

theorem vector_jeb :
    mcHash "jeb_".toUTF8.toList [] [] = "-7c9d5b0044c130109a5d7b5fb5c317c02b4e28c1" := by
  decide +kernel

theorem vector_simon :
    mcHash "simon".toUTF8.toList [] [] = "88e16a1019277b15d58faf0541e11910eb756f6" := by
  decide +kernel

/-! ## Examples / non-vacuity -/

-- the UTF-8 bytes used above are the ASCII codes
example : "Notch".toUTF8.toList = [0x4e, 0x6f, 0x74, 0x63, 0x68] := by decide +kernel

-- order matters: swapping secret and key changes the hash
example : mcHash [0x61] [0x01] [0x02] ≠ mcHash [0x61] [0x02] [0x01] := by decide +kernel
-- … while only the concatenation matters (three `update` calls = one)
example : mcHash [0x61] [0x01] [0x02] = mcHash [] [0x61, 0x01] [0x02] := rfl

-- small instances of every shape
example : signedHex [0xff] = "-1" := by decide +kernel
example : signedHex [0x80, 0x00] = "-8000" := by decide +kernel
example : signedHex [0x00, 0x80] = "80" := by decide +kernel
example : signedHex [0x00, 0x00] = "0" := by decide +kernel
example : signedHex [0x0a, 0xbc] = "abc" := by decide +kernel
example : fromBytesSigned [0xff, 0x7f] = -129 := by decide +kernel
example : parseSignedHex "-7c9d" = some (-31901) := by decide +kernel
example : parseSignedHex "7C" = none := by decide +kernel
example : parseSignedHex "-" = none := by decide +kernel
example : parseSignedHex "" = none := by decide +kernel
-- hypotheses of `minus_iff_top_bit` / `fromBytesSigned_range` / `canonical_unique` are satisfiable
example : ([0x80, 0x01] : Bytes) ≠ [] := by decide
example : CanonSigned "-7c9d".toList ∧
    parseSignedHex "-7c9d" = some (fromBytesSigned [0x83, 0x63]) := by
  refine ⟨⟨⟨by decide +kernel, by decide +kernel, by decide +kernel⟩, by decide +kernel⟩,
    by decide +kernel⟩

end PyCraft.C17
