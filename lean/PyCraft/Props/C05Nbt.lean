import PyCraft.Lemmas.C05Nbt
import PyCraft.Generated.C05Nbt
import PyCraft.Props.C05
/-!
# C05, the NBT-bearing classes (audit gap 13)

`Props/C05.lean` says nothing about a layout with an NBT field: `realDom .nbt _ = False`, so
`generated_layouts_rt` is vacuous for JoinGamePacket at every version ≥ 718 and RespawnPacket ≥ 748,
and `generated_layouts_inhabited` excludes exactly those.  Here:

1. (the reviewer's formulation) the NBT codec is a PARAMETER `n : NbtCodec` with an explicit law
   `NbtLaw n nd`; with it `realCustomWith n` obeys `CustomLaw`, hence every C02/C05 theorem holds for
   every layout, NBT included (`layout_rt_nbt`, `generated_layouts_rt_nbt`), and every generated layout
   has in-domain values as soon as `nd` is inhabited (`generated_layouts_inhabited_all`).
2. (stronger than proposed) the law is not left as a trusted assumption about pynbt: `NBT.send` /
   `NBT.read` (`types/basic.py:349-359`) and the pynbt code they run are modelled literally
   (`Model/C05Nbt.lean`) and the law is PROVED for the model (`pynbt_law`), assuming only the
   round trip of the `mutf8` string codec below pynbt (`Mutf8Law`, two equations; satisfied by
   `Mutf8.utf8`).  So a change of `NBT.read` / `NBT.send` is a change of the model — three such
   changes are refuted below (`*_refuted`) — and the instantiated theorems
   (`generated_layouts_rt_pynbt`, `generated_layouts_inhabited_pynbt`) have no NBT hypothesis left.
3. the model is pinned to the live code by tables generated on every run (`Generated/C05Nbt.lean`):
   what the live `NBT.send` wrote, what the live `NBT.read` returned (regular inputs, every strict
   prefix, irregular inputs), and what `write_fields` of the NBT-bearing classes produced under the
   first and last supported version of every distinct layout (`live_*`).

Why the reviewer's `NbtLaw` alone is imprecise: with `n` abstract, `basic.py:349-359` has no
counterpart in Lean at all — any edit of those lines is still invisible; and the law cannot be
discharged by "prefix ⇒ error" per tag as for the other types, because pynbt does NOT detect a short
`src.read(n)` (byte arrays, strings): a truncated payload is read "successfully".  The law holds only
because the root compound ends with a `TAG_End` byte read by `struct` (`Lemmas/C05Nbt.lean`, `Soft0`).
-/
namespace PyCraft.C05Nbt
open PyCraft PyCraft.Gen PyCraft.LayoutCheck PyCraft.Nbt

/-! ## 1. any lawful NBT codec -/

section generic
variable {n : NbtCodec} {nd : Value → Prop}

/-- With an NBT codec obeying `NbtLaw` in the `.nbt` slot, ALL custom types of the library — NBT
included — obey the law C02 asks for: in-domain values encode to non-empty bytes that are read back
exactly whatever follows, and no strict prefix of which is accepted. -/
theorem real_custom_law_with (h : NbtLaw n nd) : CustomLaw (realCustomWith n) (realDomWith nd) :=
  realCustomLawWith h

/-- Plugging an NBT codec in changes nothing else: on a layout without NBT field the new codec
writes and reads exactly what `realCustom` does, and values in the old domain are in the new one — so
the theorems of `Props/C05.lean` are instances of the ones below. -/
theorem conservative (L : Layout) (hL : Layout.hasNbt L = false) :
    (∀ vals, encodeFields (realCustomWith n) L vals = encodeFields realCustom L vals) ∧
    (∀ bs, decodeFields (realCustomWith n) L bs = decodeFields realCustom L bs) ∧
    ∀ vals, WellTypedFields realDom L vals → WellTypedFields (realDomWith nd) L vals :=
  ⟨encodeFields_with_eq n L hL, decodeFields_with_eq n L hL, wellTypedFields_with nd L⟩

/-- C05 round trip for ANY admissible layout, NBT fields allowed (anywhere, also inside arrays):
writing in-domain values succeeds; reading the bytes back returns exactly the values and consumes
the payload exactly; when every field is self-delimiting the same holds with any continuation. -/
theorem layout_rt_nbt (h : NbtLaw n nd) (L : Layout) (vals : List Value) (hok : L.ok = true)
    (hw : WellTypedFields (realDomWith nd) L vals) :
    ∃ bs, encodeFields (realCustomWith n) L vals = .ok bs ∧
      (L.allSD = true → ∀ rest, decodeFields (realCustomWith n) L (bs ++ rest) = .ok (vals, rest)) ∧
      decodeFields (realCustomWith n) L bs = .ok (vals, []) :=
  C05.layout_rt (realCustomLawWith h) L vals hok hw

/-- Truncation is detected also with NBT fields: reading a strict prefix of a written body of
self-delimiting fields raises. -/
theorem layout_prefix_err_nbt (h : NbtLaw n nd) (L : Layout) (vals : List Value)
    (hs : L.allSD = true) (hw : WellTypedFields (realDomWith nd) L vals) (bs : Bytes)
    (he : encodeFields (realCustomWith n) L vals = .ok bs) (p : Bytes) (hp : p <+: bs)
    (hne : p ≠ bs) : ∃ e, decodeFields (realCustomWith n) L p = .error e :=
  C05.layout_prefix_err (realCustomLawWith h) L vals hs hw bs he p hp hne

/-- C05 on the live tables, NO layout excepted: every generated field layout — every packet class of
every table whose codec is the generic one, under every protocol version it is registered for,
JoinGamePacket ≥ 718 and RespawnPacket ≥ 748 included — round-trips. -/
theorem generated_layouts_rt_nbt (h : NbtLaw n nd) :
    ∀ t ∈ layoutTables, ∀ row ∈ t.2, ∀ var ∈ row.2, ∀ L, var.1 = some L →
      ∀ vals, WellTypedFields (realDomWith nd) L vals →
        ∃ bs, encodeFields (realCustomWith n) L vals = .ok bs ∧
          (Layout.allSD L = true → ∀ rest,
            decodeFields (realCustomWith n) L (bs ++ rest) = .ok (vals, rest)) ∧
          decodeFields (realCustomWith n) L bs = .ok (vals, []) :=
  fun t ht row hrow var hvar L hL vals hw =>
    layout_rt_nbt h L vals (C05.generated_layouts_ok t ht row hrow var hvar L hL).1 hw

/-- Non-vacuity on the live tables, NO layout excepted: as soon as one value is in the NBT domain,
every generated layout has in-domain values. -/
theorem generated_layouts_inhabited_all (hv : ∃ v, nd v) :
    ∀ t ∈ layoutTables, ∀ row ∈ t.2, ∀ var ∈ row.2, ∀ L, var.1 = some L →
      ∃ vals, WellTypedFields (realDomWith nd) L vals := by
  obtain ⟨nv, hnv⟩ := hv
  exact fun _ _ _ _ _ _ L _ => ⟨_, sampleWith_wellTypedFields hnv L⟩

end generic

/-! ## 2. the NBT codec the library really has: `NBT.send` / `NBT.read` over pynbt -/

section real
variable {m : Mutf8}

/-- The model of `NBT.send` / `NBT.read` (basic.py:349-359, pynbt.py) obeys the law: a root named
`''` whose tags are in range (`nbtDom`: `struct` ranges, strings ≤ 32767 encoded bytes, homogeneous
lists, distinct keys, nesting ≤ 512) is written to a non-empty byte string starting `0A 00 00`, read
back EXACTLY (same tags, same order, root name `''`) whatever follows, and no strict prefix of it is
accepted.  Only assumption: `mutf8` decodes what it encodes and encodes `''` as no bytes. -/
theorem pynbt_law (hm : Mutf8Law m) : NbtLaw (pynbt m) (nbtDom m) := pynbtLaw hm

/-- what the domain is, without the `Value` encoding -/
theorem nbtDom_spec (v : Value) : nbtDom m v ↔ ∃ es, v = rootValue "" es ∧ rootWf m es = true :=
  nbtDom_iff m v

/-- the same at the level of tags, with the bytes: `NBTFile(value=es).save` then `NBTFile(io=…)` -/
theorem file_roundtrip (hm : Mutf8Law m) (es : Entries) (hw : rootWf m es = true) :
    ∃ bs, saveFile m "" es = .ok bs ∧ bs ≠ [] ∧
      (∀ rest, loadFile m maxDepth (bs ++ rest) = .ok (("", es), rest)) ∧
      ∀ p, p <+: bs → p ≠ bs → ∃ e, loadFile m maxDepth p = .error e := by
  simp only [rootWf, Bool.and_eq_true, decide_eq_true_eq] at hw
  exact file_rt hm es maxDepth hw.1.1 hw.1.2 hw.2

/-- `NBT.send` ignores the root name of what it is given: the bytes are those of the root named `''`
— so a value with another root name is written, but does not come back equal. -/
theorem send_drops_root_name (name : String) (es : Entries) :
    nbtSend m (rootValue name es) = nbtSend m (rootValue "" es) := by
  rw [nbtSend_rootValue, nbtSend_rootValue]

theorem real_custom_law_nbt (hm : Mutf8Law m) : CustomLaw (realCustomNbt m) (realDomNbt m) :=
  realCustomLawWith (pynbtLaw hm)

/-- C05 on the live tables with the real NBT codec: every generated layout round-trips — no
hypothesis about NBT left. -/
theorem generated_layouts_rt_pynbt (hm : Mutf8Law m) :
    ∀ t ∈ layoutTables, ∀ row ∈ t.2, ∀ var ∈ row.2, ∀ L, var.1 = some L →
      ∀ vals, WellTypedFields (realDomNbt m) L vals →
        ∃ bs, encodeFields (realCustomNbt m) L vals = .ok bs ∧
          (Layout.allSD L = true → ∀ rest,
            decodeFields (realCustomNbt m) L (bs ++ rest) = .ok (vals, rest)) ∧
          decodeFields (realCustomNbt m) L bs = .ok (vals, []) :=
  generated_layouts_rt_nbt (pynbtLaw hm)

/-- … and every generated layout, the NBT ones included, has in-domain values (the empty dict for
the NBT fields), whatever `mutf8` is. -/
theorem generated_layouts_inhabited_pynbt :
    ∀ t ∈ layoutTables, ∀ row ∈ t.2, ∀ var ∈ row.2, ∀ L, var.1 = some L →
      ∃ vals, WellTypedFields (realDomNbt m) L vals :=
  generated_layouts_inhabited_all ⟨_, nbtDom_empty m⟩

end real

/-- strict UTF-8 is a lawful `mutf8` (so the hypotheses above are satisfiable, and the executable
instance used by the driver and by the live vectors is covered by the theorems) -/
theorem utf8_lawful : Mutf8Law Mutf8.utf8 := utf8Law

/-! ## 3. the model agrees with the live code -/

/-- Every value tabulated from the live `NBT.send` (all tag kinds, boundary numbers, empty and nested
lists and compounds, a miniature dimension codec, a NAMED root): the model writes the same bytes. -/
theorem live_send_vectors :
    ∀ r ∈ nbtSendVectors, nbtSend Mutf8.utf8 (rootValue r.1 r.2.1) = .ok r.2.2 := by
  have h : ∀ r ∈ nbtSendVectors, saveFile Mutf8.utf8 "" r.2.1 = .ok r.2.2 := by decide +kernel
  exact fun r hr => (nbtSend_rootValue _ _ _).trans (h r hr)

/-- Every input tabulated from the live `NBT.read` — the sent bytes followed by stray bytes, every
strict prefix of two of them, and the irregular inputs (wrong first byte, negative / unknown tag
bytes, duplicate keys, TAG_End lists, negative lengths, short byte arrays and strings) — the model
returns the same root name, the same tags, the same unread rest, or the same error class. -/
theorem live_read_vectors :
    ∀ r ∈ nbtReadVectors, loadFile Mutf8.utf8 maxDepth r.1 = r.2 := by decide +kernel

/-- The NBT-bearing packet classes under the first and last supported version of every distinct
layout: the live `write_fields` / `read` round trip succeeded, the layout table has an NBT layout for
that class and version, the model writes the same bytes and reads the same values back, consuming
the bytes exactly. -/
theorem live_packet_vectors :
    ∀ r ∈ nbtPacketVectors, packetRowOk (realCustomNbt Mutf8.utf8) layoutTables r = true := by
  decide +kernel

/-! ## the theorems notice a changed `NBT.read` / `NBT.send` -/

private def exV : Value := rootValue "" [("a", .int 1)]
private def exB : Bytes := [0x0a, 0, 0, 3, 0, 1, 0x61, 0, 0, 0, 1, 0]
private theorem exDom : nbtDom Mutf8.utf8 exV := by decide +kernel

/-- `NBT.read` reading "the rest of the packet" into its own buffer first: the field after the NBT
field is lost — the law (hence `pynbt_law`) fails for that code. -/
theorem read_whole_rest_refuted :
    ¬ NbtLaw ⟨nbtSend Mutf8.utf8, nbtReadWholeRest Mutf8.utf8⟩ (nbtDom Mutf8.utf8) := by
  intro h
  obtain ⟨bs, h1, _, h3⟩ := h.rt exV [7] exDom
  have e : nbtSend Mutf8.utf8 exV = .ok exB := by decide +kernel
  rw [show (NbtCodec.mk (nbtSend Mutf8.utf8) (nbtReadWholeRest Mutf8.utf8)).enc exV
    = nbtSend Mutf8.utf8 exV from rfl, e] at h1
  cases h1
  have d : (nbtReadWholeRest Mutf8.utf8 (exB ++ [7])).map (·.2) = .ok [] := by decide +kernel
  rw [show (NbtCodec.mk (nbtSend Mutf8.utf8) (nbtReadWholeRest Mutf8.utf8)).dec (exB ++ [7])
    = nbtReadWholeRest Mutf8.utf8 (exB ++ [7]) from rfl] at h3
  rw [h3] at d
  exact absurd d (by decide)

/-- `NBT.send` writing a nameless root (`NBTFile(name=None, …)`): the reader rejects the bytes. -/
theorem send_nameless_refuted :
    ¬ NbtLaw ⟨nbtSendNameless Mutf8.utf8, nbtRead Mutf8.utf8⟩ (nbtDom Mutf8.utf8) := by
  intro h
  obtain ⟨bs, h1, _, h3⟩ := h.rt exV [] exDom
  have e : nbtSendNameless Mutf8.utf8 exV = .ok (exB.drop 3) := by decide +kernel
  rw [show (NbtCodec.mk (nbtSendNameless Mutf8.utf8) (nbtRead Mutf8.utf8)).enc exV
    = nbtSendNameless Mutf8.utf8 exV from rfl, e] at h1
  cases h1
  have d : (nbtRead Mutf8.utf8 (exB.drop 3 ++ [])).map (·.2) = .error .other := by decide +kernel
  rw [show (NbtCodec.mk (nbtSendNameless Mutf8.utf8) (nbtRead Mutf8.utf8)).dec (exB.drop 3 ++ [])
    = nbtRead Mutf8.utf8 (exB.drop 3 ++ []) from rfl] at h3
  rw [h3] at d
  exact absurd d (by decide)

/-- `NBT.send` that forgets `socket.send(buffer.getvalue())`: nothing is written. -/
theorem send_nothing_refuted :
    ¬ NbtLaw ⟨nbtSendNothing Mutf8.utf8, nbtRead Mutf8.utf8⟩ (nbtDom Mutf8.utf8) := by
  intro h
  obtain ⟨bs, h1, h2, _⟩ := h.rt exV [] exDom
  have e : nbtSendNothing Mutf8.utf8 exV = .ok [] := by decide +kernel
  rw [show (NbtCodec.mk (nbtSendNothing Mutf8.utf8) (nbtRead Mutf8.utf8)).enc exV
    = nbtSendNothing Mutf8.utf8 exV from rfl, e] at h1
  cases h1
  exact h2 rfl

private def exL : Layout :=
  [("dimension", .custom .nbt), ("world_name", .string), ("hashed_seed", .int .i64),
   ("game_mode", .int .u8), ("previous_game_mode", .int .u8), ("is_debug", .bool),
   ("is_flat", .bool), ("copy_metadata", .bool)]
private def exVals : List Value :=
  [exV, .str "w", .int 5, .int 1, .int 2, .bool true, .bool false, .bool true]
private def exBody : Bytes := exB ++ [1, 0x77, 0, 0, 0, 0, 0, 0, 0, 5, 1, 2, 1, 0, 1]

/-- … and at the level of a whole packet: the RespawnPacket layout of protocol 757 round-trips with
the real codec (an instance of `generated_layouts_rt_pynbt`), but with the "whole rest" reader the
fields after `dimension` are not found any more -/
example :
    layoutAt layoutTables "cbPlay" "RespawnPacket" 757 = some exL ∧
    WellTypedFields (realDomNbt Mutf8.utf8) exL exVals ∧
    encodeFields (realCustomNbt Mutf8.utf8) exL exVals = .ok exBody ∧
    decodeFields (realCustomNbt Mutf8.utf8) exL exBody = .ok (exVals, []) ∧
    (decodeFields (realCustomWith ⟨nbtSend Mutf8.utf8, nbtReadWholeRest Mutf8.utf8⟩) exL exBody).map
      (·.2) = .error .eof := by
  have hw : WellTypedFields (realDomNbt Mutf8.utf8) exL exVals :=
    ⟨exDom, (by decide +kernel : (utf8 "w").length < 2 ^ 31), (by decide : IntT.i64.inDom 5),
      (by decide : IntT.u8.inDom 1), (by decide : IntT.u8.inDom 2), trivial, trivial, trivial,
      trivial⟩
  have he : encodeFields (realCustomNbt Mutf8.utf8) exL exVals = .ok exBody := by decide +kernel
  refine ⟨by decide +kernel, hw, he, ?_, by decide +kernel⟩
  obtain ⟨bs, h1, _, h3⟩ := layout_rt_nbt (pynbtLaw utf8Law) exL exVals (by decide) hw
  rw [show encodeFields (realCustomWith (pynbt Mutf8.utf8)) exL exVals
    = encodeFields (realCustomNbt Mutf8.utf8) exL exVals from rfl, he] at h1
  cases h1
  exact h3

/-! ## non-vacuity -/

/-- a value with every kind of tag is in the domain … -/
private def exEs : Entries :=
  [("b", .byte (-1)), ("s", .short 300), ("i", .int 7), ("l", .long (-9)), ("f", .float 0x3fc00000),
   ("d", .double 0), ("ba", .byteArray [1, 2]), ("st", .string "hé"),
   ("li", .list 10 [.compound [("x", .list 0 [])], .compound []]),
   ("ia", .intArray [1, -1]), ("la", .longArray [])]
example : rootWf Mutf8.utf8 exEs = true := by decide +kernel
example : nbtDom Mutf8.utf8 (rootValue "" exEs) := by decide +kernel
/-- … and `file_roundtrip` applies to it -/
example : ∃ bs, saveFile Mutf8.utf8 "" exEs = .ok bs ∧
    loadFile Mutf8.utf8 maxDepth (bs ++ [9]) = .ok (("", exEs), [9]) := by
  obtain ⟨bs, h1, _, h3, _⟩ := file_roundtrip utf8Law exEs (by decide +kernel)
  exact ⟨bs, h1, h3 [9]⟩
/-- the bytes of the small example, and one of its strict prefixes rejected -/
example : nbtSend Mutf8.utf8 exV = .ok exB := by decide +kernel
example : ∃ e, nbtRead Mutf8.utf8 (exB.take 11) = .error e :=
  (pynbt_law utf8Law).prefixErr exV exB exDom (by decide +kernel) _ (by decide) (by decide)
/-- the hypotheses of the generic theorems are satisfiable: a lawful codec with a non-empty domain -/
example : ∃ (n : NbtCodec) (nd : Value → Prop), NbtLaw n nd ∧ ∃ v, nd v :=
  ⟨pynbt Mutf8.utf8, nbtDom Mutf8.utf8, pynbt_law utf8Law, exV, exDom⟩
/-- a named root is written but is outside the domain (it comes back named `''`) -/
example : nbtSend Mutf8.utf8 (rootValue "x" [("a", .int 1)]) = .ok exB ∧
    ¬ nbtDom Mutf8.utf8 (rootValue "x" [("a", .int 1)]) := ⟨by decide +kernel, by decide +kernel⟩
/-- pynbt does not notice a short byte array: this is why the per-tag property is only `Soft0` -/
example : readPayload Mutf8.utf8 1 7 [0, 0, 0, 5, 1, 2] = .ok (.byteArray [1, 2], []) := by
  decide +kernel
/-- the NBT layouts exist in the live table and are exactly those the old theorems skipped -/
example : (C05.nbtClasses.map fun x => x.2.2.length).sum ≥ 40 := by decide +kernel
example : nbtPacketVectors.length ≥ 10 ∧ nbtReadVectors.length ≥ 60 ∧ nbtSendVectors.length ≥ 8 := by
  decide +kernel

end PyCraft.C05Nbt
