import PyCraft.Generated.Enums
import PyCraft.Generated.C20Live
import PyCraft.Lemmas.C20Live
/-!
# C20 (audit gap 16) — flag bits, flag names and the add-player mapping, tied to the LIVE code

`Generated/C20Live.lean` is written by `harness/gen/c20live.py` from what the repository's code DOES
(the class attributes, the strings `name_from_value` returns, the target after `apply`, the player
list after a packet history); the theorems of this file compare those observations with the models,
so a change of the Python changes the table and breaks the theorem.

* Position flags: `posflags_live`, `position_apply_observed`, `flag_truthy_is_bit`,
  `flagsOfByte_bit`, `position_apply_signed`, `position_apply_live`, `position_apply_bits`.
* Flag names: `flagLive_matches_flagEnums`, `names_live`, `names_live_at`, `names_live_nat`,
  `live_names_parse_back`, `negative_values_unnamed`, `int_model_extends_nat_model`.
* Player list: `add_field_mapping`, `playerlist_full_simulates`, `name_properties_from_last_add`,
  `playerlist_probe_live`.

Models: `Model/C20Live.lean`; helper lemmas: `Lemmas/C20Live.lean`.
-/
namespace PyCraft.C20Live
open PyCraft PyCraft.Trackers PyCraft.Enums PyCraft.TrackLive PyCraft.Gen PyCraft.Gen.C20Live

/-! ## Position flags -/

/-- The qualified name under which the position packet appears in the generated enum tables. -/
abbrev posClass : String :=
  "minecraft.networking.packets.clientbound.play.player_position_and_look_packet.PlayerPositionAndLookPacket"

/-- The constants `FLAG_REL_X … FLAG_REL_PITCH` of `Model/Trackers.lean` ARE the live class
attributes: as `apply` reads them (`getattr`), as they stand in the class's `__dict__`, and as they
stand in the older table `Gen.flagEnums`. -/
theorem posflags_live :
    PosFlagsTied posFlagAttrs ∧
    (∃ e ∈ flagLive, e.1 = posClass ∧ PosFlagsTied e.2.1) ∧
    (∃ e ∈ flagEnums, e.1 = posClass ∧
      lookupName "FLAG_REL_X" e.2 = some FLAG_REL_X ∧ lookupName "FLAG_REL_Y" e.2 = some FLAG_REL_Y ∧
      lookupName "FLAG_REL_Z" e.2 = some FLAG_REL_Z ∧
      lookupName "FLAG_REL_YAW" e.2 = some FLAG_REL_YAW ∧
      lookupName "FLAG_REL_PITCH" e.2 = some FLAG_REL_PITCH) := by
  decide +kernel

/-- A table as the generator would write it after swapping `FLAG_REL_YAW = 0x10` /
`FLAG_REL_PITCH = 0x08` in the Python: `posflags_live` is false for it. -/
example : ¬ PosFlagsTied [("FLAG_REL_X", 1), ("FLAG_REL_Y", 2), ("FLAG_REL_Z", 4),
    ("FLAG_REL_YAW", 16), ("FLAG_REL_PITCH", 8)] := by decide +kernel

/-- The live `PlayerPositionAndLookPacket.apply` was run for EVERY signed flags byte −128 … 127 on
the probe (current `(10, 20, 30, 350, 355)`, packet `(1, 2, 3, 20, −30)`: every coordinate tells
"added" from "assigned", both angles wrap): the model computes the same target every time — both the
signed-flags model over the flag table and `Trackers.applyPosLook` on the two's-complement byte. -/
theorem position_apply_observed :
    posApplyLive.map Prod.fst = (List.range 256).map (fun (i : Nat) => (i : Int) - 128) ∧
    (∀ r ∈ posApplyLive, PosRowAgrees modelPosFlags posProbePkt posProbeCur r) ∧
    (∀ r ∈ posApplyLive, ∀ pkt cur, posOfInts posProbePkt = some pkt →
      posOfInts posProbeCur = some cur →
      posOfInts r.2 = some (applyPosLook (flagsOfByte r.1) pkt cur)) := by
  have h2 : ∀ r ∈ posApplyLive, PosRowAgrees modelPosFlags posProbePkt posProbeCur r := by decide +kernel
  refine ⟨by decide +kernel, h2, ?_⟩
  intro r hr pkt cur hp hc
  obtain ⟨pkt', cur', hp', hc', h⟩ := h2 r hr
  rw [hp] at hp'; rw [hc] at hc'
  cases hp'; cases hc'
  rw [h, applyPosLookWith_model]

/-- With YAW/PITCH swapped in the MODEL (equivalently: the Python swapped and the model left alone),
some observed row disagrees. -/
example : ¬ ∀ r ∈ posApplyLive, PosRowAgrees ⟨1, 2, 4, 16, 8⟩ posProbePkt posProbeCur r := by decide +kernel

/-- `if self.flags & FLAG:` for a one-bit flag tests exactly binary digit `k` of the (possibly
negative) flags value in two's complement — for every int, not only bytes. -/
theorem flag_truthy_is_bit (flags : Int) (k : Nat) :
    pyAnd flags ((2 ^ k : Nat) : Int) ≠ 0 ↔ flags / 2 ^ k % 2 = 1 := by
  rw [pyAnd_two_pow_ne_zero]
  simp [pyBit]

/-- Python's `&` and `|` on ints are the bitwise operations of infinite two's complement. -/
theorem pyAnd_pyOr_bitwise (a b : Int) (k : Nat) :
    pyBit (pyAnd a b) k = (pyBit a k && pyBit b k) ∧ pyBit (pyOr a b) k = (pyBit a k || pyBit b k) :=
  ⟨pyAnd_bit a b k, pyOr_bit a b k⟩

/-- The signed `Byte` the packet carries (`struct '>b'`: −128 … 127) and the natural number
`flagsOfByte b` the tracker model works with: `flagsOfByte b` is the unsigned reading of the same
byte, and for each of the eight bits Python's `b & 2**k` is truthy iff bit `k` of `flagsOfByte b` is
set. -/
theorem flagsOfByte_bit (b : Int) (hlo : -128 ≤ b) (hhi : b < 128) :
    (flagsOfByte b : Int) = (if b < 0 then b + 256 else b) ∧ flagsOfByte b < 256 ∧
    ∀ k, k < 8 → (pyAnd b ((2 ^ k : Nat) : Int) ≠ 0 ↔ flagsOfByte b / 2 ^ k % 2 = 1) := by
  refine ⟨by unfold flagsOfByte; split <;> omega, by unfold flagsOfByte; omega, ?_⟩
  intro k hk
  rw [pyAnd_two_pow_ne_zero, pyBit_byte b k hk]
  simp

/-- `apply` with Python's `&` on the signed flags and the flag constants of the model is
`Trackers.applyPosLook` on `flagsOfByte flags` — for every int `flags`.  So every theorem of
`Props/C20.lean` about `applyPosLook` speaks about the signed-byte code path. -/
theorem position_apply_signed (flags : Int) (pkt cur : Pos) :
    applyPosLookWith modelPosFlags flags pkt cur = applyPosLook (flagsOfByte flags) pkt cur :=
  applyPosLookWith_model flags pkt cur

/-- … and the same with the flag constants READ FROM THE LIVE CLASS (whatever table the generator
found, if it is a table at all). -/
theorem position_apply_live (F : PosFlagTable) (hF : posFlagTable posFlagAttrs = some F)
    (flags : Int) (pkt cur : Pos) :
    applyPosLookWith F flags pkt cur = applyPosLook (flagsOfByte flags) pkt cur := by
  have h : posFlagTable posFlagAttrs = some modelPosFlags := posflags_live.1
  rw [h] at hF
  cases hF
  exact applyPosLookWith_model flags pkt cur

/-- "Relative flags add and angles wrap", on the signed flags and the live constants: coordinate
`i` (x, y, z, yaw, pitch = bit 0 … 4) is `current + packet` if binary digit `i` of `flags` (two's
complement) is set and `packet` otherwise; yaw and pitch are then reduced into `[0, 360)` by a whole
number of turns. -/
theorem position_apply_bits (F : PosFlagTable) (hF : posFlagTable posFlagAttrs = some F)
    (flags : Int) (pkt cur : Pos) :
    let r := applyPosLookWith F flags pkt cur
    let yaw₀ := if flags / 8 % 2 = 1 then cur.yaw + pkt.yaw else pkt.yaw
    let pitch₀ := if flags / 16 % 2 = 1 then cur.pitch + pkt.pitch else pkt.pitch
    r.x = (if flags % 2 = 1 then cur.x + pkt.x else pkt.x) ∧
    r.y = (if flags / 2 % 2 = 1 then cur.y + pkt.y else pkt.y) ∧
    r.z = (if flags / 4 % 2 = 1 then cur.z + pkt.z else pkt.z) ∧
    (0 ≤ r.yaw ∧ r.yaw < 360 ∧ ∃ n : Int, yaw₀ = r.yaw + 360 * (n : Rat)) ∧
    (0 ≤ r.pitch ∧ r.pitch < 360 ∧ ∃ n : Int, pitch₀ = r.pitch + 360 * (n : Rat)) := by
  have h : posFlagTable posFlagAttrs = some modelPosFlags := posflags_live.1
  rw [h] at hF
  cases hF
  have hb : ∀ (k : Nat) (c p : Rat), relOrAbsZ flags ((2 ^ k : Nat) : Int) c p =
      if flags / 2 ^ k % 2 = 1 then c + p else p := by
    intro k c p
    unfold relOrAbsZ
    by_cases hk : flags / 2 ^ k % 2 = 1
    · rw [if_pos ((flag_truthy_is_bit flags k).2 hk), if_pos hk]
    · rw [if_neg (fun e => hk ((flag_truthy_is_bit flags k).1 e)), if_neg hk]
  have h0 : ∀ c p : Rat, relOrAbsZ flags (FLAG_REL_X : Nat) c p =
      if flags % 2 = 1 then c + p else p := by
    intro c p; have := hb 0 c p; rwa [Int.pow_zero, Int.ediv_one] at this
  have h1 : ∀ c p : Rat, relOrAbsZ flags (FLAG_REL_Y : Nat) c p =
      if flags / 2 % 2 = 1 then c + p else p := hb 1
  have h2 : ∀ c p : Rat, relOrAbsZ flags (FLAG_REL_Z : Nat) c p =
      if flags / 4 % 2 = 1 then c + p else p := hb 2
  have h3 : ∀ c p : Rat, relOrAbsZ flags (FLAG_REL_YAW : Nat) c p =
      if flags / 8 % 2 = 1 then c + p else p := hb 3
  have h4 : ∀ c p : Rat, relOrAbsZ flags (FLAG_REL_PITCH : Nat) c p =
      if flags / 16 % 2 = 1 then c + p else p := hb 4
  simp only [applyPosLookWith, modelPosFlags, h0, h1, h2, h3, h4]
  exact ⟨trivial, trivial, trivial,
    ⟨(mod360_range _).1, (mod360_range _).2, mod360_congr _⟩,
    ⟨(mod360_range _).1, (mod360_range _).2, mod360_congr _⟩⟩

/-! ## Flag names -/

/-- The new table lists the same classes with the same members as `Gen.flagEnums`, and no class has
a negative member — so the `v ≥ 0` filter of `extract.py` dropped nothing. -/
theorem flagLive_matches_flagEnums :
    flagEnums = flagLive.map (fun e => (e.1, natMembers e.2.1)) ∧
    (∀ e ∈ flagLive, ∀ p ∈ e.2.1, 0 ≤ p.2) ∧
    flagLive.map (fun e => (e.1, e.2.1)) = flagEnums.map (fun e => (e.1, intMembers e.2)) := by
  decide +kernel

/-- THE LIVE STRINGS.  For every flag enum of the library and every value −128 … 255, the string (or
`None`) returned by the live `cls.name_from_value(v)` is what the model computes: the model of
`BitFieldEnum.name_from_value` is observed against Python on every run. -/
theorem names_live : NamesAgree flagLive nameLo nameCount ∧ nameLo = -128 ∧ nameCount = 384 ∧ flagLive.length ≥ 3 := by
  decide +kernel

/-- … pointwise. -/
theorem names_live_at : ∀ e ∈ flagLive, ∀ v : Int, -128 ≤ v → v < 256 →
    liveName flagLive nameLo e.1 v = some (nameFromValueZ e.2.1 v) ∧
    e.2.2[(v + 128).toNat]? = some (nameFromValueZ e.2.1 v) := by
  have hfind : ∀ e ∈ flagLive, flagLive.find? (fun x => x.1 == e.1) = some e := by decide +kernel
  intro e he v hlo hhi
  have hrow : e.2.2[(v + 128).toNat]? = some (nameFromValueZ e.2.1 v) := by
    rw [names_live.1 e he]
    have h1 : (v + 128).toNat < nameCount := by rw [names_live.2.2.1]; omega
    have h2 : nameLo + ((v + 128).toNat : Int) = v := by rw [names_live.2.1]; omega
    simp only [namesFrom, List.getElem?_map, List.getElem?_range h1, Option.map_some, h2]
  refine ⟨?_, hrow⟩
  unfold liveName
  rw [hfind e he]
  have h3 : ¬ v < nameLo := by rw [names_live.2.1]; omega
  have h4 : (v - nameLo).toNat = (v + 128).toNat := by rw [names_live.2.1]; omega
  simp only [h3, if_false, h4, hrow]

/-- The reviewer's formulation, for the natural-number model `Enums.nameFromValue` that the theorems
of `Props/C20.lean` are about: for every class of `Gen.flagEnums` and every value 0 … 255 the live
printed name is `nameFromValue`. -/
theorem names_live_nat : ∀ e ∈ flagEnums, ∀ v : Nat, v < 256 →
    liveName flagLive nameLo e.1 (v : Int) = some (nameFromValue e.2 v) := by
  intro e he v hv
  have hmem : (e.1, intMembers e.2) ∈ flagLive.map (fun e => (e.1, e.2.1)) := by
    rw [flagLive_matches_flagEnums.2.2]; exact List.mem_map.2 ⟨e, he, rfl⟩
  obtain ⟨row, hrow, heq⟩ := List.mem_map.1 hmem
  have h1 : row.1 = e.1 := congrArg Prod.fst heq
  have h2 : row.2.1 = intMembers e.2 := congrArg Prod.snd heq
  have h := (names_live_at row hrow (v : Int) (by omega) (by omega)).1
  rw [h1, h2, nameFromValueZ_cast] at h
  exact h

/-- The printed name of a flag value parses back to that value — stated about the strings the LIVE
function returned: for every flag enum in the library and every value 0 … 255. -/
theorem live_names_parse_back : ∀ e ∈ flagEnums, ∀ v : Nat, v < 256 → ∀ s,
    liveName flagLive nameLo e.1 (v : Int) = some (some s) → parseName e.2 s = some v := by
  have hc : ∀ e ∈ flagEnums, (e.2.map Prod.fst).Nodup ∧ ∀ p ∈ e.2, '|' ∉ p.1.toList := by
    decide +kernel
  intro e he v hv s hs
  rw [names_live_nat e he v hv] at hs
  exact nameFromValue_parses e.2 (hc e he).1 (hc e he).2 v s (Option.some.inj hs)

/-- Negative values (the flags field of the position packet is a SIGNED byte): a class whose
upper-case members are all non-negative names no negative value (the loop's `ret_value` stays
non-negative) — in the model for every int, and observed live for −128 … −1 in every library
enum. -/
theorem negative_values_unnamed :
    (∀ (members : List (String × Int)), (∀ p ∈ members, pyIsUpper p.1 = true → 0 ≤ p.2) →
      ∀ value : Int, value < 0 → nameFromValueZ members value = none) ∧
    (∀ e ∈ flagLive, ∀ v : Int, -128 ≤ v → v < 0 → liveName flagLive nameLo e.1 v = some none) := by
  refine ⟨nameFromValueZ_neg, ?_⟩
  intro e he v hlo hhi
  rw [(names_live_at e he v hlo (by omega)).1]
  have hnn : ∀ e ∈ flagLive, ∀ p ∈ e.2.1, 0 ≤ p.2 := flagLive_matches_flagEnums.2.1
  rw [nameFromValueZ_neg e.2.1 (fun p hp _ => hnn e he p hp) v hhi]

/-- On natural members and a natural value the int model coincides with `Enums.nameFromValue`, so
everything proved about the latter (`C20.bitfield_name_parses_back`, `bitfield_name_none_iff`, …)
holds for the int model there. -/
theorem int_model_extends_nat_model (members : List (String × Nat)) (value : Nat) :
    nameFromValueZ (intMembers members) (value : Int) = nameFromValue members value :=
  nameFromValueZ_cast members value

/-! ### Refutations: one-token edits of `enum.py:40-44` -/

/-- The variant machinery with all switches as in the code reproduces the live table (here: its
entries for −4 … 67) … -/
example : variantTable .faithful flagLive (-4) 72 =
    flagLive.map (fun e => (e.1, e.2.1, (e.2.2.drop 124).take 72)) := by decide +kernel

/-- … and on the window of values 0 … 3 it agrees with the model, whereas the table written for
`','.join(...)` instead of `'|'.join(...)` … -/
example : NamesAgree (variantTable .faithful flagLive 0 4) 0 4 ∧
    ¬ NamesAgree (variantTable { NameVariant.faithful with sep := ',' } flagLive 0 4) 0 4 := by
  decide +kernel

/-- … for dropping `reversed(...)` … -/
example : ¬ NamesAgree (variantTable { NameVariant.faithful with reversed := false } flagLive 0 4) 0 4 := by
  decide +kernel

/-- … and for dropping `or cls_value == value` (value 0 then prints `0` instead of `NONE` /
`SURVIVAL`) each violate the statement of `names_live`. -/
example : ¬ NamesAgree (variantTable { NameVariant.faithful with eqClause := false } flagLive 0 4) 0 4 := by
  decide +kernel

/-- Small instances of the three, readable: -/
example : nameFromValueZ [("FLAG_REL_X", 1), ("FLAG_REL_Y", 2), ("FLAG_REL_Z", 4)] 3 =
      some "FLAG_REL_X|FLAG_REL_Y" ∧
    nameFromValueV { NameVariant.faithful with sep := ',' }
      [("FLAG_REL_X", 1), ("FLAG_REL_Y", 2), ("FLAG_REL_Z", 4)] 3 = some "FLAG_REL_X,FLAG_REL_Y" ∧
    nameFromValueV { NameVariant.faithful with reversed := false }
      [("FLAG_REL_X", 1), ("FLAG_REL_Y", 2), ("FLAG_REL_Z", 4)] 3 = some "FLAG_REL_Y|FLAG_REL_X" := by
  decide +kernel
example : nameFromValueZ [("SURVIVAL", 0), ("CREATIVE", 1)] 0 = some "SURVIVAL" ∧
    nameFromValueV { NameVariant.faithful with eqClause := false } [("SURVIVAL", 0), ("CREATIVE", 1)] 0 =
      some "0" := by decide +kernel

/-! ## Player list: the slots of `AddPlayerAction` -/

/-- `AddPlayerAction.apply`: afterwards the action's uuid is bound to a `PlayerListItem` whose six
slots are the action's six slots of the same name (`uuid, name, properties, gamemode, ping,
display_name`), every other uuid is bound as before, and the key order is unchanged for a known uuid
/ extended at the end for a new one. -/
theorem add_field_mapping (l : PlayerListF) (a : AddPlayer) :
    dictGet a.uuid (applyActionF l (.add a)) =
      some ⟨a.uuid, a.name, a.properties, a.gamemode, a.ping, a.displayName⟩ ∧
    (∀ k, k ≠ a.uuid → dictGet k (applyActionF l (.add a)) = dictGet k l) ∧
    (applyActionF l (.add a)).map Prod.fst =
      (if a.uuid ∈ l.map Prod.fst then l.map Prod.fst else l.map Prod.fst ++ [a.uuid]) := by
  refine ⟨by simp [applyActionF, dictGet_dictSet, AddPlayer.item], ?_, keys_dictSet a.uuid a.item l⟩
  intro k hk
  simp [applyActionF, dictGet_dictSet, hk]

/-- Forgetting the contents of the property lists (any numbering `enc` of them) turns the
spelled-out model into `Model/Trackers.lean`'s: replaying a history and then forgetting equals
forgetting and then replaying with `Trackers.replay`.  So `C20.playerlist_replay`, `add_overwrites`,
`update_unknown_noop`, … hold of the spelled-out model. -/
theorem playerlist_full_simulates (enc : List PlayerProperty → Nat) (hist : List (List ActionF))
    (l : PlayerListF) :
    absList enc (replayF hist l) = replay (hist.map (List.map (ActionF.abs enc))) (absList enc l) :=
  absList_replay enc hist l

/-- The slots no update action writes: after any history applied to the empty `PlayerList()`, a
player is present iff the last add-or-remove of its uuid was an add, and its `uuid`, `name` and
`properties` are those of that LAST add (properties of an earlier add, or of another player, never
leak). -/
theorem name_properties_from_last_add (hist : List (List ActionF)) (k : Int) :
    (dictGet k (replayF hist [])).map (fun p => (p.uuid, p.name, p.properties)) =
      (lastAdd k none hist.flatten).map (fun a => (a.uuid, a.name, a.properties)) := by
  have h : replayF hist [] = hist.flatten.foldl applyActionF [] := by
    rw [List.foldl_flatten]; rfl
  rw [h]
  exact lastAdd_spec hist.flatten [] none k (by simp) rfl

/-- The live `PlayerListItemPacket.apply` was run on the probe history (all five action kinds,
property lists, an overwrite, updates and removals of unknown players, a removal and re-add — the
re-added player moves to the end); the spelled-out model ends in the same `items()`, with all six
slots of every item equal. -/
theorem playerlist_probe_live :
    (histOfRows plistProbe).map (fun h => replayF h []) =
      .ok (plistProbeLive.map fun r => (r.1, itemOfRow r.2)) ∧
    plistProbeLive.length = 3 := by
  decide +kernel

/-- Changed code `properties=[]` (or any other slot lost) in the constructor call of
`AddPlayerAction.apply`, and `gamemode=self.ping, ping=self.gamemode`: the probe tells. -/
example : (histOfRows plistProbe).map (fun h => replayF (mutateAdds (fun a => { a with properties := [] }) h) []) ≠
    .ok (plistProbeLive.map fun r => (r.1, itemOfRow r.2)) := by decide +kernel
example : (histOfRows plistProbe).map (fun h =>
      replayF (mutateAdds (fun a => { a with gamemode := a.ping, ping := a.gamemode }) h) []) ≠
    .ok (plistProbeLive.map fun r => (r.1, itemOfRow r.2)) := by decide +kernel

/-! ## Non-vacuity -/

section examples

-- the live table really contains the position packet with five members and a printed name
example : (∃ e ∈ flagLive, e.1 = posClass ∧ e.2.1.length = 5 ∧ e.2.2.length = 384) ∧
    liveName flagLive nameLo posClass 24 = some (some "FLAG_REL_YAW|FLAG_REL_PITCH") ∧
    liveName flagLive nameLo posClass (-1) = some none ∧
    liveName flagLive nameLo posClass 32 = some none := by decide +kernel

-- `position_apply_live` / `position_apply_bits`: the hypothesis is satisfied (by the live table)
example : posFlagTable posFlagAttrs = some ⟨1, 2, 4, 8, 16⟩ := by decide +kernel

-- a negative flags byte: −104 = 0x98 has bits 3, 4 (and 7) set: yaw and pitch relative, x y z absolute
example : applyPosLookWith modelPosFlags (-104) ⟨1, 2, 3, 20, -30⟩ ⟨10, 20, 30, 350, 355⟩ =
    ⟨1, 2, 3, 10, 325⟩ ∧ flagsOfByte (-104) = 152 ∧ pyAnd (-104) 8 = 8 ∧ pyAnd (-104) 4 = 0 := by
  decide +kernel

-- Python: -3 & 6 == 4, -3 | 6 == -1, -8 | -3 == -3, 5 & -2 == 4, 5 | -8 == -3
example : pyAnd (-3) 6 = 4 ∧ pyOr (-3) 6 = -1 ∧ pyOr (-8) (-3) = -3 ∧ pyAnd 5 (-2) = 4 ∧
    pyOr 5 (-8) = -3 := by decide +kernel

-- a class WITH a negative member names negative values (hypothesis of `negative_values_unnamed`
-- is needed): Python prints 'NEG' for -1 and 'NEG|A' … the model agrees with a run of the real
-- `BitFieldEnum.name_from_value` on `class E(BitFieldEnum): A = 1; NEG = -2`
example : nameFromValueZ [("A", 1), ("NEG", -2)] (-1) = some "NEG|A" ∧
    nameFromValueZ [("A", 1), ("NEG", -2)] (-2) = some "NEG" ∧
    nameFromValueZ [("A", 1), ("NEG", -2)] 1 = some "A" := by decide +kernel

-- `name_properties_from_last_add`: an update of a KNOWN uuid between two adds, a removal, a re-add
private def pA : AddPlayer := ⟨7, "alice", [⟨"textures", "x", some "sig"⟩], 1, 42, some "A"⟩
private def pB : AddPlayer := ⟨7, "alice2", [], 0, 8, none⟩
example : lastAdd 7 none [.add pA, .gamemode 7 3, .add pB] = some pB ∧
    lastAdd 7 none [.add pA, .gamemode 7 3] = some pA ∧
    lastAdd 7 none [.add pA, .remove 7] = none ∧
    dictGet 7 (replayF [[.add pA], [.gamemode 7 3, .latency 7 5]] []) =
      some ⟨7, "alice", [⟨"textures", "x", some "sig"⟩], 3, 5, some "A"⟩ := by decide +kernel

end examples

end PyCraft.C20Live
