import PyCraft.Lemmas.WritersFinal
import PyCraft.Props.C12
/-!
# C12, the disconnect clause — "a non-immediate disconnect sends everything queued before it and
then closes the socket, while an immediate disconnect sends nothing further" — with its timing

Model: `Model/Writers.lean`; helper lemmas and the history invariant `HistInv`:
`Lemmas/WritersFinal.lean`.  As in `Props/C12.lean` every theorem is for ALL batch caps `cfg`, ALL
programs `progs` with pairwise distinct packet ids and ALL schedules `sched`;
`s := run cfg (init progs) sched`.

The theorems speak about positions in the event log `s.log : List (Tid × Ev)` (every atomic
action appends exactly one event).  Vocabulary (all decidable, defined in `Lemmas/WritersFinal`):

* `appsOf l` / `popsOf l` / `sndsOf l` — the packets appended to the queue / popped from the queue /
  the chunks sent in the piece of log `l`, in log order; `(u, .app p) ∈ l` = thread `u` appended `p`
  to the queue somewhere in `l`.
* `LockFree l` — no `acq`, no `rel` in `l`;  `NoMove l` — no `pop`, no `snd` in `l`;
  `NoChk l` — no `chk n` in `l`;  `NoDead l` — no `cls`, no `fail` in `l`.
* `flushes l` — some `chk n` occurs in `l`.

THE CLOSING CRITICAL SECTION.  Exactly one `disconnect` closes the socket (`cls`): the one that
acquires the lock while the socket is still open.  Once the socket is closed the log can be written
in exactly one way (`closing_section_exists`, `closing_section_unique`) as

    s.log = pre ++ (t, acq) :: (mid ++ (t, cls) :: post)      with   LockFree mid,

i.e. `pre` = everything before the closing disconnect acquired the lock, `mid` = everything that
happened while it held the lock up to the close (its own flush loop, `sti`, `shut`, and the `app`s,
`rdi`s … of threads that do not need the lock), `post` = everything after the close.  The closing
disconnect is graceful iff `flushes mid` (`closer_kind`): only a graceful disconnect looks at the
queue, and nobody else can while it holds the lock.  The theorems below are stated for EVERY such
splitting, so they talk about the closing disconnect and nothing else.
-/
namespace PyCraft.C12Final
open PyCraft PyCraft.Writers

/-- `run_hist`: the history invariant `HistInv` (wire = the `snd` events; appended = popped ++
queue; popped ⊆ sent ∪ in flight; nothing closed or failed while the socket is open; the shape of
the log inside a running disconnect and around the closing one) holds in every reachable state. -/
theorem run_hist (cfg : Cfg) (progs : List (List Op)) (hnd : (progs.flatMap pktsOf).Nodup)
    (sched : List Tid) : HistInv (run cfg (init progs) sched) :=
  reach_hist cfg progs hnd sched

/-- The wire is exactly the sequence of `snd` events of the log, and the queue is FIFO with respect
to the log: the packets appended so far are the packets popped so far followed by the queue. -/
theorem wire_and_queue_from_log (cfg : Cfg) (progs : List (List Op))
    (hnd : (progs.flatMap pktsOf).Nodup) (sched : List Tid) :
    let s := run cfg (init progs) sched
    s.wire = sndsOf s.log ∧ appsOf s.log = popsOf s.log ++ s.queue ∧ (appsOf s.log).Nodup := by
  intro s
  have h := reach_hist cfg progs hnd sched
  exact ⟨h.wire_log, h.queue_log, apps_nodup (reach_inv cfg progs hnd sched).fresh h⟩

/-- `closing_section_exists`: once the socket is closed — in particular in every final state —
the log splits around the critical section of the closing disconnect; the `cls` of that section is
the only one, and no write has `fail`ed before it. -/
theorem closing_section_exists (cfg : Cfg) (progs : List (List Op))
    (hnd : (progs.flatMap pktsOf).Nodup) (sched : List Tid) :
    let s := run cfg (init progs) sched
    ((∀ u, (s.thr u).pc.isDone = true) ∨ s.sockOpen = false) →
      ∃ t pre mid post, s.log = pre ++ (t, .acq) :: (mid ++ (t, .cls) :: post) ∧ LockFree mid ∧
        NoDead (pre ++ (t, .acq) :: mid) ∧ (∀ e ∈ post, e.2 ≠ .cls) := by
  intro s hfin
  have hc : s.sockOpen = false := by
    rcases hfin with hfin | hc
    · exact (C12.all_sent_or_dropped_after_disconnect_partial cfg progs hnd sched hfin).1
    · exact hc
  obtain ⟨t, pre, mid, post, -, -, e1, e2, e3, -, e5, -⟩ := (reach_hist cfg progs hnd sched).closed hc
  exact ⟨t, pre, mid, post, e1, e2, e3, e5⟩

/-- `closing_section_unique`: … and it splits in only one way. -/
theorem closing_section_unique (cfg : Cfg) (progs : List (List Op))
    (hnd : (progs.flatMap pktsOf).Nodup) (sched : List Tid) (t t' : Tid)
    (pre mid post pre' mid' post' : Log) :
    let s := run cfg (init progs) sched
    s.log = pre ++ (t, .acq) :: (mid ++ (t, .cls) :: post) → LockFree mid →
    s.log = pre' ++ (t', .acq) :: (mid' ++ (t', .cls) :: post') → LockFree mid' →
      t = t' ∧ pre = pre' ∧ mid = mid' ∧ post = post' := by
  intro s h1 g1 h2 g2
  have h := reach_hist cfg progs hnd sched
  have hc : s.sockOpen = false := by
    cases ho : s.sockOpen with
    | false => rfl
    | true =>
      have := (h.open_quiet ho) (t, .cls) (by rw [h1]; simp)
      exact absurd rfl this.1
  exact closed_split_unique h hc h1 g1 h2 g2

/-- `closer_kind`: the link between the log and the program.  When thread `t` is about to close the
socket (program counter `dCls c`, where by `C12.disconnect_ctx_set` / `disconnect_ctx_stable` the
ghost context `c` records the argument `imm` of the running `disconnect(imm)` and the queue and
wire at the moment it acquired the lock), the log is `pre ++ (t, acq) :: mid` with `LockFree mid`,
and: `flushes mid` iff the disconnect is graceful; the queue it found (`c.snap`) is what had been
appended but not yet popped in `pre`; the wire it found is the `snd` events of `pre`; and so far
nothing has been closed and no write has failed. -/
theorem closer_kind (cfg : Cfg) (progs : List (List Op)) (hnd : (progs.flatMap pktsOf).Nodup)
    (sched : List Tid) (t : Tid) (c : DCtx) :
    let s := run cfg (init progs) sched
    (s.thr t).pc = .user (.dCls c) →
      ∃ pre mid, s.log = pre ++ (t, .acq) :: mid ∧ LockFree mid ∧ flushes mid = !c.imm ∧
        appsOf pre = popsOf pre ++ c.snap ∧ sndsOf pre = c.wire0 ∧ NoDead s.log := by
  intro s hpc
  have hi := reach_inv cfg progs hnd sched
  exact at_cls_section hi.lock hi.wire (reach_hist cfg progs hnd sched) t c hpc

/-- `all_sent_or_dropped_after_disconnect`: in every final state (all threads at `end`), for the
splitting of the log around the closing critical section, every packet `p` of every program is in
exactly one of three places:

(a) SENT — a whole frame `(p,0),(p,1)` on the wire; not in the queue, not failed;

(b) DROPPED IN THE QUEUE — not on the wire (not even its length prefix), not failed; and if the
closing disconnect is graceful, `p` was appended AFTER that disconnect last looked at the queue:
`mid = flush ++ (t, chk 0) :: tail` where `tail` contains no further `chk`, and the `app p` event
lies in `tail` or in `post` (`tail` is non-empty territory: between the last `chk 0` and the `cls`
come `sti` and `shut`, see the example at the end).  Equivalently, no packet appended before that
`chk 0` — in particular none that was queued when the disconnect acquired the lock — is left in the
queue.  For an immediate closing disconnect there is no such constraint: `p` was appended after
the `acq`, or it was already waiting in the queue at the `acq` (appended in `pre`) and has never
been popped, see `immediate_disconnect_sends_nothing_after`.

(c) FAILED — a forced write; no chunk of `p` is on the wire, `p` was never appended to the queue,
and `write_packet(p, force=True)` was entered after the `cls` event: there is a prefix of the
schedule (`sched.take k`) after which the socket is already closed, the `cls` event of the closing
disconnect is in the log, and `p` has not been issued yet.

Moreover no `fail` event occurs before the `cls`. -/
theorem all_sent_or_dropped_after_disconnect (cfg : Cfg) (progs : List (List Op))
    (hnd : (progs.flatMap pktsOf).Nodup) (sched : List Tid) (t : Tid) (pre mid post : Log) :
    let s := run cfg (init progs) sched
    (∀ u, (s.thr u).pc.isDone = true) →
    s.log = pre ++ (t, .acq) :: (mid ++ (t, .cls) :: post) → LockFree mid →
      NoDead (pre ++ (t, .acq) :: mid) ∧
      ∀ p ∈ progs.flatMap pktsOf,
        (p ∈ sentPkts s.wire ∧ (∃ w₁ w₂, s.wire = w₁ ++ [(p, 0), (p, 1)] ++ w₂) ∧
          p ∉ s.queue ∧ p ∉ s.failed) ∨
        (p ∈ s.queue ∧ p ∉ sentPkts s.wire ∧ (∀ c, (p, c) ∉ s.wire) ∧ p ∉ s.failed ∧
          (flushes mid = true → ∃ flush tail, mid = flush ++ (t, .chk 0) :: tail ∧ NoChk tail ∧
            ∃ u, (u, .app p) ∈ tail ++ post) ∧
          (flushes mid = false → (∃ u, (u, .app p) ∈ mid ++ post) ∨
            ((∃ u, (u, .app p) ∈ pre) ∧ ∀ u, (u, .pop p) ∉ s.log))) ∨
        (p ∈ s.failed ∧ p ∉ sentPkts s.wire ∧ (∀ c, (p, c) ∉ s.wire) ∧ p ∉ s.queue ∧
          (∀ u, (u, .app p) ∉ s.log) ∧
          ∃ k, (run cfg (init progs) (sched.take k)).sockOpen = false ∧
            (t, .cls) ∈ (run cfg (init progs) (sched.take k)).log ∧
            p ∉ (run cfg (init progs) (sched.take k)).issued) := by
  intro s hfin hlog hheld
  obtain ⟨hc, -, hown, hwf, -, htri, hnd3⟩ :=
    C12.all_sent_or_dropped_after_disconnect_partial cfg progs hnd sched hfin
  have hi := reach_inv cfg progs hnd sched
  have h := reach_hist cfg progs hnd sched
  have hsh := closed_shape h hc hlog hheld
  refine ⟨hsh.1, fun p hp => ?_⟩
  have hchunk : p ∉ sentPkts s.wire → ∀ c, (p, c) ∉ s.wire := by
    intro hns c hcw
    rw [hwf] at hcw
    exact hns (mem_frames _ _ hcw)
  rcases htri p hp with h1 | h1 | h1
  · refine Or.inl ⟨h1, ?_, by grind [List.nodup_append], by grind [List.nodup_append]⟩
    obtain ⟨w₁, w₂, hw⟩ := frames_split _ p h1
    exact ⟨w₁, w₂, by rw [← hw]; exact hwf⟩
  · have hns : p ∉ sentPkts s.wire := by grind [List.nodup_append]
    refine Or.inr (Or.inl ⟨h1, hns, hchunk hns, by grind [List.nodup_append], fun hg => ?_,
      fun hg => ?_⟩)
    · obtain ⟨flush, tail, e1, -, e3, -, e5, -⟩ := closed_graceful hi.wire h hc hlog hheld hg
      refine ⟨flush, tail, e1, e3, ?_⟩
      rw [e5, ← appsOf_append] at h1
      exact (mem_appsOf _ _).mp h1
    · obtain ⟨-, -, -, -, snap, e5, e6, e7⟩ := closed_immediate h hc hlog hheld hg
      rw [e7, List.append_assoc, ← appsOf_append] at h1
      rcases List.mem_append.mp h1 with h2 | h2
      · refine Or.inr ⟨(mem_appsOf _ _).mp (by rw [e5]; exact List.mem_append_right _ h2), ?_⟩
        intro u hu
        have hpop : p ∈ popsOf pre := by rw [← e6]; exact (mem_popsOf _ _).mpr ⟨u, hu⟩
        have hnd' : (appsOf s.log).Nodup := apps_nodup hi.fresh h
        rw [hlog, appsOf_append, e5] at hnd'
        grind [List.nodup_append]
      · exact Or.inl ((mem_appsOf _ _).mp h2)
  · have hns : p ∉ sentPkts s.wire := by grind [List.nodup_append]
    refine Or.inr (Or.inr ⟨h1, hns, hchunk hns, by grind [List.nodup_append], ?_, ?_⟩)
    · intro u hu
      exact (failed_untouched hi.wire h p h1).1 ((mem_appsOf _ _).mpr ⟨u, hu⟩)
    · have hd : Doomed (run cfg (init progs) (sched.take sched.length)) p := by
        rw [List.take_length]; exact Or.inl h1
      obtain ⟨k, -, k1, k2⟩ := doomed_late cfg progs hnd sched p sched.length hd
      refine ⟨k, k1, ?_, k2⟩
      obtain ⟨t', pre', mid', post', -, -, e1, -⟩ := (reach_hist cfg progs hnd (sched.take k)).closed k1
      have hmem : (t', Ev.cls) ∈ (run cfg (init progs) (sched.take k)).log := by rw [e1]; simp
      have hpre : (run cfg (init progs) (sched.take k)).log <+: s.log := by
        have := run_log_prefix cfg (sched.drop k) (run cfg (init progs) (sched.take k))
        rwa [← run_append, List.take_append_drop] at this
      have := closed_cls_unique h hc hlog hheld t' (hpre.subset hmem)
      rw [← this]; exact hmem

/-- `graceful_disconnect_sends_all_queued_before`: the clause as the property states it.  In a
final state, if the disconnect that closes the socket is graceful (`flushes mid`), every packet
appended to the queue before that disconnect acquired the lock (`app p` in `pre`) has a whole frame
on the wire, and is neither in the queue nor failed. -/
theorem graceful_disconnect_sends_all_queued_before (cfg : Cfg) (progs : List (List Op))
    (hnd : (progs.flatMap pktsOf).Nodup) (sched : List Tid) (t : Tid) (pre mid post : Log) :
    let s := run cfg (init progs) sched
    (∀ u, (s.thr u).pc.isDone = true) →
    s.log = pre ++ (t, .acq) :: (mid ++ (t, .cls) :: post) → LockFree mid → flushes mid = true →
      ∀ u p, (u, .app p) ∈ pre →
        p ∈ sentPkts s.wire ∧ (∃ w₁ w₂, s.wire = w₁ ++ [(p, 0), (p, 1)] ++ w₂) ∧
        p ∉ s.queue ∧ p ∉ s.failed := by
  intro s hfin hlog hheld hg u p hu
  obtain ⟨hc, -, -, hwf, -, -, hnd3⟩ :=
    C12.all_sent_or_dropped_after_disconnect_partial cfg progs hnd sched hfin
  have hi := reach_inv cfg progs hnd sched
  have h := reach_hist cfg progs hnd sched
  obtain ⟨flush, tail, -, -, -, -, -, -, e7⟩ := closed_graceful hi.wire h hc hlog hheld hg
  have h1 : p ∈ sentPkts s.wire := by
    apply e7
    rw [appsOf_append]
    exact List.mem_append_left _ ((mem_appsOf _ _).mpr ⟨u, hu⟩)
  obtain ⟨w₁, w₂, hw⟩ := frames_split _ p h1
  exact ⟨h1, ⟨w₁, w₂, by rw [← hw]; exact hwf⟩, by grind [List.nodup_append],
    by grind [List.nodup_append]⟩

/-- `graceful_disconnect_queue_exact`: the exact bookkeeping of a graceful closing disconnect, in
every state in which the socket is closed (in particular every final state).  The critical section
is `mid = flush ++ (t, chk 0) :: tail`, where `chk 0` is the last time anybody looked at the queue
before the close; after it nothing is popped or sent any more (neither in `tail` nor in `post`);
the wire is what had been sent up to that `chk 0` and consists of whole frames; every packet
appended before that `chk 0` is on the wire; and the packets left in the queue are EXACTLY the
packets appended after it, in the order of their `app` events. -/
theorem graceful_disconnect_queue_exact (cfg : Cfg) (progs : List (List Op))
    (hnd : (progs.flatMap pktsOf).Nodup) (sched : List Tid) (t : Tid) (pre mid post : Log) :
    let s := run cfg (init progs) sched
    s.sockOpen = false →
    s.log = pre ++ (t, .acq) :: (mid ++ (t, .cls) :: post) → LockFree mid → flushes mid = true →
      ∃ flush tail, mid = flush ++ (t, .chk 0) :: tail ∧ NoChk tail ∧
        NoMove (tail ++ (t, .cls) :: post) ∧
        s.wire = sndsOf (pre ++ (t, .acq) :: flush) ∧ s.wire = frames (sentPkts s.wire) ∧
        (∀ p ∈ appsOf (pre ++ (t, .acq) :: flush), p ∈ sentPkts s.wire) ∧
        s.queue = appsOf (tail ++ post) := by
  intro s hc hlog hheld hg
  have hi := reach_inv cfg progs hnd sched
  have h := reach_hist cfg progs hnd sched
  obtain ⟨flush, tail, e1, e2, e3, e4, e5, e6, e7⟩ := closed_graceful hi.wire h hc hlog hheld hg
  refine ⟨flush, tail, e1, e3, ?_, e6, closed_wire_frames hi.wire hc, e7, by rw [appsOf_append]; exact e5⟩
  intro e he
  rcases List.mem_append.mp he with h1 | h1
  · exact e2 e h1
  · rcases List.mem_cons.mp h1 with h2 | h2
    · rw [h2]; rfl
    · exact e4 e h2

/-- `immediate_disconnect_sends_nothing_after`: the exact truth about an immediate closing
disconnect, in every state in which the socket is closed (in particular every final state).  From
its `acq` on, NO `snd` and NO `pop` event occurs at all — there is no "completion of an open frame":
the lock can only be acquired when no frame is open, so the wire at the `acq` (`sndsOf pre`) already
consists of whole frames, and it is the final wire.  Every packet popped before the `acq` is framed
on the wire; the queue at the `acq` (`snap`: appended in `pre`, not popped in `pre`) is never
touched again and ends up in the final queue, followed by everything appended later. -/
theorem immediate_disconnect_sends_nothing_after (cfg : Cfg) (progs : List (List Op))
    (hnd : (progs.flatMap pktsOf).Nodup) (sched : List Tid) (t : Tid) (pre mid post : Log) :
    let s := run cfg (init progs) sched
    s.sockOpen = false →
    s.log = pre ++ (t, .acq) :: (mid ++ (t, .cls) :: post) → LockFree mid → flushes mid = false →
      NoMove ((t, .acq) :: (mid ++ (t, .cls) :: post)) ∧
      s.wire = sndsOf pre ∧ sndsOf pre = frames (sentPkts (sndsOf pre)) ∧
      (∀ p ∈ popsOf pre, p ∈ sentPkts s.wire) ∧
      ∃ snap, appsOf pre = popsOf pre ++ snap ∧ s.queue = snap ++ appsOf (mid ++ post) := by
  intro s hc hlog hheld hg
  have hi := reach_inv cfg progs hnd sched
  have h := reach_hist cfg progs hnd sched
  obtain ⟨e1, -, e3, e4, snap, e5, e6, e7⟩ := closed_immediate h hc hlog hheld hg
  refine ⟨?_, e4, by rw [← e4]; exact closed_wire_frames hi.wire hc, ?_, snap, e5,
    by rw [appsOf_append, ← List.append_assoc]; exact e7⟩
  · intro e he
    rcases List.mem_cons.mp he with h1 | h1
    · rw [h1]; rfl
    · rcases List.mem_append.mp h1 with h2 | h2
      · exact e1 e h2
      · rcases List.mem_cons.mp h2 with h3 | h3
        · rw [h3]; rfl
        · exact e3 e h3
  · intro p hp
    exact pops_all_sent h (closed_popped hi.wire hc) p (by rw [e6]; exact hp)

/-! ### Non-vacuity -/

/-- THE EDGE CASE.  Thread 1 queues 1 and disconnects gracefully; thread 2 queues 2 and then forces
3.  In `schedEdge` thread 2 appends packet 2 after thread 1's flush loop has seen the queue empty
(`chk 0`) but BEFORE the `cls`; it then forces 3 after the close. -/
def progsEdge : List (List Op) := [[.queued 1, .disconnect false], [.queued 2, .forced 3]]

def schedEdge : List Tid := [1, 1, 1, 1, 1, 1, 1, 2, 1, 1, 1, 1, 2, 2, 2, 2, 1, 0, 0, 0, 0]

def preEdge : Log := [(1, .app 1)]
def midEdge : Log :=
  [(1, .chk 1), (1, .pop 1), (1, .snd 1 0), (1, .snd 1 1), (1, .chk 0), (2, .app 2), (1, .sti),
   (1, .shut)]
def postEdge : Log :=
  [(1, .rel), (2, .acq), (2, .fail), (2, .rel), (2, .fin), (1, .fin), (0, .rdi true), (0, .acq),
   (0, .rel), (0, .fin)]

example : (progsEdge.flatMap pktsOf).Nodup := by decide

/-- The run is complete (all three threads at `end`, no schedule entry skipped); the log splits as
the theorems require, the closing disconnect is graceful; packet 1 (appended before the `acq`) is
sent; packet 2, appended BEFORE the close (its `app` is in `mid`, not in `post`) but after the last
`chk 0`, is left in the queue — so clause (b) cannot be strengthened to "appended after the close";
packet 3 failed. -/
example :
    let s := run ⟨300, 50⟩ (init progsEdge) schedEdge
    allDoneUpTo s 2 = true ∧ skipped ⟨300, 50⟩ (init progsEdge) schedEdge = 0 ∧
    s.log = preEdge ++ (1, .acq) :: (midEdge ++ (1, .cls) :: postEdge) ∧ LockFree midEdge ∧
    flushes midEdge = true ∧
    midEdge = [(1, .chk 1), (1, .pop 1), (1, .snd 1 0), (1, .snd 1 1)] ++ (1, .chk 0) ::
      [(2, .app 2), (1, .sti), (1, .shut)] ∧
    (2, Ev.app 2) ∈ midEdge ∧ (2, Ev.app 2) ∉ postEdge ∧ s.sockOpen = false ∧
    s.wire = [(1, 0), (1, 1)] ∧ s.queue = [2] ∧ s.failed = [3] := by decide +kernel

/-- All threads other than 0, 1, 2 are finished from the start, so the run above is final in the
sense of the theorems. -/
example : ∀ u, ((run ⟨300, 50⟩ (init progsEdge) schedEdge).thr u).pc.isDone = true :=
  final_of_allDoneUpTo _ progsEdge schedEdge 2 (by decide) (by decide) (by decide +kernel)

/-- The failed forced write 3 was entered after the close: after 12 schedule entries the socket is
closed, the `cls` is logged and 3 has not been issued. -/
example :
    let sk := run ⟨300, 50⟩ (init progsEdge) (schedEdge.take 12)
    sk.sockOpen = false ∧ (1, Ev.cls) ∈ sk.log ∧ 3 ∉ sk.issued := by decide +kernel

/-- The hypothesis of `closer_kind` is satisfiable: after 10 entries thread 1 is about to close. -/
example :
    ((run ⟨300, 50⟩ (init progsEdge) (schedEdge.take 10)).thr 1).pc
      = .user (.dCls ⟨false, [1], [], true⟩) := by decide +kernel

/-- The splitting of the log of `C12.exProgsImm` / `C12.exSchedImm` (thread 1 queues 1, disconnects
immediately, then forces 2; thread 2 queues 3). -/
def preImm : Log := [(1, .app 1), (0, .rdi false), (2, .app 3)]
def midImm : Log := [(2, .fin), (1, .sti), (1, .shut)]
def postImm : Log :=
  [(1, .rel), (0, .acq), (0, .rdi true), (0, .chk 2), (0, .rel), (1, .acq), (0, .rdi true),
   (1, .fail), (0, .rdi true), (1, .rel), (0, .acq), (1, .fin), (0, .rel), (0, .fin)]

/-- An immediate closing disconnect: the run is complete, the log splits, `flushes mid = false`,
nothing is ever sent, and the queue at the `acq` — packet 1, appended BEFORE the `acq`, and packet
3 — is left in the queue.  So for an immediate disconnect "left in the queue ⇒ appended after the
`acq`" is false. -/
example :
    let s := run ⟨300, 50⟩ (init C12.exProgsImm) C12.exSchedImm
    allDoneUpTo s 2 = true ∧ s.sockOpen = false ∧
    s.log = preImm ++ (1, .acq) :: (midImm ++ (1, .cls) :: postImm) ∧ LockFree midImm ∧
    flushes midImm = false ∧ (1, Ev.app 1) ∈ preImm ∧
    s.wire = [] ∧ s.queue = [1, 3] ∧ s.failed = [2] := by decide +kernel

example : ∀ u, ((run ⟨300, 50⟩ (init C12.exProgsImm) C12.exSchedImm).thr u).pc.isDone = true :=
  final_of_allDoneUpTo _ C12.exProgsImm C12.exSchedImm 2 (by decide) (by decide) (by decide +kernel)

/-- The theorems applied to the edge case: packet 2 is in clause (b), and its `app` event is found
after the last `chk 0` of the closing disconnect. -/
example : ∃ flush tail, midEdge = flush ++ (1, .chk 0) :: tail ∧ NoChk tail ∧
    ∃ u, (u, Ev.app 2) ∈ tail ++ postEdge := by
  have hfin := final_of_allDoneUpTo ⟨300, 50⟩ progsEdge schedEdge 2 (by decide) (by decide)
    (by decide +kernel)
  have hlog : (run ⟨300, 50⟩ (init progsEdge) schedEdge).log
      = preEdge ++ (1, .acq) :: (midEdge ++ (1, .cls) :: postEdge) := by decide +kernel
  have hq : 2 ∈ (run ⟨300, 50⟩ (init progsEdge) schedEdge).queue := by decide +kernel
  have hnd : (progsEdge.flatMap pktsOf).Nodup := by decide
  obtain ⟨-, h⟩ := all_sent_or_dropped_after_disconnect ⟨300, 50⟩ progsEdge hnd schedEdge 1
    preEdge midEdge postEdge hfin hlog (by decide)
  rcases h 2 (by decide) with h | h | h
  · exact absurd hq h.2.2.1
  · exact h.2.2.2.2.1 (by decide)
  · exact absurd hq h.2.2.2.1

end PyCraft.C12Final
