import PyCraft.Lemmas.LoginWire
import PyCraft.Props.C10
import PyCraft.Props.C01
/-!
# C10 on the wire — the login switch to encryption/compression, byte by byte

Refines property C10 ("… switches both directions to encrypted immediately after that reply, applies
the announced compression threshold to everything that follows …") from the mode FLAGS recorded in
`ClientState.outbox` (`Props/C10.lean`) to the BYTES the real socket is handed
(`LoginWire.wireBytes`, `Model/LoginWire.lean`) and to what an independent reference server
(`LoginWire.serverRecover`) gets out of them.

Everything is quantified over ALL login parameters `P`, ALL step lists (`exec P .init steps`: every
order/choice of server packets, every placement of the write phases), every zlib, every block
function, every packet-id pair and every segmentation of the byte stream into arrivals.

* client: an outbox entry is framed with the threshold recorded in it (`frame`, C01/C07/C08), the
  two `send` chunks of a frame written while the cipher was on go through ONE CFB8 encryptor
  (register initially = the shared secret, C18) that is carried from frame to frame;
* server: C01's reader (`readPacketK` = `read_packet`), one call per frame with the compression
  flag that was in force for that frame; behind the frame that is the encryption response it
  RSA-decrypts the first byte array with its private key, takes the result as key AND initial
  register of a CFB8 decryptor, and continues on the segments it has not read yet.
  Because the flag is per frame, no splitting of the outbox into runs of equal
  (encrypted, threshold) is needed: `roundtrip_stream`'s per-frame core
  (`parsePacket_packetFrame`) is applied frame by frame, every run boundary being a frame boundary.
  `parts_read_by_readAll` restates the result with C01's whole-stream readers `readAll` /
  `readAllEnc` when each of the two parts has ONE compression mode.

`FrameOK` is C01's VarInt guard (id and the two lengths `< 2^42`).  `P.rsa.matching pk priv` says
the server holds the private key of the public key it sent.

Only property theorems and non-vacuity examples live here; helper lemmas and the concrete example
parameters are in `Lemmas/LoginWire.lean`.
-/
namespace PyCraft.C10Wire
open PyCraft PyCraft.Login PyCraft.LoginWire

/-- The bytes on the wire are: the PLAINTEXT frames of the outbox entries up to AND INCLUDING the
first encryption response, followed by the CFB8 encryption — one continuous stream, register
initially the shared secret — of the frames of ALL later entries; and that cut is exactly the
cut between the entries flagged unencrypted and those flagged encrypted.  If no encryption
response was written everything is plaintext.  For every run, every zlib (no law needed), every
block function. -/
theorem wire_prefix_plain_suffix_cipher (P : LoginParams) (steps : List Step) (z : ZlibOps)
    (E : Bytes → Bytes) (ids : Ids) :
    let outbox := (exec P .init steps).outbox
    let plainPart := (splitAtEncResp outbox).1
    let cipherPart := (splitAtEncResp outbox).2
    wireBytes z E P.secret ids outbox =
        (plainPart.map (frameOfSent z ids)).flatten ++
          (cfb8Enc E P.secret (cipherPart.map (frameOfSent z ids)).flatten).2 ∧
      plainPart ++ cipherPart = outbox ∧
      (∀ f ∈ plainPart, f.encrypted = false) ∧ (∀ f ∈ cipherPart, f.encrypted = true) ∧
      ((∀ f ∈ outbox, isEncResp f.pkt = false) → plainPart = outbox ∧ cipherPart = []) ∧
      ((∃ f ∈ outbox, isEncResp f.pkt = true) →
        ∃ before x, plainPart = before ++ [x] ∧ isEncResp x.pkt = true ∧
          ∀ f ∈ before, isEncResp f.pkt = false) := by
  intro outbox plainPart cipherPart
  have hinv := wireInv_exec P steps
  obtain ⟨f1, f2⟩ := split_flags outbox hinv.sw
  obtain ⟨s1, s2⟩ := split_shape outbox
  refine ⟨wireGo_split z E ids outbox P.secret hinv.sw, splitAtEncResp_append outbox, f1, f2, ?_, ?_⟩
  · intro h; exact s1 (hasEncResp_false outbox h)
  · rintro ⟨f, hf, hfe⟩
    have : hasEncResp outbox = true := List.any_eq_true.mpr ⟨f, hf, hfe⟩
    obtain ⟨before, x, h1, h2, h3⟩ := s2 this
    refine ⟨before, x, h1, h2, ?_⟩
    intro g hg
    simp only [hasEncResp, List.any_eq_false] at h3
    simpa using h3 g hg

/-- The same in the vocabulary of `C10.enc_reply_then_encrypted` (which the proof uses): when the
first encryption request is reached after `pre`, the wire of any continuation is the plaintext
frames of everything written before, then the PLAINTEXT frame of the reply carrying
RSA(secret), RSA(token) (framed with the threshold in force at that moment), then the CFB8
encryption (register = secret) of whatever is written afterwards, as one stream. -/
theorem wire_switch_at_reply (P : LoginParams) (pre post : List Step) (sid : String)
    (pk tok : Bytes) (z : ZlibOps) (E : Bytes → Bytes) (ids : Ids)
    (hpre : ∀ e ∈ events pre, e.isTerminal = false)
    (hfirst : ∀ e ∈ events pre, e.isEncRequest = false) :
    let s0 := exec P .init pre
    let s2 := exec P .init (pre ++ .recv (.encRequest sid pk tok) :: post)
    let reply : ClientPkt := .encResp (P.rsa.enc pk P.secret) (P.rsa.enc pk tok)
    ∃ later, s2.outbox = s0.outbox ++ ⟨reply, false, s0.threshold, true⟩ :: later ∧
      (∀ f ∈ later, f.encrypted = true) ∧
      wireBytes z E P.secret ids s2.outbox =
        (s0.outbox.map (frameOfSent z ids)).flatten ++
          (frame z s0.threshold (payloadOf ids reply) ++
            (cfb8Enc E P.secret (later.map (frameOfSent z ids)).flatten).2) := by
  intro s0 s2 reply
  obtain ⟨h1, -, hplain, -, -, later, hl, hlat⟩ :=
    C10.enc_reply_then_encrypted P pre post sid pk tok hpre
  obtain ⟨he0, hp0⟩ := hplain hfirst
  have hob : s2.outbox = s0.outbox ++ ⟨reply, false, s0.threshold, true⟩ :: later := by
    show (exec P .init (pre ++ .recv (.encRequest sid pk tok) :: post)).outbox = _
    rw [hl, h1, he0, List.append_assoc]; rfl
  refine ⟨later, hob, hlat, ?_⟩
  show (wireGo z E ids P.secret s2.outbox).flatten = _
  rw [hob, wireGo_plain_append z E ids _ _ _ hp0, wireGo_plain_cons z E ids _ _ _ rfl,
    wireGo_enc z E ids later _ hlat]
  rfl

/-- The reference server recovers the outbox.  Let the byte stream `wireBytes` of ANY run arrive in
ANY segmentation at a server that holds the private key of every public key it sent; then the
server — reading plaintext frames, switching to CFB8 decryption (key and register = what RSA gives
it from the encryption response) exactly behind the encryption response, and using for each frame
the compression flag in force for it — delivers exactly `(id, field bytes)` of every outbox entry,
in order: nothing lost, merged, split or reordered across the cipher switch or across a threshold
change; it raises nothing, leaves no byte unread, and the key it ends up with is the client's
secret iff an encryption response was written. -/
theorem server_recovers_outbox (P : LoginParams) (steps : List Step) (z : Zlib)
    (EK : Bytes → Bytes → Bytes) (ids : Ids) (priv : Bytes) (segs : Segs)
    (hids : ids.encResp ≠ ids.plugResp)
    (hkey : ∀ sid pk tok, LoginEv.encRequest sid pk tok ∈ events steps → P.rsa.matching pk priv)
    (hok : ∀ f ∈ (exec P .init steps).outbox, FrameOK z.toZlibOps f.threshold (wirePkt ids f))
    (hseg : segs.flatten =
      wireBytes z.toZlibOps (EK P.secret) P.secret ids (exec P .init steps).outbox) :
    let outbox := (exec P .init steps).outbox
    let r := serverRecover z.toZlibOps EK (P.rsa.dec priv) ids.encResp (modesOf outbox) segs
    r.packets = outbox.map (wirePkt ids) ∧ r.err = none ∧ r.rest = [] ∧
      r.key = if outbox.any (fun f => isEncResp f.pkt) then some P.secret else none := by
  intro outbox r
  have hinv := wireInv_exec P steps
  have hk : ∀ a b, firstEncResp outbox = some (a, b) → P.rsa.dec priv a = P.secret := by
    intro a b hab
    obtain ⟨f, hf, hfp⟩ := firstEncResp_mem outbox a b hab
    obtain ⟨sid, pk, tok, hm, ha, -⟩ := hinv.origin f hf a b hfp
    rw [ha]; exact P.rsa.law pk priv _ (hkey sid pk tok hm)
  have := recvPlain_outbox z EK (P.rsa.dec priv) P.secret ids hids outbox (Sock.plain segs)
    hinv.sw hok hk hseg
  have hr : r = ⟨outbox.map (wirePkt ids), if hasEncResp outbox then some P.secret else none,
      none, []⟩ := this
  rw [hr]; exact ⟨rfl, rfl, rfl, rfl⟩

/-- Key agreement, read off the wire.  When the first encryption request (public key `pk`, token
`tok`) is reached after `pre` and the server holds the matching private key, then in the server's
run on the bytes of any continuation: the packet it delivers at the position of the reply has the
encryption-response id and fields that parse (`VarIntPrefixedByteArray` twice) to two arrays
`a`, `b`; RSA-decrypting `a` gives the client's secret — the very key (and initial register) the
client's encryptor uses in `wireBytes` — and it is the key the server switches to; decrypting `b`
gives back the server's token; and with that key the server delivers the whole outbox. -/
theorem server_key_agreement (P : LoginParams) (pre post : List Step) (sid : String)
    (pk tok priv : Bytes) (z : Zlib) (EK : Bytes → Bytes → Bytes) (ids : Ids) (segs : Segs)
    (hpre : ∀ e ∈ events pre, e.isTerminal = false)
    (hfirst : ∀ e ∈ events pre, e.isEncRequest = false)
    (hm : P.rsa.matching pk priv) (hids : ids.encResp ≠ ids.plugResp)
    (hok : ∀ f ∈ (exec P .init (pre ++ .recv (.encRequest sid pk tok) :: post)).outbox,
      FrameOK z.toZlibOps f.threshold (wirePkt ids f))
    (hseg : segs.flatten = wireBytes z.toZlibOps (EK P.secret) P.secret ids
      (exec P .init (pre ++ .recv (.encRequest sid pk tok) :: post)).outbox) :
    let s0 := exec P .init pre
    let s2 := exec P .init (pre ++ .recv (.encRequest sid pk tok) :: post)
    let r := serverRecover z.toZlibOps EK (P.rsa.dec priv) ids.encResp (modesOf s2.outbox) segs
    ∃ fields a b, r.packets[s0.outbox.length]? = some (ids.encResp, fields) ∧
      decodeEncResp fields = .ok (a, b) ∧
      a = P.rsa.enc pk P.secret ∧ b = P.rsa.enc pk tok ∧
      P.rsa.dec priv a = P.secret ∧ P.rsa.dec priv b = tok ∧
      r.key = some (P.rsa.dec priv a) ∧
      r.packets = s2.outbox.map (wirePkt ids) ∧ r.err = none ∧ r.rest = [] := by
  intro s0 s2 r
  obtain ⟨later, hob, -, -⟩ :=
    wire_switch_at_reply P pre post sid pk tok z.toZlibOps (EK P.secret) ids hpre hfirst
  have hob : s2.outbox = s0.outbox ++
      ⟨.encResp (P.rsa.enc pk P.secret) (P.rsa.enc pk tok), false, s0.threshold, true⟩ :: later :=
    hob
  have hinv2 := wireInv_exec P (pre ++ .recv (.encRequest sid pk tok) :: post)
  have hinv0 := wireInv_exec P pre
  have he0 : s0.encrypted = false := (exec_plain P .init pre hfirst).1
  have hno : hasEncResp s0.outbox = false := by rw [← hinv0.enc]; exact he0
  have hfst : firstEncResp s2.outbox = some (P.rsa.enc pk P.secret, P.rsa.enc pk tok) := by
    rw [hob]; exact firstEncResp_append _ _ _ _ _ hno rfl
  have hsec := P.rsa.law pk priv P.secret hm
  have htok := P.rsa.law pk priv tok hm
  have hk : ∀ a b, firstEncResp s2.outbox = some (a, b) → P.rsa.dec priv a = P.secret := by
    intro a b hab
    rw [hfst] at hab
    simp only [Option.some.injEq, Prod.mk.injEq] at hab
    rw [← hab.1]; exact hsec
  have hrun := recvPlain_outbox z EK (P.rsa.dec priv) P.secret ids hids s2.outbox
    (Sock.plain segs) hinv2.sw hok hk hseg
  have hr : r = ⟨s2.outbox.map (wirePkt ids), if hasEncResp s2.outbox then some P.secret else none,
      none, []⟩ := hrun
  have hhas : hasEncResp s2.outbox = true := by rw [hasEncResp_iff_first, hfst]; rfl
  have hreply : FrameOK z.toZlibOps s0.threshold
      (ids.encResp, fieldsOf (.encResp (P.rsa.enc pk P.secret) (P.rsa.enc pk tok))) :=
    hok ⟨.encResp (P.rsa.enc pk P.secret) (P.rsa.enc pk tok), false, s0.threshold, true⟩
      (by rw [hob]; simp)
  obtain ⟨ha, hb⟩ := frameOK_encResp _ _ _ _ _ hreply
  refine ⟨fieldsOf (.encResp (P.rsa.enc pk P.secret) (P.rsa.enc pk tok)), P.rsa.enc pk P.secret,
    P.rsa.enc pk tok, ?_, decodeEncResp_fields _ _ ha hb, rfl, rfl, hsec, htok, ?_, ?_, ?_, ?_⟩
  · rw [hr]
    show (s2.outbox.map (wirePkt ids))[s0.outbox.length]? = _
    rw [hob, List.map_append, List.getElem?_append_right (by simp)]
    simp [wirePkt, pktId]
  · rw [hr, hsec]; simp [hhas]
  · rw [hr]
  · rw [hr]
  · rw [hr]

/-- Every packet the reactor writes has a shape `write_fields` accepts (a successful plugin
response always carries data), so `fieldsOf`/`wireBytes` never describe a write that would have
raised. -/
theorem outbox_packets_writable (P : LoginParams) (steps : List Step) :
    (∀ f ∈ (exec P .init steps).outbox, writable f.pkt = true) ∧
      ∀ p ∈ (exec P .init steps).queue, writable p = true :=
  ⟨(wireInv_exec P steps).wr, fun p hp => ((wireInv_exec P steps).queue p hp).2⟩

/-- With C01's whole-stream readers.  If every frame up to and including the encryption response
was written under one threshold `t1` and every later frame under one threshold `t2` (e.g. the
usual order "encryption, then set-compression before anything else is written"; any `t1`, `t2`),
cut the wire behind the plaintext frames: `readAll` (compression on iff `t1` is set) on ANY
segmentation of the first part delivers exactly the plaintext entries and then end-of-stream, and
`readAllEnc` through the CFB8 decryptor with register = secret (compression on iff `t2` is set) on
ANY segmentation of the second part delivers exactly the remaining entries and then
end-of-stream.  (`C01.roundtrip_stream` / `C01.roundtrip_encrypted` applied to the two parts; the
boundary between the parts is a frame boundary.) -/
theorem parts_read_by_readAll (P : LoginParams) (steps : List Step) (z : Zlib)
    (E : Bytes → Bytes) (ids : Ids) (t1 t2 : Option Int) (segs1 segs2 : Segs)
    (hok : ∀ f ∈ (exec P .init steps).outbox, FrameOK z.toZlibOps f.threshold (wirePkt ids f))
    (ht1 : ∀ f ∈ (splitAtEncResp (exec P .init steps).outbox).1, f.threshold = t1)
    (ht2 : ∀ f ∈ (splitAtEncResp (exec P .init steps).outbox).2, f.threshold = t2)
    (hs1 : segs1.flatten = (wireBytes z.toZlibOps E P.secret ids (exec P .init steps).outbox).take
      (((splitAtEncResp (exec P .init steps).outbox).1.map
        (frameOfSent z.toZlibOps ids)).flatten.length))
    (hs2 : segs2.flatten = (wireBytes z.toZlibOps E P.secret ids (exec P .init steps).outbox).drop
      (((splitAtEncResp (exec P .init steps).outbox).1.map
        (frameOfSent z.toZlibOps ids)).flatten.length)) :
    readAll z.toZlibOps t1.isSome segs1 =
        ((splitAtEncResp (exec P .init steps).outbox).1.map (wirePkt ids), .eof) ∧
      readAllEnc (cfb8DecX E) P.secret z.toZlibOps t2.isSome segs2 =
        ((splitAtEncResp (exec P .init steps).outbox).2.map (wirePkt ids), .eof) := by
  obtain ⟨hw, happ, -, -, -, -⟩ := wire_prefix_plain_suffix_cipher P steps z.toZlibOps E ids
  have hw' : wireBytes z.toZlibOps E P.secret ids (exec P .init steps).outbox =
      ((splitAtEncResp (exec P .init steps).outbox).1.map (frameOfSent z.toZlibOps ids)).flatten ++
        (cfb8Enc E P.secret ((splitAtEncResp (exec P .init steps).outbox).2.map
          (frameOfSent z.toZlibOps ids)).flatten).2 := hw
  have happ' : (splitAtEncResp (exec P .init steps).outbox).1 ++
      (splitAtEncResp (exec P .init steps).outbox).2 = (exec P .init steps).outbox := happ
  generalize (splitAtEncResp (exec P .init steps).outbox).1 = pl at *
  generalize (splitAtEncResp (exec P .init steps).outbox).2 = ci at *
  rw [hw', List.take_left] at hs1
  rw [hw', List.drop_left] at hs2
  have hfr : ∀ (l : List Sent) (t : Option Int), (∀ f ∈ l, f.threshold = t) →
      l.map (frameOfSent z.toZlibOps ids) =
        (l.map (wirePkt ids)).map (packetFrame z.toZlibOps t) := by
    intro l t ht
    rw [List.map_map]
    apply List.map_congr_left
    intro f hf
    show frameOfSent z.toZlibOps ids f = packetFrame z.toZlibOps t (wirePkt ids f)
    rw [frameOfSent_eq, ht f hf]
  have hokl : ∀ (l : List Sent) (t : Option Int), (∀ f ∈ l, f.threshold = t) →
      (∀ f ∈ l, f ∈ (exec P .init steps).outbox) →
      ∀ p ∈ l.map (wirePkt ids), FrameOK z.toZlibOps t p := by
    intro l t ht hsub p hp
    obtain ⟨f, hf, rfl⟩ := List.mem_map.mp hp
    rw [← ht f hf]; exact hok f (hsub f hf)
  constructor
  · apply C01.roundtrip_stream z t1 _ (hokl pl t1 ht1 fun f hf => by rw [← happ']; simp [hf])
    rw [hs1, hfr pl t1 ht1]
  · apply C01.roundtrip_encrypted (cfb8Pair E) P.secret z t2 _
      (hokl ci t2 ht2 fun f hf => by rw [← happ']; simp [hf])
      [(ci.map (frameOfSent z.toZlibOps ids)).flatten]
    · rw [hfr ci t2 ht2]; simp
    · rw [hs2]
      simp only [encSends, List.flatten_cons, List.flatten_nil, List.append_nil]
      rfl

/-- Negative witness: the statement is sensitive to the switch point.  On the concrete run
"compress 64 → encrypt → plugin request → success" (store-only zlib, a toy block function) the
reference server recovers the outbox from the client's wire — but had the client installed the
cipher ONE FRAME EARLIER (the encryption response itself written through the wrapper,
`earlySwitch`) or ONE FRAME LATER (the plugin response still in plaintext, `lateSwitch`), the
same server would not: it delivers something else and stops with an exception. -/
theorem wrong_switch_point_detected :
    let outbox := (runLogin demoParams 1 demoScript).outbox
    let want := outbox.map (wirePkt demoIds)
    (demoServer (modesOf outbox) [demoWire outbox]).packets = want ∧
      (demoServer (modesOf outbox) [demoWire outbox]).err = none ∧
      (demoServer (modesOf outbox) [demoWire (earlySwitch outbox)]).packets ≠ want ∧
      (demoServer (modesOf outbox) [demoWire (earlySwitch outbox)]).err ≠ none ∧
      (demoServer (modesOf outbox) [demoWire (lateSwitch outbox)]).packets ≠ want ∧
      (demoServer (modesOf outbox) [demoWire (lateSwitch outbox)]).err ≠ none := by
  decide +kernel

/-! ### Non-vacuity: concrete runs (kernel-evaluated) -/

/-- compress 64 → encrypt → plugin request → success: the outbox, … -/
example : (runLogin demoParams 1 demoScript).outbox =
    [⟨.encResp [7, 1, 2, 3] [7, 9], false, some 64, true⟩,
     ⟨.plugResp 5 false none, true, some 64, false⟩] := by decide +kernel

/-- … its wire: `0a | 00 | 01 | 04 07010203 | 02 0709` is the PLAINTEXT compressed-format frame of
the encryption response (length 10, data-length 0 = not compressed, id 1, the two prefixed
arrays); the rest is the CFB8 encryption (register = secret) of the frame `04 | 00 | 02 | 05 00`
of the plugin response (length 4, data-length 0, id 2, message id 5, successful = false), … -/
example : demoWire (runLogin demoParams 1 demoScript).outbox =
    [0x0a, 0x00, 0x01, 0x04, 0x07, 0x01, 0x02, 0x03, 0x02, 0x07, 0x09] ++
      (cfb8Enc (toyEK [1, 2, 3]) [1, 2, 3] [0x04, 0x00, 0x02, 0x05, 0x00]).2 := by decide +kernel

/-- … and what the server gets from it, the ciphertext arriving byte by byte. -/
example :
    demoServer [true, true]
      ([[0x0a, 0x00, 0x01], [0x04, 0x07, 0x01, 0x02, 0x03, 0x02, 0x07, 0x09]] ++
        ((cfb8Enc (toyEK [1, 2, 3]) [1, 2, 3] [0x04, 0x00, 0x02, 0x05, 0x00]).2.map fun b => [b])) =
    { packets := [(1, [4, 7, 1, 2, 3, 2, 7, 9]), (2, [5, 0])], key := some [1, 2, 3], err := none,
      rest := [] } := by decide +kernel

/-- A run in one batch with a plugin request BEFORE the encryption request (the forced reply
overtakes the queued answer), a threshold set after the switch and a compressed-framed frame:
three different (encrypted, threshold) modes in one outbox. -/
example : (runLogin demoParams 50 demoScript2).outbox =
    [⟨.encResp [7, 1, 2, 3] [7, 9], false, none, true⟩,
     ⟨.plugResp 300 false none, true, some 1, false⟩,
     ⟨.plugResp 5 false none, true, some 1, false⟩] := by decide +kernel

/-- The hypotheses of `server_recovers_outbox` are satisfiable by that run (distinct ids, matching
keys, VarInt guard, a segmentation into three arrivals cutting through frames and through the
cipher switch), and its conclusion evaluated by the kernel. -/
example :
    let outbox := (runLogin demoParams 50 demoScript2).outbox
    let w := demoWire outbox
    (demoServer (modesOf outbox) [w.take 3, w.drop 3 |>.take 9, w.drop 12]).packets =
      outbox.map (wirePkt demoIds) :=
  (server_recovers_outbox demoParams (schedule 50 demoScript2) Zlib.ident toyEK demoIds []
    _ (by decide) (fun _ _ _ _ => trivial) (by decide +kernel) (by decide +kernel)).1

example :
    (demoServer (modesOf (runLogin demoParams 50 demoScript2).outbox)
      [demoWire (runLogin demoParams 50 demoScript2).outbox]) =
    { packets := [(1, [4, 7, 1, 2, 3, 2, 7, 9]), (2, [0xac, 0x02, 0]), (2, [5, 0])],
      key := some [1, 2, 3], err := none, rest := [] } := by decide +kernel

/-- Hypotheses of `wire_switch_at_reply` / `server_key_agreement`: a prefix without terminal event
and without encryption request that nevertheless writes a frame. -/
example : (∀ e ∈ events [.recv (.pluginRequest 300 "a" []), .flush, .recv (.setCompression 1)],
      e.isTerminal = false) ∧
    (∀ e ∈ events [.recv (.pluginRequest 300 "a" []), .flush, .recv (.setCompression 1)],
      e.isEncRequest = false) ∧
    (exec demoParams .init
      [.recv (.pluginRequest 300 "a" []), .flush, .recv (.setCompression 1)]).outbox.length = 1 := by
  decide +kernel

/-- Hypotheses of `parts_read_by_readAll`: in the first demo run each part has one threshold. -/
example :
    (∀ f ∈ (splitAtEncResp (runLogin demoParams 1 demoScript).outbox).1, f.threshold = some 64) ∧
    (∀ f ∈ (splitAtEncResp (runLogin demoParams 1 demoScript).outbox).2, f.threshold = some 64) ∧
    (splitAtEncResp (runLogin demoParams 1 demoScript).outbox).2 ≠ [] := by decide +kernel

/-- The VarInt guard holds for the demo outbox. -/
example : ∀ f ∈ (runLogin demoParams 1 demoScript).outbox,
    FrameOK Zlib.ident.toZlibOps f.threshold (wirePkt demoIds f) := by decide +kernel

end PyCraft.C10Wire
