import PyCraft.Props.C01BufferFrame
import PyCraft.Model.Frame
/-!
# C01 (extension) — `read_packet` over the REAL buffer refines the frame model

`Model/Frame.lean` keeps the frame body in a byte list (`readMoreK`, `parseBody`).  Here the same
steps are written against the `PacketBuffer` model (`Model/PacketBuffer.lean`: one shared cursor,
overwriting writes) exactly as `PacketReactor.read_packet` issues them, and proved equal to the
byte-list versions — so every theorem of `Props/C01` about `readPacketK` is a theorem about the
reader that uses the real buffer.
-/
namespace PyCraft.C01BufferRefine
open PyCraft PyCraft.PBuf

/-- A `send` with the cursor at the end appends and leaves the cursor at the end. -/
theorem send_at_end (s : St) (v : Bytes) (h : s.pos = s.buf.length) :
    (step s (.send v)).1 = ⟨s.buf ++ v, s.buf.length + v.length⟩ := by
  simp [step, h]

theorem send_at_end_pos (s : St) (v : Bytes) (h : s.pos = s.buf.length) :
    (step s (.send v)).1.pos = (step s (.send v)).1.buf.length := by
  rw [send_at_end s v h]; simp

/-- The reassembly loop of `read_packet` over the real buffer:
`while len(packet_data.get_writable()) < length: data = stream.read(length - len(…)); if not data:
raise EOFError; packet_data.send(data)`.  Its termination NEEDS the cursor-at-end invariant `h`:
with the cursor elsewhere a `send` overwrites, `get_writable` need not grow, and the loop could spin. -/
def readMoreBuf {σ : Type} (x : StreamXform σ) (length : Nat) (s : St) (h : s.pos = s.buf.length)
    (k : Sock σ) : Except Err St × Sock σ :=
  if _h : s.buf.length < length then
    let r := k.read x (length - s.buf.length)
    if _hr : r.1 = [] then (.error .eof, r.2)
    else readMoreBuf x length (step s (.send r.1)).1 (send_at_end_pos s r.1 h) r.2
  else (.ok s, k)
termination_by length - s.buf.length
decreasing_by
  have : 0 < (k.read x (length - s.buf.length)).1.length := List.length_pos_iff.mpr _hr
  rw [send_at_end s _ h]
  simp only [List.length_append]
  omega

/-- The loop over the real buffer computes what the byte-list loop computes, and ends with the
cursor at the end of exactly those bytes. -/
theorem readMoreBuf_refines {σ : Type} (x : StreamXform σ) (length : Nat) :
    ∀ (n : Nat) (s : St) (h : s.pos = s.buf.length) (k : Sock σ), length - s.buf.length = n →
      readMoreBuf x length s h k =
        (match (readMoreK x length s.buf k).1 with
          | .ok d => .ok ⟨d, d.length⟩
          | .error e => .error e, (readMoreK x length s.buf k).2) := by
  intro n
  induction n using Nat.strongRecOn with
  | _ n ih =>
    intro s h k hn
    rw [readMoreBuf, readMoreK]
    by_cases hl : s.buf.length < length
    · simp only [hl, dite_true]
      by_cases hr : (k.read x (length - s.buf.length)).1 = []
      · simp [hr]
      · simp only [hr, dite_false]
        have hpos : 0 < (k.read x (length - s.buf.length)).1.length := List.length_pos_iff.mpr hr
        have e := send_at_end s (k.read x (length - s.buf.length)).1 h
        have := ih (length - (step s (.send (k.read x (length - s.buf.length)).1)).1.buf.length)
          (by rw [e]; simp only [List.length_append]; omega)
          (step s (.send (k.read x (length - s.buf.length)).1)).1
          (send_at_end_pos s _ h) (k.read x (length - s.buf.length)).2 rfl
        rw [this, e]
    · simp only [hl, dite_false]
      cases s with
      | mk buf pos => simp at h; simp [h]

/-- `VarInt.read(packet_data)`: ONE byte per `read(1)` on the buffer. -/
def decVarIntBuf (mx : Nat) (be acc : Nat) (s : St) : Except Err Nat × St :=
  let r := step s (.read (some 1))
  match r.2 with
  | some (b :: _) =>
    let acc' := acc ||| ((b.toNat &&& 0x7F) <<< (7 * be))
    if b.toNat &&& 0x80 = 0 then (.ok acc', r.1)
    else if _h : be + 1 > mx then (.error .tooLong, r.1)
    else decVarIntBuf mx (be + 1) acc' r.1
  | _ => (.error .eof, r.1)
termination_by mx + 1 - be
decreasing_by omega

/-- Reading a VarInt from the real buffer = the byte-list decoder on what lies after the cursor; on
success the cursor stands right behind the terminating byte and the contents are untouched. -/
theorem decVarIntBuf_refines (mx : Nat) : ∀ (m be acc : Nat) (s : St), mx + 1 - be = m →
    match decVarIntAux mx be acc (s.buf.drop s.pos) with
    | .ok (v, rest) => ∃ s', decVarIntBuf mx be acc s = (.ok v, s') ∧ s'.buf = s.buf ∧
        s.buf.drop s'.pos = rest
    | .error e => (decVarIntBuf mx be acc s).1 = .error e := by
  intro m
  induction m using Nat.strongRecOn with
  | _ m ih =>
    intro be acc s hm
    rw [decVarIntBuf]
    cases hd : s.buf.drop s.pos with
    | nil => simp [decVarIntAux, step, hd]
    | cons b rest =>
      have hdrop : s.buf.drop (s.pos + 1) = rest := by
        rw [← List.drop_drop, hd]; rfl
      simp only [decVarIntAux, step, hd, List.take_succ_cons, List.take_zero, List.length_cons,
        List.length_nil, Nat.zero_add]
      by_cases h0 : b.toNat &&& 0x80 = 0
      · simp only [h0, if_true]
        exact ⟨_, rfl, rfl, hdrop⟩
      · simp only [h0, if_false]
        by_cases hmx : be + 1 > mx
        · simp [hmx]
        · simp only [hmx, dite_false, if_false]
          have := ih (mx + 1 - (be + 1)) (by omega) (be + 1)
            (acc ||| ((b.toNat &&& 0x7F) <<< (7 * be))) ⟨s.buf, s.pos + 1⟩ rfl
          simp only [hdrop] at this
          exact this

/-- The last stage of `read_packet`: `packet_id = VarInt.read(packet_data)`; what `packet.read`
(or nobody, for an unknown id) then finds after the cursor is `packet_data.read()`. -/
def idStage (s : St) : Except Err (Nat × Bytes) :=
  match decVarIntBuf 5 0 0 s with
  | (.error e, _) => .error e
  | (.ok id, s3) =>
    match (step s3 (.read none)).2 with
    | some rest => .ok (id, rest)
    | none => .error .eof          -- unreachable: `read()` always returns a byte string

theorem idStage_refines (s : St) : idStage s = decVarInt 5 (s.buf.drop s.pos) := by
  have h := decVarIntBuf_refines 5 6 0 0 s rfl
  unfold idStage decVarInt
  cases hd : decVarIntAux 5 0 0 (s.buf.drop s.pos) with
  | error e =>
    rw [hd] at h
    rcases hb : decVarIntBuf 5 0 0 s with ⟨r, s1⟩
    rw [hb] at h
    simp only at h
    subst h
    rfl
  | ok p =>
    obtain ⟨v, rest⟩ := p
    rw [hd] at h
    obtain ⟨s', h1, h2, h3⟩ := h
    rw [h1]
    simp only [step, h2, h3]

/-- `read_packet` after the reassembly loop, over the real buffer: `reset_cursor()`, and when
compression is enabled `VarInt.read`, `read()`, inflate, the size assertion, `reset()`,
`send(decompressed)`, `reset_cursor()`; then the id stage. -/
def parseBodyBuf (z : ZlibOps) (compressed : Bool) (s0 : St) : Except Err (Nat × Bytes) :=
  let s := (step s0 .rewind).1
  let inner : Except Err St :=
    if compressed then
      match decVarIntBuf 5 0 0 s with
      | (.error e, _) => .error e
      | (.ok dataLength, s1) =>
        if dataLength > 0 then
          let r := step s1 (.read none)
          match r.2 with
          | none => .error .eof      -- unreachable
          | some rest =>
            match z.inflate rest with
            | none => .error .zlib
            | some d =>
              if d.length = dataLength then
                .ok (step (step (step r.1 .reset).1 (.send d)).1 .rewind).1
              else .error .assertion
        else .ok s1
    else .ok s
  match inner with
  | .error e => .error e
  | .ok s2 => idStage s2

/-- The reader over the real buffer computes exactly `Frame.parseBody` of the buffer's contents,
wherever the cursor was left by the reassembly loop. -/
theorem parseBodyBuf_refines (z : ZlibOps) (compressed : Bool) (data : Bytes) (p : Nat) :
    parseBodyBuf z compressed ⟨data, p⟩ = parseBody z compressed data := by
  unfold parseBodyBuf parseBody
  cases compressed with
  | false => simp [step, idStage_refines]
  | true =>
    have h := decVarIntBuf_refines 5 6 0 0 ⟨data, 0⟩ rfl
    simp only [List.drop_zero] at h
    simp only [step, if_true, decVarInt]
    cases hd : decVarIntAux 5 0 0 data with
    | error e =>
      rw [hd] at h
      rcases hb : decVarIntBuf 5 0 0 ⟨data, 0⟩ with ⟨r, s1⟩
      rw [hb] at h
      simp only at h
      subst h
      rfl
    | ok q =>
      obtain ⟨v, rest⟩ := q
      rw [hd] at h
      obtain ⟨s', h1, h2, h3⟩ := h
      rw [h1]
      simp only [h2, h3]
      by_cases hv : v > 0
      · simp only [hv, if_true]
        cases z.inflate rest with
        | none => rfl
        | some d =>
          simp only
          by_cases hl : d.length = v
          · simp only [hl, if_true]
            rw [idStage_refines]
            simp [init, decVarInt]
          · simp only [hl, if_false]
      · simp only [hv, if_false]
        rw [idStage_refines, h2, h3]
        rfl

/-- The whole of `read_packet` over the real buffer (`PacketBuffer()`, `send(stream.read(length))`,
reassembly loop, then the parsing stages). -/
def readPacketBuf {σ : Type} (x : StreamXform σ) (z : ZlibOps) (compressed : Bool) (k : Sock σ) :
    Except Err (Nat × Bytes) × Sock σ :=
  match readVarIntK x 5 0 0 k with
  | (.error e, k) => (.error e, k)
  | (.ok length, k) =>
    let r := k.read x length
    match readMoreBuf x length (step init (.send r.1)).1 (send_at_end_pos init r.1 rfl) r.2 with
    | (.error e, k) => (.error e, k)
    | (.ok s, k) => (parseBodyBuf z compressed s, k)

/-- … IS the reader of the frame model: every theorem of `Props/C01` about `readPacketK` (round
trip, segmentation invariance, encryption, bounded reads) holds for the reader that keeps the frame
in the real buffer. -/
theorem readPacketBuf_eq {σ : Type} (x : StreamXform σ) (z : ZlibOps) (compressed : Bool)
    (k : Sock σ) : readPacketBuf x z compressed k = readPacketK x z compressed k := by
  unfold readPacketBuf readPacketK readFrameK
  rcases hv : readVarIntK x 5 0 0 k with ⟨r, k1⟩
  cases r with
  | error e => rfl
  | ok length =>
    simp only
    rw [readMoreBuf_refines x length _ _ _ _ rfl]
    have e0 : (step init (.send (k1.read x length).1)).1.buf = (k1.read x length).1 := by
      simp [step, init]
    rw [e0]
    rcases hm : readMoreK x length (k1.read x length).1 (k1.read x length).2 with ⟨rm, k2⟩
    cases rm with
    | error e => rfl
    | ok d => simp only; rw [parseBodyBuf_refines]

/-- As functions. -/
theorem readPacketBuf_is_readPacketK {σ : Type} :
    @readPacketBuf σ = @readPacketK σ := by
  funext x z c k; exact readPacketBuf_eq x z c k

-- non-vacuity: a compressed frame arriving in four segments, read through the real buffer
example : (readPacketBuf idXform Zlib.ident.toZlibOps true
      (Sock.plain [[0x04], [0x03, 0x05], [0x61], [0x62, 0x02, 0x00]])).1 = .ok (5, [0x61, 0x62]) := by
  decide +kernel
example : (readPacketBuf idXform Zlib.ident.toZlibOps false (Sock.plain [[0x03, 0x05], [0x61]])).1
    = .error .eof := by decide +kernel
example : parseBodyBuf Zlib.ident.toZlibOps true ⟨[0x03, 0x05, 0x61], 3⟩ = .error .assertion := by
  decide +kernel

end PyCraft.C01BufferRefine
