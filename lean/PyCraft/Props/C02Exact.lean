import PyCraft.Lemmas.C02Exact
import PyCraft.Lemmas.C02ExactFloat
import PyCraft.Lemmas.C02ExactDiv
import PyCraft.Generated.WireFormats
import PyCraft.Generated.Layouts
/-!
# C02 (exactness) — fixed point, UUID and float prescriptions at the level of PYTHON values

`Props/C02.lean` proves the byte layer: there the value of `.fixed base bits` is already the wire
integer (and `encode`/`decode` ignore `bits`), the value of `.uuid` is already the 16 bytes, and the
value of `.int .f32/.f64` is already the bit pattern.  This file closes that gap (audit rank 21):

* **FixedPoint**: one object, one `bits`: what `FixedPoint(base, bits).send` puts on the wire for the
  value `p/q`, and what `.read` returns, with the SAME `bits` on both sides — `read` is Python's
  `int / int`, a FLOAT: the binary64 nearest to `raw / 2^bits` (ties to even), which is `raw / 2^bits`
  itself for every base type of at most 32 bits and, for the 64-bit ones, whenever that quotient is a
  binary64; `FixedPointInteger`; the `(base, bits)` pairs used by the library's packets.
* **UUID**: text ↔ 16 bytes (`uuid.UUID(text).bytes`, `str(uuid.UUID(bytes=…))`).
* **Float / Double**: a Python float is a binary64 (its pattern `x`); `Double` stores it, `Float`
  rounds it to the NEAREST binary32 (ties to even), `OverflowError` exactly from `2^128 - 2^103` on.
* **live probes** (`Generated/WireFormats.lean`, regenerated from `/repo` on every run): the class →
  format map and all of the above, compared with the live code by `decide +kernel`.

Models: `Model/C02Exact.lean`; helper lemmas: `Lemmas/C02Exact.lean`, `Lemmas/C02ExactFloat.lean`,
`Lemmas/C02ExactDiv.lean`.
Magnitudes of floats are naturals in units of `2^-1074` (`f64Mag`; a binary32 magnitude `f32Mag` is
in units of `2^-149 = 2^925` such units).
-/
set_option exponentiation.threshold 2200

namespace PyCraft.C02Exact
open PyCraft PyCraft.C02X

/-! ## FixedPoint -/

/-- **Fixed point, one `bits` on both sides.**  For the object `FixedPoint(base, bits)` and the finite
float value `p/q` (`q > 0`), let `w = int(p/q · 2^bits)`:
* `w` is the truncation toward zero of `value · 2^bits` — characterised without the code:
  `|w − value·2^bits| < 1` (cross-multiplied by `q`), `w` has the sign of the value and never exceeds
  it in magnitude;
* if `w` fits the base integer type, `send` writes exactly `width` bytes whose big-endian value is
  `w mod 256^width` (two's complement), and `read` of those bytes followed by anything leaves the rest
  and returns a Python FLOAT `x` (binary64 pattern) that is finite, negative exactly when `w` is, and
  - is a binary64 NEAREST to `w / 2^bits` — the SAME `bits` —: no binary64 magnitude `m'` whatsoever
    is closer to `|w| / 2^bits` (magnitudes in units of `2^-1074`, cross-multiplied by `2^bits`), and
    if a different one is equally close, `x` is the one with even significand (roundTiesToEven);
  - IS `w / 2^bits` exactly whenever the base type has at most 32 bits, and for the 64-bit types
    whenever `|w| < 2^53` (`bits ≤ 1074`, so that the quotient is not below the subnormal spacing);
    then the value read back is within one quantum `2^-bits` of the value sent (first item).
  For a 64-bit base and `|w| ≥ 2^53` the float is exact iff `w / 2^bits` is a binary64 (by the nearest
  clause: distance 0 cannot be beaten); otherwise it is off by at most half a unit in the 53rd place;
* otherwise `send` raises: `struct.error` (never a wrapped value) while `|value · 2^bits| < 2^1024`,
  and `OverflowError` from there on (the float product is `inf`). -/
theorem fixed_same_bits (cc : CustomCodec) (base : IntT) (bits : Nat) (p q : Int) (hq : 0 < q)
    (rest : Bytes) :
    let fp := FixedPointT.init base bits
    let w := Int.tdiv (p * 2 ^ bits) q
    let overflow := (2 : Int) ^ 1024 * q ≤ p * 2 ^ bits ∨ (2 : Int) ^ 1024 * q ≤ -(p * 2 ^ bits)
    ((-q < w * q - p * 2 ^ bits ∧ w * q - p * 2 ^ bits < q) ∧
      (0 ≤ p → 0 ≤ w ∧ w * q ≤ p * 2 ^ bits) ∧ (p ≤ 0 → w ≤ 0 ∧ p * 2 ^ bits ≤ w * q)) ∧
    (base.inDom w → ∃ bs x, fp.send cc p q = .ok bs ∧ bs.length = base.width ∧
        (beValue bs : Int) = w % (256 : Int) ^ base.width ∧
        fp.read cc (bs ++ rest) = .ok (x, rest) ∧
        x < 2 ^ 64 ∧ x % 2 ^ 63 / 2 ^ 52 ≠ 2047 ∧ (x / 2 ^ 63 = 1 ↔ w < 0) ∧
        (∀ m', absDiff (f64Mag (x % 2 ^ 63) * 2 ^ bits) (w.natAbs * 2 ^ 1074)
                ≤ absDiff (f64Mag m' * 2 ^ bits) (w.natAbs * 2 ^ 1074) ∧
          (absDiff (f64Mag (x % 2 ^ 63) * 2 ^ bits) (w.natAbs * 2 ^ 1074)
                = absDiff (f64Mag m' * 2 ^ bits) (w.natAbs * 2 ^ 1074) →
            f64Mag m' ≠ f64Mag (x % 2 ^ 63) → x % 2 = 0)) ∧
        ((base.width ≤ 4 ∨ w.natAbs < 2 ^ 53) → bits ≤ 1074 →
          f64Mag (x % 2 ^ 63) * 2 ^ bits = w.natAbs * 2 ^ 1074)) ∧
    (¬ base.inDom w → ¬ overflow → fp.send cc p q = .error .struct) ∧
    (overflow → ¬ base.inDom w ∧ fp.send cc p q = .error .other) := by
  dsimp only
  generalize hw : Int.tdiv (p * 2 ^ bits) q = w
  have hpow : (0 : Int) < 2 ^ bits := Int.pow_pos (by omega)
  obtain ⟨f1, f2⟩ := fixed_tdiv (p * 2 ^ bits) q hq
  rw [hw] at f1 f2
  have hsend : ¬ ((2 : Int) ^ 1024 * q ≤ p * 2 ^ bits ∨ (2 : Int) ^ 1024 * q ≤ -(p * 2 ^ bits)) →
      (FixedPointT.init base bits).send cc p q = base.pack w := by
    intro h
    rw [fixed_send_eq cc base bits p q h, ← hw]; rfl
  -- a wire integer that fits 64 bits means no float overflow
  have hfit : base.inDom w →
      ¬ ((2 : Int) ^ 1024 * q ≤ p * 2 ^ bits ∨ (2 : Int) ^ 1024 * q ≤ -(p * 2 ^ bits)) := by
    intro hd
    obtain ⟨b1, b2⟩ := IntT.inDom_bound base w hd
    have m1 : w * q ≤ 2 ^ 64 * q := Int.mul_le_mul_of_nonneg_right b2 (by omega)
    have m2 : -(2 : Int) ^ 64 * q ≤ w * q := Int.mul_le_mul_of_nonneg_right b1 (by omega)
    rcases Int.le_total 0 (p * 2 ^ bits) with hp | hp
    · have := f1 hp; omega
    · have := f2 hp; omega
  refine ⟨⟨?_, fun hp => ?_, fun hp => ?_⟩, fun hd => ?_, fun hd ho => ?_, fun ho => ⟨?_, ?_⟩⟩
  · rcases Int.le_total 0 p with hp | hp
    · have := f1 (Int.mul_nonneg hp (by omega)); omega
    · have := f2 (Int.mul_nonpos_of_nonpos_of_nonneg hp (by omega)); omega
  · have := f1 (Int.mul_nonneg hp (by omega)); omega
  · have := f2 (Int.mul_nonpos_of_nonpos_of_nonneg hp (by omega)); omega
  · obtain ⟨bs, h1, h2, h3⟩ := base.unpack_pack w hd
    obtain ⟨bs', h1', _, h3'⟩ := base.pack_spec w hd
    rw [h1] at h1'; cases h1'
    have hd2 : (0 : Nat) < 2 ^ bits := Nat.two_pow_pos _
    have hw65 : w.natAbs < 2 ^ 65 := by
      obtain ⟨b1, b2⟩ := IntT.inDom_bound base w hd
      omega
    obtain ⟨hdiv, hlt⟩ := intTrueDiv_ok w (2 ^ bits) hd2 hw65
    have hs : (if w < 0 then 2 ^ 63 else 0 : Nat) = 0 ∨ (if w < 0 then 2 ^ 63 else 0 : Nat) = 2 ^ 63 := by
      split <;> simp
    obtain ⟨s1, s2, s3, s4⟩ := pattern_split _ _ hs hlt
    refine ⟨bs, _, by rw [hsend (hfit hd), h1], h2, h3', ?_, s1, s3, ?_, fun m' => ?_, fun hsmall hb => ?_⟩
    · rw [fixed_read_eq, h3 rest]
      show (do let x ← intTrueDiv w (2 ^ bits); pure (x, rest)) = _
      rw [hdiv]; rfl
    · rw [s4]
      split
      · next h => exact ⟨fun _ => h, fun _ => rfl⟩
      · next h =>
        refine ⟨fun e => ?_, fun e => absurd e h⟩
        have : (0 : Nat) < 2 ^ 63 := Nat.two_pow_pos _
        omega
    · rw [s2]
      obtain ⟨n1, n2⟩ := roundQuotF64_nearest (w.natAbs * 2 ^ 1074) (2 ^ bits) hd2 m'
      refine ⟨n1, fun e1 e2 => ?_⟩
      have hev := n2 e1 e2
      rcases hs with e | e <;> rw [e] <;> omega
    · rw [s2]
      have hsm : w.natAbs < 2 ^ 53 := by
        rcases hsmall with hwid | h
        · have hdom := hd
          cases base <;> simp [IntT.width] at hwid <;>
            simp [IntT.inDom, IntT.signed, IntT.width] at hdom <;> omega
        · exact h
      exact roundQuotF64_exact _ _ hd2 (small_on_grid _ _ hsm hb)
  · rw [hsend ho]; exact base.pack_err w hd
  · exact fun hd => hfit hd ho
  · exact fixed_send_overflow cc base bits p q ho

/-- The Python object and the existing wire code agree: short of float overflow,
`FixedPoint(base, bits).send(p/q)` is the `.fixed base bits` codec (the code the generated packet
layouts carry) applied to `fixedWire bits p q`, and `.read` is that codec followed by Python's true
division (`intTrueDiv`: the correctly rounded binary64 quotient) of the two components of the exact
fraction `fixedOfWire bits v = (v, 2^bits)` — the `bits` of the code IS the scale. -/
theorem fixed_is_fixed_code (cc : CustomCodec) (base : IntT) (bits : Nat) (p q : Int) (bs : Bytes)
    (h : ¬ ((2 : Int) ^ 1024 * q ≤ p * 2 ^ bits ∨ (2 : Int) ^ 1024 * q ≤ -(p * 2 ^ bits))) :
    (FixedPointT.init base bits).send cc p q
      = encode cc (.fixed base bits) (.int (fixedWire bits p q)) ∧
    (FixedPointT.init base bits).read cc bs
      = (do let (v, r) ← base.unpack bs
            let x ← intTrueDiv (fixedOfWire bits v).1 (fixedOfWire bits v).2.toNat
            pure (x, r)) := by
  refine ⟨fixed_send_eq cc base bits p q h, ?_⟩
  rw [fixed_read_eq]
  have : ∀ v : Int, (fixedOfWire bits v).2.toNat = 2 ^ bits := by
    intro v
    have : (fixedOfWire bits v).2 = ((2 ^ bits : Nat) : Int) := by simp [fixedOfWire]
    rw [this, Int.toNat_natCast]
  simp only [this]
  simp only [fixedOfWire]

/-- **Fixed point, reading a 64-bit base beyond `2^53`** (where the float is NOT the exact fraction).
`read` never fails on 8 bytes, and the float it returns for the wire integer `v` satisfies
`2 · |x · 2^bits − v| ≤ 2^bits · ulp`, with `ulp = 2^(⌊log2 (|v| / 2^bits)⌋ − 52)` the binary64 spacing
at the quotient (all in units of `2^-1074`; `ulp` is one unit in the subnormal range): the value
returned is within HALF a unit in the last place of `v / 2^bits`. -/
theorem fixed_read_half_ulp (cc : CustomCodec) (base : IntT) (bits : Nat) (v : Int)
    (hd : base.inDom v) (rest : Bytes) :
    ∃ bs x, base.pack v = .ok bs ∧
      (FixedPointT.init base bits).read cc (bs ++ rest) = .ok (x, rest) ∧
      2 * absDiff (f64Mag (x % 2 ^ 63) * 2 ^ bits) (v.natAbs * 2 ^ 1074)
        ≤ 2 ^ bits * 2 ^ ((v.natAbs * 2 ^ 1074 / 2 ^ bits).log2 - 52) := by
  obtain ⟨bs, h1, _, h3⟩ := base.unpack_pack v hd
  have hd2 : (0 : Nat) < 2 ^ bits := Nat.two_pow_pos _
  have hw65 : v.natAbs < 2 ^ 65 := by
    obtain ⟨b1, b2⟩ := IntT.inDom_bound base v hd
    omega
  obtain ⟨hdiv, hlt⟩ := intTrueDiv_ok v (2 ^ bits) hd2 hw65
  have hs : (if v < 0 then 2 ^ 63 else 0 : Nat) = 0 ∨ (if v < 0 then 2 ^ 63 else 0 : Nat) = 2 ^ 63 := by
    split <;> simp
  obtain ⟨_, s2, _, _⟩ := pattern_split _ _ hs hlt
  refine ⟨bs, (if v < 0 then 2 ^ 63 else 0) + roundQuotF64 (v.natAbs * 2 ^ 1074) (2 ^ bits), h1, ?_, ?_⟩
  · rw [fixed_read_eq, h3 rest]
    show (do let x ← intTrueDiv v (2 ^ bits); pure (x, rest)) = _
    rw [hdiv]; rfl
  · rw [s2, roundQuotF64_value_mul _ _ hd2]
    have hG : 0 < 2 ^ bits * 2 ^ f64Quantum (v.natAbs * 2 ^ 1074 / 2 ^ bits) :=
      Nat.mul_pos hd2 (Nat.two_pow_pos _)
    obtain ⟨n1, n2⟩ := rneNat_near (v.natAbs * 2 ^ 1074) _ hG
    show _ ≤ 2 ^ bits * 2 ^ f64Quantum (v.natAbs * 2 ^ 1074 / 2 ^ bits)
    unfold absDiff
    omega

/-- Different `fractional_bits` give different objects (the scale is not ignored). -/
theorem fixed_scale_injective (base : IntT) (b1 b2 : Nat) :
    FixedPointT.init base b1 = FixedPointT.init base b2 ↔ b1 = b2 := by
  constructor
  · intro h
    have : (2 : Nat) ^ b1 = 2 ^ b2 := congrArg FixedPointT.denominator h
    have h1 := (Nat.pow_le_pow_iff_right (by omega : 1 < 2)).mp (Nat.le_of_eq this)
    have h2 := (Nat.pow_le_pow_iff_right (by omega : 1 < 2)).mp (Nat.le_of_eq this.symm)
    omega
  · rintro rfl; rfl

/-- `FixedPointInteger` is the 32-bit integer with 5 fractional bits (1/32 block — the protocol's
pre-1.9 absolute entity coordinates), and the default of `FixedPoint(t)` is 5 bits. -/
theorem fixedPointInteger_spec :
    fixedPointInteger = ⟨.i32, 32⟩ ∧ fixedPointInteger = FixedPointT.init .i32 5 ∧
    ∀ t, FixedPointT.init t = FixedPointT.init t 5 := ⟨rfl, rfl, fun _ => rfl⟩

/-- … and so says the live code: `FixedPointInteger.integer_type` is the class modelled by `.i32` and
its live `denominator` is the model's; `FixedPoint(Byte)` (default bits) has denominator `2^5`. -/
theorem fixedPointInteger_live :
    classIntT Gen.WireFormats.fixedPointInteger.1 = some fixedPointInteger.integerType ∧
    Gen.WireFormats.fixedPointInteger.2 = fixedPointInteger.denominator ∧
    classIntT Gen.WireFormats.fixedDefault.1 = some (FixedPointT.init .i8).integerType ∧
    Gen.WireFormats.fixedDefault.2 = (FixedPointT.init .i8).denominator := by decide +kernel

/-- Every fixed-point field of every packet layout of the live library (all tables, all known
protocol versions — `Generated/Layouts.lean`) is one of the three the protocol prescribes:
`Integer`/5 bits and `Byte`/5 bits (1.8: absolute and relative entity coordinates in 1/32 block),
`Short`/12 bits (1.9+: relative moves in 1/4096 block); and each of the three does occur. -/
theorem fixed_uses_prescribed :
    let used := Gen.layoutTables.flatMap fun tab => tab.2.flatMap fun row => row.2.flatMap fun var =>
      match var.1 with
      | some fields => fields.flatMap fun f => fixedCodes f.2
      | none => []
    (∀ c ∈ used, c ∈ [(IntT.i32, 5), (IntT.i8, 5), (IntT.i16, 12)]) ∧
    (∀ c ∈ [(IntT.i32, 5), (IntT.i8, 5), (IntT.i16, 12)], c ∈ used) := by decide +kernel

/-! ## UUID -/

/-- **UUID, reading.**  `UUID.read` of 16 bytes `b` followed by anything returns the text
`uuidText b` and leaves the rest; that text is canonical — 36 characters, dashes exactly at positions
8, 13, 18, 23, the other 32 characters lower-case hex digits — and, read as one hexadecimal number
(dashes dropped), it IS the big-endian value of the 16 bytes (so byte 0 is the first two digits:
network order, not `bytes_le`). -/
theorem uuid_read_spec (cc : CustomCodec) (b rest : Bytes) (hb : b.length = 16) :
    uuidRead cc (b ++ rest) = .ok (uuidText b, rest) ∧
    isCanonicalUuid (uuidText b) = true ∧
    (uuidText b).toList.length = 36 ∧
    ((uuidText b).toList[8]? = some '-' ∧ (uuidText b).toList[13]? = some '-' ∧
      (uuidText b).toList[18]? = some '-' ∧ (uuidText b).toList[23]? = some '-') ∧
    ((uuidText b).toList.filter (fun c => c != '-')).length = 32 ∧
    hexValue ((uuidText b).toList.filter (fun c => c != '-')) = beValue b := by
  have hlen : ((digitsOf 32 (beValue b)).map hexDigit).length = 32 := by
    simp [digitsOf_length]
  have htl : (uuidText b).toList = dashed ((digitsOf 32 (beValue b)).map hexDigit) := by
    simp [uuidText, uuidTextChars_eq]
  have hfil := uuidTextChars_canonical b
  rw [uuidTextChars_eq] at hfil
  have hlt := beValue_lt b
  rw [hb, pow_256_16] at hlt
  refine ⟨?_, ?_, ?_, ?_, ?_, ?_⟩
  · have h16 : 16 ≤ (b ++ rest).length := by simp [hb]
    have ht : (b ++ rest).take 16 = b := by rw [← hb]; simp
    have hd : (b ++ rest).drop 16 = rest := by rw [← hb]; simp
    simp only [uuidRead, decode, if_pos h16, ht, hd]
    rfl
  · simp only [isCanonicalUuid, htl, hfil, hlen, all_lower_digits _ (digitsOf_all _ _), beq_self_eq_true,
      Bool.and_self]
  · rw [htl]; exact dashed_length _ hlen
  · rw [htl]; exact dashed_positions _ hlen
  · rw [htl, hfil]; exact hlen
  · rw [htl, hfil, hexValue_digits _ (digitsOf_all _ _), digitsValue_digitsOf, Nat.mod_eq_of_lt hlt]

/-- **UUID, sending what was read.**  `UUID.send` of the text `UUID.read` produced for the 16 bytes
`b` writes exactly `b`. -/
theorem uuid_send_text (cc : CustomCodec) (b : Bytes) (hb : b.length = 16) :
    uuidSend cc (uuidText b) = .ok b := by
  have : uuidParse (uuidText b) = .ok b := by
    simp only [uuidParse, uuidText, String.toList_ofList]
    exact uuidParseChars_text b hb
  simp only [uuidSend, this, encode, bind, Except.bind, hb, if_true]

/-- **UUID, sending.**  For EVERY canonical text `s`, `UUID.send` writes 16 bytes whose big-endian
value is the hexadecimal number spelled by `s`, and `UUID.read` of those bytes followed by anything
returns `s` itself and leaves the rest. -/
theorem uuid_send_canonical (cc : CustomCodec) (s : String) (hs : isCanonicalUuid s = true)
    (rest : Bytes) :
    ∃ b, uuidSend cc s = .ok b ∧ b.length = 16 ∧
      beValue b = hexValue (s.toList.filter (fun c => c != '-')) ∧
      uuidRead cc (b ++ rest) = .ok (s, rest) := by
  obtain ⟨ds, hds, hl, hd⟩ := canonical_digits s hs
  have hv := digitsValue_lt ds hds
  rw [hl, ← pow_256_16] at hv
  have hparse : uuidParse s = .ok (beBytes 16 (digitsValue ds)) := by
    simp only [uuidParse, hd]; exact uuidParseChars_dashed ds hds hl
  have hblen : (beBytes 16 (digitsValue ds)).length = 16 := beBytes_length _ _
  have hbval : beValue (beBytes 16 (digitsValue ds)) = digitsValue ds := by
    rw [beValue_beBytes, Nat.mod_eq_of_lt hv]
  have hfil : s.toList.filter (fun c => c != '-') = ds.map hexDigit := by
    rw [hd]; apply filter_dashed
    intro hc
    obtain ⟨n, hn, e⟩ := List.mem_map.mp hc
    exact (hexDigit_plain n (hds n hn)).1 e
  have htext : uuidText (beBytes 16 (digitsValue ds)) = s := by
    have : uuidTextChars (beBytes 16 (digitsValue ds)) = s.toList := by
      rw [uuidTextChars_eq, hbval, hd, ← hl, digitsOf_digitsValue ds hds]
    simp only [uuidText, this, String.ofList_toList]
  refine ⟨beBytes 16 (digitsValue ds), ?_, hblen, ?_, ?_⟩
  · simp only [uuidSend, hparse, encode, bind, Except.bind, hblen, if_true]
  · rw [hbval, hfil, hexValue_digits ds hds]
  · have := (uuid_read_spec cc (beBytes 16 (digitsValue ds)) rest hblen).1
    rw [htext] at this; exact this

/-- `UUID.send` either writes exactly 16 bytes or raises `ValueError` — nothing else; `UUID.read` of
fewer than 16 bytes raises `ValueError`. -/
theorem uuid_failure_kinds (cc : CustomCodec) (s : String) (bs : Bytes) :
    ((∃ b, uuidSend cc s = .ok b ∧ b.length = 16) ∨ uuidSend cc s = .error .value) ∧
    (bs.length < 16 → uuidRead cc bs = .error .value) := by
  constructor
  · rcases uuidParseChars_kinds s.toList with ⟨n, hn⟩ | he
    · left
      refine ⟨beBytes 16 n, ?_, beBytes_length _ _⟩
      simp only [uuidSend, uuidParse, hn, encode, bind, Except.bind, beBytes_length, if_true]
    · right
      simp only [uuidSend, uuidParse, he, bind, Except.bind]
  · intro h
    have : ¬ 16 ≤ bs.length := by omega
    simp only [uuidRead, decode, if_neg this]
    rfl

/-! ## Float and Double -/

/-- **Double.**  A Python float with binary64 pattern `x` is sent as the 8 bytes of `x`, most
significant first — sign bit, 11 exponent bits, 52 fraction bits (`f64Mag` says what they denote) —
and reading them back, followed by anything, returns the same pattern and leaves the rest. -/
theorem double_spec (cc : CustomCodec) (x : Nat) (hx : x < 2 ^ 64) (rest : Bytes) :
    ∃ bs, doubleSend cc x = .ok bs ∧ bs.length = 8 ∧
      beValue bs = x / 2 ^ 63 * 2 ^ 63 + x % 2 ^ 63 / 2 ^ 52 * 2 ^ 52 + x % 2 ^ 52 ∧
      doubleRead cc (bs ++ rest) = .ok (x, rest) := by
  obtain ⟨bs, h1, h2, h3, h4⟩ := pack_f64 cc x hx rest
  refine ⟨bs, h1, h2, by rw [h3]; omega, ?_⟩
  simp only [doubleRead, h4]
  rfl

/-- **Float, overflow.**  For a finite Python float `x`, `Float.send` raises `OverflowError` exactly
when `|x| ≥ 2^128 − 2^103` (the midpoint between the largest binary32 and `2^128`, which
roundTiesToEven sends up), i.e. exactly when IEEE rounding to binary32 overflows. -/
theorem float_send_overflow_iff (cc : CustomCodec) (x : Nat) (hx : x < 2 ^ 64)
    (hf : x % 2 ^ 63 / 2 ^ 52 ≠ 2047) :
    floatSend cc x = .error .other ↔ 2 ^ 1202 - 2 ^ 1177 ≤ f64Mag (x % 2 ^ 63) := by
  have hs : x / 2 ^ 63 ≤ 1 := by omega
  have hninf : x % 2 ^ 63 ≠ f64InfPat := by
    intro h; apply hf; rw [h]; decide
  rw [← roundMagF32_overflow_iff]
  unfold floatSend
  simp only
  rw [castF32_finite x hf]
  generalize roundMagF32 (f64Mag (x % 2 ^ 63)) = r
  have hmod : (x / 2 ^ 63 * 2 ^ 31 + min r f32InfPat) % 2 ^ 31 = min r f32InfPat := by
    have := Nat.min_le_right r f32InfPat
    unfold f32InfPat at *; omega
  rw [hmod]
  constructor
  · intro h
    split at h
    · next hc => rw [← hc.1]; exact Nat.min_le_left _ _
    · obtain ⟨bs, hb, _⟩ := pack_f32 cc (x / 2 ^ 63 * 2 ^ 31 + min r f32InfPat)
        (by have := Nat.min_le_right r f32InfPat; unfold f32InfPat at *; omega) []
      rw [hb] at h; cases h
  · intro h
    rw [if_pos ⟨Nat.min_eq_right h, hninf⟩]

/-- **Float, IEEE-754 rounding.**  For a finite Python float `x` of magnitude `M` below the overflow
threshold, `Float.send` writes 4 bytes, big-endian, of a binary32 pattern `y` with the sign of `x`
(−0 included), finite, whose value is a NEAREST binary32 to `x`: no pattern `r'` whatsoever denotes a
value closer to `M`; and if some other value is equally close, `y` is the one with even significand
(roundTiesToEven). -/
theorem float_send_nearest (cc : CustomCodec) (x : Nat) (hx : x < 2 ^ 64)
    (hf : x % 2 ^ 63 / 2 ^ 52 ≠ 2047) (hno : f64Mag (x % 2 ^ 63) < 2 ^ 1202 - 2 ^ 1177) :
    ∃ bs y, floatSend cc x = .ok bs ∧ bs.length = 4 ∧ beValue bs = y ∧ y < 2 ^ 32 ∧
      y / 2 ^ 31 = x / 2 ^ 63 ∧ y % 2 ^ 31 / 2 ^ 23 ≠ 255 ∧
      ∀ r', absDiff (f32Mag (y % 2 ^ 31) * 2 ^ 925) (f64Mag (x % 2 ^ 63))
              ≤ absDiff (f32Mag r' * 2 ^ 925) (f64Mag (x % 2 ^ 63)) ∧
        (absDiff (f32Mag (y % 2 ^ 31) * 2 ^ 925) (f64Mag (x % 2 ^ 63))
              = absDiff (f32Mag r' * 2 ^ 925) (f64Mag (x % 2 ^ 63)) →
          f32Mag r' * 2 ^ 925 ≠ f32Mag (y % 2 ^ 31) * 2 ^ 925 → y % 2 = 0) := by
  have hs : x / 2 ^ 63 ≤ 1 := by omega
  have hlt : roundMagF32 (f64Mag (x % 2 ^ 63)) < f32InfPat := by
    apply Nat.lt_of_not_le
    intro h
    have := (roundMagF32_overflow_iff _).mp h
    omega
  have hmin : min (roundMagF32 (f64Mag (x % 2 ^ 63))) f32InfPat = roundMagF32 (f64Mag (x % 2 ^ 63)) :=
    Nat.min_eq_left (Nat.le_of_lt hlt)
  have hy : castF32 x = x / 2 ^ 63 * 2 ^ 31 + roundMagF32 (f64Mag (x % 2 ^ 63)) := by
    rw [castF32_finite x hf, hmin]
  have hnear := roundMagF32_nearest (f64Mag (x % 2 ^ 63))
  generalize roundMagF32 (f64Mag (x % 2 ^ 63)) = r at *
  unfold f32InfPat at hlt
  have hy32 : x / 2 ^ 63 * 2 ^ 31 + r < 2 ^ 32 := by omega
  have hmod : (x / 2 ^ 63 * 2 ^ 31 + r) % 2 ^ 31 = r := by omega
  obtain ⟨bs, hb1, hb2, hb3, _⟩ := pack_f32 cc _ hy32 []
  refine ⟨bs, x / 2 ^ 63 * 2 ^ 31 + r, ?_, hb2, hb3, hy32, by omega, by omega, fun r' => ?_⟩
  · unfold floatSend
    simp only [hy, hmod]
    have : ¬ (r = f32InfPat ∧ x % 2 ^ 63 ≠ f64InfPat) := by
      unfold f32InfPat; omega
    rw [if_neg this, hb1]
  · rw [hmod]
    obtain ⟨n1, n2⟩ := hnear r'
    refine ⟨n1, fun h1 h2 => ?_⟩
    have := n2 h1 h2
    omega

/-- **Float, infinities and NaNs.**  `±∞` is sent as the binary32 `±∞`, a NaN as a binary32 NaN
(exponent all ones, non-zero fraction) with the same sign; neither ever raises. -/
theorem float_send_special (cc : CustomCodec) (x : Nat) (hx : x < 2 ^ 64)
    (hf : x % 2 ^ 63 / 2 ^ 52 = 2047) :
    ∃ bs y, floatSend cc x = .ok bs ∧ bs.length = 4 ∧ beValue bs = y ∧
      y / 2 ^ 31 = x / 2 ^ 63 ∧ y % 2 ^ 31 / 2 ^ 23 = 255 ∧
      (y % 2 ^ 23 = 0 ↔ x % 2 ^ 52 = 0) := by
  have hs : x / 2 ^ 63 ≤ 1 := by omega
  have hlt := castF32_lt x hx
  have hF : x % 2 ^ 63 % 2 ^ 52 = x % 2 ^ 52 := by omega
  have hy : castF32 x = if x % 2 ^ 52 = 0 then x / 2 ^ 63 * 2 ^ 31 + 2139095040
      else x / 2 ^ 63 * 2 ^ 31 + 2143289344 + x % 2 ^ 52 / 2 ^ 29 % 2 ^ 22 := by
    unfold castF32
    simp only [hf, if_true, hF, f32InfPat]
  obtain ⟨bs, hb1, hb2, hb3, _⟩ := pack_f32 cc _ hlt []
  have hq : x % 2 ^ 52 / 2 ^ 29 % 2 ^ 22 < 2 ^ 22 := Nat.mod_lt _ (Nat.two_pow_pos _)
  refine ⟨bs, castF32 x, ?_, hb2, hb3, ?_, ?_, ?_⟩
  · unfold floatSend
    simp only
    have : ¬ (castF32 x % 2 ^ 31 = f32InfPat ∧ x % 2 ^ 63 ≠ f64InfPat) := by
      rintro ⟨h1, h2⟩
      apply h2
      rw [hy] at h1
      unfold f32InfPat at h1
      unfold f64InfPat
      split at h1 <;> omega
    rw [if_neg this, hb1]
  · rw [hy]; split <;> omega
  · rw [hy]; split <;> omega
  · rw [hy]; split <;> omega

/-- **Float, reading.**  `Float.read` of the 4 bytes of a finite binary32 pattern `r`, followed by
anything, returns a finite Python float with the same sign and EXACTLY the same value, and leaves the
rest. -/
theorem float_read_exact (cc : CustomCodec) (bs rest : Bytes) (hb : bs.length = 4)
    (hf : beValue bs % 2 ^ 31 / 2 ^ 23 ≠ 255) :
    ∃ x, floatRead cc (bs ++ rest) = .ok (x, rest) ∧ x < 2 ^ 64 ∧
      x / 2 ^ 63 = beValue bs / 2 ^ 31 ∧ x % 2 ^ 63 / 2 ^ 52 ≠ 2047 ∧
      f64Mag (x % 2 ^ 63) = f32Mag (beValue bs % 2 ^ 31) * 2 ^ 925 := by
  have hr : beValue bs < 2 ^ 32 := by
    have := beValue_lt bs; rw [hb] at this; omega
  obtain ⟨w1, w2, w3, w4⟩ := widenF32_finite _ hr hf
  refine ⟨widenF32 (beValue bs), ?_, w2, w1, w3, w4⟩
  simp only [floatRead, unpack_nat cc .f32 rfl bs rest hb]
  rfl

/-- **Float, round trip.**  Every binary32 pattern `r` that is not a signalling NaN survives: sending
the Python float `Float.read` returns for `r` writes the 4 bytes of `r` again, and reading those,
followed by anything, returns the same float and leaves the rest. -/
theorem float_roundtrip (cc : CustomCodec) (r : Nat) (hr : r < 2 ^ 32)
    (hq : r % 2 ^ 31 / 2 ^ 23 = 255 → r % 2 ^ 23 = 0 ∨ 2 ^ 22 ≤ r % 2 ^ 23) (rest : Bytes) :
    ∃ bs, floatSend cc (widenF32 r) = .ok bs ∧ bs.length = 4 ∧ beValue bs = r ∧
      floatRead cc (bs ++ rest) = .ok (widenF32 r, rest) := by
  have hc := castF32_widenF32 r hr hq
  obtain ⟨bs, hb1, hb2, hb3, hb4⟩ := pack_f32 cc r hr rest
  refine ⟨bs, ?_, hb2, hb3, ?_⟩
  · unfold floatSend
    simp only [hc]
    have : ¬ (r % 2 ^ 31 = f32InfPat ∧ widenF32 r % 2 ^ 63 ≠ f64InfPat) := by
      rintro ⟨h1, h2⟩
      apply h2
      unfold f32InfPat at h1
      unfold widenF32 f64InfPat
      have e1 : r % 2 ^ 31 / 2 ^ 23 = 255 := by omega
      have e2 : r % 2 ^ 31 % 2 ^ 23 = 0 := by omega
      simp only [e1, e2, if_true]
      omega
    rw [if_neg this, hb1]
  · simp only [floatRead, hb4]
    rfl

/-! ## live probes: the models against the code of `/repo` (regenerated on every run) -/

open Gen.WireFormats in
/-- Every class name of `basic.__all__` is accounted for: mapped to a model code by `classWType`, or
one of the instance/custom/abstract types modelled elsewhere. -/
theorem formats_cover : ∀ n ∈ allNames, (classWType n).isSome ∨
    n ∈ ["Type", "FixedPoint", "FixedPointInteger", "PrefixedArray", "Position", "NBT"] := by
  decide +kernel

open Gen.WireFormats in
/-- **Class → wire format.**  For every probe `(class, value)` (`scalarProbeOk`): the model code of
the class encodes the value to exactly the bytes (or the error) the live class produced, and decodes
those bytes followed by `aa bb` to exactly the value the live class read back, leaving `aa bb`
(nothing appended for `TrailingByteArray`). -/
theorem formats_ok : ∀ chunk ∈ scalarProbes, ∀ row ∈ chunk, scalarProbeOk noCustomCodec row = true := by
  decide +kernel

open Gen.WireFormats in
/-- **Float/Double probes.**  `Float.send`, `Double.send`/`read` and `Float.read` of the live code
agree with the model on every probe (ties, subnormals, the overflow threshold, infinities, NaNs), and
the binary64 pattern of each finite probe denotes (`f64Mag`) exactly the magnitude and sign that
`float.as_integer_ratio` reports — the identification "Python float = its IEEE pattern"
(`doubleProbeOk`). -/
theorem float_probes_ok :
    (∀ chunk ∈ floatSendProbes, ∀ row ∈ chunk, floatSend noCustomCodec row.1 = row.2) ∧
    (∀ chunk ∈ doubleProbes, ∀ row ∈ chunk, doubleProbeOk noCustomCodec row = true) ∧
    (∀ chunk ∈ floatReadProbes, ∀ row ∈ chunk,
      floatRead noCustomCodec (row.1 ++ [7]) = .ok (row.2, [7])) := by
  decide +kernel

open Gen.WireFormats in
/-- **UUID probes** (canonical, upper case, braces, URN, dash-less, malformed, and the lenient forms
`int(…, 16)` lets through). -/
theorem uuid_probes_ok :
    (∀ chunk ∈ uuidSendProbes, ∀ row ∈ chunk, uuidSend noCustomCodec row.1 = row.2) ∧
    (∀ chunk ∈ uuidReadProbes, ∀ row ∈ chunk, uuidRead noCustomCodec row.1 = row.2) := by
  decide +kernel

open Gen.WireFormats in
/-- **FixedPoint probes.**  The live object built from `(class, bits)` has the model's denominator,
sends `p/q` as the model does (`fixedSendProbeOk`), and reads bytes to the same fraction, leaving the
appended byte (`fixedReadProbeOk`). -/
theorem fixed_probes_ok :
    (∀ chunk ∈ fixedSendProbes, ∀ row ∈ chunk, fixedSendProbeOk noCustomCodec row = true) ∧
    (∀ chunk ∈ fixedReadProbes, ∀ row ∈ chunk, fixedReadProbeOk noCustomCodec row = true) := by
  decide +kernel

open Gen.WireFormats in
/-- **Angle probes.**  `Angle.send(p/q)` writes the step the exact-arithmetic model computes, and
`Angle.read` returns `360·step/256`. -/
theorem angle_probes_ok :
    (∀ chunk ∈ angleSendProbes, ∀ row ∈ chunk,
      encode noCustomCodec .angle (.int (angleStep row.1 row.2.1)) = row.2.2) ∧
    (∀ chunk ∈ angleReadProbes, ∀ row ∈ chunk,
      (angleOfStep row.1).1 * (row.2.2 : Int) = row.2.1 * (angleOfStep row.1).2) := by
  decide +kernel

/-! ## non-vacuity -/

/-- 1/32-block coordinates: 67.40625 = 2157/32 is sent exactly; −7/3 is truncated toward zero -/
example : (FixedPointT.init .i32 5).send noCustomCodec 2157 32 = .ok [0, 0, 8, 0x6d] ∧
    (FixedPointT.init .i32 5).read noCustomCodec [0, 0, 8, 0x6d, 0xee]
      = .ok (0x4050DA0000000000, [0xee]) ∧ f64Frac 0x4050DA0000000000 = (2157 * 2 ^ 1069, 32 * 2 ^ 1069) ∧
    (FixedPointT.init .i16 12).send noCustomCodec (-7) 3 = .ok [0xda, 0xab] ∧
    Int.tdiv (-7 * 2 ^ 12) 3 = -9557 := by decide +kernel
/-- 64-bit bases beyond `2^53`: `2^53 + 1` (a tie) reads as `2^53` (even), `2^53 + 3` as `2^53 + 4`,
`−2^63` exactly; `−1` over `2^5` is `−0.03125`; the exactness hypothesis `|w| < 2^53` of
`fixed_same_bits` is sharp -/
example : (FixedPointT.init .i64 0).read noCustomCodec [0, 0x20, 0, 0, 0, 0, 0, 1]
      = .ok (0x4340000000000000, []) ∧ f64Mag 0x4340000000000000 = 2 ^ 53 * 2 ^ 1074 ∧
    (FixedPointT.init .i64 0).read noCustomCodec [0, 0x20, 0, 0, 0, 0, 0, 3]
      = .ok (0x4340000000000002, []) ∧ f64Mag 0x4340000000000002 = (2 ^ 53 + 4) * 2 ^ 1074 ∧
    (FixedPointT.init .i64 0).read noCustomCodec [0x80, 0, 0, 0, 0, 0, 0, 0]
      = .ok (0xC3E0000000000000, []) ∧ f64Mag 0x43E0000000000000 = 2 ^ 63 * 2 ^ 1074 ∧
    (FixedPointT.init .i32 5).read noCustomCodec [0xff, 0xff, 0xff, 0xff, 7]
      = .ok (0xBFA0000000000000, [7]) ∧ f64Mag 0x3FA0000000000000 * 2 ^ 5 = 1 * 2 ^ 1074 := by
  decide +kernel
/-- all three branches of `fixed_same_bits` are inhabited -/
example : IntT.i8.inDom (Int.tdiv (3 * 2 ^ 5) 1) ∧ ¬ IntT.i8.inDom (Int.tdiv (4 * 2 ^ 5) 1) ∧
    (FixedPointT.init .i8 5).send noCustomCodec 4 1 = .error .struct ∧
    (2 : Int) ^ 1024 * 1 ≤ 2 ^ 1019 * 2 ^ 5 ∧
    (FixedPointT.init .i32 5).send noCustomCodec (2 ^ 1019) 1 = .error .other ∧
    (FixedPointT.init .i32 5).send noCustomCodec (2 ^ 1018) 1 = .error .struct := by decide +kernel
/-- a canonical text, and non-canonical ones the parser also accepts -/
example : isCanonicalUuid "12345678-9abc-def0-1234-56789abcdef0" = true ∧
    isCanonicalUuid "12345678-9ABC-DEF0-1234-56789ABCDEF0" = false ∧
    uuidSend noCustomCodec "12345678-9abc-def0-1234-56789abcdef0"
      = .ok [0x12, 0x34, 0x56, 0x78, 0x9a, 0xbc, 0xde, 0xf0, 0x12, 0x34, 0x56, 0x78, 0x9a, 0xbc, 0xde, 0xf0] ∧
    uuidSend noCustomCodec "{12345678-9ABC-DEF0-1234-56789ABCDEF0}"
      = uuidSend noCustomCodec "12345678-9abc-def0-1234-56789abcdef0" ∧
    uuidSend noCustomCodec "12345678-9abc-def0-1234-56789abcdefg" = .error .value := by
  decide +kernel
example : uuidText [0, 1, 2, 3, 4, 5, 6, 7, 8, 9, 10, 11, 12, 13, 14, 255]
    = "00010203-0405-0607-0809-0a0b0c0d0eff" := by decide +kernel
/-- 0.1 (binary64 `3FB999999999999A`) is finite, below the threshold, and rounds UP to `3DCCCCCD` -/
example : (0x3FB999999999999A : Nat) % 2 ^ 63 / 2 ^ 52 ≠ 2047 ∧
    f64Mag (0x3FB999999999999A % 2 ^ 63) < 2 ^ 1202 - 2 ^ 1177 ∧
    floatSend noCustomCodec 0x3FB999999999999A = .ok [0x3D, 0xCC, 0xCC, 0xCD] := by decide +kernel
/-- a genuine tie: `1 + 2^-24` lies midway between `3F800000` and `3F800001`; even wins -/
example : absDiff (f32Mag 0x3F800000 * 2 ^ 925) (f64Mag 0x3FF0000010000000)
      = absDiff (f32Mag 0x3F800001 * 2 ^ 925) (f64Mag 0x3FF0000010000000) ∧
    floatSend noCustomCodec 0x3FF0000010000000 = .ok [0x3F, 0x80, 0, 0] ∧
    floatSend noCustomCodec 0x3FF0000030000000 = .ok [0x3F, 0x80, 0, 2] := by decide +kernel
/-- the overflow threshold is attained: the largest binary32 passes, the tie `2^128 − 2^103` raises -/
example : floatSend noCustomCodec 0x47EFFFFFEFFFFFFF = .ok [0x7F, 0x7F, 0xFF, 0xFF] ∧
    f64Mag 0x47EFFFFFF0000000 = 2 ^ 1202 - 2 ^ 1177 ∧
    floatSend noCustomCodec 0x47EFFFFFF0000000 = .error .other := by decide +kernel
/-- special values and a quiet NaN satisfy the hypotheses of `float_send_special`/`float_roundtrip` -/
example : (0x7FF0000000000000 : Nat) % 2 ^ 63 / 2 ^ 52 = 2047 ∧
    floatSend noCustomCodec 0xFFF0000000000000 = .ok [0xFF, 0x80, 0, 0] ∧
    floatSend noCustomCodec 0x7FF8000000000000 = .ok [0x7F, 0xC0, 0, 0] ∧
    widenF32 0x7FC00000 = 0x7FF8000000000000 ∧ widenF32 0x00000001 = 0x36A0000000000000 := by
  decide +kernel

/-- the signalling-NaN exclusion of `float_roundtrip` is sharp: `7F800001` comes back quieted -/
example : ¬ ((0x7F800001 : Nat) % 2 ^ 23 = 0 ∨ 2 ^ 22 ≤ (0x7F800001 : Nat) % 2 ^ 23) ∧
    castF32 (widenF32 0x7F800001) = 0x7FC00001 := by decide +kernel

/-! ## refutations: models of CHANGED code violate the theorems above

Each change below passes every theorem of `Props/C02.lean` (audit rank 21). -/

/-- `self.denominator = 2**5`, ignoring `fractional_bits` (basic.py:119 changed) -/
private def initIgnoringBits (integerType : IntT) (_fractionalBits : Nat := 5) : FixedPointT :=
  ⟨integerType, 2 ^ 5⟩

/-- … violates `fixed_same_bits` at `FixedPoint(Short, 12)`, value 1: the theorem demands the bytes of
`int(1 · 2^12) = 4096` and a float of value exactly `4096 / 2^12 = 1` back; the changed object writes
32 and returns `4096 / 32 = 128.0`. -/
example :
    IntT.i16.inDom (Int.tdiv (1 * 2 ^ 12) 1) ∧
    ¬ (∃ bs, (initIgnoringBits .i16 12).send noCustomCodec 1 1 = .ok bs ∧
        (beValue bs : Int) = Int.tdiv (1 * 2 ^ 12) 1 % (256 : Int) ^ IntT.i16.width) ∧
    (initIgnoringBits .i16 12).read noCustomCodec [0x10, 0] = .ok (0x4060000000000000, []) ∧
    f64Mag (0x4060000000000000 % 2 ^ 63) * 2 ^ 12 ≠ (Int.tdiv (1 * 2 ^ 12) 1).natAbs * 2 ^ 1074 ∧
    (FixedPointT.init .i16 12).read noCustomCodec [0x10, 0] = .ok (0x3FF0000000000000, []) ∧
    f64Mag (0x3FF0000000000000 % 2 ^ 63) * 2 ^ 12 = (Int.tdiv (1 * 2 ^ 12) 1).natAbs * 2 ^ 1074 := by
  refine ⟨by decide +kernel, ?_, by decide +kernel, by decide +kernel, by decide +kernel,
    by decide +kernel⟩
  rintro ⟨bs, h1, h2⟩
  have hs : (initIgnoringBits .i16 12).send noCustomCodec 1 1 = .ok [0, 32] := by decide +kernel
  rw [hs] at h1; cases h1
  revert h2; decide +kernel

/-- `return self.integer_type.read(file_object) // self.denominator`-style EXACT arithmetic instead of
the float division (the model before this revision): for `FixedPoint(Long, 0)` and the bytes of
`2^53 + 1` it would denote `9007199254740993`, which is not a binary64 — no pattern has that value, so
no Python float can be what such a `read` returns; the real `read` (and the model) return `2^53`. -/
example : (∀ m', f64Mag m' ≠ (2 ^ 53 + 1) * 2 ^ 1074) ∧
    (FixedPointT.init .i64 0).read noCustomCodec [0, 0x20, 0, 0, 0, 0, 0, 1]
      = .ok (0x4340000000000000, []) := by
  refine ⟨fun m' h => ?_, by decide +kernel⟩
  -- the nearest binary64 to (2^53+1) is at distance 2^1074 > 0, so nothing is at distance 0
  have hn := (roundQuotF64_nearest ((2 ^ 53 + 1) * 2 ^ 1074) 1 (by omega) m').1
  have hv : f64Mag (roundQuotF64 ((2 ^ 53 + 1) * 2 ^ 1074) 1) = 2 ^ 53 * 2 ^ 1074 := by
    decide +kernel
  rw [hv, h] at hn
  revert hn
  decide +kernel

/-- `FixedPointInteger = FixedPoint(Integer, 4)` (basic.py:129 changed) contradicts
`fixedPointInteger_spec`, and the live-probe theorem `fixedPointInteger_live` would then compare the
generated denominator 16 with the model's 32. -/
example : FixedPointT.init .i32 4 ≠ fixedPointInteger ∧
    (FixedPointT.init .i32 4).denominator ≠ fixedPointInteger.denominator ∧
    (FixedPointT.init .i32 4).send noCustomCodec 1 1 ≠ fixedPointInteger.send noCustomCodec 1 1 := by
  decide +kernel

/-- `socket.send(uuid.UUID(value).bytes_le)` (basic.py:310 changed): the first three fields
byte-swapped -/
private def uuidSendLE (s : String) : Except Err Bytes := do
  let b ← uuidParse s
  pure ((b.take 4).reverse ++ ((b.drop 4).take 2).reverse ++ ((b.drop 6).take 2).reverse ++ b.drop 8)

/-- … violates `uuid_send_text` (and the value clause of `uuid_send_canonical`) at `00 01 … 0f`. -/
example :
    uuidSend noCustomCodec (uuidText [0, 1, 2, 3, 4, 5, 6, 7, 8, 9, 10, 11, 12, 13, 14, 15])
      = .ok [0, 1, 2, 3, 4, 5, 6, 7, 8, 9, 10, 11, 12, 13, 14, 15] ∧
    uuidSendLE (uuidText [0, 1, 2, 3, 4, 5, 6, 7, 8, 9, 10, 11, 12, 13, 14, 15])
      ≠ .ok [0, 1, 2, 3, 4, 5, 6, 7, 8, 9, 10, 11, 12, 13, 14, 15] ∧
    ¬ (∃ b', uuidSendLE (uuidText [0, 1, 2, 3, 4, 5, 6, 7, 8, 9, 10, 11, 12, 13, 14, 15]) = .ok b' ∧
        beValue b' = hexValue ((uuidText [0, 1, 2, 3, 4, 5, 6, 7, 8, 9, 10, 11, 12, 13, 14, 15]).toList.filter
          (fun c => c != '-'))) := by
  refine ⟨by decide +kernel, by decide +kernel, ?_⟩
  rintro ⟨b', h1, h2⟩
  have hs : uuidSendLE (uuidText [0, 1, 2, 3, 4, 5, 6, 7, 8, 9, 10, 11, 12, 13, 14, 15])
      = .ok [3, 2, 1, 0, 5, 4, 7, 6, 8, 9, 10, 11, 12, 13, 14, 15] := by decide +kernel
  rw [hs] at h1; cases h1
  revert h2; decide +kernel

/-- `return str(uuid.UUID(bytes=…)).upper()` (basic.py:306 changed) -/
private def uuidTextUpper (b : Bytes) : String := String.ofList ((uuidTextChars b).map Char.toUpper)

/-- … violates the canonical-form clause of `uuid_read_spec`. -/
example : isCanonicalUuid (uuidText [0xab, 1, 2, 3, 4, 5, 6, 7, 8, 9, 10, 11, 12, 13, 14, 15]) = true ∧
    isCanonicalUuid (uuidTextUpper [0xab, 1, 2, 3, 4, 5, 6, 7, 8, 9, 10, 11, 12, 13, 14, 15]) = false := by
  decide +kernel

/-- `struct.pack('>f', round(value, 3))` (basic.py:237 changed): for `value = 0.0001`
(`3F1A36E2EB1C432D`) the changed code packs `0.0`, i.e. pattern 0 -/
example :
    let x : Nat := 0x3F1A36E2EB1C432D
    x % 2 ^ 63 / 2 ^ 52 ≠ 2047 ∧ f64Mag (x % 2 ^ 63) < 2 ^ 1202 - 2 ^ 1177 ∧
    floatSend noCustomCodec x = .ok [0x38, 0xD1, 0xB7, 0x17] ∧
    -- pattern 0 is NOT a nearest binary32: `float_send_nearest` excludes it
    ¬ (absDiff (f32Mag 0 * 2 ^ 925) (f64Mag (x % 2 ^ 63))
        ≤ absDiff (f32Mag 0x38D1B717 * 2 ^ 925) (f64Mag (x % 2 ^ 63))) := by
  decide +kernel

/-- a cast that truncates toward zero instead of rounding to nearest -/
private def truncMagF32 (M : Nat) : Nat :=
  if M = 0 then 0 else (f32Quantum M - 925) * 2 ^ 23 + M / 2 ^ f32Quantum M

/-- … violates the nearness clause of `float_send_nearest` at 0.1. -/
example :
    let M := f64Mag (0x3FB999999999999A % 2 ^ 63)
    truncMagF32 M = 0x3DCCCCCC ∧ roundMagF32 M = 0x3DCCCCCD ∧
    ¬ (absDiff (f32Mag (truncMagF32 M) * 2 ^ 925) M ≤ absDiff (f32Mag 0x3DCCCCCD * 2 ^ 925) M) := by
  decide +kernel

end PyCraft.C02Exact
