import PyCraft.Lemmas.C04Codec
import PyCraft.Props.C04
/-!
# C04 (audit gap 6) — the encoder's AND the decoder's version switch, for every known version

`Props/C04.lean` proves the round trips with ONE shared layout flag and tabulates the live
`Position.send_with_context` only.  The Python has four independent version tests
(`types/basic.py:322` read / `:345` send, `block_change_packet.py:116` read / `:132` send).  Here:

* `Model/C04Codec.lean` models each of the four methods with its own test
  (`posReadV`, `posSendV`, `recReadV`, `recSendV`; with the literal as a parameter: `…At`);
* `Generated/C04Codec.lean` (written by `harness/gen/c04codec.py` from the LIVE code, regenerated
  on every run) lists for every known protocol version which layout the live encoder and which
  layout the live decoder use — `posCodec`, `recCodec : List (version × encoder × decoder)`;
* the theorems below say: per version the round trip holds EXACTLY when the two tests agree
  (`*_rt_iff_same_layout`), the live tables cover exactly the known versions in order, the two
  live flags agree on every row and are the outcome of the model's test (443 / 741), and hence
  the round trip holds under every known version both for the model and for the observed flags.

Only property theorems and non-vacuity examples live here; helpers are in `Lemmas/C04Codec.lean`.
-/
namespace PyCraft.C04Codec
open PyCraft PyCraft.Gen

/-! ## Per version: the round trip holds exactly when reader and writer pick the same layout -/

/-- `Position`, any version tables `t`, any context version `v`, ANY two literals in the writer's
and the reader's version test (`sthr`, `rthr`; the code has 443 and 443).  If both tests are
defined at `v` (outcomes `es`, `ed`), then: "every in-range position written under `v` is 8 bytes
and is read back under `v` as the same signed coordinates, leaving exactly the bytes that followed"
holds IF AND ONLY IF the two tests have the same outcome at `v`. -/
theorem pos_rt_iff_same_layout (sthr rthr : Nat) (t : Tables) (v : Nat) (es ed : Bool)
    (hs : laterEq t v sthr = .ok es) (hd : laterEq t v rthr = .ok ed) :
    (∀ x y z : Int, -2 ^ 25 ≤ x → x < 2 ^ 25 → -2 ^ 11 ≤ y → y < 2 ^ 11 → -2 ^ 25 ≤ z →
        z < 2 ^ 25 → ∀ rest : Bytes,
        ∃ w, posSendAt sthr t v x y z = .ok w ∧ w.length = 8 ∧
          posReadAt rthr t v (w ++ rest) = .ok ((x, y, z), rest)) ↔ es = ed := by
  constructor
  · intro h
    obtain ⟨w, hw, _, hr⟩ := h 1 2 3 (by omega) (by omega) (by omega) (by omega) (by omega)
      (by omega) []
    rw [posSendAt_eq sthr t v es 1 2 3 hs] at hw
    rw [posReadAt_eq rthr t v ed _ hd] at hr
    have := pos_cross es w hw
    cases es <;> cases ed <;> simp_all
  · rintro rfl x y z hx1 hx2 hy1 hy2 hz1 hz2 rest
    simp only [posSendAt_eq sthr t v es x y z hs, posReadAt_eq rthr t v es _ hd]
    exact C04.pos_rt es x y z rest hx1 hx2 hy1 hy2 hz1 hz2

/-- `MultiBlockChangePacket.Record`, likewise (`x, y, z ∈ [0, 16)`, `block_state_id ∈ [0, 2^42)`:
the values representable in BOTH formats): the round trip under `v` holds for all of them IF AND
ONLY IF the writer's test (`sthr`, code: 741) and the reader's test (`rthr`, code: 741) have the
same outcome at `v`. -/
theorem rec_rt_iff_same_layout (sthr rthr : Nat) (t : Tables) (v : Nat) (es ed : Bool)
    (hs : laterEq t v sthr = .ok es) (hd : laterEq t v rthr = .ok ed) :
    (∀ x y z b : Int, 0 ≤ x → x < 16 → 0 ≤ y → y < 16 → 0 ≤ z → z < 16 → 0 ≤ b → b < 2 ^ 42 →
        ∀ rest : Bytes,
        ∃ w, recSendAt sthr t v x y z b = .ok w ∧
          recReadAt rthr t v (w ++ rest) = .ok ((x, y, z, b), rest)) ↔ es = ed := by
  constructor
  · intro h
    obtain ⟨w, hw, hr⟩ := h 1 2 3 5 (by omega) (by omega) (by omega) (by omega) (by omega)
      (by omega) (by omega) (by omega) []
    rw [recSendAt_eq sthr t v es 1 2 3 5 hs] at hw
    rw [recReadAt_eq rthr t v ed _ hd] at hr
    have := rec_cross es w hw
    cases es <;> cases ed <;> simp_all
  · rintro rfl x y z b hx1 hx2 hy1 hy2 hz1 hz2 hb1 hb2 rest
    simp only [recSendAt_eq sthr t v es x y z b hs, recReadAt_eq rthr t v es _ hd]
    exact C04.record_rt es x y z b rest hx1 hx2 hy1 (by cases es <;> simp <;> omega) hz1 hz2 hb1
      (by cases es <;> simp <;> omega)

/-- An unknown context version: both `Position` methods raise `KeyError` — the writer before
sending anything, the reader after having consumed its 8 bytes (on fewer than 8 bytes it raises
`struct.error` first, whatever the version). -/
theorem pos_unknown_version (t : Tables) (v : Nat) (e : Err) (h : laterEq t v 443 = .error e)
    (x y z : Int) (w rest bs : Bytes) (hw : w.length = 8) (hbs : bs.length < 8) :
    posSendV t v x y z = .error e ∧ posReadV t v (w ++ rest) = .error e ∧
      posReadV t v bs = .error .struct :=
  ⟨by simp only [posSendV, posSendAt, h], posReadAt_undefined 443 t v e w rest hw h,
    posReadAt_short 443 t v bs hbs⟩

/-! ## The live tables: which layout the live encoder / decoder use under every known version -/

/-- The two tables have one row per known protocol version, in `KNOWN_PROTOCOL_VERSIONS`
(chronological) order — "all known versions" is a checked fact, not a comment.  (`liveTables` is
tabulated from the same running module by `harness/extract.py` and tied to the model by
`C08.model_eq_live`.) -/
theorem tables_cover_known_versions :
    posCodec.map (·.1) = liveTables.knownProtocols ∧
      recCodec.map (·.1) = liveTables.knownProtocols := by
  decide +kernel

/-- The encoder column of `posCodec` is the older table `posLayout` of `Props/C04.lean` (probed by
`harness/extract.py`), so `C04.layout_new_from_477`, `layout_old_upto_404`, `layout_single_switch`
speak about the same data; in particular `posLayout` too lists exactly the known versions. -/
theorem encoder_column_is_posLayout :
    posCodec.map (fun r => (r.1, r.2.1)) = posLayout ∧
      posLayout.map (·.1) = liveTables.knownProtocols := by
  decide +kernel

/-- `Position`: under every known version the live encoder and the live decoder use the SAME
layout, and it is one of the two documented ones. -/
theorem pos_flags_agree : ∀ r ∈ posCodec, r.2.1 = r.2.2 ∧ r.2.1 < 2 := by decide +kernel

/-- `Record`: under every known version the live encoder and the live decoder use the SAME format,
and it is one of the two documented ones. -/
theorem rec_flags_agree : ∀ r ∈ recCodec, r.2.1 = r.2.2 ∧ r.2.1 < 2 := by decide +kernel

/-- `Position`: the observed layout of BOTH directions is the outcome of
`ConnectionContext(protocol_version = v).protocol_later_eq(443)` on the live version tables — the
test written in the model (`posSendV`, `posReadV`) is the one the live code was seen to apply,
at every known version (ties C04 to C08's order). -/
theorem pos_switch_is_443 :
    ∀ r ∈ posCodec, laterEq liveTables r.1 443 = .ok (r.2.1 == 1) ∧
      laterEq liveTables r.1 443 = .ok (r.2.2 == 1) :=
  switchOk_sound liveTables live_indices_nodup 443 posCodec (by decide +kernel)

/-- `Record`: the observed format of BOTH directions is the outcome of `protocol_later_eq(741)`. -/
theorem rec_switch_is_741 :
    ∀ r ∈ recCodec, laterEq liveTables r.1 741 = .ok (r.2.1 == 1) ∧
      laterEq liveTables r.1 741 = .ok (r.2.2 == 1) :=
  switchOk_sound liveTables live_indices_nodup 741 recCodec (by decide +kernel)

/-- `Position`, DECODER column: x,y,z up to 1.13.2 (protocol 404), x,z,y from 1.14 (protocol 477)
on, and a single switch-over in between (a run of "old" followed by a run of "new"). -/
theorem decoder_layout_by_version :
    (∀ r ∈ posCodec.take ((posCodec.takeWhile (·.1 != 404)).length + 1), r.2.2 = 0) ∧
      (∀ r ∈ posCodec.dropWhile (·.1 != 477), r.2.2 = 1) ∧
      posCodec.map (·.2.2) =
        List.replicate ((posCodec.map (·.2.2)).count 0) 0 ++
          List.replicate ((posCodec.map (·.2.2)).count 1) 1 := by
  decide +kernel

/-- `Record`, both columns: byte/byte/VarInt strictly before protocol 741 in the chronological
list, one VarLong from 741 on (741 is a known version, so neither range is cut short). -/
theorem record_format_by_version :
    (∀ r ∈ recCodec.takeWhile (·.1 != 741), r.2.1 = 0 ∧ r.2.2 = 0) ∧
      (∀ r ∈ recCodec.dropWhile (·.1 != 741), r.2.1 = 1 ∧ r.2.2 = 1) ∧
      (recCodec.dropWhile (·.1 != 741)).head? = some (741, 1, 1) := by
  decide +kernel

/-! ## Every known version: the round trip, for the model and for the observed flags -/

/-- `Position`, observed flags only (no hand-written version test involved): for every row
`(v, e, d)` of the live table, the layout `e` the live ENCODER uses under `v` and the layout `d`
the live DECODER uses under `v` are documented ones, and writing any in-range position in layout
`e` and reading it in layout `d` returns the same signed coordinates and the untouched rest. -/
theorem pos_rt_live (r : Nat × Nat × Nat) (hr : r ∈ posCodec) (x y z : Int) (rest : Bytes)
    (hx1 : -2 ^ 25 ≤ x) (hx2 : x < 2 ^ 25) (hy1 : -2 ^ 11 ≤ y) (hy2 : y < 2 ^ 11)
    (hz1 : -2 ^ 25 ≤ z) (hz2 : z < 2 ^ 25) :
    r.2.1 < 2 ∧ r.2.2 < 2 ∧
      ∃ w, encPos (r.2.1 == 1) x y z = .ok w ∧ w.length = 8 ∧
        decPos (r.2.2 == 1) (w ++ rest) = .ok ((x, y, z), rest) := by
  obtain ⟨he, hlt⟩ := pos_flags_agree r hr
  refine ⟨hlt, he ▸ hlt, ?_⟩
  rw [← he]
  exact C04.pos_rt _ x y z rest hx1 hx2 hy1 hy2 hz1 hz2

/-- `Position`, every known protocol version `v` of the live tables: there is a row `(v, e, d)`
of live observations; encoder and decoder flag coincide (`d = e`), are 0 or 1, and are the outcome
of the model's test `protocol_later_eq(443)` at `v`; and for every position in the signed
26/12/26-bit ranges the modelled `send_with_context` under `v` succeeds with 8 bytes — the same 8
bytes as the flag codec in the OBSERVED layout — and the modelled `read_with_context` under `v`
returns the same signed coordinates and leaves exactly the bytes that followed. -/
theorem pos_rt_every_known_version (v : Nat) (hv : v ∈ liveTables.knownProtocols) :
    ∃ e d, (v, e, d) ∈ posCodec ∧ d = e ∧ e < 2 ∧ laterEq liveTables v 443 = .ok (e == 1) ∧
      ∀ (x y z : Int) (rest : Bytes), -2 ^ 25 ≤ x → x < 2 ^ 25 → -2 ^ 11 ≤ y → y < 2 ^ 11 →
        -2 ^ 25 ≤ z → z < 2 ^ 25 →
        ∃ w, posSendV liveTables v x y z = .ok w ∧ encPos (e == 1) x y z = .ok w ∧ w.length = 8 ∧
          posReadV liveTables v (w ++ rest) = .ok ((x, y, z), rest) ∧
          decPos (d == 1) (w ++ rest) = .ok ((x, y, z), rest) := by
  obtain ⟨e, d, hm⟩ := known_row tables_cover_known_versions.1 v hv
  obtain ⟨he, hlt⟩ := pos_flags_agree _ hm
  obtain ⟨hs, _⟩ := pos_switch_is_443 _ hm
  simp only at he hlt hs
  subst he
  refine ⟨e, e, hm, rfl, hlt, hs, ?_⟩
  intro x y z rest hx1 hx2 hy1 hy2 hz1 hz2
  obtain ⟨w, hw, hl, hdec⟩ := C04.pos_rt (e == 1) x y z rest hx1 hx2 hy1 hy2 hz1 hz2
  refine ⟨w, ?_, hw, hl, ?_, hdec⟩
  · rw [posSendV, posSendAt_eq 443 _ v _ x y z hs, hw]
  · rw [posReadV, posReadAt_eq 443 _ v _ _ hs, hdec]

/-- `Record`, every known protocol version `v`: there is a row `(v, e, d)` of live observations
with `d = e < 2`, `e` the outcome of `protocol_later_eq(741)` at `v`; and for `x, z ∈ [0, 16)`,
`y ∈ [0, 16)` (VarLong format) or `[0, 256)` (old format), `block_state_id ∈ [0, 2^65)` resp.
`[0, 2^42)`, the modelled `send_with_context` under `v` succeeds with the bytes of the observed
format and the modelled `read_with_context` under `v` returns the same record and the untouched
rest. -/
theorem rec_rt_every_known_version (v : Nat) (hv : v ∈ liveTables.knownProtocols) :
    ∃ e d, (v, e, d) ∈ recCodec ∧ d = e ∧ e < 2 ∧ laterEq liveTables v 741 = .ok (e == 1) ∧
      ∀ (x y z b : Int) (rest : Bytes), 0 ≤ x → x < 16 → 0 ≤ y →
        (y < if e == 1 then 16 else 256) → 0 ≤ z → z < 16 → 0 ≤ b →
        (b < if e == 1 then 2 ^ 65 else 2 ^ 42) →
        ∃ w, recSendV liveTables v x y z b = .ok w ∧ encRecord (e == 1) x y z b = .ok w ∧
          recReadV liveTables v (w ++ rest) = .ok ((x, y, z, b), rest) ∧
          decRecord (d == 1) (w ++ rest) = .ok ((x, y, z, b), rest) := by
  obtain ⟨e, d, hm⟩ := known_row tables_cover_known_versions.2 v hv
  obtain ⟨he, hlt⟩ := rec_flags_agree _ hm
  obtain ⟨hs, _⟩ := rec_switch_is_741 _ hm
  simp only at he hlt hs
  subst he
  refine ⟨e, e, hm, rfl, hlt, hs, ?_⟩
  intro x y z b rest hx1 hx2 hy1 hy2 hz1 hz2 hb1 hb2
  obtain ⟨w, hw, hdec⟩ := C04.record_rt (e == 1) x y z b rest hx1 hx2 hy1 hy2 hz1 hz2 hb1 hb2
  refine ⟨w, ?_, hw, ?_, hdec⟩
  · rw [recSendV, recSendAt_eq 741 _ v _ x y z b hs, hw]
  · rw [recReadV, recReadAt_eq 741 _ v _ _ hs, hdec]

/-! ## The changed code of the audit report is refuted

Audit gap 6: "changing only `basic.py:322` to `protocol_later_eq(477)` breaks the round trip on the
34 known snapshots 443–476" while every theorem of `Props/C04.lean` stays true.  The model of that
changed code is `posSendAt 443` (unchanged writer) with `posReadAt 477` (changed reader). -/

/-- For every known version at or after 443 and before 477, the changed code does NOT have the
round-trip property that `pos_rt_every_known_version` states for the real code. -/
theorem changed_reader_477_breaks (v : Nat) (h443 : laterEq liveTables v 443 = .ok true)
    (h477 : laterEq liveTables v 477 = .ok false) :
    ¬ ∀ x y z : Int, -2 ^ 25 ≤ x → x < 2 ^ 25 → -2 ^ 11 ≤ y → y < 2 ^ 11 → -2 ^ 25 ≤ z →
        z < 2 ^ 25 → ∀ rest : Bytes,
        ∃ w, posSendAt 443 liveTables v x y z = .ok w ∧ w.length = 8 ∧
          posReadAt 477 liveTables v (w ++ rest) = .ok ((x, y, z), rest) := by
  rw [pos_rt_iff_same_layout 443 477 liveTables v true false h443 h477]
  decide

/-- Likewise for a record reader switched at 748 instead of 741 (`block_change_packet.py:116`). -/
theorem changed_record_reader_748_breaks (v : Nat) (h741 : laterEq liveTables v 741 = .ok true)
    (h748 : laterEq liveTables v 748 = .ok false) :
    ¬ ∀ x y z b : Int, 0 ≤ x → x < 16 → 0 ≤ y → y < 16 → 0 ≤ z → z < 16 → 0 ≤ b → b < 2 ^ 42 →
        ∀ rest : Bytes,
        ∃ w, recSendAt 741 liveTables v x y z b = .ok w ∧
          recReadAt 748 liveTables v (w ++ rest) = .ok ((x, y, z, b), rest) := by
  rw [rec_rt_iff_same_layout 741 748 liveTables v true false h741 h748]
  decide

-- the hypotheses of the two refutations are satisfiable: by each of the 34 known versions listed
-- from 443 up to (excluding) 477 — the snapshots 443 … 476 — resp. the 4 from 741 up to 748
example : ((posCodec.dropWhile (·.1 != 443)).takeWhile (·.1 != 477)).length = 34 ∧
    ∀ r ∈ (posCodec.dropWhile (·.1 != 443)).takeWhile (·.1 != 477),
      laterEq liveTables r.1 443 = .ok true ∧ laterEq liveTables r.1 477 = .ok false := by
  decide +kernel
example : ((recCodec.dropWhile (·.1 != 741)).takeWhile (·.1 != 748)).map (·.1) = [741, 743, 744, 746] ∧
    ∀ v ∈ [741, 743, 744, 746],
      laterEq liveTables v 741 = .ok true ∧ laterEq liveTables v 748 = .ok false := by
  decide +kernel
-- concretely, at protocol 443 the changed reader turns (1, 2, 3) into (1, 0, 12290) …
example : posSendAt 443 liveTables 443 1 2 3 = .ok [0, 0, 0, 64, 0, 0, 48, 2] ∧
    posReadAt 477 liveTables 443 [0, 0, 0, 64, 0, 0, 48, 2] = .ok ((1, 0, 12290), []) := by
  decide +kernel
-- … where the real one returns (1, 2, 3)
example : posReadV liveTables 443 [0, 0, 0, 64, 0, 0, 48, 2] = .ok ((1, 2, 3), []) := by
  decide +kernel
example : recSendAt 741 liveTables 741 1 2 3 5 = .ok [0xb2, 0xa2, 0x01] ∧
    recReadAt 748 liveTables 741 [0xb2, 0xa2, 0x01] = .ok ((11, 162, 2, 1), []) ∧
    recReadV liveTables 741 [0xb2, 0xa2, 0x01] = .ok ((1, 2, 3, 5), []) := by
  decide +kernel
-- the rows that `harness/gen/c04codec.py` emits for the changed code (observed by running it on a
-- copy of /repo with l.322 changed: `(443, 1, 0) … (476, 1, 0)`) violate `pos_flags_agree` and
-- `pos_switch_is_443`, so the regenerated table alone already reports the change
example : ¬ ∀ r ∈ [(404, 0, 0), (443, 1, 0), (476, 1, 0), (477, 1, 1)],
    r.2.1 = r.2.2 ∧ r.2.1 < 2 := by decide
example : ¬ ∀ r ∈ [(404, 0, 0), (443, 1, 0), (476, 1, 0), (477, 1, 1)],
    laterEq liveTables r.1 443 = .ok (r.2.1 == 1) ∧
      laterEq liveTables r.1 443 = .ok (r.2.2 == 1) := by decide +kernel
example : ¬ ∀ r ∈ [(740, 0, 0), (741, 1, 0), (746, 1, 0), (748, 1, 1)],
    r.2.1 = r.2.2 ∧ r.2.1 < 2 := by decide

/-! ## Non-vacuity -/

-- the tables are the full version list, and both layouts / formats occur in them
example : posCodec.length = liveTables.knownProtocols.length ∧ posCodec.length > 300 := by
  decide +kernel
example : (404, 0, 0) ∈ posCodec ∧ (443, 1, 1) ∈ posCodec ∧ (476, 1, 1) ∈ posCodec ∧
    (757, 1, 1) ∈ posCodec := by decide +kernel
example : (47, 0, 0) ∈ recCodec ∧ (736, 0, 0) ∈ recCodec ∧ (741, 1, 1) ∈ recCodec ∧
    (757, 1, 1) ∈ recCodec := by decide +kernel
example : ((posCodec.take ((posCodec.takeWhile (·.1 != 404)).length + 1)).getLast? = some (404, 0, 0))
    ∧ (posCodec.dropWhile (·.1 != 477)).head? = some (477, 1, 1)
    ∧ (posCodec.dropWhile (·.1 != 477)).length > 100 := by decide +kernel
example : (recCodec.takeWhile (·.1 != 741)).length > 300 ∧
    (recCodec.dropWhile (·.1 != 741)).length > 10 := by decide +kernel
-- hypotheses of the `iff` theorems: defined tests with equal and with different outcomes
example : laterEq liveTables 476 443 = .ok true ∧ laterEq liveTables 476 477 = .ok false ∧
    laterEq liveTables 404 443 = .ok false := by decide +kernel
-- instances of the per-version theorems at a snapshot between the two switches, at an old and at
-- the newest version
example : ∃ w, posSendV liveTables 476 (2 ^ 25 - 1) (-2 ^ 11) (-2 ^ 25) = .ok w ∧
    posReadV liveTables 476 (w ++ [7]) = .ok ((2 ^ 25 - 1, -2 ^ 11, -2 ^ 25), [7]) := by
  obtain ⟨e, d, _, _, _, _, h⟩ := pos_rt_every_known_version 476 (by decide +kernel)
  obtain ⟨w, h1, _, _, h2, _⟩ := h (2 ^ 25 - 1) (-2 ^ 11) (-2 ^ 25) [7] (by omega) (by omega)
    (by omega) (by omega) (by omega) (by omega)
  exact ⟨w, h1, h2⟩
example : posSendV liveTables 47 (-1) 70 5 = .ok [0xff, 0xff, 0xff, 0xc1, 0x18, 0x00, 0x00, 0x05] ∧
    posReadV liveTables 47 [0xff, 0xff, 0xff, 0xc1, 0x18, 0x00, 0x00, 0x05, 9] = .ok ((-1, 70, 5), [9]) := by
  decide +kernel
example : posSendV liveTables 757 (-1) 70 5 = .ok [0xff, 0xff, 0xff, 0xc0, 0x00, 0x00, 0x50, 0x46] ∧
    posReadV liveTables 757 [0xff, 0xff, 0xff, 0xc0, 0x00, 0x00, 0x50, 0x46, 9] = .ok ((-1, 70, 5), [9]) := by
  decide +kernel
example : recSendV liveTables 740 1 200 3 300 = .ok [0x13, 0xc8, 0xac, 0x02] ∧
    recReadV liveTables 740 [0x13, 0xc8, 0xac, 0x02, 0x77] = .ok ((1, 200, 3, 300), [0x77]) := by
  decide +kernel
-- an unknown version: KeyError from both methods, but a short read is reported first
example : posSendV liveTables 9999 1 2 3 = .error .other ∧
    posReadV liveTables 9999 [0, 0, 0, 64, 0, 0, 48, 2] = .error .other ∧
    posReadV liveTables 9999 [0, 0, 0] = .error .struct ∧
    recReadV liveTables 9999 [0xb2, 0xa2, 0x01] = .error .other ∧
    recSendV liveTables 9999 1 2 3 5 = .error .other := by decide +kernel

end PyCraft.C04Codec
