import PyCraft.Lemmas.Play
/-!
# C11 — in play, keep-alives and teleports are always answered; unknown packets pass

Only property theorems and non-vacuity examples live here; helper lemmas are in `Lemmas/Play.lean`.

`runLoop newer107 peerOpen capW capR inbox` runs the model of `NetworkingThread.run` on the
server's packets `inbox` with write cap `capW` (300 in the code) and read cap `capR` (50 in the
code); it returns `none` exactly when the loop makes no progress. All theorems hold for EVERY
`capW` (even 0: the code tests the cap after the write, so 0 behaves like 1) and EVERY `capR ≥ 1`,
including `capR ≤ capW`, where a busy write phase makes the loop skip the read phase of that
iteration (the counter is shared) — the next iteration then has less to write, so progress is
kept. `capR ≥ 1` is necessary: see `capR_zero_never_reads`.

`peerOpen = false` models the server having closed its end by the time the client reacts to the
server's disconnect packet (the flush inside `disconnect()` then raises and the `except IOError`
branch runs). Statements about the COMPLETE wire need `peerOpen = true` or an inbox without a
disconnect; everything else holds for both.
-/
namespace PyCraft.C11
open PyCraft PyCraft.Play

/-- The loop terminates for all caps with `capR ≥ 1`: it stops after the first server disconnect
or once the inbox is exhausted and the queue is drained. -/
theorem loop_terminates (newer po : Bool) (capW capR : Nat) (hR : 1 ≤ capR) (inbox : List PlayEv) :
    (runLoop newer po capW capR inbox).isSome = true := by
  obtain ⟨r, h, -⟩ := runLoop_spec newer po capW capR hR inbox
  simp [h]

/-- The side condition is sharp: with a read cap of 0 the loop never reads, so a non-empty inbox is
never served (the Python thread would spin for ever). -/
theorem capR_zero_never_reads (newer po : Bool) (capW : Nat) (inbox : List PlayEv)
    (h : inbox ≠ []) : runLoop newer po capW 0 inbox = none := by
  simp [runLoop, loop_capR_zero newer po capW _ inbox h]

/-- The keep-alive responses on the wire are exactly the ids of the keep-alive packets received
before any server disconnect: same order, each exactly once. (If the peer is already closed at
the disconnect, the wire holds a prefix of them: the rest could not be delivered.) -/
theorem keepalive_echo (newer po : Bool) (capW capR : Nat) (hR : 1 ≤ capR) (inbox : List PlayEv) :
    ∃ r, runLoop newer po capW capR inbox = some r ∧
      (r.wire.filterMap Reply.keepAliveId? <+: (beforeDisc inbox).filterMap PlayEv.keepAliveId?) ∧
      ((po = true ∨ hasDisc inbox = false) →
        r.wire.filterMap Reply.keepAliveId? = (beforeDisc inbox).filterMap PlayEv.keepAliveId?) := by
  obtain ⟨r, h, -, -, -, -, -, hp, he⟩ := runLoop_spec newer po capW capR hR inbox
  refine ⟨r, h, ?_, fun hc => ?_⟩
  · rw [← keepAlive_of_flatMap newer]; exact hp.filterMap _
  · rw [he hc, fullWire, keepAlive_of_flatMap]

/-- Every position-and-look packet received before any server disconnect is acknowledged, in
order, exactly once: from protocol 107 on by a teleport confirm with the same teleport id, before
that by a position packet echoing x, y (as feet_y), z, yaw, pitch with on_ground = true; these are
the only non-keep-alive packets the client writes. The client is marked as spawned iff at least
one such packet was processed. -/
theorem teleport_ack (newer po : Bool) (capW capR : Nat) (hR : 1 ≤ capR) (inbox : List PlayEv) :
    ∃ r, runLoop newer po capW capR inbox = some r ∧
      ((po = true ∨ hasDisc inbox = false) →
        r.wire.filter (fun p => !p.isKeepAlive) = (beforeDisc inbox).filterMap (expectedAck newer)) ∧
      (r.spawned = true ↔ ∃ e ∈ beforeDisc inbox, e.isPosLook = true) ∧
      (∀ x y z yaw pitch f tid,
        expectedAck true (.posLook x y z yaw pitch f tid) = some (.teleportConfirm tid) ∧
        expectedAck false (.posLook x y z yaw pitch f tid) = some (.positionEcho x y z yaw pitch true)) ∧
      (∀ e, e.isPosLook = false → expectedAck newer e = none) := by
  obtain ⟨r, h, -, hs, -, -, -, -, he⟩ := runLoop_spec newer po capW capR hR inbox
  refine ⟨r, h, fun hc => ?_, ?_, fun _ _ _ _ _ _ _ => ⟨rfl, rfl⟩, ?_⟩
  · rw [he hc, fullWire, acks_of_flatMap]
  · rw [hs]; simp
  · intro e hpl; cases e <;> simp_all [expectedAck, PlayEv.isPosLook]

/-- The wire is the in-order concatenation of the replies to the individual packets: keep-alive
responses and teleport acknowledgements are never reordered relative to each other, whatever the
caps. -/
theorem wire_order (newer po : Bool) (capW capR : Nat) (hR : 1 ≤ capR) (inbox : List PlayEv)
    (hc : po = true ∨ hasDisc inbox = false) :
    ∃ r, runLoop newer po capW capR inbox = some r ∧
      r.wire = (beforeDisc inbox).flatMap (replyTo newer) := by
  obtain ⟨r, h, -, -, -, -, -, -, he⟩ := runLoop_spec newer po capW capR hR inbox
  exact ⟨r, h, he hc⟩

/-- Packets with unknown ids (and every other packet up to and including the first disconnect) are
delivered to the listeners, in order, an unknown one as a generic packet carrying its id (the
payload is dropped); they produce no reply, and deleting all of them from the inbox changes
neither the wire nor any other observable except the delivery list itself. -/
theorem unknown_passthrough (newer po : Bool) (capW capR : Nat) (hR : 1 ≤ capR)
    (inbox : List PlayEv) (hc : po = true ∨ hasDisc inbox = false) :
    ∃ r r', runLoop newer po capW capR inbox = some r ∧
      runLoop newer po capW capR (inbox.filter (fun e => !e.isUnknown)) = some r' ∧
      r.delivered = (beforeDisc inbox ++ if hasDisc inbox then [PlayEv.disconnect] else []).map
        PlayEv.asSeen ∧
      (∀ pid d, PlayEv.unknown pid d ∈ beforeDisc inbox → PlayEv.unknown pid [] ∈ r.delivered) ∧
      (∀ pid d, replyTo newer (.unknown pid d) = []) ∧
      r'.wire = r.wire ∧ r'.spawned = r.spawned ∧ r'.closed = r.closed ∧
      r'.exitCalls = r.exitCalls ∧ r'.errors = r.errors := by
  obtain ⟨r, h, hd, hs, hcl, hx, herr, -, he⟩ := runLoop_spec newer po capW capR hR inbox
  obtain ⟨r', h', -, hs', hcl', hx', herr', -, he'⟩ :=
    runLoop_spec newer po capW capR hR (inbox.filter (fun e => !e.isUnknown))
  obtain ⟨hb, hh⟩ := beforeDisc_filter (fun e => !e.isUnknown) rfl inbox
  refine ⟨r, r', h, h', hd, ?_, fun _ _ => rfl, ?_, ?_, ?_, ?_, ?_⟩
  · intro pid d hm
    rw [hd, List.map_append, List.mem_append]
    left
    exact List.mem_map.2 ⟨_, hm, rfl⟩
  · rw [he' (by rw [hh]; exact hc), he hc, fullWire, fullWire, hb]
    apply flatMap_filter_noreply
    intro e hne; cases e <;> simp_all [PlayEv.isUnknown, replyTo]
  · rw [hs', hs, hb]
    simp only [List.any_filter]
    congr 1; funext e; cases e <;> simp [PlayEv.isUnknown, PlayEv.isPosLook]
  · rw [hcl', hcl, hh]
  · rw [hx', hx, hh]
  · rw [herr', herr]

/-- A server disconnect packet: the connection is closed, the exit callback runs exactly once and
no error is reported — also when the peer has already gone away. The packets up to and including
the disconnect are delivered and nothing after it is (later packets are not processed: the result
is the same as if they had never been sent). If the peer is still open, every reply queued before
is flushed first; otherwise the wire holds a prefix of them. -/
theorem server_disconnect_clean (newer po : Bool) (capW capR : Nat) (hR : 1 ≤ capR)
    (pre post : List PlayEv) (hpre : PlayEv.disconnect ∉ pre) :
    ∃ r, runLoop newer po capW capR (pre ++ PlayEv.disconnect :: post) = some r ∧
      r.closed = true ∧ r.exitCalls = 1 ∧ r.errors = 0 ∧
      r.delivered = (pre ++ [PlayEv.disconnect]).map PlayEv.asSeen ∧
      r.spawned = pre.any PlayEv.isPosLook ∧
      r.wire <+: pre.flatMap (replyTo newer) ∧
      (po = true → r.wire = pre.flatMap (replyTo newer) ∧
        runLoop newer po capW capR (pre ++ [PlayEv.disconnect]) = some r) := by
  obtain ⟨r, h, hd, hs, hcl, hx, herr, hp, he⟩ :=
    runLoop_spec newer po capW capR hR (pre ++ PlayEv.disconnect :: post)
  obtain ⟨hb, hh⟩ := beforeDisc_append_disc pre post hpre
  rw [hb, hh] at hd
  rw [hb] at hs
  rw [hh] at hcl hx
  rw [fullWire, hb] at hp he
  refine ⟨r, h, hcl, by simpa using hx, herr, by simpa using hd, hs, hp, fun hpo => ?_⟩
  refine ⟨he (Or.inl hpo), ?_⟩
  obtain ⟨r2, h2, hd2, hs2, hcl2, hx2, herr2, -, he2⟩ :=
    runLoop_spec newer po capW capR hR (pre ++ [PlayEv.disconnect])
  obtain ⟨hb2, hh2⟩ := beforeDisc_append_disc pre [] hpre
  rw [hb2, hh2] at hd2
  rw [hb2] at hs2
  rw [hh2] at hcl2 hx2
  rw [fullWire, hb2] at he2
  rw [h2]
  congr 1
  apply Result.ext'
  · rw [he2 (Or.inl hpo), he (Or.inl hpo)]
  · rw [hd2, hd]
  · rw [hs2, hs]
  · rw [hcl2, hcl]
  · rw [hx2, hx]
  · rw [herr2, herr]

/-- Without a server disconnect the loop serves the whole inbox, drains the queue and leaves the
connection open: no exit callback, no error. -/
theorem no_disconnect_stays_open (newer po : Bool) (capW capR : Nat) (hR : 1 ≤ capR)
    (inbox : List PlayEv) (hno : PlayEv.disconnect ∉ inbox) :
    ∃ r, runLoop newer po capW capR inbox = some r ∧
      r.closed = false ∧ r.exitCalls = 0 ∧ r.errors = 0 ∧
      r.delivered = inbox.map PlayEv.asSeen ∧ r.wire = inbox.flatMap (replyTo newer) := by
  obtain ⟨r, h, hd, -, hcl, hx, herr, -, he⟩ := runLoop_spec newer po capW capR hR inbox
  obtain ⟨hb, hh⟩ := beforeDisc_of_no_disc inbox hno
  rw [hb, hh] at hd
  rw [hh] at hcl hx
  refine ⟨r, h, hcl, by simpa using hx, herr, by simpa using hd, ?_⟩
  rw [he (Or.inr hh), fullWire, hb]

/-- The batch caps do not matter: for all `capW, capW'` and all `capR, capR' ≥ 1` the result (wire,
delivered packets, spawned, closed, exit calls, errors) is the same. If the peer is closed at a
disconnect the caps only decide how much of the reply list had already been written (the wire may
differ); everything else is still the same. -/
theorem caps_irrelevant (newer po : Bool) (capW capR capW' capR' : Nat) (hR : 1 ≤ capR)
    (hR' : 1 ≤ capR') (inbox : List PlayEv) :
    ∃ r r', runLoop newer po capW capR inbox = some r ∧
      runLoop newer po capW' capR' inbox = some r' ∧
      r.delivered = r'.delivered ∧ r.spawned = r'.spawned ∧ r.closed = r'.closed ∧
      r.exitCalls = r'.exitCalls ∧ r.errors = r'.errors ∧
      ((po = true ∨ hasDisc inbox = false) → r = r') := by
  obtain ⟨r, h, hd, hs, hcl, hx, herr, -, he⟩ := runLoop_spec newer po capW capR hR inbox
  obtain ⟨r', h', hd', hs', hcl', hx', herr', -, he'⟩ := runLoop_spec newer po capW' capR' hR' inbox
  refine ⟨r, r', h, h', by rw [hd, hd'], by rw [hs, hs'], by rw [hcl, hcl'], by rw [hx, hx'],
    by rw [herr, herr'], fun hc => ?_⟩
  apply Result.ext'
  · rw [he hc, he' hc]
  · rw [hd, hd']
  · rw [hs, hs']
  · rw [hcl, hcl']
  · rw [hx, hx']
  · rw [herr, herr']

/-! ### Non-vacuity: concrete runs (kernel-evaluated) -/

private def demoInbox : List PlayEv :=
  [.keepAlive 1, .posLook 10 64 (-3) 90 0 0 7, .unknown 200 [0xaa], .other "chat message",
   .keepAlive 2, .disconnect, .keepAlive 3]

/-- The real caps, protocol ≥ 107. -/
example : runLoop true true 300 50 demoInbox =
    some { wire := [.keepAlive 1, .teleportConfirm 7, .keepAlive 2],
           delivered := [.keepAlive 1, .posLook 10 64 (-3) 90 0 0 7, .unknown 200 [],
                         .other "chat message", .keepAlive 2, .disconnect],
           spawned := true, closed := true, exitCalls := 1, errors := 0 } := by decide +kernel

/-- Tiny caps with `capR ≤ capW` (read phases get skipped), protocol < 107. -/
example : runLoop false true 2 1 demoInbox =
    some { wire := [.keepAlive 1, .positionEcho 10 64 (-3) 90 0 true, .keepAlive 2],
           delivered := [.keepAlive 1, .posLook 10 64 (-3) 90 0 0 7, .unknown 200 [],
                         .other "chat message", .keepAlive 2, .disconnect],
           spawned := true, closed := true, exitCalls := 1, errors := 0 } := by decide +kernel

/-- Peer already closed at the disconnect: clean exit, but the three queued replies are lost. -/
example : runLoop true false 300 50 demoInbox =
    some { wire := [],
           delivered := [.keepAlive 1, .posLook 10 64 (-3) 90 0 0 7, .unknown 200 [],
                         .other "chat message", .keepAlive 2, .disconnect],
           spawned := true, closed := true, exitCalls := 1, errors := 0 } := by decide +kernel

/-- No disconnect: everything answered, connection stays open. -/
example : runLoop true true 1 3 [.keepAlive 5, .keepAlive 6, .keepAlive 7, .keepAlive 8] =
    some { wire := [.keepAlive 5, .keepAlive 6, .keepAlive 7, .keepAlive 8],
           delivered := [.keepAlive 5, .keepAlive 6, .keepAlive 7, .keepAlive 8],
           spawned := false, closed := false, exitCalls := 0, errors := 0 } := by decide +kernel

example : runLoop true true 300 0 [.keepAlive 5] = none := by decide +kernel

/-- The hypotheses are satisfiable. -/
example : PlayEv.disconnect ∉ [PlayEv.keepAlive 1, .posLook 10 64 (-3) 90 0 0 7] := by decide
example : hasDisc [PlayEv.keepAlive 1, .unknown 3 []] = false := by decide

end PyCraft.C11
