import PyCraft.Lemmas.C19Json
import PyCraft.Lemmas.C19Seq
import PyCraft.Ref.Yggdrasil
/-!
# C19, audit item 23 — operation SEQUENCES, the HTTP request as posted, the exception as raised,
# arbitrary JSON values in replies

Model: `Model/C19Seq.lean` (`AuthSeq`), `Model/C19Json.lean` (`json.dumps`).  References written
independently of the code: `Ref/C19Json.lean` (an RFC 8259 decoder), `Ref/Yggdrasil.lean` (the
published API).  `run op net t = (token afterwards, outcome, request passed to requests.post)`;
`net : Request → Resp` is the network.

Each group of theorems is followed by the code changes the audit lists as "passing everything",
as alternative definitions in `namespace Changed`, each refuted against the SAME statement.
-/
namespace PyCraft.C19Seq
open PyCraft PyCraft.Json PyCraft.AuthSeq PyCraft.Ref.Json
open PyCraft.Ref
open PyCraft.Ref.Yggdrasil (OpKind)

/-! ## 1. "posts … JSON": method, headers, body -/

/-- The reference decoder reads back exactly the value the `json.dumps` model was applied to: for
every JSON value (any nesting, any string, any integer). -/
theorem json_decodes_back (v : JVal) : parseJson (jsonDumps v) = some v :=
  parseJson_jsonDumps v

/-- The text `json.dumps` produces consists of printable ASCII characters only (`' '`…`'~'`): its
bytes are the same under ASCII, Latin-1 (what `http.client` uses for a `str` body) and UTF-8. -/
theorem json_is_printable_ascii (v : JVal) :
    ∀ c ∈ (jsonDumps v).toList, 0x20 ≤ c.toNat ∧ c.toNat ≤ 0x7e := by
  intro c hc
  rw [jsonDumps, String.toList_ofList] at hc
  exact allPrintable_dumps v c hc

/-- What `_make_request` must do, as a statement about ANY implementation `mk` of it: an HTTP
`POST` (the documented method) to `server + "/" + endpoint`, with exactly one header,
`content-type: application/json` (the documented type), a 15 s timeout, and a body that an
RFC 8259 decoder reads as exactly `data` and that is printable ASCII. -/
def MakeRequestSpec (mk : String → String → JVal → Request) : Prop :=
  ∀ (server endpoint : String) (data : JVal),
    (mk server endpoint data).method = Yggdrasil.httpMethod ∧
    (mk server endpoint data).headers = [("content-type", Yggdrasil.contentType)] ∧
    (mk server endpoint data).url = server ++ "/" ++ endpoint ∧
    (mk server endpoint data).timeout = 15 ∧
    parseJson (mk server endpoint data).body = some data ∧
    ∀ c ∈ (mk server endpoint data).body.toList, 0x20 ≤ c.toNat ∧ c.toNat ≤ 0x7e

/-- `_make_request` does that. -/
theorem make_request_spec : MakeRequestSpec makeRequest := by
  intro server endpoint data
  exact ⟨rfl, rfl, rfl, rfl, json_decodes_back data, json_is_printable_ascii data⟩

/-- The documented operation a method implements. -/
def kind : Op → OpKind
  | .authenticate .. => .authenticate
  | .refresh => .refresh
  | .validate => .validate
  | .invalidate => .invalidate
  | .join _ => .join

/-- Every request any method ever passes to `requests.post` — for every token (attributes of any
JSON type), every network — is a `POST` to the documented URL of that operation with the single
header `content-type: application/json`, timeout 15, and a printable-ASCII body that is the
`json.dumps` of some value and decodes (RFC 8259) to that value. -/
theorem request_is_documented_post (op : Op) (net : Request → Resp) (t : Token) (q : Request)
    (h : (run op net t).2.2 = some q) :
    q.method = Yggdrasil.httpMethod ∧
    q.headers = [("content-type", Yggdrasil.contentType)] ∧
    q.url = Yggdrasil.url (kind op) ∧
    q.timeout = 15 ∧
    (∃ payload, q.body = jsonDumps payload ∧ parseJson q.body = some payload) ∧
    ∀ c ∈ q.body.toList, 0x20 ≤ c.toNat ∧ c.toNat ≤ 0x7e := by
  rw [run_request] at h
  have hp := prepare_of_request op t q h
  have key : ∀ (server endpoint : String) (data : JVal) (u : String),
      server ++ "/" ++ endpoint = u → q = makeRequest server endpoint data →
      q.method = Yggdrasil.httpMethod ∧ q.headers = [("content-type", Yggdrasil.contentType)] ∧
      q.url = u ∧ q.timeout = 15 ∧
      (∃ payload, q.body = jsonDumps payload ∧ parseJson q.body = some payload) ∧
      ∀ c ∈ q.body.toList, 0x20 ≤ c.toNat ∧ c.toNat ≤ 0x7e := by
    intro server endpoint data u hu hq
    subst hq
    obtain ⟨h1, h2, h3, h4, h5, h6⟩ := make_request_spec server endpoint data
    exact ⟨h1, h2, h3.trans hu, h4, ⟨data, rfl, h5⟩, h6⟩
  cases op with
  | authenticate fresh user pass inv =>
    simp only [prepare, Except.ok.injEq] at hp
    exact key _ _ _ _ (by simp only [kind, Yggdrasil.url]; decide) hp.symm
  | refresh =>
    simp only [prepare] at hp
    split at hp
    · simp at hp
    · split at hp
      · simp at hp
      · simp only [Except.ok.injEq] at hp; exact key _ _ _ _ (by simp only [kind, Yggdrasil.url]; decide) hp.symm
  | validate =>
    simp only [prepare] at hp
    split at hp
    · simp at hp
    · simp only [Except.ok.injEq] at hp; exact key _ _ _ _ (by simp only [kind, Yggdrasil.url]; decide) hp.symm
  | invalidate =>
    simp only [prepare, Except.ok.injEq] at hp
    exact key _ _ _ _ (by simp only [kind, Yggdrasil.url]; decide) hp.symm
  | join sid =>
    simp only [prepare] at hp
    split at hp
    · simp at hp
    · split at hp
      · simp at hp
      · simp only [Except.ok.injEq] at hp; exact key _ _ _ _ (by simp only [kind, Yggdrasil.url]; decide) hp.symm

/-- The same for the static `sign_out`. -/
theorem sign_out_is_documented_post (net : Request → Resp) (user pass : String) :
    let q := (signOut net user pass).2
    q.method = Yggdrasil.httpMethod ∧
    q.headers = [("content-type", Yggdrasil.contentType)] ∧
    q.url = Yggdrasil.url .signout ∧
    q.timeout = 15 ∧
    parseJson q.body = some (.obj [("username", .str user), ("password", .str pass)]) := by
  simp only [signOut_snd]
  obtain ⟨h1, h2, _, h4, h5, _⟩ := make_request_spec AUTH_SERVER "signout"
    (.obj [("username", .str user), ("password", .str pass)])
  exact ⟨h1, h2, by show AUTH_SERVER ++ "/" ++ "signout" = Yggdrasil.url .signout; decide, h4, h5⟩

/-- WHEN a request is sent, and WHAT an RFC 8259 decoder finds in its body, per method; token
attributes may hold any JSON value (`null` = `None`) and are sent as they are.

* `authenticate`: always; `agent = {name: "Minecraft", version: 1}`, `username`, `password` and —
  only when `invalidate_previous` is false — `clientToken`: the stored one if it is truthy, else the
  fresh uuid.
* `refresh`: iff access token and client token are not `None`; both.
* `validate`: iff the access token is not `None`; it alone.
* `invalidate`: always; both tokens (`null` when `None`).
* `join`: iff the token is authenticated; `accessToken`, `selectedProfile = {id, name}`, `serverId`. -/
theorem posted_payload (net : Request → Resp) (t : Token) :
    (∀ fresh user pass inv, ∃ q,
      (run (.authenticate fresh user pass inv) net t).2.2 = some q ∧
      parseJson q.body = some (.obj (
        [("agent", .obj [("name", .str "Minecraft"), ("version", .num 1)]),
         ("username", .str user), ("password", .str pass)] ++
        if inv then []
        else [("clientToken", if t.clientToken.truthy then t.clientToken else .str fresh)]))) ∧
    (if t.accessToken = .null ∨ t.clientToken = .null then (run .refresh net t).2.2 = none
     else ∃ q, (run .refresh net t).2.2 = some q ∧ parseJson q.body =
        some (.obj [("accessToken", t.accessToken), ("clientToken", t.clientToken)])) ∧
    (if t.accessToken = .null then (run .validate net t).2.2 = none
     else ∃ q, (run .validate net t).2.2 = some q ∧ parseJson q.body =
        some (.obj [("accessToken", t.accessToken)])) ∧
    (∃ q, (run .invalidate net t).2.2 = some q ∧ parseJson q.body =
        some (.obj [("accessToken", t.accessToken), ("clientToken", t.clientToken)])) ∧
    (∀ sid, if authenticated t = false then (run (.join sid) net t).2.2 = none
     else ∃ q, (run (.join sid) net t).2.2 = some q ∧ parseJson q.body =
        some (.obj [("accessToken", t.accessToken),
                    ("selectedProfile", .obj [("id", t.profile.id_), ("name", t.profile.name)]),
                    ("serverId", .str sid)])) := by
  have isNone_ne : ∀ v : JVal, v ≠ .null → v.isNone = false := by
    intro v hv; cases v <;> simp_all [JVal.isNone]
  refine ⟨?_, ?_, ?_, ?_, ?_⟩
  · intro fresh user pass inv
    refine ⟨makeRequest AUTH_SERVER "authenticate" (authPayload fresh t user pass inv),
      by rw [run_request]; simp [requestOf, prepare], ?_⟩
    simp only [makeRequest]
    rw [json_decodes_back]
    cases inv <;> rfl
  · rw [run_request]
    by_cases ha : t.accessToken = .null
    · simp [requestOf, prepare, ha, JVal.isNone]
    · by_cases hc : t.clientToken = .null
      · simp [requestOf, prepare, ha, hc, JVal.isNone]
      · rw [if_neg (by simp [ha, hc])]
        exact ⟨makeRequest AUTH_SERVER "refresh"
            (.obj [("accessToken", t.accessToken), ("clientToken", t.clientToken)]),
          by simp [requestOf, prepare, isNone_ne _ ha, isNone_ne _ hc], json_decodes_back _⟩
  · rw [run_request]
    by_cases ha : t.accessToken = .null
    · simp [requestOf, prepare, ha, JVal.isNone]
    · rw [if_neg ha]
      exact ⟨makeRequest AUTH_SERVER "validate" (.obj [("accessToken", t.accessToken)]),
        by simp [requestOf, prepare, isNone_ne _ ha], json_decodes_back _⟩
  · exact ⟨makeRequest AUTH_SERVER "invalidate"
        (.obj [("accessToken", t.accessToken), ("clientToken", t.clientToken)]),
      by rw [run_request]; simp [requestOf, prepare], json_decodes_back _⟩
  · intro sid
    rw [run_request]
    cases hau : authenticated t with
    | false => simp [requestOf, prepare, hau]
    | true =>
      have hp : t.profile.truthy = true := by
        unfold authenticated at hau
        cases hp : t.profile.truthy with
        | true => rfl
        | false => simp [hp] at hau
      rw [if_neg (by simp)]
      exact ⟨makeRequest SESSION_SERVER "join"
          (.obj [("accessToken", t.accessToken),
                 ("selectedProfile", .obj [("id", t.profile.id_), ("name", t.profile.name)]),
                 ("serverId", .str sid)]),
        by simp [requestOf, prepare, hau, Profile.toDict, hp], json_decodes_back _⟩

/-- A token all of whose five attributes are strings. -/
def StringToken (t : Token) : Prop :=
  ∃ u a c i n, t = ⟨.str u, .str a, .str c, ⟨.str i, .str n⟩⟩

/-- Against the PUBLISHED API (`Ref/Yggdrasil.lean`): on a token whose attributes are strings, what
`authenticate`, `refresh`, `validate`, `invalidate` post is a documented payload of that operation
(only documented members, each of the documented shape, all non-optional ones present). -/
theorem payload_conforms_documented (net : Request → Resp) (t : Token) (ht : StringToken t)
    (op : Op) (hop : ∀ sid, op ≠ .join sid) (q : Request) (h : (run op net t).2.2 = some q) :
    ∃ payload, parseJson q.body = some payload ∧ Yggdrasil.conforms (kind op) payload = true := by
  obtain ⟨u, a, c, i, n, rfl⟩ := ht
  rw [run_request] at h
  have hp := prepare_of_request op _ q h
  cases op with
  | authenticate fresh user pass inv =>
    simp only [prepare, Except.ok.injEq] at hp
    subst hp
    refine ⟨_, json_decodes_back _, ?_⟩
    cases inv
    · by_cases hc : c = "" <;>
        simp [authPayload, kind, Yggdrasil.conforms, Yggdrasil.documented, Yggdrasil.keysDistinct,
          Yggdrasil.Shape.ok, Yggdrasil.isStr, JVal.truthy, hc, AGENT_NAME, AGENT_VERSION] <;> decide
    · simp [authPayload, kind, Yggdrasil.conforms, Yggdrasil.documented, Yggdrasil.keysDistinct,
        Yggdrasil.Shape.ok, Yggdrasil.isStr, AGENT_NAME, AGENT_VERSION]
  | refresh =>
    simp only [prepare, JVal.isNone, Bool.false_eq_true, if_false, Except.ok.injEq] at hp
    subst hp
    exact ⟨_, json_decodes_back _, by
      simp [kind, Yggdrasil.conforms, Yggdrasil.documented, Yggdrasil.keysDistinct,
        Yggdrasil.Shape.ok, Yggdrasil.isStr]⟩
  | validate =>
    simp only [prepare, JVal.isNone, Bool.false_eq_true, if_false, Except.ok.injEq] at hp
    subst hp
    exact ⟨_, json_decodes_back _, by
      simp [kind, Yggdrasil.conforms, Yggdrasil.documented, Yggdrasil.keysDistinct,
        Yggdrasil.Shape.ok, Yggdrasil.isStr]⟩
  | invalidate =>
    simp only [prepare, Except.ok.injEq] at hp
    subst hp
    exact ⟨_, json_decodes_back _, by
      simp [kind, Yggdrasil.conforms, Yggdrasil.documented, Yggdrasil.keysDistinct,
        Yggdrasil.Shape.ok, Yggdrasil.isStr]⟩
  | join sid => exact absurd rfl (hop sid)

/-- … and so is what `sign_out` posts. -/
theorem sign_out_conforms_documented (net : Request → Resp) (user pass : String) :
    ∃ payload, parseJson (signOut net user pass).2.body = some payload ∧
      Yggdrasil.conforms .signout payload = true := by
  rw [signOut_snd]
  exact ⟨_, json_decodes_back _, by
    simp [Yggdrasil.conforms, Yggdrasil.documented, Yggdrasil.keysDistinct,
      Yggdrasil.Shape.ok, Yggdrasil.isStr]⟩

/-- OBSERVATION (a deviation from the published API, stated exactly).  What `join` posts is NEVER
a documented `join` payload: the published `selectedProfile` is a STRING (the profile id, "the
player's uuid without dashes"), the code sends the OBJECT `{"id": …, "name": …}`.  It is
off by exactly that: replacing the object by its `id` member gives a documented payload. -/
theorem join_payload_vs_documented (net : Request → Resp) (a i n u c sid : String) (q : Request)
    (h : (run (.join sid) net ⟨.str u, .str a, .str c, ⟨.str i, .str n⟩⟩).2.2 = some q) :
    parseJson q.body = some (.obj [("accessToken", .str a),
      ("selectedProfile", .obj [("id", .str i), ("name", .str n)]), ("serverId", .str sid)]) ∧
    Yggdrasil.conforms .join (.obj [("accessToken", .str a),
      ("selectedProfile", .obj [("id", .str i), ("name", .str n)]), ("serverId", .str sid)]) = false ∧
    Yggdrasil.conforms .join (.obj [("accessToken", .str a),
      ("selectedProfile", .str i), ("serverId", .str sid)]) = true := by
  refine ⟨?_, ?_, ?_⟩
  · have := (posted_payload net ⟨.str u, .str a, .str c, ⟨.str i, .str n⟩⟩).2.2.2.2 sid
    split at this
    · rw [this] at h; simp at h
    · obtain ⟨q', hq', hb⟩ := this
      rw [hq'] at h
      simp only [Option.some.injEq] at h
      subst h
      exact hb
  · simp [Yggdrasil.conforms, Yggdrasil.documented, Yggdrasil.keysDistinct,
      Yggdrasil.Shape.ok, Yggdrasil.isStr]
  · simp [Yggdrasil.conforms, Yggdrasil.documented, Yggdrasil.keysDistinct,
      Yggdrasil.Shape.ok, Yggdrasil.isStr]


/-! ### code changes of the audit that `Props/C19.lean` lets pass -/

namespace Changed

/-- `requests.put(…)` instead of `requests.post(…)`. -/
def makeRequestPut (server endpoint : String) (data : JVal) : Request :=
  { makeRequest server endpoint data with method := "PUT" }

/-- `headers=HEADERS` dropped. -/
def makeRequestNoHeaders (server endpoint : String) (data : JVal) : Request :=
  { makeRequest server endpoint data with headers := [] }

/-- What `requests` makes of `data=<dict>`: a form-encoded body `k=v&k=v` (values that are strings
of unreserved characters are copied; that is all the refutation below needs). -/
def formBody : JVal → String
  | .obj kvs => "&".intercalate (kvs.map fun (k, v) => k ++ "=" ++ match v with
      | .str s => s
      | _ => "")
  | _ => ""

/-- `data=data` instead of `data=json.dumps(data)`. -/
def makeRequestForm (server endpoint : String) (data : JVal) : Request :=
  { makeRequest server endpoint data with body := formBody data }

/-- `json.dumps(data, ensure_ascii=False)`: characters outside ASCII are copied. -/
def makeRequestRawUnicode (server endpoint : String) (data : JVal) : Request :=
  { makeRequest server endpoint data with
    body := match data with
      | .str s => "\"" ++ s ++ "\""
      | v => jsonDumps v }

end Changed

example : ¬ MakeRequestSpec Changed.makeRequestPut :=
  fun h => absurd (h "s" "e" .null).1 (by decide +kernel)
example : ¬ MakeRequestSpec Changed.makeRequestNoHeaders :=
  fun h => absurd (h "s" "e" .null).2.1 (by decide +kernel)
example : ¬ MakeRequestSpec Changed.makeRequestForm :=
  fun h => absurd (h "s" "validate" (.obj [("accessToken", .str "acc")])).2.2.2.2.1
    (by decide +kernel)
example : ¬ MakeRequestSpec Changed.makeRequestRawUnicode :=
  fun h => absurd ((h "s" "e" (.str "é")).2.2.2.2.2 'é' (by decide +kernel)) (by decide +kernel)

/-! ## 2. error replies: the exception as raised -/

/-- What `_raise_from_response` must do, as a statement about ANY implementation `raise`
(`none` = returns), with the PUBLISHED error format (`Ref/Yggdrasil.errorReplySpec`):

* status `200`: returns;
* any other status, body a documented error object `{"error": e, "errorMessage": m[, "cause": c]}`:
  a `YggdrasilError` with `status_code`, `yggdrasil_error = e`, `yggdrasil_message = m`,
  `yggdrasil_cause = c` (`None` when absent) and `args = ("[<status>] <e>: '<m>'",)`;
* any other status, body anything that is not a JSON object with both an `"error"` and an
  `"errorMessage"` member (not JSON at all, a list, a number, `null`, an object lacking one of the
  two): `status_code` set, the three fields `None`, and
  `args = ("[<status>] Malformed error message: '<res.text>'",)` — the raw text of the reply;
* (members of other JSON types) any object with both members: they are copied as they are. -/
def RaiseSpec (raise : Reply → Option Outcome) : Prop :=
  ∀ r : Reply,
    (r.status = 200 → raise r = none) ∧
    (r.status ≠ 200 →
      (∀ j e m c, r.json = some j → Yggdrasil.errorReplySpec j = some (e, m, c) →
        ∃ msg, raise r = some (.yggdrasil (some msg) (some r.status) (.str e) (.str m)
            (match c with
              | some c => .str c
              | none => .null)) ∧
          ∀ R, msg.text R = "[" ++ toString r.status ++ "] " ++ e ++ ": '" ++ m ++ "'") ∧
      ((∀ kvs, r.json = some (.obj kvs) →
          kvs.lookup "error" = none ∨ kvs.lookup "errorMessage" = none) →
        ∃ msg, raise r = some (.yggdrasil (some msg) (some r.status) .null .null .null) ∧
          ∀ R, msg.text R =
            "[" ++ toString r.status ++ "] Malformed error message: '" ++ r.text ++ "'") ∧
      (∀ kvs e m, r.json = some (.obj kvs) → kvs.lookup "error" = some e →
        kvs.lookup "errorMessage" = some m →
        raise r = some (.yggdrasil (some (.error r.status e m)) (some r.status) e m
          ((kvs.lookup "cause").getD .null))))

/-- `_raise_from_response` does that. -/
theorem raise_from_response_spec : RaiseSpec raiseFromResponse := by
  intro r
  refine ⟨fun h => (raise_none_iff r).mpr h, fun hs => ⟨?_, ?_, ?_⟩⟩
  · intro j e m c hj hspec
    cases j with
    | obj kvs =>
      simp only [Yggdrasil.errorReplySpec] at hspec
      cases he : kvs.lookup "error" with
      | none => simp [he] at hspec
      | some ev =>
        cases hm : kvs.lookup "errorMessage" with
        | none => rw [he, hm] at hspec; cases ev <;> simp at hspec
        | some mv =>
          rw [he, hm] at hspec
          cases ev <;> cases mv <;> try (simp at hspec; done)
          rename_i es ms
          cases hc : kvs.lookup "cause" with
          | none =>
            rw [hc] at hspec
            simp only [Option.some.injEq, Prod.mk.injEq] at hspec
            obtain ⟨rfl, rfl, rfl⟩ := hspec
            exact ⟨.error r.status (.str es) (.str ms),
              by simp [raiseFromResponse, hs, hj, he, hm, hc], fun R => rfl⟩
          | some cv =>
            rw [hc] at hspec
            cases cv <;> try (simp at hspec; done)
            rename_i cs
            simp only [Option.some.injEq, Prod.mk.injEq] at hspec
            obtain ⟨rfl, rfl, rfl⟩ := hspec
            exact ⟨.error r.status (.str es) (.str ms),
              by simp [raiseFromResponse, hs, hj, he, hm, hc], fun R => rfl⟩
    | _ => simp [Yggdrasil.errorReplySpec] at hspec
  · intro h
    refine ⟨.malformed r.status r.text, ?_, fun R => rfl⟩
    cases hj : r.json with
    | none => simp [raiseFromResponse, hs, hj]
    | some j =>
      cases j with
      | obj kvs =>
        rcases h kvs hj with h' | h'
        · simp [raiseFromResponse, hs, hj, h']
        · cases he : kvs.lookup "error" <;> simp [raiseFromResponse, hs, hj, h', he]
      | _ => simp [raiseFromResponse, hs, hj]
  · intro kvs e m hj he hm
    simp [raiseFromResponse, hs, hj, he, hm]

/-- An error reply makes every method other than `validate` raise, with the token untouched: if a
request `q` was sent, the network answered it with the response `r`, and the status is not one the
method accepts (accepted: `200` for `authenticate`, `refresh`; `200` and `204` for `invalidate`,
`join`), then the call raises exactly what `_raise_from_response(r)` raises — which
`raise_from_response_spec` describes down to the text — and the token is as before. -/
theorem error_reply_raises (op : Op) (net : Request → Resp) (t : Token) (q : Request) (r : Reply)
    (hq : (run op net t).2.2 = some q) (hr : net q = .reply r)
    (hst : match op with
      | .authenticate .. | .refresh => r.status ≠ 200
      | .invalidate | .join _ => r.status ≠ 200 ∧ r.status ≠ 204
      | .validate => False) :
    (run op net t).1 = t ∧ ∃ e, raiseFromResponse r = some e ∧ (run op net t).2.1 = e := by
  rw [run_request] at hq
  have hp := prepare_of_request op t q hq
  rw [run_of_prepare_ok op net t q hp, hr]
  have raises : ∀ r : Reply, r.status ≠ 200 → ∃ e, raiseFromResponse r = some e := by
    intro r h
    cases h' : raiseFromResponse r with
    | none => exact absurd ((raise_none_iff r).mp h') h
    | some e => exact ⟨e, rfl⟩
  cases op with
  | authenticate fresh user pass inv =>
    obtain ⟨e, he⟩ := raises r hst
    simp [finish, finishStore, he]
  | refresh =>
    obtain ⟨e, he⟩ := raises r hst
    simp [finish, finishStore, he]
  | validate => exact hst.elim
  | invalidate =>
    obtain ⟨e, he⟩ := raises r hst.1
    simp [finish, finish204, he, hst.2]
  | join sid =>
    obtain ⟨e, he⟩ := raises r hst.1
    simp [finish, finish204, he, hst.2]

/-- The same for `sign_out` (accepted: `200` only). -/
theorem sign_out_error_reply_raises (net : Request → Resp) (user pass : String) (r : Reply)
    (hr : net (signOut net user pass).2 = .reply r) (hst : r.status ≠ 200) :
    ∃ e, raiseFromResponse r = some e ∧ (signOut net user pass).1 = e := by
  rw [signOut_snd] at hr
  cases h' : raiseFromResponse r with
  | none => exact absurd ((raise_none_iff r).mp h') hst
  | some e => exact ⟨e, rfl, by simp [signOut, hr, h']⟩

/-- OBSERVATION against the published API: the documented success reply of `signout` is `204` with
an empty body; `sign_out` then RAISES (`[204] Malformed error message: ''`) — `invalidate`, whose
documented success reply is the same, returns `True`. -/
theorem sign_out_raises_on_documented_success (user pass : String) (t : Token) :
    Yggdrasil.successStatus .signout = 204 ∧ Yggdrasil.successStatus .invalidate = 204 ∧
    (signOut (fun _ => .reply ⟨204, "", none⟩) user pass).1 =
      .yggdrasil (some (.malformed 204 "")) (some 204) .null .null .null ∧
    (Msg.malformed 204 "").text (fun _ => "") = "[204] Malformed error message: ''" ∧
    (run .invalidate (fun _ => .reply ⟨204, "", none⟩) t).2.1 = .ret true := by
  refine ⟨rfl, rfl, ?_, by decide +kernel, ?_⟩
  · simp [signOut, raiseFromResponse]
  · simp [run, invalidate]

/-- When `requests.post` itself raises (connection refused, timeout, …) the exception propagates
out of every method and the token is as before — also for `authenticate`, whose `self.username =
username` comes after the request. -/
theorem transport_failure_propagates (op : Op) (net : Request → Resp) (t : Token) (q : Request)
    (hq : (run op net t).2.2 = some q) (hf : net q = .fail) :
    (run op net t).1 = t ∧ (run op net t).2.1 = .transport := by
  rw [run_request] at hq
  have hp := prepare_of_request op t q hq
  rw [run_of_prepare_ok op net t q hp, hf]
  cases op <;> simp [finish, finishStore, finish204]

/-- `join` on a token that is not authenticated: nothing is sent, nothing changes, and the exception
is `YggdrasilError("AuthenticationToken hasn't been authenticated yet!")` with no status and no
fields; and `Profile.to_dict`'s `AttributeError` can never come out of `join`. -/
theorem join_refuses_offline (net : Request → Resp) (t : Token) (sid : String) :
    (authenticated t = false →
      run (.join sid) net t =
        (t, .yggdrasil (some .notAuthenticated) none .null .null .null, none)) ∧
    (∀ R, Msg.notAuthenticated.text R = "AuthenticationToken hasn't been authenticated yet!") ∧
    (run (.join sid) net t).2.1 ≠ .attributeError := by
  refine ⟨fun h => by simp [run, join, h], fun R => rfl, ?_⟩
  rw [run_factor]
  cases hau : authenticated t with
  | false => simp [prepare, hau]
  | true =>
    have hp : t.profile.truthy = true := by
      unfold authenticated at hau
      cases hp : t.profile.truthy with
      | true => rfl
      | false => simp [hp] at hau
    simp only [prepare, hau, Bool.not_true, Bool.false_eq_true, if_false, Profile.toDict, hp, if_true,
      finish, finish204]
    cases net _ with
    | fail => simp
    | reply r =>
      by_cases h204 : r.status = 204
      · simp [h204]
      · cases hr : raiseFromResponse r with
        | none => simp [h204, hr]
        | some e =>
          obtain ⟨_, _, _, _, _, rfl⟩ := raise_some_shape r e hr
          simp [h204, hr]

namespace Changed

/-- Both `exception.args = (message,)` lines deleted: `args` stays the `(None,)` of
`YggdrasilError()`. -/
def raiseNoArgs (r : Reply) : Option Outcome :=
  match raiseFromResponse r with
  | some (.yggdrasil _ st e m c) => some (.yggdrasil none st e m c)
  | o => o

/-- `response_text=res.text` replaced by the status line (the raw body lost). -/
def raiseNoRawText (r : Reply) : Option Outcome :=
  raiseFromResponse { r with text := "" }

end Changed

example : ¬ RaiseSpec Changed.raiseNoArgs := by
  intro h
  obtain ⟨msg, hm, _⟩ := ((h ⟨403, "x", none⟩).2 (by decide)).2.1 (by simp)
  revert hm; simp [Changed.raiseNoArgs, raiseFromResponse]
example : ¬ RaiseSpec Changed.raiseNoRawText := by
  intro h
  obtain ⟨msg, hm, ht⟩ := ((h ⟨403, "x", none⟩).2 (by decide)).2.1 (by simp)
  simp [Changed.raiseNoRawText, raiseFromResponse] at hm
  subst hm
  exact absurd (ht fun _ => "") (by decide +kernel)

/-! ## 3. success replies with members of ANY JSON type -/

/-! `member j k` (`Lemmas/C19Seq.lean`) is `d.get(k)` on a value that may not be a dict: the member
`k` if `j` is an object that has it, else `none`. -/

/-- `authenticate` returns `True` exactly when the response has status `200`, its body is JSON, an
object with members `accessToken`, `clientToken` and `selectedProfile`, the latter an object with
members `id` and `name` — of ANY JSON type, `null` included.  It then has stored exactly the
`username` argument and those four values.  (`rsp` is the response to the one request.) -/
theorem authenticate_true_iff (fresh user pass : String) (inv : Bool) (t : Token) (rsp : Resp) :
    (run (.authenticate fresh user pass inv) (fun _ => rsp) t).2.1 = .ret true ↔
    ∃ r j a c sp i n, rsp = .reply r ∧ r.status = 200 ∧ r.json = some j ∧
      member j "accessToken" = some a ∧ member j "clientToken" = some c ∧
      member j "selectedProfile" = some sp ∧ member sp "id" = some i ∧ member sp "name" = some n ∧
      (run (.authenticate fresh user pass inv) (fun _ => rsp) t).1 = ⟨.str user, a, c, ⟨i, n⟩⟩ := by
  rw [run_of_prepare_ok _ _ t _ rfl]
  simp only [finish]
  constructor
  · intro h
    cases rsp with
    | fail => simp [finishStore] at h
    | reply r =>
      simp only [finishStore] at h ⊢
      cases hr : raiseFromResponse r with
      | some e =>
        rw [hr] at h
        obtain ⟨_, _, _, _, _, rfl⟩ := raise_some_shape r e hr
        simp at h
      | none =>
        rw [hr] at h
        cases hj : r.json with
        | none => rw [hj] at h; simp at h
        | some j =>
          rw [hj] at h
          obtain ⟨a, c, i, n, hres⟩ := (storeReply_true_iff _ j).mp h
          obtain ⟨sp, h1, h2, h3, h4, h5⟩ := (resultOf_eq_some_iff j a c i n).mp hres
          exact ⟨r, j, a, c, sp, i, n, rfl, (raise_none_iff r).mp hr, hj, h1, h2, h3, h4, h5,
            by simp [storeReply_of_result _ j a c i n hres]⟩
  · rintro ⟨r, j, a, c, sp, i, n, rfl, hs, hj, h1, h2, h3, h4, h5, _⟩
    have hres := (resultOf_eq_some_iff j a c i n).mpr ⟨sp, h1, h2, h3, h4, h5⟩
    simp [finishStore, (raise_none_iff r).mpr hs, hj, storeReply_of_result _ j a c i n hres]

/-- The same for `refresh` (which also needs both tokens to be not `None` beforehand, and keeps the
username). -/
theorem refresh_true_iff (t : Token) (rsp : Resp) :
    (run .refresh (fun _ => rsp) t).2.1 = .ret true ↔
    t.accessToken ≠ .null ∧ t.clientToken ≠ .null ∧
    ∃ r j a c sp i n, rsp = .reply r ∧ r.status = 200 ∧ r.json = some j ∧
      member j "accessToken" = some a ∧ member j "clientToken" = some c ∧
      member j "selectedProfile" = some sp ∧ member sp "id" = some i ∧ member sp "name" = some n ∧
      (run .refresh (fun _ => rsp) t).1 = ⟨t.username, a, c, ⟨i, n⟩⟩ := by
  have isNone_iff : ∀ v : JVal, v.isNone = true ↔ v = .null := by
    intro v; cases v <;> simp [JVal.isNone]
  by_cases ha : t.accessToken = .null
  · simp [run, refresh, ha, JVal.isNone]
  by_cases hc : t.clientToken = .null
  · have : t.accessToken.isNone = false := by
      cases h : t.accessToken.isNone with
      | false => rfl
      | true => exact absurd ((isNone_iff _).mp h) ha
    simp [run, refresh, hc, JVal.isNone]
  have hna : t.accessToken.isNone = false := by
    cases h : t.accessToken.isNone with
    | false => rfl
    | true => exact absurd ((isNone_iff _).mp h) ha
  have hnc : t.clientToken.isNone = false := by
    cases h : t.clientToken.isNone with
    | false => rfl
    | true => exact absurd ((isNone_iff _).mp h) hc
  rw [run_of_prepare_ok _ _ t (makeRequest AUTH_SERVER "refresh"
    (.obj [("accessToken", t.accessToken), ("clientToken", t.clientToken)]))
    (by simp [prepare, hna, hnc])]
  simp only [finish, ne_eq, ha, hc, not_false_eq_true, true_and]
  constructor
  · intro h
    cases rsp with
    | fail => simp [finishStore] at h
    | reply r =>
      simp only [finishStore] at h ⊢
      cases hr : raiseFromResponse r with
      | some e =>
        rw [hr] at h
        obtain ⟨_, _, _, _, _, rfl⟩ := raise_some_shape r e hr
        simp at h
      | none =>
        rw [hr] at h
        cases hj : r.json with
        | none => rw [hj] at h; simp at h
        | some j =>
          rw [hj] at h
          obtain ⟨a, c, i, n, hres⟩ := (storeReply_true_iff _ j).mp h
          obtain ⟨sp, h1, h2, h3, h4, h5⟩ := (resultOf_eq_some_iff j a c i n).mp hres
          exact ⟨r, j, a, c, sp, i, n, rfl, (raise_none_iff r).mp hr, hj, h1, h2, h3, h4, h5,
            by simp [storeReply_of_result _ j a c i n hres]⟩
  · rintro ⟨r, j, a, c, sp, i, n, rfl, hs, hj, h1, h2, h3, h4, h5, _⟩
    have hres := (resultOf_eq_some_iff j a c i n).mpr ⟨sp, h1, h2, h3, h4, h5⟩
    simp [finishStore, (raise_none_iff r).mpr hs, hj, storeReply_of_result _ j a c i n hres]

/-- Against the published result format (`Ref/Yggdrasil.resultReplySpec`: four strings): a documented
success reply makes `authenticate` return `True` and store exactly the documented values; the token
is then authenticated iff user name, access token and client token are non-empty. -/
theorem documented_result_is_stored (fresh user pass : String) (inv : Bool) (t : Token) (txt : String)
    (j : JVal) (a c i n : String) (h : Yggdrasil.resultReplySpec j = some (a, c, i, n)) :
    let res := run (.authenticate fresh user pass inv) (fun _ => .reply ⟨200, txt, some j⟩) t
    res.1 = ⟨.str user, .str a, .str c, ⟨.str i, .str n⟩⟩ ∧ res.2.1 = .ret true ∧
    (authenticated res.1 = true ↔ user ≠ "" ∧ a ≠ "" ∧ c ≠ "") := by
  have hres : resultOf j = some (.str a, .str c, .str i, .str n) := by
    cases j with
    | obj kvs =>
      simp only [Yggdrasil.resultReplySpec] at h
      simp only [resultOf]
      cases ha : kvs.lookup "accessToken" with
      | none => simp [ha] at h
      | some av =>
        cases hc : kvs.lookup "clientToken" with
        | none => rw [ha, hc] at h; cases av <;> simp at h
        | some cv =>
          cases hs : kvs.lookup "selectedProfile" with
          | none => rw [ha, hc, hs] at h; cases av <;> cases cv <;> simp at h
          | some sp =>
            rw [ha, hc, hs] at h
            cases av <;> cases cv <;> cases sp <;> try (simp at h; done)
            rename_i as cs spk
            simp only [] at h ⊢
            cases hi : spk.lookup "id" with
            | none => simp [hi] at h
            | some iv =>
              cases hn : spk.lookup "name" with
              | none => rw [hi, hn] at h; cases iv <;> simp at h
              | some nv =>
                rw [hi, hn] at h
                cases iv <;> cases nv <;> try (simp at h; done)
                simp only [Option.some.injEq, Prod.mk.injEq] at h
                obtain ⟨rfl, rfl, rfl, rfl⟩ := h
                rfl
    | _ => simp [Yggdrasil.resultReplySpec] at h
  have hrun : run (.authenticate fresh user pass inv) (fun _ => .reply ⟨200, txt, some j⟩) t =
      (⟨.str user, .str a, .str c, ⟨.str i, .str n⟩⟩, .ret true,
        (run (.authenticate fresh user pass inv) (fun _ => .reply ⟨200, txt, some j⟩) t).2.2) := by
    rw [run_of_prepare_ok _ _ t _ rfl]
    simp [finish, finishStore, raiseFromResponse, storeReply_of_result _ j _ _ _ _ hres]
  intro res
  have : res = _ := hrun
  rw [this]
  refine ⟨rfl, rfl, ?_⟩
  simp [authenticated, JVal.truthy, Profile.truthy, JVal.isNone]

/-- POSSIBLE DEFECT, stated exactly.  A `200` reply `{"accessToken": null, "clientToken": c,
"selectedProfile": {"id": i, "name": n}}` makes `authenticate` RETURN `True` ("successful")
having stored `None` as access token: the token it just "authenticated" is not authenticated, and
`join` on it refuses.  (Likewise for any falsy member: `""`, `0`, `false`, `[]`, `{}`.) -/
theorem authenticate_true_yet_not_authenticated (fresh user pass txt : String) (inv : Bool)
    (t : Token) (c i n : JVal) :
    let res := run (.authenticate fresh user pass inv)
      (fun _ => .reply ⟨200, txt, some (.obj [("accessToken", .null), ("clientToken", c),
        ("selectedProfile", .obj [("id", i), ("name", n)])])⟩) t
    res.2.1 = .ret true ∧ res.1.accessToken = .null ∧ authenticated res.1 = false := by
  have hres : resultOf (.obj [("accessToken", .null), ("clientToken", c),
      ("selectedProfile", .obj [("id", i), ("name", n)])]) = some (.null, c, i, n) := by
    simp [resultOf, List.lookup]
  intro res
  have h1 : res.1 = ⟨.str user, .null, c, ⟨i, n⟩⟩ := by
    show (run _ _ _).1 = _
    rw [run_of_prepare_ok _ _ t _ rfl]
    simp [finish, finishStore, raiseFromResponse, storeReply_of_result _ _ _ _ _ _ hres]
  have h2 : res.2.1 = .ret true := by
    show (run _ _ _).2.1 = _
    rw [run_of_prepare_ok _ _ t _ rfl]
    simp [finish, finishStore, raiseFromResponse, storeReply_of_result _ _ _ _ _ _ hres]
  rw [h1]
  exact ⟨h2, rfl, by simp [authenticated, JVal.truthy]⟩

/-- What is left in the token when a `200` JSON reply is NOT complete: the assignments made before
the first failing subscript persist.  With `a`, `c`, `sp` the members `accessToken`, `clientToken`,
`selectedProfile` of the body (absent, or the body not an object: `none`) and `i`, `n` the members
`id`, `name` of `sp`: the access token is overwritten iff `a` is there; the client token iff `a`
and `c` are; the profile id iff `a`, `c`, `i` are; the profile name iff all are; the username is not
touched by `storeReply` (`authenticate` has already overwritten it, see `store_on_200`). -/
theorem partial_store (t : Token) (j : JVal) :
    let a := member j "accessToken"
    let c := member j "clientToken"
    let sp := member j "selectedProfile"
    let i := sp.bind (member · "id")
    let n := sp.bind (member · "name")
    (storeReply t j).1.username = t.username ∧
    (storeReply t j).1.accessToken = a.getD t.accessToken ∧
    (storeReply t j).1.clientToken = (if a.isSome then c.getD t.clientToken else t.clientToken) ∧
    (storeReply t j).1.profile.id_ =
      (if a.isSome ∧ c.isSome then i.getD t.profile.id_ else t.profile.id_) ∧
    (storeReply t j).1.profile.name =
      (if a.isSome ∧ c.isSome ∧ i.isSome then n.getD t.profile.name else t.profile.name) := by
  cases j with
  | obj kvs =>
    cases ha : kvs.lookup "accessToken" with
    | none => simp [member, storeReply, subscript_obj, ha]
    | some a =>
      cases hc : kvs.lookup "clientToken" with
      | none => simp [member, storeReply, subscript_obj, ha, hc]
      | some c =>
        cases hs : kvs.lookup "selectedProfile" with
        | none => simp [member, storeReply, subscript_obj, ha, hc, hs]
        | some sp =>
          cases sp with
          | obj spk =>
            cases hi : spk.lookup "id" with
            | none => simp [member, storeReply, subscript_obj, ha, hc, hs, hi]
            | some i =>
              cases hn : spk.lookup "name" <;>
                simp [member, storeReply, subscript_obj, ha, hc, hs, hi, hn]
          | _ => simp [member, storeReply, subscript, ha, hc, hs]
  | _ => simp [member, storeReply, subscript]

/-- On a `200` response whose body is JSON, `authenticate` and `refresh` are `storeReply` — for
`authenticate` applied to the token with the username ALREADY replaced by the argument. -/
theorem store_on_200 (t : Token) (txt : String) (j : JVal) (fresh user pass : String) (inv : Bool) :
    (let res := run (.authenticate fresh user pass inv) (fun _ => .reply ⟨200, txt, some j⟩) t
     res.1 = (storeReply { t with username := .str user } j).1 ∧
     res.2.1 = (storeReply { t with username := .str user } j).2) ∧
    (t.accessToken ≠ .null → t.clientToken ≠ .null →
      let res := run .refresh (fun _ => .reply ⟨200, txt, some j⟩) t
      res.1 = (storeReply t j).1 ∧ res.2.1 = (storeReply t j).2) := by
  constructor
  · rw [run_of_prepare_ok _ _ t _ rfl]
    simp [finish, finishStore, raiseFromResponse]
  · intro ha hc
    have hna : t.accessToken.isNone = false := by
      cases h : t.accessToken with
      | null => exact absurd h ha
      | _ => rfl
    have hnc : t.clientToken.isNone = false := by
      cases h : t.clientToken with
      | null => exact absurd h hc
      | _ => rfl
    rw [run_of_prepare_ok _ _ t (makeRequest AUTH_SERVER "refresh"
      (.obj [("accessToken", t.accessToken), ("clientToken", t.clientToken)]))
      (by simp [prepare, hna, hnc])]
    simp [finish, finishStore, raiseFromResponse]

/-- The case the audit names: `"selectedProfile": null` (or a string, a number, a list) next to
both tokens.  `refresh` raises `TypeError` AFTER having replaced both tokens; the profile keeps its
old contents — old profile, new tokens. -/
theorem selected_profile_not_an_object (t : Token) (txt : String) (kvs : List (String × JVal))
    (a c sp : JVal) (ha : t.accessToken ≠ .null) (hc : t.clientToken ≠ .null)
    (h1 : kvs.lookup "accessToken" = some a) (h2 : kvs.lookup "clientToken" = some c)
    (h3 : kvs.lookup "selectedProfile" = some sp) (hsp : ∀ m, sp ≠ .obj m) :
    let res := run .refresh (fun _ => .reply ⟨200, txt, some (.obj kvs)⟩) t
    res.2.1 = .typeError ∧ res.1 = { t with accessToken := a, clientToken := c } := by
  obtain ⟨h, h'⟩ := (store_on_200 t txt (.obj kvs) "" "" "" false).2 ha hc
  intro res
  refine ⟨h'.trans ?_, h.trans ?_⟩ <;>
    simp [storeReply, subscript_obj, h1, h2, h3, subscript_nonobj sp "id" hsp]

/-! ## 4. operation sequences

`runSeq w steps`: a program's calls (`Call.method i op` on token number `i`, or the static
`Call.signOut`), the `k`-th answered by the `k`-th given response.  `runSvc svc s w calls`: the same
calls against a stateful stand-in service.  `runTok t hist`: the calls of ONE token.
`stepsFor j steps` / `obsFor j steps obs`: the steps / observations that are methods of token `j`.
`build mk inits`: the tokens of a program, created one after the other by the constructor `mk`. -/

/-- What the constructor must guarantee, as a statement about ANY constructor `mk`: in every
program, whatever happens to the OTHER tokens (and whatever `sign_out` calls are made), each token
ends up as — and each of its calls returns / raises / posts what — its own calls alone produce,
starting from `(username, access_token, client_token)` as constructed and an empty profile. -/
def TokensIndependent (mk : World → JVal → JVal → JVal → World) : Prop :=
  ∀ (inits : List (JVal × JVal × JVal)) (steps : List (Call × Resp)) (j : Nat)
    (x : JVal × JVal × JVal), inits[j]? = some x →
    let t0 : Token := ⟨x.1, x.2.1, x.2.2, ⟨.null, .null⟩⟩
    ((runSeq (build mk inits) steps).1.view j = some (runTok t0 (stepsFor j steps)).1 ∧
     obsFor j steps (runSeq (build mk inits) steps).2 = (runTok t0 (stepsFor j steps)).2.map some)

/-- `__init__` (`self.profile = Profile()`: a new profile object per token) guarantees it. -/
theorem tokens_independent : TokensIndependent World.newToken := by
  intro inits steps j x hx
  obtain ⟨hna, _, hv⟩ := build_newToken_spec inits
  exact runSeq_view_some _ steps j _ hna (hv j x hx)

/-- The same for any world in which no two tokens share a profile object (however it was built),
with the responses computed by a stateful service instead of given: the run against the service IS
a run with some list of responses (one per call), so every statement about `runSeq` — all of this
section — holds for it. -/
theorem service_run_is_reply_run {σ : Type} (svc : Service σ) (s : σ) (w : World)
    (calls : List Call) :
    ∃ resps : List Resp, resps.length = calls.length ∧
      (runSvc svc s w calls).2 = runSeq w (calls.zip resps) :=
  runSvc_eq_runSeq svc s w calls

/-- "Errors leave it untouched", for histories and for the whole program state.  Take any program
run `pre ++ [step] ++ post`.  If `step` is answered by a refusal — a `YggdrasilError` (error reply,
or `join` not authenticated), a `ValueError` (missing token, or a `200` body that is not JSON), an
exception of `requests.post` — then NO token and NO profile object differs from before it, and
deleting the step from the history changes neither the final state nor what any other call of the
run returned, raised or posted. -/
theorem refused_call_leaves_no_trace (w : World) (pre post : List (Call × Resp)) (c : Call)
    (rsp : Resp) (o : Outcome) (q : Option Request)
    (h : ((runSeq w pre).1.call c (fun _ => rsp)).2 = some (o, q)) (ho : o.isRefusal = true) :
    (runSeq w (pre ++ [(c, rsp)])).1 = (runSeq w pre).1 ∧
    (runSeq w (pre ++ (c, rsp) :: post)).1 = (runSeq w (pre ++ post)).1 ∧
    (runSeq w (pre ++ (c, rsp) :: post)).2 =
      (runSeq w pre).2 ++ some (o, q) :: (runSeq (runSeq w pre).1 post).2 ∧
    (runSeq w (pre ++ post)).2 = (runSeq w pre).2 ++ (runSeq (runSeq w pre).1 post).2 := by
  have hw := call_refusal (runSeq w pre).1 c (fun _ => rsp) o q h ho
  refine ⟨?_, ?_, ?_, ?_⟩
  · rw [runSeq_append]; simp [runSeq, hw]
  · rw [runSeq_append, runSeq_append]; simp [runSeq, hw]
  · rw [runSeq_append]; simp [runSeq, hw, h]
  · rw [runSeq_append]

/-- Which outcomes are refusals: exactly these. -/
theorem refusal_iff (o : Outcome) :
    o.isRefusal = true ↔
      (∃ a st e m c, o = .yggdrasil a st e m c) ∨ (∃ w, o = .valueError w) ∨
      o = .attributeError ∨ o = .transport := by
  cases o <;> simp [Outcome.isRefusal]

/-- The history of one token, syntactically: only `authenticate` / `refresh` calls answered by a
`200` response with a JSON body (`Storing`, decidable from the step alone) can matter.  Deleting
ALL other calls from a token's history — every `validate`, `invalidate`, `join`, every call answered
by an error status, a non-JSON body or a transport failure — gives the same final token, and the
calls that remain return / raise / post exactly what they did. -/
theorem history_only_storing_steps_matter (t : Token) (hist : List (Op × Resp)) :
    (runTok t hist).1 = (runTok t (hist.filter Storing)).1 ∧
    ((hist.zip (runTok t hist).2).filter (fun p => Storing p.1)).map (·.2) =
      (runTok t (hist.filter Storing)).2 :=
  runTok_filter_storing t hist

/-- In particular: a history without such a step leaves the token exactly as it was. -/
theorem history_unchanged (t : Token) (hist : List (Op × Resp))
    (h : ∀ s ∈ hist, Storing s = false) : (runTok t hist).1 = t :=
  runTok_all_inert t hist h

/-- … and so for a token inside a program: if none of ITS calls is such a step, it is unchanged at
the end, whatever the other tokens did (no shared profile objects). -/
theorem program_history_unchanged (w : World) (steps : List (Call × Resp)) (j : Nat) (t : Token)
    (hw : NoAlias w) (hv : w.view j = some t) (h : ∀ s ∈ stepsFor j steps, Storing s = false) :
    (runSeq w steps).1.view j = some t := by
  rw [(runSeq_view_some w steps j t hw hv).1, history_unchanged t _ h]

/-- `authenticate`, then anything that does not store, then `join`.  After an `authenticate`
answered by a documented result (`Ref/Yggdrasil.resultReplySpec`: strings `a`, `c`, `i`, `n`) with
non-empty user name and tokens, and after ANY further calls none of which stores (validates,
invalidates, joins, failed logins and refreshes, with any responses), `join(sid)` posts — to the
documented join URL — a body that decodes to `{"accessToken": a, "selectedProfile": {"id": i,
"name": n}, "serverId": sid}` with the values of THAT reply, and returns `True` iff its response has
status `204` or `200`; the token is still the one `authenticate` stored. -/
theorem authenticate_then_join (t : Token) (fresh user pass txt sid : String) (inv : Bool)
    (j : JVal) (a c i n : String) (mid : List (Op × Resp)) (rsp : Resp)
    (hj : Yggdrasil.resultReplySpec j = some (a, c, i, n))
    (hne : user ≠ "" ∧ a ≠ "" ∧ c ≠ "") (hmid : ∀ s ∈ mid, Storing s = false) :
    let res := runTok t ((.authenticate fresh user pass inv, .reply ⟨200, txt, some j⟩) :: mid ++
      [(.join sid, rsp)])
    res.1 = ⟨.str user, .str a, .str c, ⟨.str i, .str n⟩⟩ ∧
    ∃ o q, res.2.getLast? = some (o, some q) ∧
      q.url = Yggdrasil.url .join ∧ q.method = Yggdrasil.httpMethod ∧
      parseJson q.body = some (.obj [("accessToken", .str a),
        ("selectedProfile", .obj [("id", .str i), ("name", .str n)]), ("serverId", .str sid)]) ∧
      (o = .ret true ↔ ∃ r, rsp = .reply r ∧ (r.status = 204 ∨ r.status = 200)) := by
  obtain ⟨h1, _, h3⟩ := documented_result_is_stored fresh user pass inv t txt j a c i n hj
  have hau := h3.mpr hne
  intro res
  have hres : res = runTok t ([(.authenticate fresh user pass inv, .reply ⟨200, txt, some j⟩)] ++
      (mid ++ [(.join sid, rsp)])) := rfl
  rw [hres, runTok_append, runTok_append]
  have e1 : (runTok t [(.authenticate fresh user pass inv, .reply ⟨200, txt, some j⟩)]).1 =
      ⟨.str user, .str a, .str c, ⟨.str i, .str n⟩⟩ := h1
  simp only [e1, history_unchanged _ mid hmid]
  rw [h1] at hau
  have hq := (posted_payload (fun _ => rsp) ⟨.str user, .str a, .str c, ⟨.str i, .str n⟩⟩).2.2.2.2 sid
  rw [if_neg (by simp [hau])] at hq
  obtain ⟨q, hq1, hq2⟩ := hq
  obtain ⟨hm, _, hu, _⟩ := request_is_documented_post (.join sid) (fun _ => rsp) _ q hq1
  have hjoin := run_fst_of_not_store (.join sid) (fun _ => rsp)
    ⟨.str user, .str a, .str c, ⟨.str i, .str n⟩⟩ (by simp) (by simp)
  have glast : ∀ (x : Outcome × Option Request) (l : List (Outcome × Option Request))
      (y : Outcome × Option Request), (x :: (l ++ [y])).getLast? = some y := by
    intro x l y; rw [← List.cons_append, List.getLast?_concat]
  refine ⟨by simp [runTok, hjoin],
    (run (.join sid) (fun _ => rsp) ⟨.str user, .str a, .str c, ⟨.str i, .str n⟩⟩).2.1, q,
    by simp only [runTok, hq1, List.singleton_append]; exact glast _ _ _,
    hu, hm, hq2, ?_⟩
  have hprep := prepare_of_request (.join sid) _ q (by rw [← run_request _ (fun _ => rsp)]; exact hq1)
  rw [run_of_prepare_ok _ _ _ q hprep]
  simp only [finish, finish204]
  cases rsp with
  | fail => simp
  | reply r =>
    by_cases h204 : r.status = 204
    · simp [h204]
    · cases hr : raiseFromResponse r with
      | none => simp [hr, (raise_none_iff r).mp hr]
      | some e =>
        obtain ⟨h200, _, _, _, _, rfl⟩ := raise_some_shape r e hr
        simp [h204, hr, h200]

namespace Changed

/-- `profile = Profile()` as a CLASS attribute (one object, made when the class is defined) and no
`self.profile = Profile()` in `__init__`: every token refers to profile object number 0. -/
def newTokenSharedProfile (w : World) (username accessToken clientToken : JVal) : World :=
  { profiles := if w.profiles.isEmpty then [⟨.null, .null⟩] else w.profiles
    tokens := w.tokens ++ [⟨username, accessToken, clientToken, 0⟩] }

end Changed

/-- With the shared class-level profile, a login on token 0 changes what token 1 holds — token 1,
which made no call at all, ends up with alice's profile (and `Props/C19.lean`, whose statements are
all about one call on one token, cannot see it). -/
example : ¬ TokensIndependent Changed.newTokenSharedProfile := by
  intro h
  have := (h [(.null, .null, .null), (.str "bob", .str "b-acc", .str "b-cli")]
    [(.method 0 (.authenticate "f" "alice" "pw" false),
      .reply ⟨200, "", some (.obj [("accessToken", .str "a-acc"), ("clientToken", .str "a-cli"),
        ("selectedProfile", .obj [("id", .str "a-id"), ("name", .str "Alice")])])⟩)]
    1 (.str "bob", .str "b-acc", .str "b-cli") rfl).1
  revert this
  decide +kernel

/-! ## Non-vacuity: concrete instances -/

/-- a fully populated token; the documented result and error replies -/
def tokA : Token := ⟨.str "alice", .str "acc-A", .str "cli-A", ⟨.str "id-A", .str "Alice"⟩⟩
def resultB : JVal := .obj [("accessToken", .str "acc-B"), ("clientToken", .str "cli-B"),
  ("selectedProfile", .obj [("id", .str "id-B"), ("name", .str "Bob")]), ("user", .obj [])]
def errorC : JVal := .obj [("error", .str "ForbiddenOperationException"),
  ("errorMessage", .str "Invalid token"), ("cause", .str "UserMigratedException")]

-- json_decodes_back / json_is_printable_ascii on a value with every kind of escape
example : jsonDumps (.obj [("k\n", .arr [.num (-5), .null, .bool true, .str "é\"\\😀"])]) =
    "{\"k\\n\": [-5, null, true, \"\\u00e9\\\"\\\\\\ud83d\\ude00\"]}" := by decide +kernel
example : parseJson " { \"a\" : [ 1 , \"\\uD83D\\uDE00\\/\" ] } " =
    some (.obj [("a", .arr [.num 1, .str "😀/"])]) := by decide +kernel
example : parseJson "{\"a\": 1,}" = none ∧ parseJson "01" = none ∧ parseJson "\"\\ud83d\"" = none ∧
    parseJson "accessToken=acc" = none := by decide +kernel

-- request_is_documented_post / posted_payload: the hypothesis is satisfiable, the request spelled out
example : (run .refresh (fun _ => .fail) tokA).2.2 = some
    ⟨"POST", "https://authserver.mojang.com/refresh", [("content-type", "application/json")],
     "{\"accessToken\": \"acc-A\", \"clientToken\": \"cli-A\"}", 15⟩ := by decide +kernel
example : (run (.join "srv") (fun _ => .fail) tokA).2.2 = some
    ⟨"POST", "https://sessionserver.mojang.com/session/minecraft/join",
     [("content-type", "application/json")],
     "{\"accessToken\": \"acc-A\", \"selectedProfile\": {\"id\": \"id-A\", \"name\": \"Alice\"}, \"serverId\": \"srv\"}",
     15⟩ := by decide +kernel
example : (run (.authenticate "f00d" "Jürgen" "p\"w" false) (fun _ => .fail)
      { tokA with clientToken := .str "" }).2.2 = some
    ⟨"POST", "https://authserver.mojang.com/authenticate", [("content-type", "application/json")],
     "{\"agent\": {\"name\": \"Minecraft\", \"version\": 1}, \"username\": \"J\\u00fcrgen\", \"password\": \"p\\\"w\", \"clientToken\": \"f00d\"}",
     15⟩ := by decide +kernel
/-- attributes that are not strings are posted as they are (`None` → `null`, a number as a number) -/
example : ((run .invalidate (fun _ => .fail) ⟨.null, .null, .num 5, ⟨.null, .null⟩⟩).2.2.map (·.body)) =
    some "{\"accessToken\": null, \"clientToken\": 5}" := by decide +kernel
example : StringToken tokA := ⟨_, _, _, _, _, rfl⟩
/-- `Yggdrasil.conforms` discriminates: an undocumented member, a missing mandatory member and a
member of the wrong shape are each rejected — so `invalidate` on a token without tokens posts
`{"accessToken": null, "clientToken": null}`, which is not a documented payload. -/
example :
    Yggdrasil.conforms .authenticate (.obj [("agent", .obj [("name", .str "Minecraft"), ("version", .num 1)]),
      ("username", .str "u"), ("password", .str "p")]) = true ∧
    Yggdrasil.conforms .authenticate (.obj [("agent", .obj [("name", .str "Minecraft"), ("version", .num 1)]),
      ("username", .str "u"), ("password", .str "p"), ("requestUsr", .bool true)]) = false ∧
    Yggdrasil.conforms .authenticate (.obj [("agent", .obj [("name", .str "Minecraft"), ("version", .num 2)]),
      ("username", .str "u"), ("password", .str "p")]) = false ∧
    Yggdrasil.conforms .authenticate (.obj [("username", .str "u"), ("agent",
      .obj [("name", .str "Minecraft"), ("version", .num 1)])]) = false ∧
    Yggdrasil.conforms .invalidate (.obj [("accessToken", .null), ("clientToken", .null)]) = false ∧
    Yggdrasil.conforms .validate (.obj [("accessToken", .str "a")]) = true := by decide +kernel

-- RaiseSpec: each hypothesis is satisfiable
example : Yggdrasil.errorReplySpec errorC =
    some ("ForbiddenOperationException", "Invalid token", some "UserMigratedException") := by
  decide +kernel
example : raiseFromResponse ⟨403, "{…}", some errorC⟩ = some (.yggdrasil
      (some (.error 403 (.str "ForbiddenOperationException") (.str "Invalid token"))) (some 403)
      (.str "ForbiddenOperationException") (.str "Invalid token") (.str "UserMigratedException")) ∧
    (Msg.error 403 (.str "ForbiddenOperationException") (.str "Invalid token")).text (fun _ => "") =
      "[403] ForbiddenOperationException: 'Invalid token'" := by decide +kernel
example : ∀ kvs, (⟨502, "<html>", none⟩ : Reply).json = some (.obj kvs) →
    kvs.lookup "error" = none ∨ kvs.lookup "errorMessage" = none := by simp
example : (Msg.malformed 502 "<html>Bad Gateway</html>").text (fun _ => "") =
    "[502] Malformed error message: '<html>Bad Gateway</html>'" := by decide +kernel
/-- members that are not strings are copied and formatted the way `str.format` does -/
example : raiseFromResponse ⟨403, "", some (.obj [("error", .num 5), ("errorMessage", .null)])⟩ =
      some (.yggdrasil (some (.error 403 (.num 5) .null)) (some 403) (.num 5) .null .null) ∧
    (Msg.error 403 (.num 5) .null).text (fun _ => "") = "[403] 5: 'None'" := by decide +kernel

-- error_reply_raises / transport_failure_propagates: hypotheses satisfiable
example : (run .refresh (fun _ => .reply ⟨403, "", some errorC⟩) tokA).1 = tokA ∧
    (run .refresh (fun _ => .reply ⟨403, "", some errorC⟩) tokA).2.1 =
      .yggdrasil (some (.error 403 (.str "ForbiddenOperationException") (.str "Invalid token")))
        (some 403) (.str "ForbiddenOperationException") (.str "Invalid token")
        (.str "UserMigratedException") := by decide +kernel
example : run (.authenticate "f" "bob" "pw" true) (fun _ => .fail) tokA =
    (tokA, .transport, (run (.authenticate "f" "bob" "pw" true) (fun _ => .fail) tokA).2.2) := by
  decide +kernel

-- authenticate_true_iff / documented_result_is_stored / refresh_true_iff
example : Yggdrasil.resultReplySpec resultB = some ("acc-B", "cli-B", "id-B", "Bob") := by
  decide +kernel
example : (run (.authenticate "f" "bob" "pw" false) (fun _ => .reply ⟨200, "", some resultB⟩) tokA).1 =
      ⟨.str "bob", .str "acc-B", .str "cli-B", ⟨.str "id-B", .str "Bob"⟩⟩ ∧
    (run .refresh (fun _ => .reply ⟨200, "", some resultB⟩) tokA).1 =
      ⟨.str "alice", .str "acc-B", .str "cli-B", ⟨.str "id-B", .str "Bob"⟩⟩ := by decide +kernel
/-- the defect of `authenticate_true_yet_not_authenticated`, followed by the refused `join` -/
example :
    let res := runTok tokA [(.authenticate "f" "bob" "pw" false,
        .reply ⟨200, "", some (.obj [("accessToken", .null), ("clientToken", .str "c"),
          ("selectedProfile", .obj [("id", .str "i"), ("name", .str "n")])])⟩),
      (.join "srv", .reply ⟨204, "", none⟩)]
    res.2 = [(.ret true, (run (.authenticate "f" "bob" "pw" false) (fun _ => .fail) tokA).2.2),
             (.yggdrasil (some .notAuthenticated) none .null .null .null, none)] := by
  decide +kernel
/-- `selected_profile_not_an_object`: new tokens next to the old profile, and the token still claims
to be authenticated -/
example :
    let res := run .refresh (fun _ => .reply ⟨200, "", some (.obj [("accessToken", .str "acc-B"),
      ("clientToken", .str "cli-B"), ("selectedProfile", .null)])⟩) tokA
    res.1 = ⟨.str "alice", .str "acc-B", .str "cli-B", ⟨.str "id-A", .str "Alice"⟩⟩ ∧
    res.2.1 = .typeError ∧ authenticated res.1 = true := by decide +kernel

-- TokensIndependent: a program with two tokens; refused_call_leaves_no_trace; history_unchanged
def twoTokens : World := build World.newToken [(.null, .null, .null), (.str "bob", .str "b-acc", .str "b-cli")]
example : twoTokens.view 1 = some ⟨.str "bob", .str "b-acc", .str "b-cli", ⟨.null, .null⟩⟩ := by
  decide +kernel
example : (runSeq twoTokens [(.method 0 (.authenticate "f" "alice" "pw" false),
      .reply ⟨200, "", some resultB⟩)]).1.view 1 = twoTokens.view 1 := by decide +kernel
example : ∃ o q, (twoTokens.call (.method 1 .refresh) (fun _ => .reply ⟨403, "", some errorC⟩)).2 =
    some (o, q) ∧ o.isRefusal = true := ⟨_, _, rfl, by decide +kernel⟩
example : ∀ s ∈ [((.validate : Op), Resp.reply ⟨204, "", none⟩), (.refresh, .reply ⟨403, "", some errorC⟩),
    (.authenticate "f" "u" "p" true, .fail), (.refresh, .reply ⟨200, "x", none⟩), (.join "s", .fail)],
    Storing s = false := by decide +kernel
example : Storing (.refresh, .reply ⟨200, "", some resultB⟩) = true := by decide +kernel

/-- `runSvc` against a small stateful stand-in (it counts the requests and answers the third one
with an error): the run is a `runSeq` with the responses it gave. -/
def countingService : Service Nat :=
  ⟨fun n _ => (n + 1, if n = 2 then .reply ⟨403, "", some errorC⟩ else .reply ⟨204, "", none⟩)⟩
example : (runSvc countingService 0 (build World.newToken [(.str "alice", .str "acc-A", .str "cli-A")])
      [.method 0 .validate, .method 0 (.join "s"), .method 0 .invalidate, .method 0 .invalidate]).2.2.map
        (fun o => o.map (·.1)) =
    [some (.ret true), some (.yggdrasil (some .notAuthenticated) none .null .null .null),
     some (.ret true),
     some (.yggdrasil (some (.error 403 (.str "ForbiddenOperationException") (.str "Invalid token")))
       (some 403) (.str "ForbiddenOperationException") (.str "Invalid token")
       (.str "UserMigratedException"))] := by decide +kernel

end PyCraft.C19Seq
