import PyCraft.Lemmas.C17Utf8
import PyCraft.Props.C17
import PyCraft.Props.C10
import PyCraft.Props.C17Utf8Live
/-!
# C17, audit gap 24 — "SHA-1 of the server id (UTF-8)" and "the string passed to `join`"

`Props/C17.lean` starts from three BYTE strings; that the first of them is the UTF-8 encoding of the
server id appeared only in a comment (changing `encryption.py:38` to `.encode('utf-16-le')` left every
theorem true), and `C10.join_iff` spoke about an uninterpreted `P.hash`.  Here:

* **encoding** — `generateVerificationHash` takes the server id as a STRING.  Lean's `String.toUTF8`,
  the literal mirror of CPython's encoder (`pyUtf8Encode`, with its failure on lone surrogates) and an
  independent RFC 3629 reference (`utf8Ref`, table of §3; `utf8DecodeRef`, grammar of §4) agree:
  `sid_utf8`, `utf8_decodes_back`, `utf8_length_classes`, `utf8_injective`, `encode_mirror`,
  `encode_fails_iff`;
* **the hash** — `hash_is_sha1_of_utf8` (`HashSpec generateVerificationHash`), `hash_cps`,
  `hash_full_spec`; the changed code is refuted concretely: `utf16_violates`, `swapped_violates`;
* **join** — `join_is_mcHash`, `join_single_request`: what `auth_token.join` receives is this hash of
  (server id, the secret, the server's key);
* **SHA-1 padding** — `sha1_padding`, `sha1_block_count` (FIPS 180-4 §5.1.1), and vectors on the
  padding boundaries: published ones and `live_sha1_lengths`;
* **live tables** (`Generated/C17Utf8.lean`, regenerated from /repo on every run by
  `harness/gen/c17utf8.py`): `live_encode`, `live_hash`, `live_sha1_lengths`, `live_join` in
  `Props/C17Utf8Live.lean` (same namespace, separate file to keep checking times low), and
  `live_hash_string` here.

Definitions used in the statements (`utf8Ref`, `utf8RefCp`, `utf8DecodeRef`, `IsScalar`, `HashSpec`,
`expectedJoinReal`, `strOfCps`, `C17Pad.beNat`, `C17Pad.digestOf`) are in `Lemmas/C17Utf8.lean`, the
model in `Model/C17Utf8.lean`.
-/
namespace PyCraft.C17Utf8
open PyCraft PyCraft.Utf8 PyCraft.McHash PyCraft.Login

/-! ## The encoding -/

/-- The bytes of a string are, character by character, the RFC 3629 encoding of its characters
(reference encoder written from the table of §3, independent of Lean's and of CPython's). -/
theorem sid_utf8 (s : String) : s.toUTF8.toList = s.toList.flatMap utf8Ref :=
  toUTF8_eq_ref s

/-- … and an independent strict decoder (grammar of RFC 3629 §4: shortest form only, no surrogates,
nothing above U+10FFFF) reads those bytes back as exactly the code points of the string.  So the
encoding is well-formed UTF-8 and denotes the string. -/
theorem utf8_decodes_back (s : String) : utf8DecodeRef s.toUTF8.toList = some (codePoints s) := by
  rw [sid_utf8, ← flatMap_codePoints]
  exact decode_roundtrip _ (codePoints_scalar s)

/-- Length classes of RFC 3629: one octet below U+0080, two below U+0800, three below U+10000, four
otherwise. -/
theorem utf8_length_classes (c : Char) :
    (utf8Ref c).length =
      if c.toNat < 0x80 then 1 else if c.toNat < 0x800 then 2 else if c.toNat < 0x10000 then 3 else 4 :=
  utf8RefCp_length c.toNat

/-- Different server ids are hashed as different byte strings. -/
theorem utf8_injective (s t : String) (h : s.toUTF8.toList = t.toUTF8.toList) : s = t := by
  have hs := utf8_decodes_back s
  rw [h, utf8_decodes_back t] at hs
  exact (codePoints_injective s t (Option.some.inj hs).symm)

/-- The literal mirror of CPython's `str.encode('utf-8')` (shifts and masks of `utf8_encoder`),
applied to the code points of a string, succeeds and yields exactly `String.toUTF8`. -/
theorem encode_mirror (s : String) : pyUtf8Encode (codePoints s) = .ok s.toUTF8.toList :=
  pyUtf8Encode_string s

/-- On an arbitrary Python `str` (any code points): the encoder raises — always `ValueError`
(`UnicodeEncodeError`), never anything else — exactly when some code point is not a Unicode scalar
value (a lone surrogate `U+D800 … U+DFFF`; numbers above `0x10FFFF` cannot occur in a `str`);
otherwise it yields the concatenation of the reference encodings. -/
theorem encode_fails_iff (cps : List Nat) :
    (pyUtf8Encode cps = .error .value ↔ ∃ c ∈ cps, ¬ IsScalar c) ∧
    ((∀ c ∈ cps, IsScalar c) → pyUtf8Encode cps = .ok (cps.flatMap utf8RefCp)) ∧
    (∀ e, pyUtf8Encode cps = .error e → e = .value) := by
  by_cases h : ∃ c ∈ cps, ¬ IsScalar c
  · have hb := pyUtf8Encode_bad cps h
    refine ⟨⟨fun _ => h, fun _ => hb⟩, fun hall => ?_, fun e he => ?_⟩
    · obtain ⟨c, hc, hn⟩ := h
      exact absurd (hall c hc) hn
    · rw [hb] at he; exact (Except.error.inj he).symm
  · have hall : ∀ c ∈ cps, IsScalar c := by
      intro c hc
      by_cases hs : IsScalar c
      · exact hs
      · exact absurd ⟨c, hc, hs⟩ h
    have ho := pyUtf8Encode_scalars cps hall
    refine ⟨⟨fun he => ?_, fun hh => absurd hh h⟩, fun _ => ho, fun e he => ?_⟩
    · rw [ho] at he; cases he
    · rw [ho] at he; cases he

/-! ## The hash -/

/-- **The server hash is the signed hex of the SHA-1 of: the UTF-8 encoding of the server id, then
the secret, then the key** — for every server id, secret and key. -/
theorem hash_is_sha1_of_utf8 : HashSpec generateVerificationHash := by
  intro sid secret key
  show mcHash sid.toUTF8.toList secret key = _
  rw [sid_utf8]
  rfl

/-- `generate_verification_hash` on an arbitrary Python `str`: it raises `ValueError`
(`UnicodeEncodeError`) exactly when the id contains a lone surrogate, and otherwise returns the
signed hex of the SHA-1 of (reference UTF-8 of the id ++ secret ++ key); on the code points of a
Lean string it is `generateVerificationHash`. -/
theorem hash_cps (cps : List Nat) (secret key : Bytes) :
    ((∃ c ∈ cps, ¬ IsScalar c) → generateVerificationHashCps cps secret key = .error .value) ∧
    ((∀ c ∈ cps, IsScalar c) → generateVerificationHashCps cps secret key =
        .ok (signedHex (sha1 (cps.flatMap utf8RefCp ++ secret ++ key)))) ∧
    (∀ s : String, generateVerificationHashCps (codePoints s) secret key =
        .ok (generateVerificationHash s secret key)) := by
  refine ⟨fun h => ?_, fun h => ?_, fun s => ?_⟩
  · unfold generateVerificationHashCps
    rw [pyUtf8Encode_bad cps h]; rfl
  · unfold generateVerificationHashCps
    rw [pyUtf8Encode_scalars cps h]; rfl
  · unfold generateVerificationHashCps
    rw [pyUtf8Encode_string s]; rfl

/-- Everything `Props/C17.lean` says about `mcHash`, now about the function of the STRING: the
digest of (UTF-8 id ++ secret ++ key) has 20 bytes; the hash, read back by an independent parser, is
its two's-complement value, which lies in `[-2^159, 2^159)`; the hash is the one canonical signed
lower-case numeral of that value (Java's `BigInteger.toString(16)`). -/
theorem hash_full_spec (sid : String) (secret key : Bytes) :
    let d := sha1 (sid.toList.flatMap utf8Ref ++ secret ++ key)
    d.length = 20 ∧
    parseSignedHex (generateVerificationHash sid secret key) = some (fromBytesSigned d) ∧
    -((2 : Int) ^ 159) ≤ fromBytesSigned d ∧ fromBytesSigned d < (2 : Int) ^ 159 ∧
    CanonSigned (generateVerificationHash sid secret key).toList ∧
    ∀ s : String, CanonSigned s.toList → parseSignedHex s = some (fromBytesSigned d) →
      generateVerificationHash sid secret key = s := by
  intro d
  have h := C17.mcHash_spec (sid.toList.flatMap utf8Ref) secret key
  have e : generateVerificationHash sid secret key = signedHex d := hash_is_sha1_of_utf8 sid secret key
  rw [e]
  exact ⟨h.1, C17.hex_parses_back d, h.2.2.1, h.2.2.2.1, (C17.canonical_unique d).1,
    (C17.canonical_unique d).2⟩

/-! ### The changed code is refuted -/

/-- `encryption.py:38` changed to `server_id.encode('utf-16-le')` — which satisfies every theorem of
`Props/C17.lean` — violates `hash_is_sha1_of_utf8` (already on the id `"a"`). -/
theorem utf16_violates : ¬ HashSpec generateVerificationHashUtf16 := by
  intro h
  exact absurd (h "a" [] []) (by decide +kernel)

/-- Hashing the secret before the id (lines 38 and 39 swapped) violates it as well. -/
theorem swapped_violates : ¬ HashSpec generateVerificationHashSwapped := by
  intro h
  exact absurd (h "a" [0x01] []) (by decide +kernel)

/-! ## The string passed to `join` -/

/-- With the real hash function plugged into the login model: for EVERY run (any packets, any
placement of the write phases) `auth_token.join` is called exactly for the reached encryption
requests whose server id is not `"-"` while a token is present — once each, in order — and the
argument is `mcHash (UTF-8 of the id) secret key`, i.e. the signed hex of the SHA-1 of
(UTF-8 id ++ the client's secret ++ the server's public key). -/
theorem join_is_mcHash (P : LoginParams) (steps : List Step) :
    (exec (realHash P) .init steps).joins =
      (processed (events steps)).filterMap (expectedJoinReal P.secret P.hasToken) ∧
    (∀ sid pk tok h, expectedJoinReal P.secret P.hasToken (.encRequest sid pk tok) = some h ↔
      (sid ≠ "-" ∧ P.hasToken = true ∧
        h = signedHex (sha1 (sid.toList.flatMap utf8Ref ++ P.secret ++ pk)))) ∧
    (∀ e, e.isEncRequest = false → expectedJoinReal P.secret P.hasToken e = none) := by
  have hj := (C10.join_iff (realHash P) steps).1
  rw [expectedJoin_realHash] at hj
  refine ⟨hj, fun sid pk tok h => ?_, fun e he => ?_⟩
  · have hs : mcHash sid.toUTF8.toList P.secret pk =
        signedHex (sha1 (sid.toList.flatMap utf8Ref ++ P.secret ++ pk)) :=
      hash_is_sha1_of_utf8 sid P.secret pk
    show (if sid ≠ "-" ∧ P.hasToken = true then some (mcHash sid.toUTF8.toList P.secret pk) else none)
      = some h ↔ _
    rw [hs]
    generalize signedHex (sha1 (sid.toList.flatMap utf8Ref ++ P.secret ++ pk)) = x
    by_cases h1 : sid = "-" <;> by_cases h2 : P.hasToken = true <;> simp [h1, h2, eq_comm]
  · cases e <;> simp_all [expectedJoinReal, LoginEv.isEncRequest]

/-- One reached encryption request, spelled out: if no login-success / disconnect packet came
before it, the id is not `"-"` and a token is present, then reacting to it calls `join` exactly once
more, with the signed hex of SHA-1(UTF-8 id ++ secret ++ key); with id `"-"` or without a token no
call is made. -/
theorem join_single_request (P : LoginParams) (pre : List Step) (sid : String) (pk tok : Bytes)
    (hpre : ∀ e ∈ events pre, e.isTerminal = false) :
    let s0 := exec (realHash P) .init pre
    let s1 := exec (realHash P) .init (pre ++ [.recv (.encRequest sid pk tok)])
    (sid ≠ "-" ∧ P.hasToken = true →
      s1.joins = s0.joins ++ [signedHex (sha1 (sid.toList.flatMap utf8Ref ++ P.secret ++ pk))]) ∧
    (sid = "-" ∨ P.hasToken = false → s1.joins = s0.joins) := by
  intro s0 s1
  have hal : s0.alive = true := exec_alive (realHash P) .init pre init_alive hpre
  have h1 : s1 = react (realHash P) s0 (.encRequest sid pk tok) := by
    show exec (realHash P) .init (pre ++ [_]) = _
    rw [exec_snoc, step_recv_alive _ _ _ hal]
  have hs : generateVerificationHash sid P.secret pk =
      signedHex (sha1 (sid.toList.flatMap utf8Ref ++ P.secret ++ pk)) :=
    hash_is_sha1_of_utf8 sid P.secret pk
  rw [h1]
  have hh : (realHash P).hash sid (realHash P).secret pk =
      signedHex (sha1 (sid.toList.flatMap utf8Ref ++ P.secret ++ pk)) := hs
  generalize signedHex (sha1 (sid.toList.flatMap utf8Ref ++ P.secret ++ pk)) = x at hh
  have ht0 : (realHash P).hasToken = P.hasToken := rfl
  constructor
  · rintro ⟨hne, ht⟩
    simp [react, ClientState.writeNow, hne, ht0, ht, hh]
  · intro h
    rcases h with h | h
    · simp [react, ClientState.writeNow, h]
    · by_cases hne : sid = "-" <;> simp [react, ClientState.writeNow, hne, ht0, h]

/-! ## SHA-1 padding (FIPS 180-4 §5.1.1) -/

/-- The padded message is: the message, the octet `0x80` (bit "1" and seven zero bits), `z` zero
octets and an 8-octet field `L`, where `z` is the SMALLEST number making the total a multiple of 64
octets (512 bits), and `L` is the message length in BITS as a big-endian 64-bit number (read by an
independent big-endian evaluator).  Hence the total is the least multiple of 64 that is
`≥ length + 9`. -/
theorem sha1_padding (m : List Nat) :
    ∃ z L, Sha1.pad m = m ++ 0x80 :: (List.replicate z 0 ++ L) ∧
      L.length = 8 ∧ (∀ x ∈ L, x < 256) ∧ C17Pad.beNat L = (m.length * 8) % 2 ^ 64 ∧
      z < 64 ∧ (m.length + 1 + z + 8) % 64 = 0 ∧
      (∀ k, (m.length + 1 + k + 8) % 64 = 0 → z ≤ k) ∧
      (Sha1.pad m).length % 64 = 0 ∧ m.length + 9 ≤ (Sha1.pad m).length ∧
      (Sha1.pad m).length < m.length + 9 + 64 := by
  refine ⟨C17Pad.zeros m.length, Sha1.lenBytes 8 (m.length * 8), C17Pad.pad_eq m,
    C17Pad.lenBytes_length _ _, C17Pad.lenBytes_lt _ _, ?_, (C17Pad.zeros_spec _).1,
    (C17Pad.zeros_spec _).2.1, (C17Pad.zeros_spec _).2.2, ?_, ?_, ?_⟩
  · rw [C17Pad.beNat_lenBytes]
  · rw [C17Pad.pad_length]; omega
  · rw [C17Pad.pad_length]; omega
  · rw [C17Pad.pad_length]; omega

/-- `sha1` runs the compression function over ALL of the padded message: exactly
`(length + 8) / 64 + 1` blocks of 64 octets (one block up to 55 bytes, two up to 119, … — a login
input of 198 bytes takes four), starting from the initial hash value, and the digest is the final
chaining value, big-endian. -/
theorem sha1_block_count (msg : Bytes) :
    sha1 msg = C17Pad.digestOf
      (Sha1.blocks ((msg.length + 8) / 64 + 1) (Sha1.pad (msg.map UInt8.toNat)) Sha1.init) ∧
    (Sha1.pad (msg.map UInt8.toNat)).length = 64 * ((msg.length + 8) / 64 + 1) := by
  refine ⟨C17Pad.sha1_eq_blocks msg, ?_⟩
  rw [C17Pad.pad_length, List.length_map]

/-! ## Vectors on the padding boundaries (kernel-checked) -/

/-- FIPS 180 two-block example: 112 bytes (896 bits), padding fills a third block. -/
theorem sha1_112 :
    hexOfBytes (sha1 ("abcdefghbcdefghicdefghijdefghijkefghijklfghijklmghijklmnhijklmnoijklmnopjklmnopq" ++
      "klmnopqrlmnopqrsmnopqrstnopqrstu").toUTF8.toList)
      = "a49b2446a02c645bf419f995b67091253a04a259" := by
  decide +kernel

/-- RFC 3174 TEST4: 640 bytes — an exact multiple of the block size, eleven blocks. -/
theorem sha1_640 :
    hexOfBytes (sha1 ((List.replicate 80 "01234567".toUTF8.toList).flatten))
      = "dea356a2cddd90c7a7ecedc5ebb563934f460452" := by
  decide +kernel

/-! ## Live tables

`Props/C17Utf8Live.lean` (same namespace) holds the kernel-checked statements over the tables
generated from /repo: `live_sha1_lengths`, `live_encode`, `live_hash`, `live_join`. -/

/-- Live, String level: on every tabulated triple where the real `generate_verification_hash`
returned a value (published vectors, non-ASCII ids with 16-byte secrets and real DER keys, inputs on
the padding boundaries), that value is `generateVerificationHash` of the Lean string with those code
points.  (Consequence of `live_hash` and `hash_cps`; nothing is re-evaluated.) -/
theorem live_hash_string :
    ∀ r ∈ Gen.C17Utf8.hashRows, r.hash ≠ none →
      r.hash = some (generateVerificationHash (strOfCps r.cps) r.secret r.key) := by
  intro r hr hne
  obtain ⟨h1, h2⟩ := live_hash r hr
  rcases h2 with h2 | h2
  · exact absurd h2 hne
  · have h3 := (hash_cps r.cps r.secret r.key).2.2 (strOfCps r.cps)
    rw [h2, h1] at h3
    cases hh : r.hash with
    | none => exact absurd hh hne
    | some x =>
      rw [hh] at h3
      exact congrArg some (Except.ok.inj h3)

/-! ## Examples / non-vacuity -/

-- a non-ASCII id: "é€😀" is 2 + 3 + 4 bytes
example : "é€😀".toUTF8.toList = [0xc3, 0xa9, 0xe2, 0x82, 0xac, 0xf0, 0x9f, 0x98, 0x80] := by
  decide +kernel
example : "é€😀".toList.flatMap utf8Ref = [0xc3, 0xa9, 0xe2, 0x82, 0xac, 0xf0, 0x9f, 0x98, 0x80] := by
  decide +kernel
example : pyUtf8Encode [0xe9, 0x20ac, 0x1f600] =
    .ok [0xc3, 0xa9, 0xe2, 0x82, 0xac, 0xf0, 0x9f, 0x98, 0x80] := by decide +kernel
example : utf8DecodeRef [0xc3, 0xa9, 0xe2, 0x82, 0xac, 0xf0, 0x9f, 0x98, 0x80] =
    some [0xe9, 0x20ac, 0x1f600] := by decide +kernel
-- the decoder is strict: overlong, surrogate, too large, truncated, stray tail
example : utf8DecodeRef [0xc0, 0x80] = none := by decide +kernel
example : utf8DecodeRef [0xe0, 0x9f, 0xbf] = none := by decide +kernel
example : utf8DecodeRef [0xed, 0xa0, 0x80] = none := by decide +kernel
example : utf8DecodeRef [0xf4, 0x90, 0x80, 0x80] = none := by decide +kernel
example : utf8DecodeRef [0xe2, 0x82] = none := by decide +kernel
example : utf8DecodeRef [0x80] = none := by decide +kernel
-- the failure point exists and is reached
example : pyUtf8Encode [0x41, 0xD800] = .error .value := by decide +kernel
example : generateVerificationHashCps [0x41, 0xD800] [1] [2] = .error .value := by decide +kernel
example : ¬ IsScalar 0xD800 ∧ IsScalar 0xD7FF ∧ IsScalar 0xE000 ∧ IsScalar 0x10FFFF ∧
    ¬ IsScalar 0x110000 := by decide
-- a non-ASCII hash (cross-checked with the real function, see also `live_hash`)
example : generateVerificationHash "Nötch€😀" [1, 2, 3] [4, 5] =
    "-7edaddfe70747b87ea5fe57914d4e33c490ac7dc" := by decide +kernel
-- the UTF-16 variant agrees with nothing, not even on ASCII
example : generateVerificationHashUtf16 "Notch" [] [] ≠ generateVerificationHash "Notch" [] [] := by
  decide +kernel
-- `join` in a run with the real hash: one call, with the hash of (id, secret, key)
example : (runLogin (realHash demoParams) 1
      [.setCompression 256, .encRequest "Nö" [7, 8] [9], .success]).joins =
    [generateVerificationHash "Nö" [1, 2, 3] [7, 8]] := by decide +kernel
example : (runLogin (realHash demoParams) 1 [.encRequest "-" [7, 8] [9], .success]).joins = [] := by
  decide +kernel
-- hypotheses of `join_single_request` are satisfiable
example : ∀ e ∈ events [.flush, .recv (.setCompression 256), .flush], e.isTerminal = false := by
  decide
-- padding instances: 55 bytes fit one block, 56 need two; the length field counts bits
example : (Sha1.pad (List.replicate 55 0x61)).length = 64 ∧
    (Sha1.pad (List.replicate 56 0x61)).length = 128 ∧
    (Sha1.pad (List.replicate 198 0x61)).length = 256 := by decide +kernel
example : (Sha1.pad [0x61, 0x62, 0x63]).drop 56 = [0, 0, 0, 0, 0, 0, 0, 24] := by decide +kernel
example : C17Pad.beNat [0, 0, 0, 0, 0, 0, 6, 0x30] = 198 * 8 := by decide +kernel

end PyCraft.C17Utf8
