import PyCraft.Lemmas.Writers
/-!
# C12 — concurrent writers: every packet hits the wire once, whole and in order

Model: `Model/Writers.lean` (a deterministic transition system driven by a schedule; one atomic
action per step).  Every theorem below is for ALL programs `progs` (any number of user threads,
any operations) with pairwise distinct packet ids, ALL schedules `sched : List Tid` of any length
(entries that are not enabled are skipped), and ALL batch caps `cfg`.

Vocabulary: `s := run cfg (init progs) sched` is an arbitrary reachable state;
`sentPkts s.wire` = the packets whose body chunk is on the wire, in wire order;
`frames ps` = the wire image `[(p₁,0),(p₁,1),(p₂,0),(p₂,1),…]` of whole frames;
`cur s` = the program counter of the lock holder (`idle` if the lock is free), and
`(cur s).infl` = the packet the holder has taken (forced: at `acq`, queued: at `pop`) and not yet
completely sent; `progOf progs t` = the program of thread `t` (`progs[t-1]`).

Only property theorems and non-vacuity examples live here; helper lemmas are in `Lemmas/`.
-/
namespace PyCraft.C12
open PyCraft PyCraft.Writers

/-- `step_inv`: the invariant `WInv` (lock discipline, wire shape, accounting of issued packets,
freshness, per-thread progress) is preserved by every atomic step of every thread. -/
theorem step_inv (cfg : Cfg) (progs : List (List Op)) (s s' : Sys) (t : Tid)
    (h : WInv progs s) (hs : step cfg s t = some s') : WInv progs s' :=
  Writers.step_inv cfg progs s s' t h hs

/-- `run_inv`: hence it holds after any schedule, and in particular in every state reachable from
the initial state of any programs with distinct packet ids. -/
theorem run_inv (cfg : Cfg) (progs : List (List Op)) (hnd : (progs.flatMap pktsOf).Nodup)
    (sched : List Tid) : WInv progs (run cfg (init progs) sched) :=
  reach_inv cfg progs hnd sched

/-- Only the lock holder is ever between `snd p 0` and `snd p 1`, and only the lock holder is
inside a `with lock:` block at all. -/
theorem only_holder_mid_frame (cfg : Cfg) (progs : List (List Op))
    (hnd : (progs.flatMap pktsOf).Nodup) (sched : List Tid) (t : Tid) :
    let s := run cfg (init progs) sched
    ((s.thr t).pc.half ≠ [] → s.owner = some t) ∧ ((s.thr t).pc.crit = true ↔ s.owner = some t) := by
  intro s
  have h := reach_inv cfg progs hnd sched
  exact ⟨fun hh => (h.lock.crit_owner t).mp (half_crit _ hh), h.lock.crit_owner t⟩

/-- `frames_contiguous`: in every reachable state the wire is a sequence of whole frames
`(p,0),(p,1)` of pairwise distinct packets, followed by at most one open length prefix `(p,0)`,
which belongs to the current lock holder (who is about to send the body) and to a packet that has
no frame yet. -/
theorem frames_contiguous (cfg : Cfg) (progs : List (List Op))
    (hnd : (progs.flatMap pktsOf).Nodup) (sched : List Tid) :
    let s := run cfg (init progs) sched
    ∃ ps : List Pkt, ps.Nodup ∧
      (s.wire = frames ps ∨
       ∃ t p, s.owner = some t ∧ (s.thr t).pc.half = [(p, 0)] ∧ p ∉ ps ∧
         s.wire = frames ps ++ [(p, 0)]) := by
  intro s
  have h := reach_inv cfg progs hnd sched
  have hn : (sentPkts s.wire ++ (cur s).infl ++ s.queue ++ s.failed).Nodup := h.wire.nodup
  have hw : s.wire = frames (sentPkts s.wire) ++ (cur s).half := h.wire.wire_eq
  refine ⟨sentPkts s.wire, by grind [List.nodup_append], ?_⟩
  rcases half_shape (cur s) with h0 | ⟨p, h1, h2⟩
  · left; rw [h0, List.append_nil] at hw; exact hw
  · right
    cases ho : s.owner with
    | none => rw [cur_of_free ho] at h1; simp [Pc.half] at h1
    | some t =>
      rw [cur_of_owner ho] at h1
      refine ⟨t, p, rfl, h1, ?_, by rw [cur_of_owner ho, h1] at hw; exact hw⟩
      rw [h2] at hn; grind [List.nodup_append]

/-- `exactly_once`: no packet has two frames; every chunk on the wire belongs to a packet of some
program; the packets issued so far (appended to the queue, or forced) are without repetition and
are exactly — as a permutation — the sent packets, the packet in flight at the lock holder, the
queue and the failed forced writes, which are therefore pairwise disjoint. -/
theorem exactly_once (cfg : Cfg) (progs : List (List Op))
    (hnd : (progs.flatMap pktsOf).Nodup) (sched : List Tid) :
    let s := run cfg (init progs) sched
    (sentPkts s.wire).Nodup ∧
    (∀ c ∈ s.wire, c.1 ∈ progs.flatMap pktsOf) ∧
    s.issued.Nodup ∧
    (∀ p ∈ s.issued, p ∈ progs.flatMap pktsOf) ∧
    (sentPkts s.wire ++ (cur s).infl ++ s.queue ++ s.failed).Nodup ∧
    s.issued.Perm (sentPkts s.wire ++ (cur s).infl ++ s.queue ++ s.failed) := by
  intro s
  have h := reach_inv cfg progs hnd sched
  have hn : (sentPkts s.wire ++ (cur s).infl ++ s.queue ++ s.failed).Nodup := h.wire.nodup
  have hm := h.wire.mem_issued
  have hip : ∀ p ∈ s.issued, p ∈ progs.flatMap pktsOf := fun p hp => by
    obtain ⟨u, hu⟩ := h.prog.issued_prog p hp
    exact progOf_mem_flat progs u p hu
  refine ⟨by grind [List.nodup_append], ?_, h.fresh.issued_nodup, hip, hn, ?_⟩
  · intro c hc
    rw [h.wire.wire_eq] at hc
    apply hip
    rcases List.mem_append.mp hc with hc | hc
    · exact (hm _).mpr (Or.inl (mem_frames _ _ hc))
    · exact (hm _).mpr (Or.inr (Or.inl (half_infl _ _ hc).1))
  · rw [List.perm_ext_iff_of_nodup h.fresh.issued_nodup hn]
    intro p; simp only [List.mem_append, or_assoc]; exact hm p

/-- `per_thread_fifo`: if thread `t`'s program queues `p` and later queues `q`, then as soon as
`q` has a frame on the wire `p` has one too, and `p`'s whole frame precedes `q`'s whole frame. -/
theorem per_thread_fifo (cfg : Cfg) (progs : List (List Op))
    (hnd : (progs.flatMap pktsOf).Nodup) (sched : List Tid) (t : Tid) (p q : Pkt)
    (hpq : [Op.queued p, Op.queued q].Sublist (progOf progs t)) :
    let s := run cfg (init progs) sched
    q ∈ sentPkts s.wire →
      p ∈ sentPkts s.wire ∧ [p, q].Sublist (sentPkts s.wire) ∧
      ∃ w₁ w₂ w₃, s.wire = w₁ ++ [(p, 0), (p, 1)] ++ w₂ ++ [(q, 0), (q, 1)] ++ w₃ := by
  intro s hq
  have h := reach_inv cfg progs hnd sched
  have hsub := fifo_aux progs s h t p q hpq hq
  refine ⟨hsub.subset (by simp), hsub, ?_⟩
  obtain ⟨x, y, z, hxyz⟩ := pair_split p q _ hsub
  refine ⟨frames x, frames y, frames z ++ (cur s).half, ?_⟩
  have hw : s.wire = frames (sentPkts s.wire) ++ (cur s).half := h.wire.wire_eq
  rw [hxyz] at hw
  rw [hw]; simp [frames]

/-- The ghost context of a `disconnect` is what it claims to be: when an idle thread whose next
operation is `disconnect imm` acquires the lock, its context records `imm`, the queue, the wire
and the socket state of that moment (and the operation is consumed) … -/
theorem disconnect_ctx_set (cfg : Cfg) (s s' : Sys) (t : Tid) (imm : Bool) (rest : List Op)
    (hpc : (s.thr t).pc = .user .idle) (htd : (s.thr t).todo = .disconnect imm :: rest)
    (hs : step cfg s t = some s') :
    (s'.thr t).pc.dctx = some ⟨imm, s.queue, s.wire, s.sockOpen⟩ ∧ (s'.thr t).todo = rest :=
  dctx_set cfg s s' t imm rest hpc htd hs

/-- … and no step of any thread changes it until that thread's own `rel` ends the disconnect. -/
theorem disconnect_ctx_stable (cfg : Cfg) (s s' : Sys) (t u : Tid) (c : DCtx)
    (hc : (s.thr u).pc.dctx = some c) (hs : step cfg s t = some s') :
    (s'.thr u).pc.dctx = some c ∨ (t = u ∧ (s'.thr u).pc = .user .idle) :=
  dctx_stable cfg s s' t u c hc hs

/-- `graceful_flushes_then_closes`: when a thread completes a `disconnect` — it is at the final
`rel` (program counter `dRel c`) and takes that step, reaching `s'` — the socket is closed; and if
the disconnect was graceful and found the socket open, every packet that was in the queue when it
acquired the lock (`c.snap`, see `disconnect_ctx_set`) has a whole frame on the wire.  Both already
hold just before the `rel`. -/
theorem graceful_flushes_then_closes (cfg : Cfg) (progs : List (List Op))
    (hnd : (progs.flatMap pktsOf).Nodup) (sched : List Tid) (t : Tid) (c : DCtx) (s' : Sys) :
    let s := run cfg (init progs) sched
    (s.thr t).pc = .user (.dRel c) → step cfg s t = some s' →
      s'.log = s.log ++ [(t, .rel)] ∧ (s'.thr t).pc = .user .idle ∧
      s.sockOpen = false ∧ s'.sockOpen = false ∧ s'.wire = s.wire ∧
      (c.imm = false → c.open0 = true → ∀ p ∈ c.snap, p ∈ sentPkts s'.wire) := by
  intro s hpc hs
  have h := reach_inv cfg progs hnd sched
  obtain ⟨e1, e2, e3, e4⟩ := drel_step cfg s s' t c hpc hs
  have hcur : cur s = .user (.dRel c) := by
    rw [cur_of_crit h.lock t (by rw [hpc]; rfl), hpc]
  have hcl : s.sockOpen = false := h.wire.rel_closed c hcur
  refine ⟨e4, e3, hcl, by rw [e2]; exact hcl, e1, fun hi ho p hp => ?_⟩
  have := h.wire.snap c (by rw [hcur]; rfl) hi ho p hp
  rw [hcur] at this
  rw [e1]
  simpa [Pc.flushing] using this

/-- … and all the way through a graceful disconnect the snapshot is accounted for: each of its
packets is sent, in flight at this very thread, or still in the queue (so nobody else takes
them), and after the flush loop (`sti`, `shut`, `cls`, `rel`) all of them are sent. -/
theorem graceful_flush_progress (cfg : Cfg) (progs : List (List Op))
    (hnd : (progs.flatMap pktsOf).Nodup) (sched : List Tid) (t : Tid) (c : DCtx) :
    let s := run cfg (init progs) sched
    (s.thr t).pc.dctx = some c → c.imm = false → c.open0 = true → ∀ p ∈ c.snap,
      p ∈ sentPkts s.wire ∨
        ((s.thr t).pc.flushing = true ∧ (p ∈ (s.thr t).pc.popped ∨ p ∈ s.queue)) := by
  intro s hc hi ho p hp
  have h := reach_inv cfg progs hnd sched
  have hcur : cur s = (s.thr t).pc := cur_of_crit h.lock t (dctx_crit _ c hc)
  have := h.wire.snap c (by rw [hcur]; exact hc) hi ho p hp
  rwa [hcur] at this

/-- `immediate_sends_nothing_more` (1): once the socket is closed (the `cls` step of any
disconnect sets `sockOpen := false`), no continuation of the schedule changes the wire or
re-opens the socket. -/
theorem immediate_sends_nothing_more (cfg : Cfg) (progs : List (List Op))
    (hnd : (progs.flatMap pktsOf).Nodup) (sched more : List Tid) :
    let s := run cfg (init progs) sched
    s.sockOpen = false →
      (run cfg (init progs) (sched ++ more)).wire = s.wire ∧
      (run cfg (init progs) (sched ++ more)).sockOpen = false := by
  intro s hc
  rw [run_append]
  exact closed_run cfg progs more s (reach_inv cfg progs hnd sched) hc

/-- `immediate_sends_nothing_more` (2): while a thread is anywhere inside `disconnect(True)` the
wire is exactly what it was when that thread acquired the lock — neither it nor anybody else has
appended a chunk. -/
theorem immediate_disconnect_wire_unchanged (cfg : Cfg) (progs : List (List Op))
    (hnd : (progs.flatMap pktsOf).Nodup) (sched : List Tid) (t : Tid) (c : DCtx) :
    let s := run cfg (init progs) sched
    (s.thr t).pc.dctx = some c → c.imm = true → s.wire = c.wire0 := by
  intro s hc hi
  have h := reach_inv cfg progs hnd sched
  have hcur : cur s = (s.thr t).pc := cur_of_crit h.lock t (dctx_crit _ c hc)
  exact h.wire.imm_wire c (by rw [hcur]; exact hc) hi

/-- No chunk is ever sent on a closed socket: a `fail`ed write exists only if the socket is
closed, the open length prefix of a frame exists only while the socket is open, and `popleft` is
never executed on an empty queue. -/
theorem closed_socket_discipline (cfg : Cfg) (progs : List (List Op))
    (hnd : (progs.flatMap pktsOf).Nodup) (sched : List Tid) :
    let s := run cfg (init progs) sched
    (s.failed ≠ [] → s.sockOpen = false) ∧ ((cur s).half ≠ [] → s.sockOpen = true) ∧
    ((cur s).atPop = true → s.queue ≠ []) := by
  intro s
  have h := reach_inv cfg progs hnd sched
  exact ⟨h.wire.failed_closed, fun hh => h.wire.needs_open (half_needsOpen _ hh), h.wire.pop_ok⟩

/-- The `fail` branches of the flush loop and of the networking thread's write loop are
unreachable: in a reachable state, a step that logs `fail` is a forced write that found the socket
closed (the exception goes to the caller of `write_packet(force=True)`), and its packet is the one
recorded in `failed`. -/
theorem fail_only_forced_write (cfg : Cfg) (progs : List (List Op))
    (hnd : (progs.flatMap pktsOf).Nodup) (sched : List Tid) (t : Tid) (s' : Sys) :
    let s := run cfg (init progs) sched
    step cfg s t = some s' → s'.log = s.log ++ [(t, .fail)] →
      ∃ p, (s.thr t).pc = .user (.fSnd0 p) ∧ s.sockOpen = false ∧ s'.failed = s.failed ++ [p] := by
  intro s hs hf
  exact fail_only_forced cfg progs s s' t (reach_inv cfg progs hnd sched) hs hf

/-
FULL STATEMENT (not proved): in a final state (every thread at `end`) of programs containing a
disconnect, every issued packet is on the wire, or was appended / forced AFTER the socket was
closed (and is then still in the queue, resp. `fail`ed).

What is proved (`…_partial`): in a final state — the networking thread can only finish after a
disconnect has interrupted it, so a disconnect has necessarily been executed — the socket is
closed, the lock is free, the wire consists of whole frames only, every program has been executed
completely, and every packet of every program is in exactly one of three places: framed on the
wire, left in the queue, or failed.  MISSING: the timing claim that the packets left in the queue
were appended after the disconnect's last `chk 0` (graceful) / after the `acq` of an immediate
disconnect or the close.  Note that "appended after the close" is not true in general: a packet
appended between the last `chk 0` of a graceful disconnect and its `cls` stays in the queue.
-/
/-- `all_sent_or_dropped_after_disconnect_partial`: see the comment above. -/
theorem all_sent_or_dropped_after_disconnect_partial (cfg : Cfg) (progs : List (List Op))
    (hnd : (progs.flatMap pktsOf).Nodup) (sched : List Tid) :
    let s := run cfg (init progs) sched
    (∀ t, (s.thr t).pc.isDone = true) →
      s.sockOpen = false ∧ s.interrupt = true ∧ s.owner = none ∧
      s.wire = frames (sentPkts s.wire) ∧
      (∀ t, (s.thr t).todo = []) ∧
      (∀ p ∈ progs.flatMap pktsOf, p ∈ sentPkts s.wire ∨ p ∈ s.queue ∨ p ∈ s.failed) ∧
      (sentPkts s.wire ++ s.queue ++ s.failed).Nodup := by
  intro s hdone
  have h := reach_inv cfg progs hnd sched
  have hown : s.owner = none := by
    cases ho : s.owner with
    | none => rfl
    | some t =>
      have hc := (h.lock.crit_owner t).mpr ho
      have hd := hdone t
      revert hc hd
      cases (s.thr t).pc with
      | user pc => cases pc <;> simp [Pc.isDone, Pc.crit, UPc.crit]
      | net pc n => cases pc <;> simp [Pc.isDone, Pc.crit, NPc.crit]
  have hcur : cur s = .user .idle := cur_of_free hown
  have hint : s.interrupt = true := by
    obtain ⟨pc, n, h0⟩ := h.lock.nt_net
    have hd := hdone 0
    rw [h0] at hd
    have : pc = .done := by cases pc <;> simp [Pc.isDone] at hd ⊢
    exact h.lock.nt_exit pc n h0 (by rw [this]; rfl)
  have hclosed : s.sockOpen = false := by
    rcases h.wire.int_closed hint with hc | hc
    · exact hc
    · rw [hcur] at hc; simp [Pc.pastSti] at hc
  have htodo : ∀ t, (s.thr t).todo = [] := by
    intro t
    have hd := hdone t
    cases hpc : (s.thr t).pc with
    | user pc =>
      rw [hpc] at hd
      have : pc = .done := by cases pc <;> simp [Pc.isDone] at hd ⊢
      exact h.prog.done_empty t (by rw [hpc, this])
    | net pc n =>
      have h0 := h.lock.net_zero t pc n hpc
      subst h0
      obtain ⟨done, hd1, -, -⟩ := h.prog.prog 0
      have : progOf progs 0 = [] := rfl
      rw [this] at hd1
      exact (List.append_eq_nil_iff.mp hd1.symm).2
  have hw := h.wire.wire_eq
  have hn := h.wire.nodup
  rw [hcur] at hw hn
  refine ⟨hclosed, hint, hown, by simpa [Pc.half] using hw, htodo, ?_, by simpa [Pc.infl] using hn⟩
  intro p hp
  obtain ⟨t, ht⟩ := flat_mem_progOf progs p hp
  obtain ⟨done, hd1, -, hd3⟩ := h.prog.prog t
  rw [htodo t, List.append_nil] at hd1
  have := (h.wire.mem_issued p).mp (hd3 p (by rw [← hd1]; exact ht))
  rw [hcur] at this
  simpa [Pc.infl] using this

/-! ### Non-vacuity -/

/-- Two user threads: `1` queues 1, forces 2 and disconnects gracefully; `2` queues 3 and 4. -/
def exProgs : List (List Op) :=
  [[.queued 1, .forced 2, .disconnect false], [.queued 3, .queued 4]]

/-- A complete schedule in which the networking thread sends the three queued packets while
thread 2 keeps appending, thread 1 then forces packet 2 and disconnects. -/
def exSched : List Tid :=
  [
    1, 0, 0, 0, 2, 0, 0, 0, 0, 2, 0, 0, 0, 0, 2, 0, 0, 0, 0, 0, 0, 0, 0, 0, 0, 0, 0, 0, 1, 1,
    1, 1, 0, 0, 0, 0, 0, 0, 0, 0, 1, 1, 1, 1, 1, 1, 0, 0, 0, 0, 1, 0, 0, 0, 0, 0]

/-- Thread `1` queues 1, disconnects immediately and then forces 2; thread `2` queues 3. -/
def exProgsImm : List (List Op) := [[.queued 1, .disconnect true, .forced 2], [.queued 3]]

def exSchedImm : List Tid :=
  [
    1, 0, 2, 1, 2, 1, 1, 1, 1, 0, 0, 0, 0, 1, 0, 1, 0, 1, 0, 1, 0, 0]

example : (exProgs.flatMap pktsOf).Nodup := by decide
example : (exProgsImm.flatMap pktsOf).Nodup := by decide

/-- The run ends with all threads at `end`, the socket closed, and a non-empty wire of whole
frames in which 3 precedes 4 (same thread, FIFO). -/
example :
    let s := run ⟨300, 50⟩ (init exProgs) exSched
    allDoneUpTo s 2 = true ∧ s.sockOpen = false ∧ s.queue = [] ∧
    s.wire = [(1, 0), (1, 1), (3, 0), (3, 1), (4, 0), (4, 1), (2, 0), (2, 1)] ∧
    skipped ⟨300, 50⟩ (init exProgs) exSched = 0 := by decide

/-- With tiny caps the same schedule prefix makes the networking thread stop after one packet. -/
example :
    (run ⟨1, 1⟩ (init exProgs) (exSched.take 12)).wire = [(1, 0), (1, 1)] := by decide

/-- An immediate disconnect: nothing reaches the wire, the queued packets stay in the queue and
the forced write after the close fails; all threads finish. -/
example :
    let s := run ⟨300, 50⟩ (init exProgsImm) exSchedImm
    allDoneUpTo s 2 = true ∧ s.sockOpen = false ∧ s.wire = [] ∧ s.queue = [1, 3] ∧
    s.failed = [2] := by decide

/-- The hypotheses of `per_thread_fifo` and of `graceful_flushes_then_closes` are satisfiable:
thread 2 queues 3 before 4, and some reachable state has thread 1 at the final `rel` of a
graceful disconnect that found the socket open with a non-empty queue snapshot. -/
example : [Op.queued 3, Op.queued 4].Sublist (progOf exProgs 2) := by decide
example :
    ∃ c, ((run ⟨300, 50⟩ (init exProgs) ([1, 2] ++ List.replicate 17 1)).thr 1).pc
        = .user (.dRel c) ∧ c.imm = false ∧ c.open0 = true ∧ c.snap = [1, 3] ∧
      (step ⟨300, 50⟩ (run ⟨300, 50⟩ (init exProgs) ([1, 2] ++ List.replicate 17 1)) 1).isSome :=
  ⟨⟨false, [1, 3], [(2, 0), (2, 1)], true⟩, by decide⟩

end PyCraft.C12
