import PyCraft.Lemmas.SignNorm
import PyCraft.Lemmas.RefCheck
import PyCraft.Ref.Protocol
/-!
# C07 — packet ids and byte layouts of the core packets equal the published protocol

Three tables meet here, all regenerated on every run:

* `PyCraft.Gen.idTables` — the ids the live `get_id` returns, per table / version / class;
* `PyCraft.Gen.layoutTables` — the field layouts the live `get_definition` returns;
* `PyCraft.Ref` — a hand-written reference of the PUBLISHED protocol (`harness/refproto.py`), which
  shares no code with pyCraft: per core packet and release, the published id and field types.

The comparison identifies the two single-byte integers (`normT`: `i8` ≡ `u8`, the same octet), which
is justified by `core_bytes_match` / `core_read_match`: layouts with equal `normT`-images write the
same bytes and read the same bytes alike.  Helper lemmas are in `Lemmas/SignNorm.lean`; the lookups
`genId` / `genLayout` and the one-pass checker `packetOk` (with the proof that it computes exactly
what the lookups return) are in `Lemmas/RefCheck.lean`.
-/
namespace PyCraft.C07
open PyCraft PyCraft.Gen

/-- every version column of the id tables is duplicate-free (an interleaving of two strictly
ascending runs), so "the row of version `v`" is unambiguous -/
def checkColumns : Bool :=
  idTables.all fun t => ascFrom none none (t.2.map fun r => r.1)

/-- for every core packet and every reference row of that packet: pyCraft's id (`genId`) and
normalised layout (`genLayout`) equal the published ones — evaluated by ONE walk per packet over the
id rows / the version column (`packetOk`, proved equivalent to the row-by-row lookups in
`Lemmas/RefCheck.lean`).  A packet the reference does not list for a release (it does not exist
there) imposes nothing. -/
def checkCore : Bool :=
  Ref.core.all fun c => Ref.table.all fun e =>
    !(e.1 == c.1) ||
      match idTables.lookup c.2.1, layoutTables.lookup c.2.1 with
      | some idrows, some lrows =>
        match lrows.lookup c.2.2 with
        | some variants => packetOk c.2.2 idrows variants e.2
        | none => false
      | _, _ => false

theorem checkColumns_ok : checkColumns = true := by decide +kernel
theorem checkCore_ok : checkCore = true := by decide +kernel

/-- Every row of the reference — whatever its release — is matched by pyCraft: for every core
packet `(name, table, class)` and every reference row `(version, id, field types)` under that name,
the id of the class in pyCraft's FIRST (and, the version column being duplicate-free, only) id row
for that version is the published id, and the field types of the FIRST variant of the class that
lists that version are the published ones up to `normT`. -/
theorem core_rows_match (c : String × String × String) (hc : c ∈ Ref.core)
    (e : String × List RefRow) (he : e ∈ Ref.table) (hname : e.1 = c.1) (row : RefRow)
    (hrow : row ∈ e.2) :
    idMatches (genId c.2.1 c.2.2 row.1) row = true ∧
    layMatches (genLayout c.2.1 c.2.2 row.1) row = true := by
  have h := checkCore_ok
  simp only [checkCore, List.all_eq_true] at h
  have h1 := h c hc e he
  simp only [hname, beq_self_eq_true, Bool.not_true, Bool.false_or] at h1
  unfold genId genLayout
  cases hi : idTables.lookup c.2.1 with
  | none => simp [hi] at h1
  | some idrows =>
    cases hl : layoutTables.lookup c.2.1 with
    | none => simp [hi, hl] at h1
    | some lrows =>
      cases hv : lrows.lookup c.2.2 with
      | none => simp [hi, hl, hv] at h1
      | some variants =>
        simp only [hi, hl, hv] at h1
        have hcol : ascFrom none none (idrows.map fun r => r.1) = true := by
          have := checkColumns_ok
          simp only [checkColumns, List.all_eq_true] at this
          exact this (c.2.1, idrows) (mem_of_lookup _ _ _ hi)
        simp only [hv]
        exact packetOk_sound c.2.2 idrows variants e.2 h1 hcol row hrow

/-- Ids: for every release protocol, every core packet and every row the published protocol has for
that packet in that release, the id pyCraft's `get_id` returns for the corresponding class equals the
published id. -/
theorem core_ids_match :
    ∀ rel ∈ Ref.releases, ∀ c ∈ Ref.core, ∀ e ∈ Ref.table, e.1 = c.1 →
      ∀ row ∈ e.2, row.1 = rel → genId c.2.1 c.2.2 rel = some row.2.1 := by
  intro rel _ c hc e he hname row hrow hv
  have := (core_rows_match c hc e he hname row hrow).1
  rw [← hv]; simpa [idMatches] using this

/-- Layouts: … and the class has a generic field layout under that release whose field types equal
the published ones, field for field, up to the identification of `i8` with `u8`. -/
theorem core_layouts_match :
    ∀ rel ∈ Ref.releases, ∀ c ∈ Ref.core, ∀ e ∈ Ref.table, e.1 = c.1 →
      ∀ row ∈ e.2, row.1 = rel →
        (genLayout c.2.1 c.2.2 rel).map (fun ts => ts.map normT) = some (row.2.2.map normT) := by
  intro rel _ c hc e he hname row hrow hv
  have := (core_rows_match c hc e he hname row hrow).2
  rw [← hv]; simpa [layMatches] using this

/-- Why comparing `normT`-images is enough, writing side: two types with equal `normT`-images encode
every value that is in the domain of BOTH to the same bytes (the only non-trivial case is `i8` vs
`u8` on `0 … 127`); hence two layouts with equal `normT`-images write the same packet body. -/
theorem core_bytes_match (cc : CustomCodec) (cw : CustomT → Value → Prop) :
    (∀ a b, normT a = normT b → ∀ v, WellTyped cw a v → WellTyped cw b v →
      encode cc a v = encode cc b v) ∧
    (∀ L1 L2 : Layout, normL L1 = normL L2 → ∀ vals, WellTypedFields cw L1 vals →
      WellTypedFields cw L2 vals → encodeFields cc L1 vals = encodeFields cc L2 vals) :=
  ⟨encode_norm cc cw, encodeFields_norm cc cw⟩

/-- … and reading side: on EVERY byte string two layouts with equal `normT`-images either both fail
with the same error, or both succeed, consume the same bytes, and return values that are equal once
every single byte is read unsigned (`signNorm`: `i ↦ i mod 256` at the `i8` positions). -/
theorem core_read_match (cc : CustomCodec) :
    (∀ a b, normT a = normT b → ∀ bs,
      (decode cc a bs).map (fun x => (signNorm a x.1, x.2)) =
      (decode cc b bs).map (fun x => (signNorm b x.1, x.2))) ∧
    (∀ L1 L2 : Layout, normL L1 = normL L2 → ∀ bs,
      (decodeFields cc L1 bs).map (fun x => (signNormL L1 x.1, x.2)) =
      (decodeFields cc L2 bs).map (fun x => (signNormL L2 x.1, x.2))) :=
  ⟨decode_norm cc, decodeFields_norm cc⟩

/-- `normT` only ever merges `i8` into `u8`: it is idempotent, fixes every type without an `i8`, and
types of different width or kind stay different (e.g. `i16` vs `u16`, `varint` vs `i32`). -/
theorem normT_conservative :
    (∀ t, normT (normT t) = normT t) ∧ normT (.int .i8) = .int .u8 ∧
    normT (.int .i16) ≠ normT (.int .u16) ∧ normT .varint ≠ normT (.int .i32) ∧
    normT (.array .varint (.int .i8)) = .array .varint (.int .u8) :=
  ⟨normT_idem, rfl, by decide, by decide, rfl⟩

/-- rows of the reference for one packet name -/
def refRows (name : String) : List (Nat × Int × List WType) :=
  (Ref.table.filter fun e => e.1 == name).flatMap fun e => e.2

/-- Non-vacuity of the comparison: the reference lists at least 20 core packets and 25 releases;
every core packet has rows for at least 25 of the releases; every reference row is for a listed
release (so none is skipped); in total at least 550 (packet, release) pairs are compared. -/
theorem reference_nonempty :
    Ref.core.length ≥ 20 ∧ Ref.releases.length ≥ 25 ∧
    (∀ c ∈ Ref.core, ((refRows c.1).filter fun row => Ref.releases.contains row.1).length ≥ 25) ∧
    (∀ e ∈ Ref.table, ∀ row ∈ e.2, row.1 ∈ Ref.releases) ∧
    ((Ref.core.map fun c => (refRows c.1).length).sum ≥ 550) := by
  have h : Ref.core.length ≥ 20 ∧ Ref.releases.length ≥ 25 ∧
      (Ref.core.all fun c =>
        decide (((refRows c.1).filter fun row => Ref.releases.contains row.1).length ≥ 25)) = true ∧
      (Ref.table.all fun e => e.2.all fun row => Ref.releases.contains row.1) = true ∧
      ((Ref.core.map fun c => (refRows c.1).length).sum ≥ 550) := by decide +kernel
  refine ⟨h.1, h.2.1, fun c hc => ?_, fun e he row hrow => ?_, h.2.2.2.2⟩
  · simpa using List.all_eq_true.mp h.2.2.1 c hc
  · simpa using List.all_eq_true.mp (List.all_eq_true.mp h.2.2.2.1 e he) row hrow

-- non-vacuity: concrete instances
example : genId "cbPlay" "JoinGamePacket" 757 = some 0x26 := by decide +kernel
example : genLayout "sbHandshake" "HandShakePacket" 47
    = some [.varint, .string, .int .u16, .varint] := by decide +kernel
example : ("handshake", "sbHandshake", "HandShakePacket") ∈ Ref.core := by decide +kernel
-- an `i8` / `u8` pair: same bytes for a value in both domains, different readings of 0xff
example : encode noCustomCodec (.int .i8) (.int 100) = encode noCustomCodec (.int .u8) (.int 100) :=
  (core_bytes_match noCustomCodec noCustomDom).1 (.int .i8) (.int .u8) rfl _
    (show IntT.i8.inDom 100 by decide) (show IntT.u8.inDom 100 by decide)
example : (decode noCustomCodec (.int .i8) [0xff]).map (·.2) = .ok [] ∧
    (decode noCustomCodec (.int .u8) [0xff]).map (·.2) = .ok [] := by decide +kernel
example : signNorm (.int .i8) (.int (-1)) = signNorm (.int .u8) (.int 255) := rfl
example : normL [("a", .int .i8), ("b", .string)] = normL [("x", .int .u8), ("y", .string)] := by
  decide

end PyCraft.C07
